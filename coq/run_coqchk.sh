#!/bin/bash
# re-checks every compiled property module (and everything it loads) with the independent checker and writes the
# context summary (axioms) to coqchk_summary.txt.  Takes a few minutes and several GB.
cd /verif/coq
mods=$(ls theories/Props/C*.v | sed 's|theories/Props/\(.*\)\.v|PyTdgl.Props.\1|')
( ulimit -s unlimited; timeout 3600 coqchk -silent -o -R theories PyTdgl $mods ) > /tmp/coqchk_full.log 2>&1
rc=$?
sed -n '/CONTEXT SUMMARY/,$p' /tmp/coqchk_full.log > coqchk_summary.txt
echo "coqchk exit $rc" >> coqchk_summary.txt
tail -3 coqchk_summary.txt
