#!/bin/bash
# usage: dbg.sh theories/X/F.v LINE  -- show the proof state just before LINE
f=$1; n=$2
head -n $((n-1)) $f > /tmp/dbg_goal.v
echo "Show. Abort." >> /tmp/dbg_goal.v
cd /verif/coq && timeout 120 coqc -R theories PyTdgl -w -notation-overridden,-deprecated /tmp/dbg_goal.v 2>&1 | head -${3:-60}
