(* C15 - a stopped simulation leaves a clean, readable, truthful output. *)
From Coq Require Import List Arith Bool.
From PyTdgl Require Import Model.Runner Model.Files Proofs.RunnerP Proofs.FilesP.
Import ListNotations.

(* an exception in update call p: exactly the frames recorded before it (labels 0,k,2k,.. <= p), complete *)
Theorem C15_frames_prefix_on_error :
  forall (Tm : Type) (t0 : Tm) (tadd : Tm -> Tm -> Tm) (tleb : Tm -> Tm -> bool) (St Rec : Type)
         (updf : nat -> Tm -> Tm -> St -> Tm * St * Rec) (k : nat) (dt0 : Tm) (v0 : St)
         (end_time : Tm) (p fuel : nat),
    (forall j, j <= p -> tleb end_time (T Tm t0 tadd St Rec updf dt0 v0 j) = false) -> p < fuel ->
    let res := stage Tm tadd tleb St Rec (upd_fault Tm St Rec updf p false) k true fuel true end_time 0
                     (mkR Tm St Rec t0 dt0 v0 [] []) in
    fst res = Raised /\ r_frames _ _ _ (snd res) = spec_frames Tm t0 tadd St Rec updf k dt0 v0 0 (S p).
Proof. exact frames_prefix_on_error. Qed.
Print Assumptions C15_frames_prefix_on_error.

(* a cancellation in update call p: exactly the frames of a run that ends at step p *)
Theorem C15_frames_on_cancel :
  forall (Tm : Type) (t0 : Tm) (tadd : Tm -> Tm -> Tm) (tleb : Tm -> Tm -> bool) (St Rec : Type)
         (updf : nat -> Tm -> Tm -> St -> Tm * St * Rec) (k : nat) (dt0 : Tm) (v0 : St)
         (end_time : Tm) (p fuel : nat),
    (forall j, j <= p -> tleb end_time (T Tm t0 tadd St Rec updf dt0 v0 j) = false) -> p < fuel ->
    let res := stage Tm tadd tleb St Rec (upd_fault Tm St Rec updf p true) k true fuel true end_time 0
                     (mkR Tm St Rec t0 dt0 v0 [] []) in
    fst res = Cancelled /\ r_frames _ _ _ (snd res) = run_frames Tm t0 tadd St Rec updf k dt0 v0 p.
Proof. exact frames_on_cancel. Qed.
Print Assumptions C15_frames_on_cancel.

(* the output name is fresh; nothing that existed is ever opened for writing or removed *)
Theorem C15_create_fresh :
  forall cm fuel n f m f',
    create cm fuel n f = Some (m, f') ->
    ~ In (Main m) f /\ ~ In (Tmp m) f /\ (forall x, In x f -> In x f') /\ In (Main m) f' /\ In (Tmp m) f'.
Proof. exact create_fresh. Qed.
Print Assumptions C15_create_fresh.

Theorem C15_create_adds_only_chosen :
  forall fuel n f m f', create true fuel n f = Some (m, f') -> f' = Tmp m :: Main m :: f.
Proof. exact create_adds_only_chosen. Qed.
Print Assumptions C15_create_adds_only_chosen.

Theorem C15_close_clean :
  forall cm fuel n f m f',
    create cm fuel n f = Some (m, f') ->
    ~ In (Tmp m) (close m f') /\ (forall x, In x f -> In x (close m f')) /\ In (Main m) (close m f').
Proof. exact close_clean. Qed.
Print Assumptions C15_close_clean.

Theorem C15_stray_file_as_found_refuted :
  exists f m f', create false 5 0 f = Some (m, f') /\ In (Main 0) f' /\ ~ In (Main 0) f /\ m <> 0.
Proof. exact stray_file_as_found_refuted. Qed.
Print Assumptions C15_stray_file_as_found_refuted.
