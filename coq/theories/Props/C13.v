(* C13 - screening returns a self-consistent induced vector potential or fails. *)
From Coq Require Import Reals List Arith Bool.
From PyTdgl Require Import Base.Ops Base.Sums Model.Screen Proofs.ScreenP.
Import ListNotations.
Open Scope R_scope.

(* the accelerated kernel equals the direct double sum, for arbitrary currents, areas and point sets *)
Theorem C13_kernel_is_double_sum :
  forall (srcs : list sourceR) (ex ey : R),
    kernel_at OpsR srcs ex ey
    = (Rsum (fun s : sourceR => fst (term OpsR s ex ey)) srcs, Rsum (fun s : sourceR => snd (term OpsR s ex ey)) srcs).
Proof. exact kernel_is_double_sum. Qed.
Print Assumptions C13_kernel_is_double_sum.

(* any iterate that is returned passed the convergence test: the last computed relative mismatch between the
   kernel of the last currents and the previous iterate (relative to the returned iterate) is < tol *)
Theorem C13_exit_implies_converged :
  forall (Jof : list vecR -> list sourceR) (edges : list (R * R)) (alpha beta tol tiny : R) (max_it : nat)
         fuel it err A v lastK prevA A' iters e K' P',
    loop_inv Jof edges alpha beta tiny err A lastK prevA ->
    screen_loop OpsR Jof edges fuel alpha beta tol tiny max_it it err A v lastK prevA = Converged OpsR A' iters e K' P' ->
    e < tol /\ loop_inv Jof edges alpha beta tiny (Some e) A' K' P'.
Proof. exact exit_implies_converged. Qed.
Print Assumptions C13_exit_implies_converged.

(* ... and that means, edge by edge, |dA_e| < tol * max(1e-20, |A'_e|) *)
Theorem C13_rel_error_bound :
  forall tiny tol (dA Anew : list vecR), 0 < tiny -> rel_error OpsR tiny dA Anew < tol ->
    Forall (fun '(d, a) => vnorm OpsR d < tol * Rmax tiny (vnorm OpsR a)) (combine dA Anew).
Proof. exact rel_error_bound. Qed.
Print Assumptions C13_rel_error_bound.

(* the stored potential reproduces the kernel of the stored currents up to dA - v' ... *)
Theorem C13_stored_mismatch_identity :
  forall (K A v' : list vecR), length K = length A -> length v' = length A ->
    map2 (vsub OpsR) K (map2 (vadd OpsR) A v') = map2 (vsub OpsR) (map2 (vsub OpsR) K A) v'.
Proof. exact stored_mismatch_identity. Qed.
Print Assumptions C13_stored_mismatch_identity.

(* ... which for drag beta = 1 is exactly (1 - alpha) dA: a modest multiple of the tolerance.
   (For beta < 1 the multiple depends on the velocity history: partial, measured by the check.) *)
Theorem C13_stored_mismatch_beta1_partial :
  forall alpha tiny (K A vv : list vecR), length K = length A -> length vv = length A ->
    map2 (vsub OpsR) K (p_A _ (polyak_step OpsR alpha 1 tiny K A (Some vv)))
    = map (vscale OpsR (1 - alpha)) (map2 (vsub OpsR) K A).
Proof. exact stored_mismatch_beta1. Qed.
Print Assumptions C13_stored_mismatch_beta1_partial.

(* as repaired (fix F48): the potential kept for an accepted step is the iterate P' that passed the test; it reproduces the kernel
   of the step's currents to within the tolerance for EVERY step size and drag (the full statement; the identity above describes
   the next Polyak iterate A', which the code kept before) *)
Theorem C13_stored_tested_iterate_mismatch :
  forall (Jof : list vecR -> list sourceR) (edges : list (R * R)) (alpha beta tol tiny : R) (max_it : nat)
         fuel it err A v lastK prevA A' iters e K' P',
    0 < tiny ->
    loop_inv Jof edges alpha beta tiny err A lastK prevA ->
    screen_loop OpsR Jof edges fuel alpha beta tol tiny max_it it err A v lastK prevA = Converged OpsR A' iters e K' P' ->
    K' = kernel OpsR (Jof P') edges /\
    Forall (fun '(d, a) => vnorm OpsR d < tol * Rmax tiny (vnorm OpsR a)) (combine (map2 (vsub OpsR) K' P') A').
Proof. exact stored_tested_iterate_mismatch. Qed.
Print Assumptions C13_stored_tested_iterate_mismatch.

(* the loop never reports more than max_iterations_per_step + 1 iterations, and with enough fuel it always
   decides (converged or the RuntimeError) *)
Theorem C13_iterations_bounded :
  forall (Jof : list vecR -> list sourceR) (edges : list (R * R)) (alpha beta tol tiny : R) (max_it : nat)
         fuel it err A v lastK prevA A' iters e K' P',
    (it <= max_it + 1)%nat ->
    screen_loop OpsR Jof edges fuel alpha beta tol tiny max_it it err A v lastK prevA = Converged OpsR A' iters e K' P' ->
    (it <= iters <= max_it + 1)%nat.
Proof. exact iterations_bounded. Qed.
Print Assumptions C13_iterations_bounded.

Theorem C13_loop_decides :
  forall (Jof : list vecR -> list sourceR) (edges : list (R * R)) (alpha beta tol tiny : R) (max_it : nat)
         fuel it err A v lastK prevA,
    (it <= max_it + 1)%nat -> (max_it + 2 < fuel + it)%nat ->
    screen_loop OpsR Jof edges fuel alpha beta tol tiny max_it it err A v lastK prevA <> Fuel OpsR.
Proof. exact loop_decides. Qed.
Print Assumptions C13_loop_decides.
