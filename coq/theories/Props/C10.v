(* C10 - refreshing link variables in place equals rebuilding the operators. *)
From Coq Require Import Reals List Arith ZArith.
From PyTdgl Require Import Base.Ops Base.Cplx Model.FV Model.Refresh Proofs.FVR Proofs.FVC Proofs.RefreshP.
Import ListNotations.

(* one refresh of a correctly built/refreshed Laplacian = rebuild, every entry, pinned rows included;
   hypothesis `canonical` is what get_edges guarantees (sorted endpoints, unique edges) *)
Theorem C10_refresh_eq_build :
  forall (a : nat -> R) (fixed : list nat) (es : list edgeR) (U U' : list RC) (M : dense OpsR),
    canonical es -> length U = length es -> length U' = length es ->
    (forall r c, M r c = build_lap OpsR a fixed es U r c) ->
    forall r c, refresh_lap OpsR a fixed es U' M r c = build_lap OpsR a fixed es U' r c.
Proof. exact refresh_eq_build. Qed.
Print Assumptions C10_refresh_eq_build.

(* any finite sequence of vector potentials (repeats and zeros included) *)
Theorem C10_refresh_sequence :
  forall (a : nat -> R) (fixed : list nat) (es : list edgeR) (U0 : list RC) (Us : list (list RC)),
    canonical es -> length U0 = length es -> Forall (fun U => length U = length es) Us ->
    forall r c,
      fold_left (fun L U => refresh_lap OpsR a fixed es U L) Us (build_lap OpsR a fixed es U0) r c
      = build_lap OpsR a fixed es (last Us U0) r c.
Proof. exact refresh_sequence. Qed.
Print Assumptions C10_refresh_sequence.

(* pinned rows are identity rows whatever the links (so a refresh can never un-pin them) *)
Theorem C10_pinned_rows_identity :
  forall (a : nat -> R) (fixed : list nat) (es : list edgeR) (U : list RC) (psi : nat -> RC) (f : nat),
    NoDup fixed -> In f fixed -> capplyR (clap_coo OpsR a fixed es U) psi f = psi f.
Proof. exact pinned_row_identity. Qed.
Print Assumptions C10_pinned_rows_identity.

(* the solver's trigger: with an exact comparison the operators hold the latest potential after every step *)
Theorem C10_trigger_fresh :
  forall (V : Type) (same : V -> V -> bool), (forall x y, same x y = true -> x = y) ->
  forall (A0 : V) (As : list V),
    snd (trigger_run V same A0 As) = last As A0 /\ fst (trigger_run V same A0 As) = last As A0.
Proof. exact trigger_fresh. Qed.
Print Assumptions C10_trigger_fresh.

(* ... and with a tolerance comparison against the previous step it does not (the defect that was repaired) *)
Theorem C10_trigger_tolerance_refuted :
  exists (A0 : Z) (As : list Z), snd (trigger_run Z close_tol A0 As) <> last As A0.
Proof. exact trigger_allclose_refuted. Qed.
Print Assumptions C10_trigger_tolerance_refuted.

(* non-vacuity: a canonical 3-edge mesh *)
Example C10_nonvacuous :
  canonical [mkEdge OpsR 0 1 1 1 1 0 true; mkEdge OpsR 0 2 1 1 0 1 true; mkEdge OpsR 1 2 1 1 (-1) 1 true].
Proof.
  split.
  - cbn. constructor; [unfold key; cbn; intuition discriminate|]. constructor; [unfold key; cbn; intuition discriminate|].
    constructor; [unfold key; cbn; intuition|constructor].
  - repeat constructor; cbn; auto with arith.
Qed.
