(* C05 - recorded frames, times and per-step records are consistent.
   For every save interval k >= 1, every update function that answers, every initial state, every
   stop time: statements about the loop with the stop test before the update (the repaired code). *)
From Coq Require Import List Arith Bool ZArith.
From PyTdgl Require Import Model.Runner Proofs.RunnerP Proofs.PauseP.
Import ListNotations.

Section C05.
  Variable Tm : Type.
  Variable t0 : Tm.
  Variable tadd : Tm -> Tm -> Tm.
  Variable tleb : Tm -> Tm -> bool.
  Variable St Rec : Type.
  Variable updf : nat -> Tm -> Tm -> St -> Tm * St * Rec.
  Variable k : nat.
  Hypothesis k_pos : k <> 0.
  Variable dt0 : Tm.
  Variable v0 : St.

  (* the loop produces exactly run_frames N, N = first step whose time reaches the stop time *)
  Theorem C05_run_frames_correct :
    forall (end_time : Tm) (N fuel : nat),
      (forall j, j < N -> tleb end_time (T Tm t0 tadd St Rec updf dt0 v0 j) = false) ->
      tleb end_time (T Tm t0 tadd St Rec updf dt0 v0 N) = true -> N < fuel ->
      let res := stage Tm tadd tleb St Rec (upd_ok Tm St Rec updf) k true fuel true end_time 0
                       (mkR Tm St Rec t0 dt0 v0 [] []) in
      fst res = Finished /\ r_frames _ _ _ (snd res) = run_frames Tm t0 tadd St Rec updf k dt0 v0 N.
  Proof. intros. apply run_frames_correct; assumption. Qed.

  Theorem C05_frame_steps :
    forall N,
      map (f_step _ _ _) (run_frames Tm t0 tadd St Rec updf k dt0 v0 N)
      = filter (fun j => Nat.eqb (j mod k) 0) (seq 0 (S N)) ++ (if Nat.eqb (N mod k) 0 then [] else [N]).
  Proof. intros. apply frame_steps. Qed.

  Theorem C05_frame_content :
    forall N f, In f (run_frames Tm t0 tadd St Rec updf k dt0 v0 N) ->
      f_vals _ _ _ f = V Tm t0 tadd St Rec updf dt0 v0 (f_step _ _ _ f) /\
      f_time _ _ _ f = T Tm t0 tadd St Rec updf dt0 v0 (f_step _ _ _ f) /\
      f_dt _ _ _ f = D Tm t0 tadd St Rec updf dt0 v0 (f_step _ _ _ f).
  Proof. intros N f H. apply (frame_content _ _ _ _ _ _ _ _ _ _ _ H). Qed.

  Theorem C05_time_is_sum_of_steps :
    forall i, T Tm t0 tadd St Rec updf dt0 v0 i
              = fold_left tadd (map (fun j => D Tm t0 tadd St Rec updf dt0 v0 (S j)) (seq 0 i)) t0.
  Proof. intros. apply time_is_sum_of_steps. Qed.

  Theorem C05_records_once_in_order :
    forall N, read_records Tm St Rec (run_frames Tm t0 tadd St Rec updf k dt0 v0 N)
              = map (recd Tm t0 tadd St Rec updf dt0 v0) (seq 0 N).
  Proof. intros. apply records_once_in_order. exact k_pos. Qed.

  (* Solution.times, computed by the reader from the per-step dt values alone, is the list of times stored in the
     frames, frame by frame (frames at 0, k, 2k, ... and the final step) *)
  Theorem C05_times_are_frame_times :
    forall N,
      solution_times Tm t0 tadd k (map (fun j => D Tm t0 tadd St Rec updf dt0 v0 (S j)) (seq 0 N))
      = map (f_time _ _ _) (run_frames Tm t0 tadd St Rec updf k dt0 v0 N).
  Proof. intros. apply times_are_frame_times. exact k_pos. Qed.

  (* ... and from the records as read back from the file, for every update that records the dt it used *)
  Theorem C05_times_from_records :
    forall (rec_dt : Rec -> Tm) N,
      (forall i t d v, rec_dt (snd (updf i t d v)) = fst (fst (updf i t d v))) ->
      solution_times Tm t0 tadd k (map rec_dt (read_records Tm St Rec (run_frames Tm t0 tadd St Rec updf k dt0 v0 N)))
      = map (f_time _ _ _) (run_frames Tm t0 tadd St Rec updf k dt0 v0 N).
  Proof. intros. apply times_from_records; assumption. Qed.

  (* thermalisation (skip_time) leaves no trace: step and time restart at 0 and the frames are those of a plain run
     started from the thermalised values *)
  Theorem C05_thermalisation_unrecorded :
    forall (sk solve_time : Tm) (M N fuel : nat),
      (forall j, j < M -> tleb sk (T Tm t0 tadd St Rec updf dt0 v0 j) = false) ->
      tleb sk (T Tm t0 tadd St Rec updf dt0 v0 M) = true -> M < fuel ->
      let dt1 := D Tm t0 tadd St Rec updf dt0 v0 M in
      let v1 := V Tm t0 tadd St Rec updf dt0 v0 M in
      (forall j, j < N -> tleb solve_time (T Tm t0 tadd St Rec updf dt1 v1 j) = false) ->
      tleb solve_time (T Tm t0 tadd St Rec updf dt1 v1 N) = true -> N < fuel ->
      let res := run Tm t0 tadd tleb St Rec (upd_ok Tm St Rec updf) k true fuel (Some sk) solve_time dt0 v0 in
      fst res = Finished /\ r_frames _ _ _ (snd res) = run_frames Tm t0 tadd St Rec updf k dt1 v1 N.
  Proof. intros. apply thermalisation_unrecorded; assumption. Qed.
End C05.
Print Assumptions C05_run_frames_correct.
Print Assumptions C05_frame_steps.
Print Assumptions C05_frame_content.
Print Assumptions C05_records_once_in_order.
Print Assumptions C05_times_are_frame_times.
Print Assumptions C05_times_from_records.
Print Assumptions C05_thermalisation_unrecorded.

(* the loop as found (stop test after the update) put N+1 updates into the frame labelled N *)
Theorem C05_as_found_refuted :
  exists f, In f (r_frames _ _ _ (snd (stage Z Z.add Z.leb nat Z cnt_upd 2 false 20 true 5%Z 0
                                      (mkR Z nat Z 0%Z 1%Z 0 [] []))))
            /\ f_step _ _ _ f = 5 /\ f_vals _ _ _ f = 6.
Proof. exact frame_content_as_found_refuted. Qed.
Print Assumptions C05_as_found_refuted.

(* pause_on_interrupt = True, answer "y": whatever attempts of whatever steps are interrupted and resumed, the (repaired) loop ends
   exactly like the loop that was never interrupted - same end, same state, hence the same frames, labels, times and records *)
Theorem C05_pause_resume_transparent :
  forall (Tm : Type) (tadd : Tm -> Tm -> Tm) (tleb : Tm -> Tm -> bool) (St Rec : Type)
         (upd : nat -> Tm -> Tm -> St -> outcome Tm St Rec) (k : nat) (stop_first : bool) (paused : nat -> nat -> bool)
         (save : bool) (e : Tm) (fuel : nat) (s0 : rstate Tm St Rec) (r : stage_end) (s' : rstate Tm St Rec),
    stage_p Tm tadd tleb St Rec upd k stop_first paused true fuel save e 0 0 false s0 = (r, s') -> r <> OutOfFuel ->
    exists fuel', stage Tm tadd tleb St Rec upd k stop_first fuel' save e 0 s0 = (r, s').
Proof. exact pause_resume_run. Qed.
Print Assumptions C05_pause_resume_transparent.

(* as found, a single resumed pause shifted every later frame label by one update *)
Theorem C05_pause_as_found_refuted :
  labels_vals (stage_p Z Z.add Z.leb nat Z cnt_ok 2 true pause_at_1 false 20 true 4%Z 0 0 false (mkR Z nat Z 0%Z 1%Z 0 [] []))
  <> labels_vals (stage Z Z.add Z.leb nat Z cnt_ok 2 true 20 true 4%Z 0 (mkR Z nat Z 0%Z 1%Z 0 [] [])).
Proof. exact pause_as_found_refuted. Qed.
Print Assumptions C05_pause_as_found_refuted.
