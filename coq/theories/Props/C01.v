(* C01 - charge is conserved in every cell at every recorded step. *)
From Coq Require Import Reals List Arith.
From PyTdgl Require Import Base.Ops Base.Cplx Base.Sums Model.FV Model.Euler Model.Step
     Proofs.EulerR Proofs.FVR Proofs.FVC Proofs.StepP Proofs.BalanceR Proofs.GaugeP.
Import ListNotations.
Open Scope R_scope.

(* per cell: the divergence of the total current equals the boundary injection of that cell, which is
   a sum over the cell's own boundary edges only (so it is 0 for every cell without terminal edges,
   film edges and hole edges included, because mu_boundary is 0 there) *)
Theorem C01_continuity :
  forall (a : nat -> R) (n : nat) (es : list edgeR) (solve : (nat -> R) -> nat -> R)
         (U : list RC) (psi : nat -> RC) (muB dAdt : nat -> R),
    let ob := solve_for_observables OpsR a es solve U psi muB dAdt in
    (forall r, (r < n)%nat -> applyR (lap_coo OpsR a es) (ob_mu _ ob) r = ob_rhs _ ob r) ->
    forall r, (r < n)%nat ->
      applyR (div_coo OpsR a 0 es) (fun k => ob_Js _ ob k + ob_Jn _ ob k) r
      = applyR (bflux_coo OpsR a 0 es) muB r.
Proof. exact continuity. Qed.
Print Assumptions C01_continuity.

(* integrated over the device the injection is sum of edge length x boundary density *)
Theorem C01_total_injection :
  forall (a : nat -> R) (n : nat) (es : list edgeR) (f : nat -> R),
    wf_edges n es -> areas_nz n a -> forall b,
    Rsum (fun r => a r * applyR (bflux_coo OpsR a b es) f r) (seq 0 n) = bflux_total b es f.
Proof. exact boundary_flux_integral. Qed.
Print Assumptions C01_total_injection.

(* the density written on a terminal's edges carries exactly the requested current when the
   assignment is balanced: L_t * density_t = I_t *)
Theorem C01_density_balanced :
  forall (comp : bool) (ts : list (terminal OpsR)) (I : list R) (t : nat) (tm : terminal OpsR),
    Rsum (fun x => x) I = 0 -> nth_error ts t = Some tm -> t_len _ tm <> 0 -> (t < length I)%nat ->
    t_len _ tm * density OpsR comp ts I t = nth t I 0.
Proof. exact density_balanced. Qed.
Print Assumptions C01_density_balanced.

(* which of CPython's two summation paths runs (Neumaier-compensated for exact floats since 3.12, plain for numpy
   scalars) is irrelevant over the reals *)
Theorem C01_sum_compensation_irrelevant :
  forall comp k skip (I : list R), sum_others OpsR comp k skip I = sum_others_acc OpsR 0 k skip I.
Proof. exact sum_others_comp_irrelevant. Qed.
Print Assumptions C01_sum_compensation_irrelevant.

(* the change-only cache of update_mu_boundary: after ANY sequence of calls (time-dependent currents, repeats,
   switching off and on again) every terminal edge carries the density computed from scratch for the LAST
   currents, and every other boundary edge carries 0.  Hypothesis: terminals cover disjoint boundary edges. *)
Theorem C01_cache_coherent :
  forall (comp : bool) (all : list (terminal OpsR)) (Is : list (list R)) (I_last : list R),
    disjoint_terminals all ->
    let st0 := (repeat 0 (length all), fun _ : nat => 0) in
    let st := fold_left (fun s I => update_mu_boundary OpsR comp all I s) (Is ++ [I_last]) st0 in
    (forall j tm b, nth_error all j = Some tm -> In b (t_edges _ tm) -> snd st b = density OpsR comp all I_last j) /\
    (forall b, (forall j tm, nth_error all j = Some tm -> ~ In b (t_edges _ tm)) -> snd st b = 0).
Proof. exact cache_coherent. Qed.
Print Assumptions C01_cache_coherent.

(* every step of a run (psi and mu threaded, time-dependent links and boundary data): whenever the linear solver
   returns solutions, the total current leaving every cell equals the injection through that step's boundary data *)
Theorem C01_run_continuity :
  forall (a : nat -> R) (n : nat) (es : list edgeR) (fixed : list nat) (solve : (nat -> R) -> nat -> R)
         (expi : R -> RC) (repin : option RC) (gamma u : R),
    (forall rhs r, (r < n)%nat -> applyR (lap_coo OpsR a es) (solve rhs) r = rhs r) ->
    forall l psi mu k o i,
      nth_error (run_steps OpsR a n es fixed solve repin expi gamma u psi mu l) k = Some (Some o) ->
      nth_error l k = Some i ->
      forall r, (r < n)%nat ->
        applyR (div_coo OpsR a 0 es) (fun e => ob_Js _ (so_obs _ o) e + ob_Jn _ (so_obs _ o) e) r
        = applyR (bflux_coo OpsR a 0 es) (si_muB _ i) r.
Proof. exact run_continuity. Qed.
Print Assumptions C01_run_continuity.

(* "every balanced assignment is accepted", in the (1+delta) rounding model: currents that sum to zero exactly in the user's
   units pass the balance test after conversion (one rounding each, |delta| <= u) and floating-point summation (accumulated
   relative error <= g per term; the allowance 1e-9 * sum|v| computed with relative error <= g'), for any number of terminals *)
Theorem C01_balanced_accepted_rounded :
  forall (s u g g' : R) (l : list term),
    0 <= u < 1 -> 0 <= g' < 1 ->
    (forall t, In t l -> Rabs (td t) <= u /\ Rabs (tth t) <= g) ->
    Rsum tI l = 0 ->
    u / (1 - u) + g <= 1e-9 * (1 - g') ->
    forall eta, Rabs eta <= g' ->
    Rabs (Rsum (fun t => val s t * (1 + tth t)) l) <= 1e-9 * (Rsum (fun t => Rabs (val s t)) l * (1 + eta)).
Proof. exact balanced_accepted_rounded. Qed.
Print Assumptions C01_balanced_accepted_rounded.

(* the room hypothesis holds for binary64 and up to a thousand terminals *)
Theorem C01_balance_room_binary64 :
  let u := / 2 ^ 53 in let g := 12 / 10 ^ 14 in
  0 <= u < 1 /\ 0 <= g /\ 0 <= g < 1 /\ u / (1 - u) + g <= 1e-9 * (1 - g).
Proof. exact room_binary64. Qed.
Print Assumptions C01_balance_room_binary64.

(* the linear solver as it is in the code (the potential is fixed at site 0: row 0 of the Poisson matrix is the identity
   row and rhs_0 = 0, so only the rows r <> 0 are guaranteed by the factorisation): for a balanced injection the dropped
   equation follows and charge is conserved in EVERY cell, the pinned one included *)
Theorem C01_continuity_pinned_solver :
  forall (a : nat -> R) (n : nat) (es : list edgeR),
    wf_edges n es -> areas_nz n a -> (0 < n)%nat ->
    forall (solve : (nat -> R) -> nat -> R) (U : list RC) (psi : nat -> RC) (muB dAdt : nat -> R),
    let ob := solve_for_observables OpsR a es solve U psi muB dAdt in
    bflux_total 0 es muB = 0 ->
    (forall r, (0 < r < n)%nat -> applyR (lap_coo OpsR a es) (ob_mu _ ob) r = ob_rhs _ ob r) ->
    forall r, (r < n)%nat ->
      applyR (div_coo OpsR a 0 es) (fun k => ob_Js _ ob k + ob_Jn _ ob k) r
      = applyR (bflux_coo OpsR a 0 es) muB r.
Proof. exact continuity_pinned. Qed.
Print Assumptions C01_continuity_pinned_solver.

(* ... and an unbalanced injection cannot be hidden by the pinned solver: the defect of cell 0 is the whole imbalance *)
Theorem C01_pinned_cell_carries_imbalance :
  forall (a : nat -> R) (n : nat) (es : list edgeR),
    wf_edges n es -> areas_nz n a -> (0 < n)%nat ->
    forall (solve : (nat -> R) -> nat -> R) (U : list RC) (psi : nat -> RC) (muB dAdt : nat -> R),
    let ob := solve_for_observables OpsR a es solve U psi muB dAdt in
    (forall r, (0 < r < n)%nat -> applyR (lap_coo OpsR a es) (ob_mu _ ob) r = ob_rhs _ ob r) ->
    a 0%nat * (applyR (lap_coo OpsR a es) (ob_mu _ ob) 0%nat - ob_rhs _ ob 0%nat) = bflux_total 0 es muB.
Proof. exact pinned_cell_carries_imbalance. Qed.
Print Assumptions C01_pinned_cell_carries_imbalance.
