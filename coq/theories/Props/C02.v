(* C02 - each step solves the discretised TDGL equation on the physical branch.
   Property theorems only; proofs live in Proofs/EulerR.v. *)
From Coq Require Import Reals List.
From PyTdgl Require Import Base.Ops Base.Cplx Model.FV Model.Euler Model.Step Proofs.FVR Proofs.FVC Proofs.EulerR Proofs.EulerNum Proofs.StepNum.
Open Scope R_scope.

(* the code's z and w are the documented ones *)
Theorem C02_zw_as_documented :
  forall (U psi lap : C OpsR) (abs2 eps gamma u dt : R),
    zc U psi gamma = z_doc OpsR U psi gamma /\
    wc U psi lap abs2 eps gamma u dt = w_doc OpsR U psi abs2 eps gamma u dt lap.
Proof. exact zw_as_documented. Qed.
Print Assumptions C02_zw_as_documented.

(* answered => psi' + z|psi'|^2 = w, reported x = |psi'|^2 (real, >= 0), bounded branch *)
Theorem C02_root_sound :
  forall (U psi lap : C OpsR) (abs2 eps gamma u dt x : R) (p : C OpsR),
    site_update OpsR U psi abs2 eps gamma u dt lap = Some (x, p) ->
    cx_add p (cx_scale x (zc U psi gamma)) = wc U psi lap abs2 eps gamma u dt /\
    cx_abs2 p = x /\ 0 <= x /\ x <= 4 * cx_abs2 (wc U psi lap abs2 eps gamma u dt).
Proof. exact root_sound. Qed.
Print Assumptions C02_root_sound.

(* no solution at the site => refused *)
Theorem C02_root_refuses :
  forall (U psi lap : C OpsR) (abs2 eps gamma u dt : R),
    Dzw (zc U psi gamma) (wc U psi lap abs2 eps gamma u dt) < 0 ->
    site_update OpsR U psi abs2 eps gamma u dt lap = None.
Proof. exact root_refuses. Qed.
Print Assumptions C02_root_refuses.

(* a solution exists => never refused *)
Theorem C02_root_complete :
  forall (U psi lap : C OpsR) (abs2 eps gamma u dt : R) (p : C OpsR),
    cx_add p (cx_scale (cx_abs2 p) (zc U psi gamma)) = wc U psi lap abs2 eps gamma u dt ->
    exists x p', site_update OpsR U psi abs2 eps gamma u dt lap = Some (x, p').
Proof. exact root_complete. Qed.
Print Assumptions C02_root_complete.

(* vector lift: answered iff every site is answered *)
Theorem C02_all_sites_or_refuse :
  forall (gamma u dt : R) (l : list (site_in OpsR)),
  (exists rs, sites_update OpsR gamma u dt l = Some rs /\
     Forall2 (fun s r => site_update OpsR (i_U _ s) (i_psi _ s) (i_abs2 _ s) (i_eps _ s) gamma u dt (i_lap _ s) = Some r) l rs)
  \/ (sites_update OpsR gamma u dt l = None /\
      Exists (fun s => site_update OpsR (i_U _ s) (i_psi _ s) (i_abs2 _ s) (i_eps _ s) gamma u dt (i_lap _ s) = None) l).
Proof. exact sites_update_spec. Qed.
Print Assumptions C02_all_sites_or_refuse.

(* the quadratic form with the documented z, w IS the discretised TDGL equation (docs eq. tdgl-num), for any
   unimodular temporal link: the two are equivalent, and what the code answers solves tdgl-num *)
Theorem C02_update_tdgl_num :
  forall (U psi lap p : C OpsR) (x abs2 eps gamma u dt : R),
    cabs2 OpsR U = 1 -> 0 <= abs2 -> 0 < u -> 0 < dt ->
    (cadd OpsR p (cscale OpsR x (z_doc OpsR U psi gamma)) = w_doc OpsR U psi abs2 eps gamma u dt lap
     <-> tdgl_num_lhs U psi p x abs2 gamma u dt = tdgl_num_rhs psi lap abs2 eps).
Proof. exact update_tdgl_num. Qed.
Print Assumptions C02_update_tdgl_num.

Theorem C02_answered_solves_tdgl_num :
  forall (U psi lap p : C OpsR) (x abs2 eps gamma u dt : R),
    cabs2 OpsR U = 1 -> 0 <= abs2 -> 0 < u -> 0 < dt ->
    site_update OpsR U psi abs2 eps gamma u dt lap = Some (x, p) ->
    tdgl_num_lhs U psi p (cabs2 OpsR p) abs2 gamma u dt = tdgl_num_rhs psi lap abs2 eps.
Proof. exact answered_solves_tdgl_num. Qed.
Print Assumptions C02_answered_solves_tdgl_num.

(* the whole step solves docs eq. tdgl-num at every free site, with the documented covariant Laplacian
   (docs eq. laplacian-psi: lap_doc = sum over the edges at r of (s/e)/a_r (U psi_other - psi_r)) *)
Theorem C02_step_solves_tdgl_num :
  forall (a : nat -> R) (n : nat) (es : list edgeR) (fixed : list nat) (solve : (nat -> R) -> (nat -> R))
         (tlink : nat -> C OpsR) (repin : option (C OpsR)) (U : list (C OpsR)) (psi : nat -> C OpsR) (eps : nat -> R)
         (gamma u dt : R) (muB dAdt : nat -> R) (o : step_out OpsR) (r : nat),
    step OpsR a n es fixed solve tlink repin U psi eps gamma u dt muB dAdt = Some o ->
    (r < n)%nat -> ~ In r fixed -> cabs2 OpsR (tlink r) = 1 -> 0 < u -> 0 < dt ->
    tdgl_num_lhs (tlink r) (psi r) (so_psi _ o r) (cabs2 OpsR (so_psi _ o r)) (cabs2 OpsR (psi r)) gamma u dt
    = tdgl_num_rhs (psi r) (lap_doc a es U psi r) (cabs2 OpsR (psi r)) (eps r).
Proof. exact step_solves_tdgl_num. Qed.
Print Assumptions C02_step_solves_tdgl_num.

(* ... and so does every answered step of a run, from the state the run was in *)
Theorem C02_run_solves_tdgl_num :
  forall (a : nat -> R) (n : nat) (es : list edgeR) (fixed : list nat) (solve : (nat -> R) -> (nat -> R))
         (expi : R -> C OpsR),
    (forall x, cabs2 OpsR (expi x) = 1) ->
    forall (repin : option (C OpsR)) (gamma u : R), 0 < u ->
    forall (l : list (step_in OpsR)) (psi : nat -> C OpsR) (mu : nat -> R) (k : nat) (o : step_out OpsR),
      nth_error (run_steps OpsR a n es fixed solve repin expi gamma u psi mu l) k = Some (Some o) ->
      exists i psik muk,
        nth_error l k = Some i /\ state_before a n es fixed solve expi repin gamma u psi mu l k psik muk /\
        (0 < si_dt _ i ->
         forall r, (r < n)%nat -> ~ In r fixed ->
           tdgl_num_lhs (expi (muk r * si_dt _ i)) (psik r) (so_psi _ o r) (cabs2 OpsR (so_psi _ o r))
                        (cabs2 OpsR (psik r)) gamma u (si_dt _ i)
           = tdgl_num_rhs (psik r) (lap_doc a es (si_U _ i) psik r) (cabs2 OpsR (psik r)) (si_eps _ i r)).
Proof. exact run_solves_tdgl_num. Qed.
Print Assumptions C02_run_solves_tdgl_num.

(* non-vacuity: a concrete answered site *)
Example C02_nonvacuous : exists x p, site_update OpsR (1,0) (1,0) 1 1 1 1 1 (0,0) = Some (x, p).
Proof. exists 1, (1,0). apply euler_fixed_point. apply R1_neq_R0. Qed.
