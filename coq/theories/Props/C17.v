(* C17 - the uniform superconducting state is exactly stationary (exact arithmetic). *)
From Coq Require Import Reals List Arith.
From PyTdgl Require Import Base.Ops Base.Cplx Model.FV Model.Euler Model.Step
     Proofs.EulerR Proofs.FVR Proofs.FVC Proofs.StepP Model.Adapt Proofs.AdaptP.
Import ListNotations.
Open Scope R_scope.

Theorem C17_lap_annihilates_constants :
  forall (a : nat -> R) (es : list edgeR) (g : nat -> R) (r : nat),
    (forall e, In e es -> g (e_i _ e) = g (e_j _ e)) -> applyR (lap_coo OpsR a es) g r = 0.
Proof. exact lap_const_zero. Qed.
Print Assumptions C17_lap_annihilates_constants.

Theorem C17_euler_fixed_point :
  forall gamma u dt : R, u <> 0 ->
    site_update OpsR (1,0) (1,0) 1 1 gamma u dt (0,0) = Some (1, (1,0)).
Proof. exact euler_fixed_point. Qed.
Print Assumptions C17_euler_fixed_point.

(* one full step on ANY mesh (any edge list, any areas, any weights): psi stays 1, mu = 0, Js = Jn = 0.
   Hypotheses: the linear solver returns 0 for a zero right-hand side; exp(0) = 1. *)
Theorem C17_uniform_stationary :
  forall (a : nat -> R) (n : nat) (es : list edgeR) (solve : (nat -> R) -> nat -> R) (tlink : nat -> RC),
    (forall f, (forall r, f r = 0) -> forall r, solve f r = 0) ->
    (forall r, tlink r = (1, 0)) ->
  forall gamma u dt : R, u <> 0 ->
    exists out,
      step OpsR a n es [] solve tlink None (ones es) psi1 (fun _ => 1) gamma u dt (fun _ => 0) (fun _ => 0)
      = Some out /\
      (forall r, so_psi _ out r = (1, 0)) /\
      (forall r, ob_mu _ (so_obs _ out) r = 0) /\
      (forall k, ob_Js _ (so_obs _ out) k = 0) /\
      (forall k, ob_Jn _ (so_obs _ out) k = 0).
Proof. exact uniform_stationary. Qed.
Print Assumptions C17_uniform_stationary.

(* every step of a run with an arbitrary sequence of time steps: never refused, psi stays 1, no potential, no current.
   Hypotheses: the linear solver returns 0 for a zero right-hand side; exp(0) = 1. *)
Theorem C17_stationary_forever :
  forall (a : nat -> R) (n : nat) (es : list edgeR) (solve : (nat -> R) -> nat -> R) (expi : R -> RC),
    (forall f, (forall r, f r = 0) -> forall r, solve f r = 0) ->
    expi 0 = (1, 0) ->
  forall gamma u : R, u <> 0 -> forall (dts : list R) (psi : nat -> RC) (mu : nat -> R),
    (forall r, psi r = (1, 0)) -> (forall r, mu r = 0) ->
    Forall entry_stationary (run_steps OpsR a n es [] solve None expi gamma u psi mu (map (stat_in es) dts)).
Proof. exact stationary_forever. Qed.
Print Assumptions C17_stationary_forever.

(* in a stationary state the adaptive step is dt_init up to step window+1 and the configured maximum ever after *)
Theorem C17_dt_grows_to_max :
  forall (o : optsR), 0 < dt_init _ o -> dt_init _ o <= dt_max _ o ->
    half _ o = 1/2 -> 0 < floor_ _ o -> adaptive _ o = true ->
    dt_max _ o <= 1/2 * (dt_init _ o / floor_ _ o) ->
  forall n i, (i < n)%nat ->
    nth_error (ahist OpsR o (ainit OpsR o) 0 (repeat stat n)) i
    = Some (Some (if Nat.ltb (S (window _ o)) i then dt_max _ o else dt_init _ o,
                  if Nat.ltb (window _ o) i then dt_max _ o else dt_init _ o)).
Proof. exact dt_grows_to_max. Qed.
Print Assumptions C17_dt_grows_to_max.
