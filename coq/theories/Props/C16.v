(* C16 - parameter arithmetic means pointwise arithmetic of its operands (trees of any depth). *)
From Coq Require Import ZArith QArith List Bool Arith.
From PyTdgl Require Import Model.Param Proofs.ParamP.
Import ListNotations.

Theorem C16_eval_pointwise :
  forall top o l r en,
    eval top (Comp o l r) en =
    match operand_value l en with
    | Raise e => Raise e
    | Val a => match operand_value r en with Raise e => Raise e | Val b => apply_op o a b end
    end.
Proof. exact eval_pointwise. Qed.
Print Assumptions C16_eval_pointwise.

Theorem C16_operators_are_arithmetic :
  forall a b,
    apply_op Add a b = Val (Qred (a + b)) /\ apply_op Sub a b = Val (Qred (a - b)) /\
    apply_op Mul a b = Val (Qred (a * b)) /\ (Qeq_bool b 0 = false -> apply_op Div a b = Val (Qred (a / b))).
Proof. exact apply_op_values. Qed.
Print Assumptions C16_operators_are_arithmetic.

Theorem C16_td_iff_some_leaf : forall e, td e = true <-> has_kt e.
Proof. exact td_iff_some_leaf. Qed.
Print Assumptions C16_td_iff_some_leaf.

Theorem C16_nest_total :
  forall o l r, mk_comp o l r = Raise TypeErr <-> (is_num l = true /\ is_num r = true).
Proof. exact nest_total. Qed.
Print Assumptions C16_nest_total.

Theorem C16_eq_structural :
  (forall e, eqb e e = true) /\ (forall a b, eqb a b = eqb b a) /\ (forall a b, eqb a b = true -> td a = td b) /\
  (forall k i o l r, eqb (Par k i) (Comp o l r) = false /\ eqb (Comp o l r) (Par k i) = false).
Proof.
  split; [exact eqb_refl|]. split; [exact eqb_sym|]. split; [exact eqb_td|exact eqb_shape].
Qed.
Print Assumptions C16_eq_structural.

Theorem C16_clear_cache_complete :
  forall e dirty i, In i (clear_cache e dirty) <-> (In i dirty /\ ~ In i (ids e)).
Proof. exact clear_cache_complete. Qed.
Print Assumptions C16_clear_cache_complete.

Theorem C16_clear_cache_as_found_refuted :
  clear_cache_as_found (Comp Mul (Par K3 1) (Num 2)) [1%nat] = Raise TypeErr /\
  clear_cache_as_found (Comp Add (Par K2 0) (Par K3 1)) [0%nat; 1%nat] = Val [1%nat].
Proof. exact clear_cache_as_found_refuted. Qed.
Print Assumptions C16_clear_cache_as_found_refuted.
