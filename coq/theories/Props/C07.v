(* C07 - mesh geometry is the Delaunay/Voronoi dual of the device domain.
   PARTIAL: the triangulation comes from Triangle (C) and the cell areas from qhull; they cannot be modelled.
   Proved here: the geometry the dual construction rests on.  Checked per generated mesh (every site, edge and
   triangle): tiling of film minus holes, orientation, boundary, Euler characteristic, local Delaunay property and,
   where it and un-encroachment hold, cell areas = kite sums and dual edge lengths = the Voronoi face lengths. *)
From Coq Require Import Reals List Permutation.
From PyTdgl Require Import Base.Ops Model.MeshGeom Model.Sched Proofs.MeshGeomP Proofs.SchedP.
Open Scope R_scope.

Theorem C07_circumcentre_equidistant :
  forall A B C : ptM, nondegenerate A B C ->
    let U := circumcentre OpsR A B C in
    sqdist OpsR U A = sqdist OpsR U B /\ sqdist OpsR U A = sqdist OpsR U C.
Proof. exact circumcentre_equidistant. Qed.
Print Assumptions C07_circumcentre_equidistant.

Theorem C07_dual_edge_on_bisector :
  forall A B C : ptM, nondegenerate A B C ->
    let U := circumcentre OpsR A B C in
    (fst U - fst (mid OpsR A B)) * (fst B - fst A) + (snd U - snd (mid OpsR A B)) * (snd B - snd A) = 0 /\
    (fst U - fst (mid OpsR B C)) * (fst C - fst B) + (snd U - snd (mid OpsR B C)) * (snd C - snd B) = 0 /\
    (fst U - fst (mid OpsR C A)) * (fst A - fst C) + (snd U - snd (mid OpsR C A)) * (snd A - snd C) = 0.
Proof. exact dual_edge_on_bisector. Qed.
Print Assumptions C07_dual_edge_on_bisector.

(* the kites of the three vertices tile the triangle, so the kite sums over all sites equal the total
   triangle area: sum of cell areas = area of the triangulated domain *)
Theorem C07_kites_partition_triangle :
  forall A B C U : ptM, kite2 OpsR A B C U + kite2 OpsR B C A U + kite2 OpsR C A B U = tri2 OpsR A B C.
Proof. exact kites_partition_triangle. Qed.
Print Assumptions C07_kites_partition_triangle.

Theorem C07_edge_geometry :
  forall P Q : ptM,
    edge_dir OpsR P Q = (fst Q - fst P, snd Q - snd P) /\
    edge_len OpsR P Q * edge_len OpsR P Q = sqdist OpsR P Q /\
    mid OpsR P Q = ((fst P + fst Q) / 2, (snd P + snd Q) / 2).
Proof. exact edge_geometry. Qed.
Print Assumptions C07_edge_geometry.

Theorem C07_tri_orientation : forall A B C : ptM, tri2 OpsR A C B = - tri2 OpsR A B C.
Proof. exact tri_orientation. Qed.

(* boundary detection by incidence count depends only on the triangle set (see also C09) *)
Theorem C07_edges_function_of_triangle_set :
  forall n ts1 ts2, Permutation ts1 ts2 -> get_edges n ts1 = get_edges n ts2.
Proof. exact edges_triangle_order. Qed.
Print Assumptions C07_edges_function_of_triangle_set.
