(* C06 - the order parameter is pinned on current terminals and nowhere else. *)
From Coq Require Import Reals List Arith.
From PyTdgl Require Import Base.Ops Base.Cplx Model.FV Model.Euler Model.Step
     Proofs.EulerR Proofs.FVR Proofs.FVC Proofs.StepP.
Import ListNotations.
Open Scope R_scope.

Theorem C06_pinned_row_identity :
  forall (a : nat -> R) (fixed : list nat) (es : list edgeR) (U : list RC) (psi : nat -> RC) (f : nat),
    NoDup fixed -> In f fixed -> capplyR (clap_coo OpsR a fixed es U) psi f = psi f.
Proof. exact pinned_row_identity. Qed.
Print Assumptions C06_pinned_row_identity.

Theorem C06_pinned_zero_stays :
  forall (U : RC) (abs2 eps gamma u dt : R), abs2 = 0 ->
    site_update OpsR U (0,0) abs2 eps gamma u dt (0,0) = Some (0, (0,0)).
Proof. exact pinned_zero_stays. Qed.
Print Assumptions C06_pinned_zero_stays.

(* every step (hence, by iteration, every step of the run and every screening iteration, which call the
   same step function with refreshed links) keeps psi = 0 on every terminal site *)
Theorem C06_terminal_zero_step :
  forall (a : nat -> R) (n : nat) (es : list edgeR) (fixed : list nat)
         (solve : (nat -> R) -> nat -> R) (tlink : nat -> RC)
         (U : list RC) (psi : nat -> RC) (eps : nat -> R) (gamma u dt : R) (muB dAdt : nat -> R)
         (out : step_out OpsR) (f : nat),
    NoDup fixed -> In f fixed -> psi f = (0, 0) ->
    step OpsR a n es fixed solve tlink None U psi eps gamma u dt muB dAdt = Some out ->
    so_psi _ out f = (0, 0).
Proof. exact terminal_zero_step. Qed.
Print Assumptions C06_terminal_zero_step.

(* sites outside the pinned set are never pinned: their rows are those of the unpinned operator;
   with terminal_psi = None the pinned set is empty, so every site evolves freely *)
Theorem C06_free_rows_unpinned :
  forall (a : nat -> R) (fixed : list nat) (es : list edgeR) (U : list RC) (psi : nat -> RC) (r : nat),
    ~ In r fixed ->
    capplyR (clap_coo OpsR a fixed es U) psi r = capplyR (clap_coo OpsR a [] es U) psi r.
Proof. exact free_rows_unpinned. Qed.
Print Assumptions C06_free_rows_unpinned.

(* the identity row alone does NOT hold a non-zero value (the defect repaired in the solver, which now
   re-imposes the terminal value after the Euler update) *)
Theorem C06_identity_row_does_not_hold_nonzero :
  exists U v abs2 eps gamma u dt x p,
    site_update OpsR U v abs2 eps gamma u dt v = Some (x, p) /\ p <> v.
Proof. exact pinned_nonzero_refuted. Qed.
Print Assumptions C06_identity_row_does_not_hold_nonzero.

(* a non-zero configured terminal value is re-imposed after every Euler update: held exactly *)
Theorem C06_pinned_value_held :
  forall (a : nat -> R) (n : nat) (es : list edgeR) (fixed : list nat)
         (solve : (nat -> R) -> nat -> R) (tlink : nat -> RC) (v : RC)
         (U : list RC) (psi : nat -> RC) (eps : nat -> R) (gamma u dt : R) (muB dAdt : nat -> R)
         (out : step_out OpsR) (f : nat),
    In f fixed ->
    step OpsR a n es fixed solve tlink (Some v) U psi eps gamma u dt muB dAdt = Some out ->
    so_psi _ out f = v.
Proof. exact pinned_value_held. Qed.
Print Assumptions C06_pinned_value_held.

(* every step of a run *)
Theorem C06_run_terminal_zero :
  forall (a : nat -> R) (n : nat) (es : list edgeR) (fixed : list nat) (solve : (nat -> R) -> nat -> R)
         (expi : R -> RC) (gamma u : R),
    NoDup fixed -> forall l psi mu,
    (forall f, In f fixed -> psi f = (0, 0)) ->
    Forall (fun x : option (step_out OpsR) =>
              match x with Some o => forall f, In f fixed -> so_psi _ o f = (0, 0) | None => True end)
           (run_steps OpsR a n es fixed solve None expi gamma u psi mu l).
Proof. exact run_terminal_zero. Qed.
Print Assumptions C06_run_terminal_zero.

Theorem C06_run_pinned_value_held :
  forall (a : nat -> R) (n : nat) (es : list edgeR) (fixed : list nat) (solve : (nat -> R) -> nat -> R)
         (expi : R -> RC) (v : RC) (gamma u : R) l psi mu,
    Forall (fun x : option (step_out OpsR) =>
              match x with Some o => forall f, In f fixed -> so_psi _ o f = v | None => True end)
           (run_steps OpsR a n es fixed solve (Some v) expi gamma u psi mu l).
Proof. exact run_pinned_value_held. Qed.
Print Assumptions C06_run_pinned_value_held.

(* a SEEDED run (fix ba0ecc8) starts from the seed with the configured terminal value imposed on the terminal sites: the initial
   state holds that value there, is the seed elsewhere, and with the default contact the terminals are zero at every step whatever
   the seed held on them *)
Theorem C06_seeded_initial_state :
  forall (fixed : list nat) (v : RC) (seed : nat -> RC),
    (forall f, In f fixed -> impose fixed v seed f = v) /\ (forall r, ~ In r fixed -> impose fixed v seed r = seed r).
Proof. intros fixed v seed. split; [apply impose_fixed|apply impose_free]. Qed.
Print Assumptions C06_seeded_initial_state.

Theorem C06_run_terminal_zero_seeded :
  forall (a : nat -> R) (n : nat) (es : list edgeR) (fixed : list nat) (solve : (nat -> R) -> nat -> R)
         (expi : R -> RC) (gamma u : R),
    NoDup fixed -> forall l seed mu,
    Forall (fun x : option (step_out OpsR) =>
              match x with Some o => forall f, In f fixed -> so_psi _ o f = (0, 0) | None => True end)
           (run_steps OpsR a n es fixed solve None expi gamma u (impose fixed (0, 0) seed) mu l).
Proof. exact run_terminal_zero_seeded. Qed.
Print Assumptions C06_run_terminal_zero_seeded.
