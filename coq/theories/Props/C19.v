(* C19 - ill-posed problems are rejected before anything is written. *)
From Coq Require Import List QArith Qabs Bool.
From PyTdgl Require Import Model.Validate Proofs.ValidateP.
Import ListNotations.

(* if any check fails, no output file and no temporary directory is created and nothing runs *)
Theorem C19_rejected_before_create :
  forall cs explicit, (exists c, In c cs /\ snd c = false) ->
    ~ In CreateFile (solve_events cs explicit) /\ ~ In MkTempDir (solve_events cs explicit) /\ ~ In Run (solve_events cs explicit).
Proof. exact rejected_before_create. Qed.
Print Assumptions C19_rejected_before_create.

Theorem C19_reject_dt_nonpositive : forall o, v_dt_init o <= 0 -> validate_ok o = false.
Proof. exact reject_dt_nonpositive. Qed.
Theorem C19_reject_save_every : forall o, v_save_every o < 1 -> validate_ok o = false.
Proof. exact reject_save_every. Qed.
Theorem C19_reject_dt : forall o, v_dt_max o < v_dt_init o -> validate_ok o = false.
Proof. exact reject_dt. Qed.
Theorem C19_reject_terminal_psi : forall o p, v_terminal_psi o = Some p -> 1 < Qabs p -> validate_ok o = false.
Proof. exact reject_terminal_psi. Qed.
Theorem C19_reject_mult : forall o, (v_mult o <= 0 \/ 1 <= v_mult o) -> validate_ok o = false.
Proof. exact reject_mult. Qed.
Theorem C19_reject_drag : forall o, (v_drag o <= 0 \/ 1 < v_drag o) -> validate_ok o = false.
Proof. exact reject_drag. Qed.
Theorem C19_reject_size : forall o, v_size o <= 0 -> validate_ok o = false.
Proof. exact reject_size. Qed.
Theorem C19_reject_tol : forall o, v_tol o <= 0 -> validate_ok o = false.
Proof. exact reject_tol. Qed.
(* no false rejections of consistent options *)
Theorem C19_validate_accepts :
  forall o, 0 < v_dt_init o -> 1 <= v_save_every o ->
    v_dt_init o <= v_dt_max o -> (forall p, v_terminal_psi o = Some p -> Qabs p <= 1) ->
    0 < v_mult o -> v_mult o < 1 -> 0 < v_drag o -> v_drag o <= 1 -> 0 < v_size o -> 0 < v_tol o ->
    validate_ok o = true.
Proof. exact validate_accepts. Qed.
Print Assumptions C19_validate_accepts.

(* currents: balanced accepted (shared with C01), an imbalance of one part in 1e6 rejected *)
Theorem C19_balanced_accepted : forall I, qsum I == 0 -> accepts_currents I = true.
Proof. exact balanced_accepted. Qed.
Theorem C19_unbalanced_rejected :
  forall I, 0 < qabssum I -> (1 # 1000000) * qabssum I <= Qabs (qsum I) -> accepts_currents I = false.
Proof. exact unbalanced_rejected. Qed.
Print Assumptions C19_unbalanced_rejected.

Theorem C19_td_unbalanced_always_rejected :
  forall f samples, samples <> [] -> (forall t, accepts_currents (f t) = false) -> accepts_td f samples = false.
Proof. exact td_unbalanced_always_rejected. Qed.
(* sampling cannot see a defect confined to unsampled times: the known finding *)
(* the sample times span exactly the times at which the run uses the currents: [0, skip_time] during thermalisation and
   [0, solve_time] in the main stage (fix 9894979) *)
Theorem C19_used_times_in_sampled_range :
  forall solve skip t, used_time solve skip t -> 0 <= t /\ t <= sample_tmax true solve skip.
Proof. exact used_times_in_sampled_range. Qed.
Print Assumptions C19_used_times_in_sampled_range.

Theorem C19_sampled_times_are_used :
  forall solve skip u, 0 <= u -> u <= 1 -> 0 <= solve -> 0 <= skip -> used_time solve skip (u * sample_tmax true solve skip).
Proof. exact sampled_times_are_used. Qed.
Print Assumptions C19_sampled_times_are_used.

Theorem C19_td_sampled_imbalance_rejected :
  forall repaired f solve skip us u,
    In u us -> accepts_currents (f (u * sample_tmax repaired solve skip)) = false ->
    accepts_td f (sample_times repaired solve skip us) = false.
Proof. exact td_sampled_imbalance_rejected. Qed.
Print Assumptions C19_td_sampled_imbalance_rejected.

Theorem C19_td_start_imbalance_rejected :
  forall f solve skip us, accepts_currents (f 0) = false -> accepts_td f (sample_times true solve skip us) = false.
Proof. exact td_start_imbalance_rejected. Qed.
Print Assumptions C19_td_start_imbalance_rejected.

Theorem C19_td_end_imbalance_rejected :
  forall f solve skip us, accepts_currents (f (sample_tmax true solve skip)) = false -> accepts_td f (sample_times true solve skip us) = false.
Proof. exact td_end_imbalance_rejected. Qed.
Print Assumptions C19_td_end_imbalance_rejected.

(* as found, a time used by the thermalisation stage was outside the sampled range *)
Theorem C19_sampled_range_as_found_refuted :
  exists solve skip t, used_time solve skip t /\ ~ t <= sample_tmax false solve skip.
Proof. exact sampled_range_as_found_refuted. Qed.
Print Assumptions C19_sampled_range_as_found_refuted.

Theorem C19_td_unbalanced_window_refuted :
  exists f samples bad, accepts_currents (f bad) = false /\ samples <> [] /\ accepts_td f samples = true.
Proof. exact td_unbalanced_window_refuted. Qed.
Print Assumptions C19_td_unbalanced_window_refuted.
