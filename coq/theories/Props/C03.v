(* C03 - finite-volume operators obey the discrete calculus identities.
   For every finite edge list over nat sites (= every triangulation and more), every
   area function non-zero on the sites, every weight and every field. *)
From Coq Require Import Reals List Arith.
From PyTdgl Require Import Base.Ops Base.Cplx Base.Sums Model.FV Proofs.FVR Proofs.FVC.
Import ListNotations.
Open Scope R_scope.

Theorem C03_lap_div_grad :
  forall (a : nat -> R) (es : list edgeR) (g : nat -> R) (r : nat),
    applyR (lap_coo OpsR a es) g r =
    applyR (div_coo OpsR a 0 es) (applyR (grad_coo OpsR 0 es) g) r.
Proof. exact lap_div_grad. Qed.
Print Assumptions C03_lap_div_grad.

Theorem C03_div_sum_zero :
  forall (a : nat -> R) (n : nat) (es : list edgeR) (F : nat -> R),
    wf_edges n es -> areas_nz n a ->
    Rsum (fun r => a r * applyR (div_coo OpsR a 0 es) F r) (seq 0 n) = 0.
Proof. exact div_sum_zero. Qed.
Print Assumptions C03_div_sum_zero.

Theorem C03_boundary_flux_integral :
  forall (a : nat -> R) (n : nat) (es : list edgeR) (f : nat -> R),
    wf_edges n es -> areas_nz n a -> forall b,
    Rsum (fun r => a r * applyR (bflux_coo OpsR a b es) f r) (seq 0 n) = bflux_total b es f.
Proof. exact boundary_flux_integral. Qed.
Print Assumptions C03_boundary_flux_integral.

Theorem C03_lap_symmetric :
  forall (a : nat -> R) (n : nat) (es : list edgeR) (f g : nat -> R),
    wf_edges n es -> areas_nz n a ->
    Rsum (fun r => a r * f r * applyR (lap_coo OpsR a es) g r) (seq 0 n)
    = Rsum (fun r => a r * g r * applyR (lap_coo OpsR a es) f r) (seq 0 n).
Proof. exact lap_symmetric. Qed.
Print Assumptions C03_lap_symmetric.

Theorem C03_lap_nsd :
  forall (a : nat -> R) (n : nat) (es : list edgeR) (g : nat -> R),
    wf_edges n es -> areas_nz n a -> (forall e, In e es -> 0 <= lap_w OpsR e) ->
    Rsum (fun r => a r * g r * applyR (lap_coo OpsR a es) g r) (seq 0 n) <= 0.
Proof. exact lap_nsd. Qed.
Print Assumptions C03_lap_nsd.

Theorem C03_lap_annihilates_constants :
  forall (a : nat -> R) (es : list edgeR) (g : nat -> R) (r : nat),
    (forall e, In e es -> g (e_i _ e) = g (e_j _ e)) -> applyR (lap_coo OpsR a es) g r = 0.
Proof. exact lap_const_zero. Qed.
Print Assumptions C03_lap_annihilates_constants.

Theorem C03_lap_kernel_is_constants :
  forall (a : nat -> R) (n : nat) (es : list edgeR) (g : nat -> R),
    wf_edges n es -> areas_nz n a -> (forall e, In e es -> 0 <= lap_w OpsR e) ->
    (forall r, (r < n)%nat -> applyR (lap_coo OpsR a es) g r = 0) ->
    forall i j, conn es i j -> g i = g j.
Proof. exact lap_kernel. Qed.
Print Assumptions C03_lap_kernel_is_constants.

Theorem C03_cov_lap_hermitian :
  forall (a : nat -> R) (n : nat) (es : list edgeR) (U : list RC) (f g : nat -> RC),
    wf_edges n es -> areas_nz n a ->
    ip a n f (capplyR (clap_free OpsR a [] es U) g)
    = cxconj (ip a n g (capplyR (clap_free OpsR a [] es U) f)).
Proof. exact cov_lap_hermitian. Qed.
Print Assumptions C03_cov_lap_hermitian.

Theorem C03_grad_exact_linear :
  forall (es : list edgeR) (x y : nat -> R) (ax ay b : R),
    (forall e : edgeR, In e es ->
       e_dx _ e = x (e_j _ e) - x (e_i _ e) /\ e_dy _ e = y (e_j _ e) - y (e_i _ e)) ->
    grad_list OpsR es (fun i => ax * x i + ay * y i + b)
    = map (fun e : edgeR => (ax * e_dx _ e + ay * e_dy _ e) / e_len _ e) es.
Proof. exact grad_exact_linear. Qed.
Print Assumptions C03_grad_exact_linear.

(* non-vacuity: two triangles, 4 sites, 5 edges, positive areas and weights, connected *)
Definition ex_es : list edgeR :=
  [mkEdge OpsR 0 1 1 (1/2) 1 0 true; mkEdge OpsR 0 2 1 (1/2) 0 1 true; mkEdge OpsR 1 2 (sqrt 2) 0 (-1) 1 false;
   mkEdge OpsR 1 3 1 (1/2) 0 1 true; mkEdge OpsR 2 3 1 (1/2) 1 0 true].
Example C03_nonvacuous : wf_edges 4 ex_es /\ areas_nz 4 (fun _ => 1/4) /\ conn ex_es 0 3.
Proof.
  split; [|split].
  - unfold wf_edges, ex_es. repeat constructor; cbn; auto with arith.
  - intros i _. apply Rgt_not_eq. apply Rlt_gt. apply Rmult_lt_0_compat; [apply Rlt_0_1|].
    apply Rinv_0_lt_compat. apply Rmult_lt_0_compat; apply Rlt_0_2.
  - apply conn_trans with 1%nat.
    + apply (conn_edge ex_es (mkEdge OpsR 0 1 1 (1/2) 1 0 true)); [left; reflexivity|].
      unfold lap_w; cbn. unfold Rdiv. rewrite Rinv_1, Rmult_1_l, Rmult_1_r. apply Rinv_0_lt_compat, Rlt_0_2.
    + apply (conn_edge ex_es (mkEdge OpsR 1 3 1 (1/2) 0 1 true)); [right; right; right; left; reflexivity|].
      unfold lap_w; cbn. unfold Rdiv. rewrite Rinv_1, Rmult_1_l, Rmult_1_r. apply Rinv_0_lt_compat, Rlt_0_2.
Qed.
