(* C18 - polygon and device geometry operations mean what they say.
   (Set operations are computed by GEOS and membership by matplotlib; their pointwise contract is checked
   against an exact crossing-number test, not proved: PARTIAL.) *)
From Coq Require Import Reals List Bool.
From PyTdgl Require Import Base.Ops Model.Geom Proofs.GeomP.
Import ListNotations.
Open Scope R_scope.

Theorem C18_stored_closed_ccw :
  forall l : list ptR, closed (normalise OpsR l) /\ 0 <= area2_closed OpsR (normalise OpsR l).
Proof. exact stored_closed_ccw. Qed.
Print Assumptions C18_stored_closed_ccw.

Theorem C18_area_translate :
  forall dx dy (l : list ptR), closed l -> area2_closed OpsR (translate OpsR dx dy l) = area2_closed OpsR l.
Proof. exact area_translate. Qed.
Print Assumptions C18_area_translate.

Theorem C18_area_rotate :
  forall ox oy c s (l : list ptR), c * c + s * s = 1 -> closed l ->
    area2_closed OpsR (rotate_about OpsR ox oy c s l) = area2_closed OpsR l.
Proof. exact area_rotate. Qed.
Print Assumptions C18_area_rotate.

(* scaling, reflections (negative factors) included: signed area times fx*fy, hence area times |fx*fy|
   after the setter has re-oriented the ring *)
Theorem C18_area_scale :
  forall ox oy fx fy (l : list ptR), closed l ->
    area2_closed OpsR (scale_about OpsR ox oy fx fy l) = fx * fy * area2_closed OpsR l.
Proof. exact area_scale. Qed.
Print Assumptions C18_area_scale.

Theorem C18_reversal_flips_orientation :
  forall l : list ptR, chain2 OpsR (rev l) = - chain2 OpsR l.
Proof. exact chain2_rev. Qed.
Print Assumptions C18_reversal_flips_orientation.

Theorem C18_normalise_idempotent :
  forall l : list ptR, normalise OpsR (normalise OpsR l) = normalise OpsR l.
Proof. exact normalise_idempotent. Qed.
Print Assumptions C18_normalise_idempotent.
