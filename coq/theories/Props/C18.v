(* C18 - polygon and device geometry operations mean what they say.
   (Set operations are computed by GEOS and membership by matplotlib; their pointwise contract is checked
   against an exact crossing-number test, not proved: PARTIAL.) *)
From Coq Require Import Reals List Bool.
From PyTdgl Require Import Base.Ops Model.Geom Proofs.GeomP.
Import ListNotations.
Open Scope R_scope.

Theorem C18_stored_closed_ccw :
  forall l : list ptR, closed (normalise OpsR l) /\ 0 <= area2_closed OpsR (normalise OpsR l).
Proof. exact stored_closed_ccw. Qed.
Print Assumptions C18_stored_closed_ccw.

Theorem C18_area_translate :
  forall dx dy (l : list ptR), closed l -> area2_closed OpsR (translate OpsR dx dy l) = area2_closed OpsR l.
Proof. exact area_translate. Qed.
Print Assumptions C18_area_translate.

Theorem C18_area_rotate :
  forall ox oy c s (l : list ptR), c * c + s * s = 1 -> closed l ->
    area2_closed OpsR (rotate_about OpsR ox oy c s l) = area2_closed OpsR l.
Proof. exact area_rotate. Qed.
Print Assumptions C18_area_rotate.

(* scaling, reflections (negative factors) included: signed area times fx*fy, hence area times |fx*fy|
   after the setter has re-oriented the ring *)
Theorem C18_area_scale :
  forall ox oy fx fy (l : list ptR), closed l ->
    area2_closed OpsR (scale_about OpsR ox oy fx fy l) = fx * fy * area2_closed OpsR l.
Proof. exact area_scale. Qed.
Print Assumptions C18_area_scale.

Theorem C18_reversal_flips_orientation :
  forall l : list ptR, chain2 OpsR (rev l) = - chain2 OpsR l.
Proof. exact chain2_rev. Qed.
Print Assumptions C18_reversal_flips_orientation.

Theorem C18_normalise_idempotent :
  forall l : list ptR, normalise OpsR (normalise OpsR l) = normalise OpsR l.
Proof. exact normalise_idempotent. Qed.
Print Assumptions C18_normalise_idempotent.

(* points map consistently with the shapes (crossing-number membership test): translation, and scaling about any origin
   with positive factors.  Rotation and reflection change the direction of the test ray; for those the statement is
   checked on the implementation (PARTIAL: not proved). *)
Theorem C18_mem_translate :
  forall dx dy (l : list ptR) (p : ptR),
    inside OpsR (translate OpsR dx dy l) (fst p + dx, snd p + dy) = inside OpsR l p.
Proof. exact mem_translate. Qed.
Print Assumptions C18_mem_translate.

Theorem C18_mem_scale :
  forall ox oy fx fy, 0 < fx -> 0 < fy -> forall (l : list ptR) (p : ptR),
    inside OpsR (scale_about OpsR ox oy fx fy l) (ox + fx * (fst p - ox), oy + fy * (snd p - oy)) = inside OpsR l p.
Proof. exact mem_scale. Qed.
Print Assumptions C18_mem_scale.

(* inside a device = inside the film and outside every hole; moved together with the device, a point keeps its side *)
Theorem C18_in_device_translate :
  forall dx dy film holes p,
    in_device (translate OpsR dx dy film) (map (translate OpsR dx dy) holes) (fst p + dx, snd p + dy)
    = in_device film holes p.
Proof. exact in_device_translate. Qed.
Print Assumptions C18_in_device_translate.
