(* C08 - results do not depend on the unit system used to state the problem.
   Two descriptions (unit system + numbers) of the same physical device, field and currents produce the same
   dimensionless inputs to the solver (link exponents, boundary densities, screening weights); the step model
   (C01/C02/C13) is a function of those, so the dimensionless solution is the same, and the physical outputs
   are K0 (unit independent) times dimensionless values.  Rounding is not analysed ("to rounding" is measured). *)
From Coq Require Import Reals List.
From PyTdgl Require Import Base.Ops Model.Units Proofs.UnitsP.
Open Scope R_scope.

Theorem C08_link_exponent_invariant :
  forall Phi0 twopi : R, Phi0 <> 0 -> twopi <> 0 ->
  forall (u1 u2 : usys OpsR) (v1 v2 : devnum OpsR) Ax1 Ay1 Ax2 Ay2 dx dy,
    same_device u1 u2 v1 v2 -> positive u1 v1 -> positive u2 v2 ->
    Ax1 * (fu _ u1 * lu _ u1) = Ax2 * (fu _ u2 * lu _ u2) -> Ay1 * (fu _ u1 * lu _ u1) = Ay2 * (fu _ u2 * lu _ u2) ->
    link_exponent OpsR Phi0 twopi u1 v1 Ax1 Ay1 dx dy = link_exponent OpsR Phi0 twopi u2 v2 Ax2 Ay2 dx dy.
Proof. exact link_exponent_invariant. Qed.
Print Assumptions C08_link_exponent_invariant.

Theorem C08_terminal_density_invariant :
  forall Phi0 mu0 twopi : R,
  forall (u1 u2 : usys OpsR) (v1 v2 : devnum OpsR) I1 I2 L1 L2,
    same_device u1 u2 v1 v2 -> positive u1 v1 -> positive u2 v2 ->
    I1 * cu _ u1 = I2 * cu _ u2 -> L1 * lu _ u1 = L2 * lu _ u2 -> L1 <> 0 -> L2 <> 0 ->
    K0 OpsR Phi0 mu0 twopi u1 v1 <> 0 ->
    terminal_density OpsR Phi0 mu0 twopi u1 v1 I1 L1 = terminal_density OpsR Phi0 mu0 twopi u2 v2 I2 L2.
Proof. exact terminal_density_invariant. Qed.
Print Assumptions C08_terminal_density_invariant.

Theorem C08_screening_weight_invariant :
  forall Phi0 mu0 twopi fourpi : R, fourpi <> 0 ->
  forall (u1 u2 : usys OpsR) (v1 v2 : devnum OpsR) a rho,
    same_device u1 u2 v1 v2 -> positive u1 v1 -> positive u2 v2 -> rho <> 0 ->
    A0 OpsR Phi0 twopi u1 v1 <> 0 ->
    scr_weight OpsR Phi0 mu0 twopi fourpi u1 v1 a rho = scr_weight OpsR Phi0 mu0 twopi fourpi u2 v2 a rho.
Proof. exact screening_weight_invariant. Qed.
Print Assumptions C08_screening_weight_invariant.

Theorem C08_output_current_invariant :
  forall Phi0 mu0 twopi (u1 u2 : usys OpsR) (v1 v2 : devnum OpsR) j,
    same_device u1 u2 v1 v2 -> K0 OpsR Phi0 mu0 twopi u1 v1 * j = K0 OpsR Phi0 mu0 twopi u2 v2 * j.
Proof. exact output_current_invariant. Qed.
Print Assumptions C08_output_current_invariant.

(* the gauge phase accumulated around any triangle in a uniform field = field times signed area ... *)
Theorem C08_triangle_flux :
  forall B xc yc x1 y1 x2 y2 x3 y3,
    let A := fun x y => A_uniform OpsR B xc yc x y in
    let edge := fun xa ya xb yb => fst (A ((xa + xb) / 2) ((ya + yb) / 2)) * (xb - xa)
                                   + snd (A ((xa + xb) / 2) ((ya + yb) / 2)) * (yb - ya) in
    edge x1 y1 x2 y2 + edge x2 y2 x3 y3 + edge x3 y3 x1 y1
    = B * (((x2 - x1) * (y3 - y1) - (x3 - x1) * (y2 - y1)) / 2).
Proof. exact triangle_flux. Qed.
Print Assumptions C08_triangle_flux.

(* ... = 2 pi times the flux in flux quanta, in the solver's dimensionless units *)
Theorem C08_triangle_flux_quanta :
  forall Phi0 twopi xi B area, Phi0 <> 0 -> twopi <> 0 -> xi <> 0 ->
    (B * area) / ((Phi0 / (twopi * (xi * xi))) * xi * xi) = twopi * (B * area) / Phi0.
Proof. exact triangle_flux_quanta. Qed.
Print Assumptions C08_triangle_flux_quanta.
