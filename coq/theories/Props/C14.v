(* C14 - saved devices, meshes, solutions and parameters load back unchanged. *)
From Coq Require Import Reals List QArith Bool Arith.
From PyTdgl Require Import Base.Ops Model.Geom Model.Serial Model.Param Proofs.GeomP Proofs.SerialP Proofs.ParamP.
Import ListNotations.

(* options, unset (None) ones included *)
Theorem C14_options_roundtrip : forall o : sopts, rest_ok o -> load (save true o) = o.
Proof. exact options_roundtrip. Qed.
Print Assumptions C14_options_roundtrip.

Theorem C14_options_roundtrip_as_found_refuted : exists o, rest_ok o /\ load (save false o) <> o.
Proof. exact options_roundtrip_as_found_refuted. Qed.
Print Assumptions C14_options_roundtrip_as_found_refuted.

(* polygons: the stored vertex list is a fixed point of the points setter, so a reloaded polygon has
   exactly the stored vertices *)
Theorem C14_polygon_normalise_idempotent :
  forall l : list ptR, normalise OpsR (normalise OpsR l) = normalise OpsR l.
Proof. exact normalise_idempotent. Qed.
Print Assumptions C14_polygon_normalise_idempotent.

(* parameters: equality is reflexive/symmetric and preserves the flag, so an unpickled copy that is
   structurally the same tree compares equal and behaves identically (eval is a function of the tree) *)
Theorem C14_param_equal_trees_behave_equal :
  (forall e, eqb e e = true) /\ (forall a b, eqb a b = true -> td a = td b).
Proof. split; [exact eqb_refl|exact eqb_td]. Qed.
Print Assumptions C14_param_equal_trees_behave_equal.
