(* C12 - time steps follow the documented adaptive rule and its bounds. *)
From Coq Require Import Reals List Arith Bool.
From PyTdgl Require Import Base.Ops Base.Cplx Model.FV Model.Step Model.Adapt Model.Update Proofs.AdaptP Proofs.UpdateP.
Import ListNotations.
Open Scope R_scope.

Theorem C12_dt_positive_bounded :
  forall (o : optsR), 0 < dt_init _ o -> dt_init _ o <= dt_max _ o -> 0 < mult _ o < 1 ->
    half _ o = 1/2 -> 0 < floor_ _ o ->
  forall s step refuse dof dt s',
    Inv o s -> astep OpsR o s step refuse dof = Some (dt, s') ->
    0 < dt <= dt_max_eff OpsR o /\ dt <= tentative _ s /\ Inv o s'.
Proof. exact dt_positive_bounded. Qed.
Print Assumptions C12_dt_positive_bounded.

Theorem C12_invariant_initially :
  forall (o : optsR), 0 < dt_init _ o -> dt_init _ o <= dt_max _ o -> Inv o (ainit OpsR o).
Proof. exact Inv_init. Qed.
Print Assumptions C12_invariant_initially.

Theorem C12_fixed_step :
  forall (o : optsR) s step refuse dof dt s',
    adaptive _ o = false -> tentative _ s = dt_init _ o ->
    astep OpsR o s step refuse dof = Some (dt, s') -> dt = dt_init _ o /\ s' = s.
Proof. exact fixed_step. Qed.
Print Assumptions C12_fixed_step.

Theorem C12_tentative_rule :
  forall (o : optsR), 0 < dt_init _ o -> half _ o = 1/2 -> 0 < floor_ _ o ->
  forall s step dt d,
    adaptive _ o = true -> (window _ o < step)%nat -> 0 < dt ->
    tentative _ (bookkeep OpsR o s step dt d)
    = Rmin (1/2 * (dt + dt_init _ o / Rmax (floor_ _ o) (mean OpsR (lastn (window _ o) (dvals _ s ++ [d])))))
           (dt_max _ o).
Proof. exact tentative_rule. Qed.
Print Assumptions C12_tentative_rule.

Theorem C12_warmup_keeps_dt :
  forall (o : optsR) s step dt d,
    (step <= window _ o)%nat -> tentative _ (bookkeep OpsR o s step dt d) = tentative _ s.
Proof. exact warmup_keeps_dt. Qed.
Print Assumptions C12_warmup_keeps_dt.

Theorem C12_retry_rule :
  forall (o : optsR) (refuse : R -> bool) dt dt',
    euler_dt OpsR o refuse dt = Some dt' ->
    exists r, (r <= max_retries _ o + 1)%nat /\ dt' = dt * mult _ o ^ r /\ refuse dt' = false /\
              (forall j, (j < r)%nat -> refuse (dt * mult _ o ^ j) = true) /\ (r = 0%nat \/ adaptive _ o = true).
Proof. exact retry_rule. Qed.
Print Assumptions C12_retry_rule.

Theorem C12_retries_exhausted_raise :
  forall (o : optsR) (refuse : R -> bool) dt,
    (forall j, (j <= max_retries _ o + 1)%nat -> refuse (dt * mult _ o ^ j) = true) ->
    euler_dt OpsR o refuse dt = None.
Proof. exact retries_exhausted_raise. Qed.
Print Assumptions C12_retries_exhausted_raise.

Theorem C12_fixed_step_refusal_raises :
  forall (o : optsR) (refuse : R -> bool) dt,
    adaptive _ o = false -> refuse dt = true -> euler_dt OpsR o refuse dt = None.
Proof. exact fixed_step_refusal_raises. Qed.
Print Assumptions C12_fixed_step_refusal_raises.

(* whole histories: whatever is refused and whatever the dynamics do, every step used and every proposal of a run
   lies in (0, dt_max] *)
Theorem C12_all_steps_bounded :
  forall (o : optsR), 0 < dt_init _ o -> dt_init _ o <= dt_max _ o -> 0 < mult _ o < 1 ->
    half _ o = 1/2 -> 0 < floor_ _ o ->
  forall l s step, Inv o s -> Forall (entry_ok o) (ahist OpsR o s step l).
Proof. exact all_steps_bounded. Qed.
Print Assumptions C12_all_steps_bounded.

Theorem C12_fixed_steps_all :
  forall (o : optsR) l s step,
    adaptive _ o = false -> tentative _ s = dt_init _ o ->
    Forall (fun x => match x with Some (dt, tn) => dt = dt_init _ o /\ tn = dt_init _ o | None => True end)
           (ahist OpsR o s step l).
Proof. exact fixed_steps_all. Qed.
Print Assumptions C12_fixed_steps_all.

(* a stationary state (nothing refused, |psi|^2 unchanged): dt_init up to step window+1, dt_max ever after *)
Theorem C12_dt_grows_to_max :
  forall (o : optsR), 0 < dt_init _ o -> dt_init _ o <= dt_max _ o ->
    half _ o = 1/2 -> 0 < floor_ _ o -> adaptive _ o = true ->
    dt_max _ o <= 1/2 * (dt_init _ o / floor_ _ o) ->
  forall n i, (i < n)%nat ->
    nth_error (ahist OpsR o (ainit OpsR o) 0 (repeat stat n)) i
    = Some (Some (if Nat.ltb (S (window _ o)) i then dt_max _ o else dt_init _ o,
                  if Nat.ltb (window _ o) i then dt_max _ o else dt_init _ o)).
Proof. exact dt_grows_to_max. Qed.
Print Assumptions C12_dt_grows_to_max.

(* ---- the retry loop wrapped around the real solve step (Model.Update) ---- *)
(* an answered update: the result is the solve step AT THE REPORTED dt; the reported dt is proposal * mult^r with
   r <= max_retries + 1; every earlier (larger) attempt was refused by the step itself; bookkeeping uses the dt used *)
Theorem C12_update_answered :
  forall (a : nat -> R) (n : nat) (es : list (edge OpsR)) (fixed : list nat) (solve : (nat -> R) -> nat -> R)
         (repin : option (C OpsR)) (expi : R -> C OpsR) (gamma u : R) (o : opts OpsR) s idx i psi mu dt s' out,
    update OpsR a n es fixed solve repin expi gamma u o s idx i psi mu = Some (dt, s', out) ->
    attempt OpsR a n es fixed solve repin expi gamma u i psi mu dt = Some out /\
    (exists r, (r <= max_retries _ o + 1)%nat /\ dt = tentative _ s * mult _ o ^ r /\
               (forall j, (j < r)%nat ->
                  attempt OpsR a n es fixed solve repin expi gamma u i psi mu (tentative _ s * mult _ o ^ j) = None) /\
               (r = 0%nat \/ adaptive _ o = true)) /\
    s' = bookkeep OpsR o s idx dt (dmax OpsR n psi (so_psi _ out)).
Proof. exact update_answered. Qed.
Print Assumptions C12_update_answered.

Theorem C12_update_refused :
  forall (a : nat -> R) (n : nat) (es : list (edge OpsR)) (fixed : list nat) (solve : (nat -> R) -> nat -> R)
         (repin : option (C OpsR)) (expi : R -> C OpsR) (gamma u : R) (o : opts OpsR) s idx i psi mu,
    update OpsR a n es fixed solve repin expi gamma u o s idx i psi mu = None ->
    attempt OpsR a n es fixed solve repin expi gamma u i psi mu (tentative _ s) = None.
Proof. exact update_refused. Qed.
Print Assumptions C12_update_refused.

(* the adaptive solver loop is a run of solve steps with the time steps the controller chose *)
Theorem C12_solver_run_is_run_steps :
  forall (a : nat -> R) (n : nat) (es : list (edge OpsR)) (fixed : list nat) (solve : (nat -> R) -> nat -> R)
         (repin : option (C OpsR)) (expi : R -> C OpsR) (gamma u : R) (o : opts OpsR) l s idx psi mu,
    let ans := answered (solver_run OpsR a n es fixed solve repin expi gamma u o s idx psi mu l) in
    run_steps OpsR a n es fixed solve repin expi gamma u psi mu
      (map (fun p => with_dt OpsR (fst p) (snd p)) (combine l (map fst ans)))
    = map (fun p => Some (snd p)) ans.
Proof. exact solver_run_is_run_steps. Qed.
Print Assumptions C12_solver_run_is_run_steps.
