(* C11 - the trajectory depends only on the physics and can be resumed. *)
From Coq Require Import List Arith Bool ZArith.
From PyTdgl Require Import Model.Runner Proofs.RunnerP.
Import ListNotations.

Theorem C11_observer_independent :
  forall (Tm : Type) (t0 : Tm) (tadd : Tm -> Tm -> Tm) (St Rec : Type)
         (updf : nat -> Tm -> Tm -> St -> Tm * St * Rec) (dt0 : Tm) (v0 : St)
         (k k' N N' : nat) (f f' : frame Tm St Rec),
    In f (run_frames Tm t0 tadd St Rec updf k dt0 v0 N) ->
    In f' (run_frames Tm t0 tadd St Rec updf k' dt0 v0 N') ->
    f_step _ _ _ f = f_step _ _ _ f' ->
    f_vals _ _ _ f = f_vals _ _ _ f' /\ f_time _ _ _ f = f_time _ _ _ f' /\ f_dt _ _ _ f = f_dt _ _ _ f'.
Proof. exact observer_independent. Qed.
Print Assumptions C11_observer_independent.

Theorem C11_resume_concat :
  forall (Tm : Type) (t0 : Tm) (tadd : Tm -> Tm -> Tm) (St Rec : Type)
         (updf : nat -> Tm -> Tm -> St -> Tm * St * Rec) (dt0 : Tm) (v0 : St),
    (forall i j t t' d v, updf i t d v = updf j t' d v) ->
  forall n m,
    V Tm t0 tadd St Rec updf dt0 v0 (n + m)
      = V Tm t0 tadd St Rec updf (D Tm t0 tadd St Rec updf dt0 v0 n) (V Tm t0 tadd St Rec updf dt0 v0 n) m
    /\ D Tm t0 tadd St Rec updf dt0 v0 (n + m)
      = D Tm t0 tadd St Rec updf (D Tm t0 tadd St Rec updf dt0 v0 n) (V Tm t0 tadd St Rec updf dt0 v0 n) m.
Proof. exact resume_concat. Qed.
Print Assumptions C11_resume_concat.

(* ... hence every frame of the continuation (any save interval) is the uninterrupted run's frame n steps later *)
Theorem C11_resume_frames :
  forall (Tm : Type) (t0 : Tm) (tadd : Tm -> Tm -> Tm) (St Rec : Type)
         (updf : nat -> Tm -> Tm -> St -> Tm * St * Rec) (dt0 : Tm) (v0 : St),
    (forall i j t t' d v, updf i t d v = updf j t' d v) ->
  forall (k n m : nat) (f : frame Tm St Rec),
    In f (run_frames Tm t0 tadd St Rec updf k
            (D Tm t0 tadd St Rec updf dt0 v0 n) (V Tm t0 tadd St Rec updf dt0 v0 n) m) ->
    f_vals _ _ _ f = V Tm t0 tadd St Rec updf dt0 v0 (n + f_step _ _ _ f) /\
    f_dt _ _ _ f = D Tm t0 tadd St Rec updf dt0 v0 (n + f_step _ _ _ f).
Proof. exact resume_frames. Qed.
Print Assumptions C11_resume_frames.
