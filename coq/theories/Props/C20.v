(* C20 - fields and potentials computed from currents are linear and correct.
   The clause "the closed-form loop potential matches numerical quadrature" involves complete elliptic
   integrals, which neither Coq's Reals nor Coquelicot/Interval provide: it is NOT decided by proof
   (numerical comparison in the check, supporting evidence only). *)
From Coq Require Import Reals List Bool.
From PyTdgl Require Import Base.Ops Base.Sums Model.Kernels Model.Screen Proofs.KernelsP Proofs.ScreenP.
Import ListNotations.
Open Scope R_scope.

Theorem C20_bs_vector_si_form :
  forall c0 ex ey ez (srcs : list (cellR * curR)),
    bs_vector OpsR c0 srcs ex ey ez =
    (Rsum (fun s : cellR * curR => pref OpsR c0 (fst s) ex ey ez * snd (snd s) * (ez - c_z _ (fst s))) srcs,
     - Rsum (fun s : cellR * curR => pref OpsR c0 (fst s) ex ey ez * fst (snd s) * (ez - c_z _ (fst s))) srcs,
     Rsum (fun s : cellR * curR => pref OpsR c0 (fst s) ex ey ez * fst (snd s) * (ey - c_y _ (fst s))) srcs
     - Rsum (fun s : cellR * curR => pref OpsR c0 (fst s) ex ey ez * snd (snd s) * (ex - c_x _ (fst s))) srcs).
Proof. exact bs_vector_si_form. Qed.
Print Assumptions C20_bs_vector_si_form.

Theorem C20_scalar_is_z_of_vector :
  forall c0 ex ey ez (srcs : list (cellR * curR)),
    bs_z OpsR c0 srcs ex ey ez = snd (bs_vector OpsR c0 srcs ex ey ez).
Proof. exact scalar_is_z_of_vector. Qed.
Print Assumptions C20_scalar_is_z_of_vector.

Theorem C20_bs_vector_linear :
  forall c0 ex ey ez (gs : list cellR) (a b : R) (j1 j2 : list curR),
    length j1 = length gs -> length j2 = length gs ->
    let B := fun js => bs_vector OpsR c0 (with_currents gs js) ex ey ez in
    fst (fst (B (lincomb a b j1 j2))) = a * fst (fst (B j1)) + b * fst (fst (B j2)) /\
    snd (fst (B (lincomb a b j1 j2))) = a * snd (fst (B j1)) + b * snd (fst (B j2)) /\
    snd (B (lincomb a b j1 j2)) = a * snd (B j1) + b * snd (B j2).
Proof. exact bs_vector_linear. Qed.
Print Assumptions C20_bs_vector_linear.

Theorem C20_total_is_sum_of_parts :
  forall c0 ex ey ez (gs : list cellR) (js jn : list curR),
    length js = length gs -> length jn = length gs ->
    snd (bs_vector OpsR c0 (with_currents gs (lincomb 1 1 js jn)) ex ey ez)
    = snd (bs_vector OpsR c0 (with_currents gs js) ex ey ez) + snd (bs_vector OpsR c0 (with_currents gs jn) ex ey ez).
Proof. exact total_is_sum_of_parts. Qed.
Print Assumptions C20_total_is_sum_of_parts.

(* the Coulomb-kernel potential: direct double sum and linearity (shared with C13) *)
Theorem C20_coulomb_kernel_is_double_sum :
  forall (srcs : list sourceR) (ex ey : R),
    kernel_at OpsR srcs ex ey
    = (Rsum (fun s : sourceR => fst (term OpsR s ex ey)) srcs, Rsum (fun s : sourceR => snd (term OpsR s ex ey)) srcs).
Proof. exact kernel_is_double_sum. Qed.
Theorem C20_coulomb_kernel_homogeneous :
  forall (c : R) (srcs : list sourceR) (ex ey : R),
    kernel_at OpsR (map (scaleJ c) srcs) ex ey = vscale OpsR c (kernel_at OpsR srcs ex ey).
Proof. exact kernel_homogeneous. Qed.
Print Assumptions C20_coulomb_kernel_homogeneous.

Theorem C20_convert_roundtrip :
  forall mu0 x, mu0 <> 0 -> B_to_H OpsR mu0 (H_to_B OpsR mu0 x) = x /\ H_to_B OpsR mu0 (B_to_H OpsR mu0 x) = x.
Proof. exact convert_roundtrip. Qed.
Print Assumptions C20_convert_roundtrip.

Theorem C20_distance_kernels_spec :
  forall a b : R * R,
    sqdist2 OpsR a b = (fst a - fst b) * (fst a - fst b) + (snd a - snd b) * (snd a - snd b) /\
    dist2 OpsR a b = sqrt (sqdist2 OpsR a b) /\ dist2 OpsR a b * dist2 OpsR a b = sqdist2 OpsR a b /\
    dist2 OpsR a b = dist2 OpsR b a.
Proof. exact distance_kernels_spec. Qed.
Print Assumptions C20_distance_kernels_spec.
