(* C04 - observables are invariant under gauge transformations.
   A gauge transformation is a unit complex number g_i = e^{i chi_i} per site; links transform as
   U'_ij = U_ij g_i conj(g_j) (= exp(-i(theta_ij + chi_j - chi_i))) and psi'_i = g_i psi_i. *)
From Coq Require Import Reals List Arith.
From PyTdgl Require Import Base.Ops Base.Cplx Model.FV Model.Euler Model.Step
     Proofs.EulerR Proofs.FVR Proofs.FVC Proofs.StepP.
Import ListNotations.
Open Scope R_scope.

Theorem C04_cov_grad_covariant :
  forall (gz : nat -> RC), (forall i, cabs2 OpsR (gz i) = 1) ->
  forall (es : list edgeR) (U : list RC) (psi : nat -> RC),
    cgrad_list OpsR es (gauge_links gz es U) (gauge_psi gz psi)
    = map (fun '(e, x) => cxmul (gz (e_i _ e)) x) (combine es (cgrad_list OpsR es U psi)).
Proof. exact cov_grad_covariant. Qed.
Print Assumptions C04_cov_grad_covariant.

Theorem C04_cov_lap_covariant :
  forall (a : nat -> R) (gz : nat -> RC), (forall i, cabs2 OpsR (gz i) = 1) ->
  forall (es : list edgeR) (U : list RC) (psi : nat -> RC) (r : nat),
    capplyR (clap_free OpsR a [] es (gauge_links gz es U)) (gauge_psi gz psi) r
    = cxmul (gz r) (capplyR (clap_free OpsR a [] es U) psi r).
Proof. exact cov_lap_covariant. Qed.
Print Assumptions C04_cov_lap_covariant.

Theorem C04_supercurrent_invariant :
  forall (gz : nat -> RC), (forall i, cabs2 OpsR (gz i) = 1) ->
  forall (es : list edgeR) (U : list RC) (psi : nat -> RC), length U = length es ->
    supercurrent OpsR es (gauge_links gz es U) (gauge_psi gz psi) = supercurrent OpsR es U psi.
Proof. exact supercurrent_invariant. Qed.
Print Assumptions C04_supercurrent_invariant.

Theorem C04_euler_covariant :
  forall (U g psi lap : RC) (abs2 eps gamma u dt : R), cabs2 OpsR g = 1 ->
    site_update OpsR U (cmul OpsR g psi) abs2 eps gamma u dt (cmul OpsR g lap)
    = match site_update OpsR U psi abs2 eps gamma u dt lap with
      | Some (x, p) => Some (x, cmul OpsR g p) | None => None end.
Proof. exact euler_covariant. Qed.
Print Assumptions C04_euler_covariant.

(* a whole solve step, pinned (terminal) rows included: same verdict, |psi| (psi up to the gauge phase),
   same mu, same supercurrent and normal current on every edge *)
Theorem C04_step_covariant :
  forall (a : nat -> R) (n : nat) (es : list edgeR) (fixed : list nat)
         (solve : (nat -> R) -> nat -> R) (tlink : nat -> RC) (gz : nat -> RC),
    (forall i, cabs2 OpsR (gz i) = 1) -> NoDup fixed ->
  forall (U : list RC) (psi : nat -> RC) (eps : nat -> R) (gamma u dt : R) (muB dAdt : nat -> R),
    length U = length es ->
    match step OpsR a n es fixed solve tlink None U psi eps gamma u dt muB dAdt,
          step OpsR a n es fixed solve tlink None (gauge_links gz es U) (gauge_psi gz psi) eps gamma u dt muB dAdt with
    | None, None => True
    | Some o, Some o' =>
        (forall r, so_psi _ o' r = cxmul (gz r) (so_psi _ o r)) /\
        (forall r, ob_mu _ (so_obs _ o') r = ob_mu _ (so_obs _ o) r) /\
        (forall k, ob_Js _ (so_obs _ o') k = ob_Js _ (so_obs _ o) k) /\
        (forall k, ob_Jn _ (so_obs _ o') k = ob_Jn _ (so_obs _ o) k)
    | _, _ => False
    end.
Proof. exact step_covariant. Qed.
Print Assumptions C04_step_covariant.

(* every step of a run: runs whose links are gauge-related at every step (time-dependent potentials included), whose
   initial order parameters are gauge-related and whose initial potentials agree refuse the same steps and produce the
   same potential and currents and gauge-related order parameters at every step.  The phase factor exp(-i mu dt) of
   each step is formed from the previous step's potential (expi: any function). *)
Theorem C04_run_covariant :
  forall (a : nat -> R) (n : nat) (es : list edgeR) (fixed : list nat)
         (solve : (nat -> R) -> nat -> R) (expi : R -> RC) (gz : nat -> RC),
    (forall i, cabs2 OpsR (gz i) = 1) -> NoDup fixed ->
  forall (gamma u : R) (l : list (step_in OpsR)) (psi psiG : nat -> RC) (mu muG : nat -> R),
    Forall (fun i => length (si_U _ i) = length es) l ->
    (forall r, psiG r = cxmul (gz r) (psi r)) -> (forall r, muG r = mu r) ->
    Forall2 (entry_gauged gz)
      (run_steps OpsR a n es fixed solve None expi gamma u psi mu l)
      (run_steps OpsR a n es fixed solve None expi gamma u psiG muG (map (gauge_in es gz) l)).
Proof. exact run_covariant. Qed.
Print Assumptions C04_run_covariant.

Example C04_nonvacuous : cabs2 OpsR ((0, 1) : RC) = 1.
Proof. unfold cabs2. cbn. ring. Qed.
