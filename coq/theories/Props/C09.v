(* C09 - simulations are deterministic and reproducible bit for bit.
   PARTIAL: what a theorem can carry is the logic of the parallel kernels, of the validation sampling and of the
   edge enumeration.  Compiler-level reassociation under fastmath, BLAS/SuperLU determinism, dict ordering and
   process-level behaviour are runtime facts the model cannot exhibit: they are measured (bit-identity across fresh
   processes, thread counts 1..16, output locations, hash seeds). *)
From Coq Require Import List Arith Bool Permutation QArith.
From PyTdgl Require Import Model.Sched Model.Validate Proofs.SchedP.
Import ListNotations.
Close Scope Q_scope.

Theorem C09_prange_schedule_independent :
  forall (Row : Type) (body : nat -> Row) n order (b0 b1 : buffer Row),
    (forall i, i < n -> In i order) ->
    forall i, i < n -> run_schedule Row body order b0 i = sequential Row body n b1 i.
Proof. exact prange_schedule_independent. Qed.
Print Assumptions C09_prange_schedule_independent.

Theorem C09_prange_permutation :
  forall (Row : Type) (body : nat -> Row) n order (b0 : buffer Row),
    Permutation order (seq 0 n) -> forall i, i < n -> run_schedule Row body order b0 i = sequential Row body n b0 i.
Proof. exact prange_permutation. Qed.
Print Assumptions C09_prange_permutation.

Theorem C09_buffer_fully_written :
  forall (Row : Type) (body : nat -> Row) n order (b0 : buffer Row),
    (forall i, i < n -> In i order) -> forall i, i < n -> run_schedule Row body order b0 i = body i.
Proof. exact buffer_fully_written. Qed.
Print Assumptions C09_buffer_fully_written.

Theorem C09_validation_rng_isolated :
  forall (I : list Q) samples, samples <> [] -> accepts_td (fun _ => I) samples = accepts_currents I.
Proof. exact validation_rng_isolated. Qed.
Print Assumptions C09_validation_rng_isolated.

Theorem C09_edges_triangle_order :
  forall n ts1 ts2, Permutation ts1 ts2 -> get_edges n ts1 = get_edges n ts2.
Proof. exact edges_triangle_order. Qed.
Theorem C09_edges_vertex_rotation :
  forall n a b c ts,
    get_edges n ((a, b, c) :: ts) = get_edges n ((b, c, a) :: ts) /\
    get_edges n ((a, b, c) :: ts) = get_edges n ((a, c, b) :: ts).
Proof. exact edges_vertex_rotation. Qed.
Print Assumptions C09_edges_vertex_rotation.
