(* Model of tdgl/finite_volume/operators.py: the four sparse builders in COO form
   (rows, cols, values exactly as the code concatenates them, per edge), the
   semantics of sp.csr_array((values,(rows,cols))) (duplicates are summed), and the
   covariant (link-variable) operators with pinned rows.  Definitions only. *)
From Coq Require Import ZArith List Arith Bool.
From PyTdgl Require Import Base.Ops Base.Cplx.
Import ListNotations.

Section FV.
  Variable O : Ops.
  Local Notation T := (T O).
  Local Notation C := (C O).
  Local Notation "x + y" := (o_add O x y).
  Local Notation "x - y" := (o_sub O x y).
  Local Notation "x * y" := (o_mul O x y).
  Local Notation "x / y" := (o_div O x y).
  Local Notation "- x" := (o_opp O x).
  Local Notation "'#' z" := (o_of_Z O z) (at level 9).

  (* one mesh edge: sites (i,j) with i<j as get_edges sorts them, its length e_ij,
     dual (Voronoi) length s_ij, direction r_j - r_i, and whether it is a boundary edge *)
  Record edge := mkEdge {
    e_i : nat; e_j : nat; e_len : T; e_dual : T; e_dx : T; e_dy : T; e_bdry : bool }.

  Definition coo (V : Type) := list (nat * nat * V).

  (* ---- semantics of a COO matrix acting on a vector: duplicates add up ---- *)
  Definition apply_coo (m : coo T) (v : nat -> T) (r : nat) : T :=
    fold_right (fun '(r', c, x) acc => if Nat.eqb r' r then x * v c + acc else acc) (# 0) m.

  Definition capply_coo (m : coo C) (v : nat -> C) (r : nat) : C :=
    fold_right (fun '(r', c, x) acc => if Nat.eqb r' r then cadd O (cmul O x (v c)) acc else acc)
               (c0 O) m.

  (* dense entry (sum of duplicates) *)
  Definition entry (m : coo T) (r c : nat) : T :=
    fold_right (fun '(r', c', x) acc => if (Nat.eqb r' r && Nat.eqb c' c)%bool then x + acc else acc) (# 0) m.
  Definition centry (m : coo C) (r c : nat) : C :=
    fold_right (fun '(r', c', x) acc => if (Nat.eqb r' r && Nat.eqb c' c)%bool then cadd O x acc else acc) (c0 O) m.

  Variable a : nat -> T.   (* Voronoi cell areas *)

  (* build_divergence: weights = dual_edge_lengths;
     values = [w/a[e0], -w/a[e1]], rows=[e0,e1], cols=[k,k] *)
  Fixpoint div_coo (k : nat) (es : list edge) : coo T :=
    match es with
    | [] => []
    | e :: tl => (e_i e, k, e_dual e / a (e_i e))
              :: (e_j e, k, (- e_dual e) / a (e_j e))
              :: div_coo (S k) tl
    end.

  (* build_gradient (no link variables): weights = 1/edge_lengths;
     rows=[k,k], cols=[e1,e0], values=[1*w, -w] *)
  Fixpoint grad_coo (k : nat) (es : list edge) : coo T :=
    match es with
    | [] => []
    | e :: tl => (k, e_j e, # 1 / e_len e)
              :: (k, e_i e, - (# 1 / e_len e))
              :: grad_coo (S k) tl
    end.

  (* build_laplacian (no link variables, no fixed sites): weights = dual/len *)
  Definition lap_w (e : edge) : T := e_dual e / e_len e.
  Fixpoint lap_coo (es : list edge) : coo T :=
    match es with
    | [] => []
    | e :: tl => (e_i e, e_j e, lap_w e / a (e_i e))
              :: (e_j e, e_i e, lap_w e / a (e_j e))
              :: (e_i e, e_i e, (- lap_w e) / a (e_i e))
              :: (e_j e, e_j e, (- lap_w e) / a (e_j e))
              :: lap_coo tl
    end.

  (* build_neumann_boundary_laplacian: one column per boundary edge (in edge order) *)
  Fixpoint bflux_coo (b : nat) (es : list edge) : coo T :=
    match es with
    | [] => []
    | e :: tl =>
        if e_bdry e then
          (e_i e, b, e_len e / (# 2 * a (e_i e)))
          :: (e_j e, b, e_len e / (# 2 * a (e_j e)))
          :: bflux_coo (S b) tl
        else bflux_coo b tl
    end.

  (* ---------------- covariant operators (link variables U_k per edge) -------- *)
  (* build_gradient with link_exponents: values = [U*w, -w] *)
  Fixpoint cgrad_coo (k : nat) (es : list edge) (U : list C) : coo C :=
    match es, U with
    | e :: tl, u :: us =>
        (k, e_j e, cscale O (# 1 / e_len e) u)
        :: (k, e_i e, c_of O (- (# 1 / e_len e)))
        :: cgrad_coo (S k) tl us
    | _, _ => []
    end.

  Definition is_fixed (fixed : list nat) (i : nat) : bool := existsb (Nat.eqb i) fixed.

  (* build_laplacian with link variables and fixed sites:
     off-diagonal w*U/a_i, w*conj(U)/a_j, diagonal -w/a; rows of fixed sites are
     dropped and replaced by a single identity entry *)
  Fixpoint clap_free (fixed : list nat) (es : list edge) (U : list C) : coo C :=
    match es, U with
    | e :: tl, u :: us =>
        let r0 := negb (is_fixed fixed (e_i e)) in
        let r1 := negb (is_fixed fixed (e_j e)) in
        (if r0 then [(e_i e, e_j e, cdivr O (cscale O (lap_w e) u) (a (e_i e)))] else [])
        ++ (if r1 then [(e_j e, e_i e, cdivr O (cscale O (lap_w e) (cconj O u)) (a (e_j e)))] else [])
        ++ (if r0 then [(e_i e, e_i e, c_of O ((- lap_w e) / a (e_i e)))] else [])
        ++ (if r1 then [(e_j e, e_j e, c_of O ((- lap_w e) / a (e_j e)))] else [])
        ++ clap_free fixed tl us
    | _, _ => []
    end.
  Definition clap_coo (fixed : list nat) (es : list edge) (U : list C) : coo C :=
    clap_free fixed es U ++ map (fun f => (f, f, c1 O)) fixed.

  (* get_supercurrent: (psi.conjugate()[edges[:,0]] * (psi_gradient @ psi)).imag *)
  Definition matvec_c (m : coo C) (v : nat -> C) (nrows : nat) : list C :=
    map (capply_coo m v) (seq 0 nrows).
  Definition supercurrent_of (es : list edge) (psi : nat -> C) (Gpsi : list C) : list T :=
    map (fun '(e, x) => im (cmul O (cconj O (psi (e_i e))) x)) (combine es Gpsi).
  Definition supercurrent (es : list edge) (U : list C) (psi : nat -> C) : list T :=
    supercurrent_of es psi (matvec_c (cgrad_coo 0 es U) psi (length es)).

  Definition cgrad_list (es : list edge) (U : list C) (psi : nat -> C) : list C :=
    map (fun '(e, u) => cadd O (cmul O (cscale O (# 1 / e_len e) u) (psi (e_j e)))
                               (cmul O (c_of O (- (# 1 / e_len e))) (psi (e_i e))))
        (combine es U).

  (* ---------------- list ("semantic") forms used by the theorems ------------- *)
  Definition grad_list (es : list edge) (g : nat -> T) : list T :=
    map (fun e => (# 1 / e_len e) * g (e_j e) + (- (# 1 / e_len e)) * g (e_i e)) es.

  Fixpoint div_sem (es : list edge) (F : list T) (r : nat) : T :=
    match es, F with
    | e :: tl, f :: fs =>
        (if Nat.eqb (e_i e) r then (e_dual e / a (e_i e)) * f else # 0)
        + ((if Nat.eqb (e_j e) r then ((- e_dual e) / a (e_j e)) * f else # 0)
           + div_sem tl fs r)
    | _, _ => # 0
    end.
End FV.
