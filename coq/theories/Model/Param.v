(* Model of tdgl/parameter.py: Parameter / CompositeParameter expression trees.
   Leaves: 2-D parameter, 3-D parameter, time-dependent parameter (a 2-D function of t), numbers.
   Evaluation mirrors Parameter.__call__/_evaluate and CompositeParameter.__call__; the value of a
   parameter leaf at the evaluation point is data (the user function is not modelled).  Definitions only. *)
From Coq Require Import ZArith QArith List Bool Arith.
Import ListNotations.

Inductive kind := K2 | K3 | KT.
Inductive op := Add | Sub | Mul | Div | Pow.
Inductive expr :=
| Num (q : Q)                         (* int or float: Python compares and combines them numerically *)
| Par (k : kind) (id : nat)           (* id identifies (function code, kwargs) *)
| Comp (o : op) (l r : expr).

Inductive err := TypeErr | ZeroDiv | Unsupported.
Inductive res (A : Type) := Val (a : A) | Raise (e : err).
Arguments Val {A} a. Arguments Raise {A} e.

Definition is_num (e : expr) : bool := match e with Num _ => true | _ => false end.

(* CompositeParameter.__init__: both operands numbers -> TypeError; anything else is accepted *)
Definition mk_comp (o : op) (l r : expr) : res expr :=
  if (is_num l && is_num r)%bool then Raise TypeErr else Val (Comp o l r).

(* time_dependent: a leaf's own flag; a composite is time-dependent iff some operand is *)
Fixpoint td (e : expr) : bool :=
  match e with
  | Num _ => false
  | Par KT _ => true
  | Par _ _ => false
  | Comp _ l r => (td l || td r)%bool
  end.

(* the call f(x, y, z=?, t=?) : which optional arguments were supplied *)
Record env := { has_z : bool; has_t : bool; leafval : nat -> Q }.

(* Parameter._evaluate: z and t are forwarded to the user function when given *)
Definition eval_par (top : bool) (k : kind) (id : nat) (en : env) : res Q :=
  match k with
  | K2 => if has_z en then Raise TypeErr                       (* unexpected keyword z *)
          else if (top && has_t en)%bool then Raise TypeErr    (* unexpected keyword t *)
          else Val (leafval en id)
  | K3 => if negb (has_z en) then Raise TypeErr                (* missing positional z *)
          else if (top && has_t en)%bool then Raise TypeErr
          else Val (leafval en id)
  | KT => if has_z en then Raise TypeErr
          else if has_t en then Val (leafval en id) else Raise TypeErr   (* missing keyword-only t *)
  end.

Fixpoint qpow (q : Q) (n : nat) : Q := match n with O => 1 | S m => q * qpow q m end.

Definition apply_op (o : op) (a b : Q) : res Q :=
  match o with
  | Add => Val (Qred (a + b))
  | Sub => Val (Qred (a - b))
  | Mul => Val (Qred (a * b))
  | Div => if Qeq_bool b 0 then Raise ZeroDiv else Val (Qred (a / b))
  | Pow => (* only small natural exponents are modelled *)
      match Qred b with
      | Qmake (Zpos p) 1 => if Pos.leb p 4 then Val (Qred (qpow a (Pos.to_nat p))) else Raise Unsupported
      | Qmake Z0 1 => Val 1
      | _ => Raise Unsupported
      end
  end.

(* CompositeParameter.__call__: operands evaluated left then right; a time-dependent operand receives t
   (when given), the others are called without t; numbers are themselves *)
Fixpoint eval (top : bool) (e : expr) (en : env) : res Q :=
  match e with
  | Num q => Val q
  | Par k id => eval_par top k id en
  | Comp o l r =>
      let sub (x : expr) :=
        match x with
        | Num q => Val q
        | _ => if td x then eval false x en
               else eval false x (Build_env (has_z en) false (leafval en))
        end in
      match sub l with
      | Raise e' => Raise e'
      | Val a => match sub r with
                 | Raise e' => Raise e'
                 | Val b => apply_op o a b
                 end
      end
  end.

(* equality: structural (numbers numerically; parameters by (function, kwargs) identity) *)
Definition kind_eqb (a b : kind) : bool :=
  match a, b with K2, K2 | K3, K3 | KT, KT => true | _, _ => false end.
Definition op_eqb (a b : op) : bool :=
  match a, b with Add, Add | Sub, Sub | Mul, Mul | Div, Div | Pow, Pow => true | _, _ => false end.
Fixpoint eqb (a b : expr) : bool :=
  match a, b with
  | Num p, Num q => Qeq_bool p q
  | Par k i, Par k' i' => (kind_eqb k k' && Nat.eqb i i')%bool
  | Comp o l r, Comp o' l' r' => (op_eqb o o' && eqb l l' && eqb r r')%bool
  | _, _ => false
  end.

(* caches: the set of parameter ids whose cache is non-empty; _clear_cache empties the node itself and,
   recursively, both operands that are parameters (numbers have no cache) *)
Fixpoint ids (e : expr) : list nat :=
  match e with Num _ => [] | Par _ i => [i] | Comp _ l r => ids l ++ ids r end.
Definition clear_cache (e : expr) (dirty : list nat) : list nat :=
  filter (fun i => negb (existsb (Nat.eqb i) (ids e))) dirty.

(* as found: the right operand's cache was never cleared and a numeric right operand raised *)
Fixpoint clear_cache_as_found (e : expr) (dirty : list nat) : res (list nat) :=
  match e with
  | Num _ => Val dirty
  | Par _ i => Val (filter (fun j => negb (Nat.eqb j i)) dirty)
  | Comp _ l r =>
      match r with
      | Num _ => Raise TypeErr                         (* AttributeError: 'int' object has no attribute '_cache' *)
      | _ => match l with Num _ => Val dirty | _ => clear_cache_as_found l dirty end
      end
  end.

(* enumeration shared with the harness: all composites whose operands have depth <= 1 *)
Definition leaves : list expr := [Par K2 0; Par K3 1; Par KT 2; Num 2; Num (1#2)].
Definition ops : list op := [Add; Sub; Mul; Div; Pow].
Definition comps_over (pool : list expr) : list (res expr) :=
  flat_map (fun o => flat_map (fun l => map (fun r => mk_comp o l r) pool) pool) ops.
Definition keep {A} (l : list (res A)) : list A :=
  flat_map (fun x => match x with Val a => [a] | Raise _ => [] end) l.
Definition depth1 : list expr := keep (comps_over leaves).
Definition pool2 : list expr := leaves ++ depth1.
