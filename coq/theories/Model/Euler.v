(* Model of TDGLSolver.solve_for_psi_squared (tdgl/solver/solver.py), one site,
   and its all-sites-or-refuse lift.  Definitions only. *)
From Coq Require Import ZArith List.
From PyTdgl Require Import Base.Ops Base.Cplx.
Import ListNotations.
Local Open Scope Z_scope.

Section Euler.
  Variable O : Ops.
  Local Notation T := (T O).
  Local Notation C := (C O).
  Local Notation "x + y" := (o_add O x y).
  Local Notation "x - y" := (o_sub O x y).
  Local Notation "x * y" := (o_mul O x y).
  Local Notation "x / y" := (o_div O x y).
  Local Notation "'#' z" := (o_of_Z O z) (at level 9).

  (* z = U * gamma**2 / 2 * psi            (evaluation order of the Python) *)
  Definition z_code (U psi : C) (gamma : T) : C :=
    cmul O (cdivr O (cscale O (gamma * gamma) U) (# 2)) psi.

  (* w = z*abs2 + U*(psi + (dt/u)*sqrt(1+gamma**2*abs2)*((eps-abs2)*psi + lap)) *)
  Definition w_code (U psi : C) (abs2 eps gamma u dt : T) (lap : C) : C :=
    let z := z_code U psi gamma in
    cadd O (cscale O abs2 z)
      (cmul O U
         (cadd O psi
            (cscale O ((dt / u) * o_sqrt O (# 1 + (gamma * gamma) * abs2))
               (cadd O (cscale O (eps - abs2) psi) lap)))).

  Record site_mid := { m_z : C; m_w : C; m_c : T; m_t : T; m_s : T; m_w2 : T; m_D : T }.

  (* the discriminant (2c+1)^2 - 4|z|^2|w|^2 is evaluated as 1 + 4c - 4t^2 with t = Im(w conj z) (|z|^2|w|^2 = c^2 + t^2):
     fix F49, no cancellation of the two O(gamma^8) terms *)
  Definition site_mid_of (z w : C) : site_mid :=
    let c := re w * re z + im w * im z in
    let t := im w * re z - re w * im z in
    let s := # 2 * c + # 1 in
    let w2 := cabs2 O w in
    let D := (# 1 + # 4 * c) - # 4 * (t * t) in
    {| m_z := z; m_w := w; m_c := c; m_t := t; m_s := s; m_w2 := w2; m_D := D |}.

  (* The code raises inside np.errstate(...) when an intermediate overflows or is
     invalid; modelled as "some intermediate is not finite". *)
  Definition mid_finite (m : site_mid) : bool :=
    (o_isfin O (re (m_w m)) && o_isfin O (im (m_w m)) && o_isfin O (m_c m) && o_isfin O (m_t m)
     && o_isfin O (m_s m) && o_isfin O (m_w2 m) && o_isfin O (m_D m))%bool.

  (* everything after z and w are known.  None = refused *)
  Definition site_finish (z w : C) : option (T * C) :=
    let m := site_mid_of z w in
    if negb (mid_finite m) then None
    else if o_ltb O (m_D m) (# 0) then None
    else
      let x := (# 2 * m_w2 m) / (m_s m + o_sqrt O (m_D m)) in
      Some (x, csub O w (cscale O x z)).

  Definition site_update (U psi : C) (abs2 eps gamma u dt : T) (lap : C)
    : option (T * C) :=
    site_finish (z_code U psi gamma) (w_code U psi abs2 eps gamma u dt lap).

  (* all sites or refuse (xp.any(discriminant < 0) -> None) *)
  Record site_in := { i_U : C; i_psi : C; i_abs2 : T; i_eps : T; i_lap : C }.

  Fixpoint sites_update (gamma u dt : T) (l : list site_in) : option (list (T * C)) :=
    match l with
    | [] => Some []
    | s :: tl =>
        match site_update (i_U s) (i_psi s) (i_abs2 s) (i_eps s) gamma u dt (i_lap s),
              sites_update gamma u dt tl with
        | Some r, Some rs => Some (r :: rs)
        | _, _ => None
        end
    end.

  (* ---- documentation (docs/background.rst), eqs. for z and w ----
     z = (gamma^2/2) * e^{-i mu dt} * psi
     w = z |psi|^2 + e^{-i mu dt} ( psi + dt/u * sqrt(1+gamma^2|psi|^2)
                                     * ((eps - |psi|^2) psi + lap) )          *)
  Definition z_doc (U psi : C) (gamma : T) : C :=
    cscale O ((gamma * gamma) / # 2) (cmul O U psi).
  Definition w_doc (U psi : C) (abs2 eps gamma u dt : T) (lap : C) : C :=
    cadd O (cscale O abs2 (z_doc U psi gamma))
      (cmul O U
         (cadd O psi
            (cscale O ((dt / u) * o_sqrt O (# 1 + (gamma * gamma) * abs2))
               (cadd O (cscale O (eps - abs2) psi) lap)))).
End Euler.
