(* Model of the dual (Voronoi) construction of tdgl/finite_volume/util.py and mesh.py:
   generate_voronoi_vertices (circumcentre formula), the kite decomposition of a triangle around its
   circumcentre (whose per-site sums are the Voronoi cell areas on a locally Delaunay, unencroached mesh),
   the dual edge length rule of get_dual_edge_lengths, and the edge geometry of EdgeMesh.from_mesh.
   Definitions only. *)
From Coq Require Import ZArith List.
From PyTdgl Require Import Base.Ops.
Import ListNotations.

Section MeshGeom.
  Variable O : Ops.
  Local Notation T := (T O).
  Local Notation "x + y" := (o_add O x y).
  Local Notation "x - y" := (o_sub O x y).
  Local Notation "x * y" := (o_mul O x y).
  Local Notation "x / y" := (o_div O x y).
  Local Notation "'#' z" := (o_of_Z O z) (at level 9).

  Definition pt := (T * T)%type.

  (* circumcentre of (A, B, C), exactly as the code computes it: B, C relative to A *)
  Definition circumcentre (A B C : pt) : pt :=
    let bx := fst B - fst A in let by_ := snd B - snd A in
    let cx := fst C - fst A in let cy := snd C - snd A in
    let D := # 2 * bx * cy - # 2 * by_ * cx in
    let b2 := bx * bx + by_ * by_ in
    let c2 := cx * cx + cy * cy in
    ((cy * b2 - by_ * c2) / D + fst A, (bx * c2 - cx * b2) / D + snd A).

  Definition sqdist (P Q : pt) : T :=
    (fst P - fst Q) * (fst P - fst Q) + (snd P - snd Q) * (snd P - snd Q).
  Definition mid (P Q : pt) : pt := ((fst P + fst Q) / # 2, (snd P + snd Q) / # 2).

  (* twice the signed area of a polygon given by its vertices in order (shoelace, closing edge included) *)
  Definition cross (P Q : pt) : T := fst P * snd Q - fst Q * snd P.
  Definition tri2 (A B C : pt) : T := cross A B + cross B C + cross C A.
  Definition quad2 (P Q R S : pt) : T := cross P Q + cross Q R + cross R S + cross S P.

  (* the kite of vertex A in triangle (A, B, C) around the point U: A, mid(AB), U, mid(CA) *)
  Definition kite2 (A B C U : pt) : T := quad2 A (mid A B) U (mid C A).

  (* dual edge length: centre-to-centre for an inner edge, centre-to-midpoint for a boundary edge *)
  Definition dual_inner (U1 U2 : pt) : T := o_sqrt O (sqdist U1 U2).
  Definition dual_boundary (U M : pt) : T := o_sqrt O (sqdist U M).
  (* edge geometry *)
  Definition edge_dir (P Q : pt) : pt := (fst Q - fst P, snd Q - snd P).
  Definition edge_len (P Q : pt) : T := o_sqrt O (sqdist P Q).
End MeshGeom.
