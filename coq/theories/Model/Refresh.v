(* Model of MeshOperators.set_link_exponents (tdgl/finite_volume/operators.py):
   first call builds psi_gradient / psi_laplacian from scratch; later calls overwrite
   the link entries in place (sparse __setitem__ with index arrays), never touching
   the diagonal or the rows pinned by terminals.  Also the refresh trigger of
   TDGLSolver.update.  Definitions only. *)
From Coq Require Import ZArith List Arith Bool.
From PyTdgl Require Import Base.Ops Base.Cplx Model.FV.
Import ListNotations.

Section Refresh.
  Variable O : Ops.
  Local Notation T := (T O).
  Local Notation C := (C O).
  Local Notation "x / y" := (o_div O x y).
  Local Notation "'#' z" := (o_of_Z O z) (at level 9).
  Variable a : nat -> T.

  (* a stored sparse matrix, observed through its entries *)
  Definition dense := nat -> nat -> C.

  (* spmatrix[rows, cols] = vals : assignments are applied in order, later ones win *)
  Fixpoint set_many (M : dense) (upd : coo C) : dense :=
    match upd with
    | [] => M
    | (r, c, x) :: tl =>
        set_many (fun r' c' => if (Nat.eqb r' r && Nat.eqb c' c)%bool then x else M r' c') tl
    end.

  (* rows = laplacian_link_rows[free_rows], cols = laplacian_link_cols[free_rows],
     values = concat([w*U/a[e0], w*conj(U)/a[e1]])[free_rows]                         *)
  Definition updI (fixed : list nat) (es : list (edge O)) (U : list C) : coo C :=
    flat_map (fun '(e, u) =>
      if negb (is_fixed fixed (e_i _ e))
      then [(e_i _ e, e_j _ e, cdivr O (cscale O (lap_w O e) u) (a (e_i _ e)))] else [])
      (combine es U).
  Definition updJ (fixed : list nat) (es : list (edge O)) (U : list C) : coo C :=
    flat_map (fun '(e, u) =>
      if negb (is_fixed fixed (e_j _ e))
      then [(e_j _ e, e_i _ e, cdivr O (cscale O (lap_w O e) (cconj O u)) (a (e_j _ e)))] else [])
      (combine es U).
  Definition lap_updates fixed es U : coo C := updI fixed es U ++ updJ fixed es U.

  (* the part of build_laplacian that does not depend on the links *)
  Definition diag_part (fixed : list nat) (es : list (edge O)) : coo C :=
    flat_map (fun e =>
      (if negb (is_fixed fixed (e_i _ e)) then [(e_i _ e, e_i _ e, c_of O (o_div O (o_opp O (lap_w O e)) (a (e_i _ e))))] else [])
      ++ (if negb (is_fixed fixed (e_j _ e)) then [(e_j _ e, e_j _ e, c_of O (o_div O (o_opp O (lap_w O e)) (a (e_j _ e))))] else []))
      es.
  Definition lap_rest (fixed : list nat) (es : list (edge O)) : coo C :=
    diag_part fixed es ++ map (fun f => (f, f, c1 O)) fixed.

  Definition build_lap (fixed : list nat) (es : list (edge O)) (U : list C) : dense :=
    centry O (clap_coo O a fixed es U).
  Definition refresh_lap (fixed : list nat) (es : list (edge O)) (U : list C) (M : dense) : dense :=
    set_many M (lap_updates fixed es U).

  (* gradient: position (k, e1) <- U_k / len_k *)
  Fixpoint grad_updates (k : nat) (es : list (edge O)) (U : list C) : coo C :=
    match es, U with
    | e :: tl, u :: us => (k, e_j _ e, cscale O (# 1 / e_len _ e) u) :: grad_updates (S k) tl us
    | _, _ => []
    end.
  Definition build_grad (es : list (edge O)) (U : list C) : dense := centry O (cgrad_coo O 0 es U).
  Definition refresh_grad (es : list (edge O)) (U : list C) (M : dense) : dense :=
    set_many M (grad_updates 0 es U).

  (* MeshOperators state after a sequence of set_link_exponents calls *)
  Definition ops_after (fixed : list nat) (es : list (edge O)) (U0 : list C) (Us : list (list C))
    : dense * dense :=
    fold_left (fun '(G, L) U => (refresh_grad es U G, refresh_lap fixed es U L)) Us
              (build_grad es U0, build_lap fixed es U0).

  (* --- the refresh trigger in TDGLSolver.update (no screening) ---
     cur = A(t); if not same(cur, prev) then operators.set_link_exponents(cur); prev = cur.
     [same] is the comparison the code uses; the state is (prev, exponents held by the operators). *)
  Section Trigger.
    Variable V : Type.
    Variable same : V -> V -> bool.
    Definition trigger_step (st : V * V) (cur : V) : V * V :=
      let '(prev, held) := st in
      if same cur prev then (cur, held) else (cur, cur).
    Definition trigger_run (A0 : V) (As : list V) : V * V := fold_left trigger_step As (A0, A0).
  End Trigger.
End Refresh.
