(* Model of the screening calculation: the kernel get_A_induced_numba (screening.py), one Polyak
   iteration TDGLSolver.get_induced_vector_potential, and the screening loop of TDGLSolver.update.
   Definitions only. *)
From Coq Require Import ZArith List Arith Bool.
From PyTdgl Require Import Base.Ops.
Import ListNotations.

Section Screen.
  Variable O : Ops.
  Local Notation T := (T O).
  Local Notation "x + y" := (o_add O x y).
  Local Notation "x - y" := (o_sub O x y).
  Local Notation "x * y" := (o_mul O x y).
  Local Notation "x / y" := (o_div O x y).
  Local Notation "'#' z" := (o_of_Z O z) (at level 9).

  Definition vec := (T * T)%type.
  Definition vadd (a b : vec) : vec := (fst a + fst b, snd a + snd b).
  Definition vsub (a b : vec) : vec := (fst a - fst b, snd a - snd b).
  Definition vscale (k : T) (a : vec) : vec := (k * fst a, k * snd a).
  Definition vnorm (a : vec) : T := o_sqrt O (fst a * fst a + snd a * snd a).
  Definition vzero : vec := (# 0, # 0).

  (* a source: site position, area (already multiplied by the unit factor), site current density *)
  Record source := { s_x : T; s_y : T; s_area : T; s_J : vec }.

  (* for j in range(n): tmp += J[j,k] * area[j] / sqrt(dx*dx + dy*dy)   (sequential per edge and component) *)
  Definition kernel_at (srcs : list source) (ex ey : T) : vec :=
    fold_left (fun acc s =>
                 let dx := ex - s_x s in
                 let dy := ey - s_y s in
                 let dr := o_sqrt O (dx * dx + dy * dy) in
                 (fst acc + fst (s_J s) * s_area s / dr, snd acc + snd (s_J s) * s_area s / dr))
              srcs vzero.
  Definition kernel (srcs : list source) (edges : list (T * T)) : list vec :=
    map (fun e => kernel_at srcs (fst e) (snd e)) edges.

  (* the direct double sum written as a sum of per-source terms (what the kernel is supposed to be) *)
  Definition term (s : source) (ex ey : T) : vec :=
    let dx := ex - s_x s in let dy := ey - s_y s in
    let dr := o_sqrt O (dx * dx + dy * dy) in
    (fst (s_J s) * s_area s / dr, snd (s_J s) * s_area s / dr).

  Fixpoint map2 {A B C} (f : A -> B -> C) (l1 : list A) (l2 : list B) : list C :=
    match l1, l2 with a :: t1, b :: t2 => f a b :: map2 f t1 t2 | _, _ => [] end.

  Definition omaxT (a b : T) : T := if o_ltb O a b then b else a.
  (* float(max(numerator / maximum(denominator, 1e-20))) *)
  Definition rel_error (tiny : T) (dA Anew : list vec) : T :=
    fold_left omaxT (map2 (fun d a => vnorm d / omaxT tiny (vnorm a)) dA Anew) (# 0).
  (* NB: np.max starts from the first element; the quotients are >= 0 so starting from 0 is the same *)

  (* one Polyak step.  velocity = None stands for the initial scalar 0.0 *)
  Record polyak := { p_A : list vec; p_v : list vec; p_err : T }.
  Definition polyak_step (alpha beta tiny : T) (Knew : list vec) (A : list vec) (v : option (list vec)) : polyak :=
    let dA := map2 vsub Knew A in
    let v' := match v with
              | None => map (fun d => vadd (vscale ((# 1 - beta) * # 0) (# 1, # 1)) (vscale alpha d)) dA
              | Some vv => map2 (fun w d => vadd (vscale (# 1 - beta) w) (vscale alpha d)) vv dA
              end in
    let A' := map2 vadd A v' in
    {| p_A := A'; p_v := v'; p_err := rel_error tiny dA A' |}.

  (* the screening loop of update():
       for it in count():  if err < tol: break;  if it > max_it: raise;  ... one solve with links from
       A_applied + A ... ; if screening: (A, err) = polyak(K(J(A))) else break                               *)
  Variable Jof : list vec -> list source.        (* the rest of the step: currents for given induced potential *)
  Variable edges : list (T * T).

  Inductive sres := Converged (A : list vec) (iters : nat) (last_err : T) (lastK : list vec) (prevA : list vec)
                  | NotConverged | Fuel.

  Fixpoint screen_loop (fuel : nat) (alpha beta tol tiny : T) (max_it it : nat)
           (err : option T) (A : list vec) (v : option (list vec)) (lastK prevA : list vec) : sres :=
    match fuel with
    | 0%nat => Fuel
    | S fuel' =>
        if match err with Some e => o_ltb O e tol | None => false end   (* screening_error = inf initially *)
        then Converged A it (match err with Some e => e | None => # 0 end) lastK prevA
        else if Nat.ltb max_it it then NotConverged
        else
          let K := kernel (Jof A) edges in
          let p := polyak_step alpha beta tiny K A v in
          screen_loop fuel' alpha beta tol tiny max_it (S it) (Some (p_err p)) (p_A p) (Some (p_v p)) K A
    end.
End Screen.
