(* Model of DataHandler._create_output_file / close (tdgl/solver/runner.py) over an abstract file
   system: the exclusive-create loop with a serial suffix, and what close() removes.
   [cleanup_main] selects whether the main file is removed again when only its .tmp companion
   cannot be created (true = the repaired code, false = as found: a stray empty file is left). *)
From Coq Require Import List Arith Bool.
Import ListNotations.

Inductive path := Main (n : nat) | Tmp (n : nat).   (* n = 0: "name.h5"; n > 0: "name-n.h5"; Tmp: ".tmp" companion *)

Definition path_eqb (a b : path) : bool :=
  match a, b with
  | Main x, Main y => Nat.eqb x y
  | Tmp x, Tmp y => Nat.eqb x y
  | _, _ => false
  end.
Definition mem (x : path) (f : list path) : bool := existsb (path_eqb x) f.

Section Create.
  Variable cleanup_main : bool.

  (* h5py.File(path, "x") raises if the path exists *)
  Fixpoint create (fuel : nat) (n : nat) (f : list path) : option (nat * list path) :=
    match fuel with
    | O => None
    | S fuel' =>
        if mem (Main n) f then create fuel' (S n) f
        else
          let f1 := Main n :: f in
          if mem (Tmp n) f1
          then create fuel' (S n) (if cleanup_main then f else f1)
          else Some (n, Tmp n :: f1)
    end.

  (* close(): output closed, tmp flushed/closed and removed *)
  Definition remove (x : path) (f : list path) : list path := filter (fun y => negb (path_eqb x y)) f.
  Definition close (n : nat) (f : list path) : list path := remove (Tmp n) f.
End Create.
