(* Model of TDGLSolver.update without screening: the adaptive retry loop (Model.Adapt) wrapped around the solve step
   (Model.Step), and the run of the whole solver.  An attempt with time step dt is refused exactly when the step
   model refuses (some site has no admissible root); the retry loop shrinks dt; the step that is answered is the
   result; the controller's bookkeeping records max | |psi'|^2 - |psi|^2 |.  Definitions only. *)
From Coq Require Import ZArith List Arith Bool.
From PyTdgl Require Import Base.Ops Base.Cplx Model.FV Model.Euler Model.Step Model.Adapt.
Import ListNotations.

Section Update.
  Variable O : Ops.
  Local Notation T := (T O).
  Local Notation C := (C O).
  Variable a : nat -> T.
  Variable n : nat.
  Variable es : list (edge O).
  Variable fixed : list nat.
  Variable solve : (nat -> T) -> (nat -> T).
  Variable repin : option C.
  Variable expi : T -> C.
  Variable gamma u : T.

  (* one attempt of the step with a given dt (the phase factor uses the previous potential and THIS dt) *)
  Definition attempt (i : step_in O) (psi : nat -> C) (mu : nat -> T) (dt : T) : option (step_out O) :=
    step O a n es fixed solve (fun r => expi (o_mul O (mu r) dt)) repin
         (si_U O i) psi (si_eps O i) gamma u dt (si_muB O i) (si_dAdt O i).
  Definition refused (i : step_in O) (psi : nat -> C) (mu : nat -> T) (dt : T) : bool :=
    match attempt i psi mu dt with None => true | Some _ => false end.

  (* max over sites of | |p'|^2 - |p|^2 | *)
  Definition dmax (p p' : nat -> C) : T :=
    fold_left (fun acc r => omax O acc (o_abs O (o_sub O (cabs2 O (p' r)) (cabs2 O (p r))))) (seq 0 n) (o_of_Z O 0).

  (* TDGLSolver.update: None = RuntimeError (retries exhausted / adaptivity off) *)
  Definition update (o : opts O) (s : astate O) (idx : nat) (i : step_in O) (psi : nat -> C) (mu : nat -> T)
    : option (T * astate O * step_out O) :=
    match euler_dt O o (refused i psi mu) (tentative O s) with
    | None => None
    | Some dt =>
        match attempt i psi mu dt with
        | None => None
        | Some out => Some (dt, bookkeep O o s idx dt (dmax psi (so_psi O out)), out)
        end
    end.

  (* the solver's loop over steps: (dt used, result) per step; None ends it *)
  Fixpoint solver_run (o : opts O) (s : astate O) (idx : nat) (psi : nat -> C) (mu : nat -> T) (l : list (step_in O))
    : list (option (T * step_out O)) :=
    match l with
    | [] => []
    | i :: tl =>
        match update o s idx i psi mu with
        | None => [None]
        | Some (dt, s', out) =>
            Some (dt, out) :: solver_run o s' (S idx) (so_psi O out) (ob_mu O (so_obs O out)) tl
        end
    end.

  (* the same inputs with the time steps the controller chose *)
  Definition with_dt (i : step_in O) (dt : T) : step_in O :=
    {| si_U := si_U O i; si_eps := si_eps O i; si_dt := dt; si_muB := si_muB O i; si_dAdt := si_dAdt O i |}.
End Update.
