(* Model of tdgl/solver/runner.py: Runner._run_stage / Runner.run with the RunningState buffer,
   the frames written by DataHandler.save_time_step, and the readers
   DynamicsData.from_hdf5 / Solution.times.  Definitions only.

   The update function is a parameter (the real Runner also receives it as an argument), and may
   answer, raise, or be interrupted.  [stop_first] selects where the stop test sits:
   true  = before the update (the code after the repair),
   false = after the update (the code as found: one update too many before the final frame). *)
From Coq Require Import List Arith Bool ZArith.
Import ListNotations.

Section Runner.
  Variable Tm : Type.                       (* time *)
  Variable t0 : Tm.
  Variable tadd : Tm -> Tm -> Tm.
  Variable tleb : Tm -> Tm -> bool.         (* tleb a b  =  a <= b *)
  Variable St : Type.                       (* solver values (psi, mu, currents, ...) *)
  Variable Rec : Type.                      (* one per-step record: dt, probe mu/theta, screening iterations *)

  Inductive outcome :=
  | Ok (new_dt : Tm) (vals : St) (rec : Rec)
  | Err                                     (* the update raised *)
  | Kbd.                                    (* KeyboardInterrupt, pause_on_interrupt = False *)

  (* function(state{step,time,dt}, running_state, dt, **values) *)
  Variable upd : nat -> Tm -> Tm -> St -> outcome.

  Record frame := mkFrame {
    f_step : nat; f_time : Tm; f_dt : Tm; f_vals : St;
    f_buf : option (list Rec)               (* running_state group: None for step 0 *)
  }.

  Record rstate := mkR {
    r_time : Tm; r_dt : Tm; r_vals : St; r_buf : list Rec; r_frames : list frame }.

  Inductive stage_end := Finished | Cancelled | Raised | OutOfFuel.

  Variable k : nat.                         (* save_every *)
  Variable stop_first : bool.

  Definition save_frame (save : bool) (i : nat) (s : rstate) (buf : list Rec) (vals : St) : list frame :=
    if save then r_frames s ++ [mkFrame i (r_time s) (r_dt s) vals (if Nat.eqb i 0 then None else Some buf)]
    else r_frames s.

  (* the tail of _run_stage:  if save and (i % save_every): save_step(i) *)
  Definition final_save (save : bool) (i : nat) (s : rstate) : rstate :=
    if (save && negb (Nat.eqb (i mod k) 0))%bool
    then mkR (r_time s) (r_dt s) (r_vals s) (r_buf s) (save_frame true i s (r_buf s) (r_vals s))
    else s.

  Fixpoint stage (fuel : nat) (save : bool) (end_time : Tm) (i : nat) (s : rstate) : stage_end * rstate :=
    match fuel with
    | O => (OutOfFuel, s)
    | S fuel' =>
        let at_save := Nat.eqb (i mod k) 0 in
        (* if i % save_every == 0: (save_step(i) if save); running_state.clear() *)
        let s1 := if at_save
                  then mkR (r_time s) (r_dt s) (r_vals s) [] (save_frame save i s (r_buf s) (r_vals s))
                  else s in
        if (stop_first && tleb end_time (r_time s1))%bool then (Finished, final_save save i s1)
        else
          match upd i (r_time s1) (r_dt s1) (r_vals s1) with
          | Err => (Raised, s1)                              (* exception leaves the loop: no final save *)
          | Kbd => (Cancelled, final_save save i s1)
          | Ok ndt v rc =>
              let s2 := mkR (r_time s1) (r_dt s1) v (r_buf s1 ++ [rc]) (r_frames s1) in
              if (negb stop_first && tleb end_time (r_time s1))%bool
              then (Finished, final_save save i s2)          (* as found: update done, then break *)
              else stage fuel' save end_time (S i)
                         (mkR (tadd (r_time s1) ndt) ndt v (r_buf s1 ++ [rc]) (r_frames s1))
          end
    end.

  (* pause_on_interrupt = True and the user answers "y": paused i a says that attempt a of step i is interrupted (inside the
     update, before it returns) and resumed.  Repaired loop: the same step index is tried again, the frame of step i is not
     written twice (last_saved_step), the buffer is cleared again (a no-op).  As found: the loop went on to index i + 1. *)
  Variable paused : nat -> nat -> bool.
  Fixpoint stage_p (repaired : bool) (fuel : nat) (save : bool) (end_time : Tm) (i att : nat) (saved : bool) (s : rstate)
    : stage_end * rstate :=
    match fuel with
    | O => (OutOfFuel, s)
    | S fuel' =>
        let at_save := Nat.eqb (i mod k) 0 in
        let s1 := if at_save
                  then mkR (r_time s) (r_dt s) (r_vals s) []
                           (if saved then r_frames s else save_frame save i s (r_buf s) (r_vals s))
                  else s in
        if (stop_first && tleb end_time (r_time s1))%bool then (Finished, final_save save i s1)
        else if paused i att
        then (if repaired then stage_p repaired fuel' save end_time i (S att) (saved || at_save)%bool s1
              else stage_p repaired fuel' save end_time (S i) 0 false s1)
        else
          match upd i (r_time s1) (r_dt s1) (r_vals s1) with
          | Err => (Raised, s1)
          | Kbd => (Cancelled, final_save save i s1)
          | Ok ndt v rc =>
              let s2 := mkR (r_time s1) (r_dt s1) v (r_buf s1 ++ [rc]) (r_frames s1) in
              if (negb stop_first && tleb end_time (r_time s1))%bool
              then (Finished, final_save save i s2)
              else stage_p repaired fuel' save end_time (S i) 0 false
                           (mkR (tadd (r_time s1) ndt) ndt v (r_buf s1 ++ [rc]) (r_frames s1))
          end
    end.

  (* Runner.run: optional thermalisation stage (never saved), buffer cleared, time and step restart *)
  Definition run (fuel : nat) (skip_time : option Tm) (solve_time : Tm) (dt_init : Tm) (v0 : St)
    : stage_end * rstate :=
    let s0 := mkR t0 dt_init v0 [] [] in
    match skip_time with
    | None => stage fuel true solve_time 0 s0
    | Some sk =>
        match stage fuel false sk 0 s0 with
        | (Finished, s1) => stage fuel true solve_time 0 (mkR t0 (r_dt s1) (r_vals s1) [] (r_frames s1))
        | other => other
        end
    end.

  (* ---------- readers ---------- *)
  (* DynamicsData.from_hdf5: concatenate the stored buffers of all frames that have one *)
  Definition read_records (fr : list frame) : list Rec :=
    flat_map (fun f => match f_buf f with Some b => b | None => [] end) fr.

  (* Solution.times as repaired: times at the START of each step = 0 :: cumsum(dt); every k-th, plus
     the last one when it is not already there *)
  Fixpoint cumsum (acc : Tm) (dts : list Tm) : list Tm :=
    match dts with [] => [] | d :: tl => tadd acc d :: cumsum (tadd acc d) tl end.
  Fixpoint every_kth (j : nat) (l : list Tm) : list Tm :=     (* l[::k] with phase j *)
    match l with
    | [] => []
    | x :: tl => if Nat.eqb j 0 then x :: every_kth (k - 1) tl else every_kth (j - 1) tl
    end.
  Definition solution_times (dts : list Tm) : list Tm :=
    let times := t0 :: cumsum t0 dts in
    let saved := every_kth 0 times in
    if Nat.eqb (length dts mod k) 0 then saved else saved ++ [last times t0].
  (* Solution.times as found: cumsum(dt)[::k] (+ last) : shifted by one step *)
  Definition solution_times_as_found (dts : list Tm) : list Tm :=
    let times := cumsum t0 dts in
    let saved := every_kth 0 times in
    saved.
End Runner.
