(* Model of the numba `prange` kernels (get_A_induced_numba, the Biot-Savart kernels, the distance kernels):
   iteration i reads only immutable inputs and writes only row i of an np.empty output buffer.  A schedule
   is the order in which iterations complete (any interleaving at iteration granularity); the buffer starts
   with arbitrary content.  Also get_edges as a function of the SET of triangle edges.  Definitions only. *)
From Coq Require Import List Arith Bool.
Import ListNotations.

Section Prange.
  Variable Row : Type.
  Variable body : nat -> Row.            (* the row computed by iteration i (a function of immutable inputs) *)

  Definition buffer := nat -> Row.       (* np.empty: arbitrary initial content *)
  Definition write (b : buffer) (i : nat) : buffer := fun j => if Nat.eqb j i then body i else b j.
  Definition run_schedule (order : list nat) (b0 : buffer) : buffer := fold_left write order b0.
  Definition sequential (n : nat) (b0 : buffer) : buffer := run_schedule (seq 0 n) b0.
End Prange.

(* get_edges: all undirected edges of the triangles, sorted, duplicates removed; boundary = occurs once *)
Definition norm_edge (a b : nat) : nat * nat := if Nat.leb a b then (a, b) else (b, a).
Definition tri_edges (t : nat * nat * nat) : list (nat * nat) :=
  let '(a, b, c) := t in [norm_edge a b; norm_edge b c; norm_edge c a].
Definition raw_edges (ts : list (nat * nat * nat)) : list (nat * nat) := flat_map tri_edges ts.
Definition pair_eqb (p q : nat * nat) : bool := (Nat.eqb (fst p) (fst q) && Nat.eqb (snd p) (snd q))%bool.
Definition count_edge (p : nat * nat) (l : list (nat * nat)) : nat := length (filter (pair_eqb p) l).
(* all pairs (i, j), i <= j < n, in lexicographic order *)
Definition all_pairs (n : nat) : list (nat * nat) :=
  flat_map (fun i => map (fun j => (i, j)) (seq i (n - i))) (seq 0 n).
Definition get_edges (n : nat) (ts : list (nat * nat * nat)) : list (nat * nat * bool) :=
  flat_map (fun p => let c := count_edge p (raw_edges ts) in
                     if Nat.eqb c 0 then [] else [(p, Nat.eqb c 1)]) (all_pairs n).
