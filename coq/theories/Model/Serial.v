(* Model of how SolverOptions travel through Solution.to_hdf5 / from_hdf5 (HDF5 attributes cannot hold
   None): [explicit_none = false] is the code as found (None-valued options are skipped on save and come
   back as the dataclass default), [true] is the repaired code (an explicit empty attribute). *)
From Coq Require Import List QArith Bool Arith.
Import ListNotations.

(* the two options whose value may be None, plus all the others (never None) as an association list *)
Record sopts := { o_terminal_psi : option Q; o_output_file : option nat; o_rest : list (nat * Q) }.

Inductive attr := AVal (q : Q) | AFile (n : nat) | AEmpty.      (* h5py.Empty stands for None *)
Definition K_PSI := 1000%nat.
Definition K_FILE := 1001%nat.

Definition save (explicit_none : bool) (o : sopts) : list (nat * attr) :=
  (match o_terminal_psi o with
   | Some v => [(K_PSI, AVal v)]
   | None => if explicit_none then [(K_PSI, AEmpty)] else []
   end) ++
  (match o_output_file o with
   | Some f => [(K_FILE, AFile f)]
   | None => if explicit_none then [(K_FILE, AEmpty)] else []
   end) ++
  map (fun kv => (fst kv, AVal (snd kv))) (o_rest o).

Fixpoint lookup (k : nat) (l : list (nat * attr)) : option attr :=
  match l with [] => None | (k', v) :: tl => if Nat.eqb k k' then Some v else lookup k tl end.

(* SolverOptions built from the attributes: missing keys take the dataclass defaults terminal_psi = 0.0, output_file = None *)
Definition load (l : list (nat * attr)) : sopts :=
  {| o_terminal_psi := match lookup K_PSI l with
                       | Some (AVal v) => Some v
                       | Some _ => None
                       | None => Some 0
                       end;
     o_output_file := match lookup K_FILE l with
                      | Some (AFile f) => Some f
                      | _ => None
                      end;
     o_rest := flat_map (fun kv => match snd kv with
                                   | AVal v => if (Nat.eqb (fst kv) K_PSI || Nat.eqb (fst kv) K_FILE)%bool then [] else [(fst kv, v)]
                                   | _ => []
                                   end) l |}.
