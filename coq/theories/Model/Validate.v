(* Model of the checks that run before any output exists: SolverOptions.validate (options.py), the
   terminal-current balance test (solver.py, as repaired: relative rounding tolerance 1e-9), and the order of
   events in tdgl.solve: every check precedes the creation of the output file. *)
From Coq Require Import List QArith Qabs Bool.
Import ListNotations.

Record vopts := { v_dt_init : Q; v_dt_max : Q; v_terminal_psi : option Q;
                  v_mult : Q; v_drag : Q; v_size : Q; v_tol : Q; v_save_every : Q }.

Definition Qltb (a b : Q) : bool := negb (Qle_bool b a).

Definition validate_ok (o : vopts) : bool :=
  Qltb 0 (v_dt_init o)                                                  (* dt_init > 0 *)
  && Qle_bool 1 (v_save_every o)                                        (* save_every >= 1 *)
  && Qle_bool (v_dt_init o) (v_dt_max o)                                (* not (dt_init > dt_max) *)
  && match v_terminal_psi o with
     | None => true
     | Some p => Qle_bool 0 (Qabs p) && Qle_bool (Qabs p) 1
     end
  && (Qltb 0 (v_mult o) && Qltb (v_mult o) 1)
  && (Qltb 0 (v_drag o) && Qle_bool (v_drag o) 1)
  && Qltb 0 (v_size o)
  && Qltb 0 (v_tol o).

Definition qsum (l : list Q) : Q := fold_left Qplus l 0.
Definition qabssum (l : list Q) : Q := fold_left (fun a x => a + Qabs x) l 0.
(* abs(total) > 1e-9 * sum(abs) -> ValueError *)
Definition accepts_currents (I : list Q) : bool := Qle_bool (Qabs (qsum I)) ((1 # 1000000000) * qabssum I).

(* time-dependent currents: the check is evaluated at the sample times only *)
Definition accepts_td (f : Q -> list Q) (samples : list Q) : bool := forallb (fun t => accepts_currents (f t)) samples.

(* where the sample times come from: u * tmax for u uniform in [0, 1), tmax = max(solve_time, skip_time) (as found: solve_time).
   The run evaluates the currents at times in [0, skip_time] (thermalisation stage; the clock restarts afterwards) and at times
   in [0, solve_time] (main stage). *)
Definition qmax (a b : Q) : Q := if Qle_bool a b then b else a.
Definition sample_tmax (repaired : bool) (solve skip : Q) : Q := if repaired then qmax solve skip else solve.
(* (as repaired a second time: the start of a stage, t = 0, which the solver always evaluates, and the end of the range are
   sample times too) *)
Definition sample_times (repaired : bool) (solve skip : Q) (us : list Q) : list Q :=
  (if repaired then [0; sample_tmax repaired solve skip] else [])
  ++ map (fun u => u * sample_tmax repaired solve skip) us.
Definition used_time (solve skip t : Q) : Prop := 0 <= t /\ (t <= skip \/ t <= solve).

(* ---- order of events in TDGLSolver.__init__ + solve ---- *)
Inductive event := Check (name : nat) | Reject (name : nat) | CreateFile | MkTempDir | Run.
(* checks in code order: options, vector-potential shape, epsilon <= 1, terminals touch the boundary,
   currents, options again, seed device *)
Fixpoint run_checks (cs : list (nat * bool)) : list event * bool :=
  match cs with
  | [] => ([], true)
  | (n, ok) :: tl => if ok then let '(ev, r) := run_checks tl in (Check n :: ev, r) else ([Reject n], false)
  end.
Definition solve_events (cs : list (nat * bool)) (explicit_output : bool) : list event :=
  let '(ev, ok) := run_checks cs in
  if ok then ev ++ [if explicit_output then CreateFile else MkTempDir; Run] else ev.
