(* Model of one solve step of TDGLSolver.update (no screening loop; that is Screen.v):
   Euler update of psi at every site (all-or-refuse), then solve_for_observables:
     Js  = Im(conj psi_i (G_U psi)_k)
     rhs = D (Js - dA/dt) - B mu_boundary
     mu  = LU-solve(rhs)                       (SuperLU: a Section variable)
     Jn  = -(G mu) - dA/dt
   and update_mu_boundary with its change-only cache.  Definitions only. *)
From Coq Require Import ZArith List Arith Bool.
From PyTdgl Require Import Base.Ops Base.Cplx Model.FV Model.Euler.
Import ListNotations.

Section Step.
  Variable O : Ops.
  Local Notation T := (T O).
  Local Notation C := (C O).
  Local Notation "x + y" := (o_add O x y).
  Local Notation "x - y" := (o_sub O x y).
  Local Notation "x * y" := (o_mul O x y).
  Local Notation "x / y" := (o_div O x y).
  Local Notation "- x" := (o_opp O x).
  Local Notation "'#' z" := (o_of_Z O z) (at level 9).

  Variable a : nat -> T.
  Variable n : nat.                          (* number of sites *)
  Variable es : list (edge O).
  Variable fixed : list nat.                 (* pinned (terminal) sites; [] when terminal_psi is None *)
  Variable solve : (nat -> T) -> (nat -> T). (* mu_laplacian_lu *)
  Variable tlink : nat -> C.                 (* temporal link exp(-i mu_r dt) of site r (numpy exp: data) *)
  Variable repin : option C.                 (* Some v when options.terminal_psi is a non-zero value v: re-imposed after the Euler update *)

  Definition nthT (l : list T) (k : nat) : T := nth k l (# 0).

  (* new psi at every site, or refusal *)
  Definition euler_site (U : list C) (psi : nat -> C) (eps : nat -> T) (gamma u dt : T) (r : nat)
    : option (T * C) :=
    site_update O (tlink r) (psi r) (cabs2 O (psi r)) (eps r) gamma u dt
                (capply_coo O (clap_coo O a fixed es U) psi r).

  Definition euler_all (U : list C) (psi : nat -> C) (eps : nat -> T) (gamma u dt : T)
    : option (nat -> C) :=
    if forallb (fun r => match euler_site U psi eps gamma u dt r with Some _ => true | None => false end)
               (seq 0 n)
    then Some (fun r => match euler_site U psi eps gamma u dt r with Some (_, p) => p | None => psi r end)
    else None.

  Record observables := { ob_mu : nat -> T; ob_Js : nat -> T; ob_Jn : nat -> T; ob_rhs : nat -> T }.

  Definition solve_for_observables (U : list C) (psi : nat -> C) (muB : nat -> T) (dAdt : nat -> T)
    : observables :=
    let Js := nthT (supercurrent O es U psi) in
    let rhs := fun r => apply_coo O (div_coo O a 0 es) (fun k => Js k - dAdt k) r
                        - apply_coo O (bflux_coo O a 0 es) muB r in
    let mu := solve rhs in
    let Jn := fun k => (- apply_coo O (grad_coo O 0 es) mu k) - dAdt k in
    {| ob_mu := mu; ob_Js := Js; ob_Jn := Jn; ob_rhs := rhs |}.

  Record step_out := { so_psi : nat -> C; so_obs : observables }.

  Definition step (U : list C) (psi : nat -> C) (eps : nat -> T) (gamma u dt : T)
             (muB dAdt : nat -> T) : option step_out :=
    match euler_all U psi eps gamma u dt with
    | None => None
    | Some p =>
        let psi' := match repin with
                    | Some v => fun r => if is_fixed fixed r then v else p r
                    | None => p
                    end in
        Some {| so_psi := psi'; so_obs := solve_for_observables U psi' muB dAdt |}
    end.

  (* ---------- update_mu_boundary: terminal current densities with a change-only cache ---------- *)
  (* a terminal: its length and the boundary-edge indices it covers *)
  Record terminal := { t_len : T; t_edges : list nat }.

  (* Python: sum(...) starts from int 0 and adds left to right *)
  Fixpoint sum_others_acc (acc : T) (k : nat) (skip : nat) (I : list T) : T :=
    match I with
    | [] => acc
    | x :: tl => sum_others_acc (if Nat.eqb k skip then acc else acc + x) (S k) skip tl
    end.
  (* CPython >= 3.12: the builtin sum() over exact Python floats is Neumaier-compensated
     (Python/bltinmodule.c: t = s + x; c += |s| >= |x| ? (s - t) + x : (x - t) + s; at the end s + c when c is
     non-zero and finite).  The first addend is added to the int 0 by the generic path.  numpy scalars are not
     exact floats and take the plain left-to-right path above.  Which of the two runs depends on the type of the
     values the user's current function returns, so the model carries a flag. *)
  Definition o_abs (x : T) : T := if o_ltb O x (# 0) then - x else x.
  Fixpoint nsum_others (st : option (T * T)) (k skip : nat) (I : list T) : T :=
    match I with
    | [] => match st with
            | None => # 0
            | Some (s, c) => if (negb (o_eqb O c (# 0)) && o_isfin O c)%bool then s + c else s
            end
    | x :: tl =>
        if Nat.eqb k skip then nsum_others st (S k) skip tl
        else match st with
             | None => nsum_others (Some (# 0 + x, # 0)) (S k) skip tl
             | Some (s, c) =>
                 let t := s + x in
                 nsum_others (Some (t, if o_leb O (o_abs x) (o_abs s) then c + ((s - t) + x) else c + ((x - t) + s)))
                             (S k) skip tl
             end
    end.
  Definition sum_others (comp : bool) (k skip : nat) (I : list T) : T :=
    if comp then nsum_others None k skip I else sum_others_acc (# 0) k skip I.
  (* sum(currents[name] for name != terminal.name), in terminal order, starting from int 0 *)
  Definition density (comp : bool) (ts : list terminal) (I : list T) (t : nat) : T :=
    match nth_error ts t with
    | Some tm => ((- # 1) / t_len tm) * sum_others comp 0 t I
    | None => # 0
    end.

  Definition write_edges (muB : nat -> T) (edges : list nat) (v : T) : nat -> T :=
    fun b => if existsb (Nat.eqb b) edges then v else muB b.

  (* state: cached densities (one per terminal) and the boundary vector *)
  Fixpoint update_terms (comp : bool) (k : nat) (ts all : list terminal) (I : list T) (cache : list T) (muB : nat -> T)
    : list T * (nat -> T) :=
    match ts, cache with
    | tm :: tl, c :: cs =>
        let d := density comp all I k in
        let '(cs', muB') :=
          update_terms comp (S k) tl all I cs (if o_eqb O d c then muB else write_edges muB (t_edges tm) d) in
        ((if o_eqb O d c then c else d) :: cs', muB')
    | _, _ => ([], muB)
    end.
  Definition update_mu_boundary (comp : bool) (ts : list terminal) (I : list T) (st : list T * (nat -> T)) :=
    update_terms comp 0 ts ts I (fst st) (snd st).

  (* from scratch: every terminal edge gets its terminal's density, every other edge 0 *)
  Fixpoint muB_scratch (comp : bool) (k : nat) (ts all : list terminal) (I : list T) : nat -> T :=
    match ts with
    | [] => fun _ => # 0
    | tm :: tl => write_edges (muB_scratch comp (S k) tl all I) (t_edges tm) (density comp all I k)
    end.
End Step.

(* ---------- a run: steps threaded through psi AND mu.  The phase factor of step k is exp(-i mu_{k-1} dt_k) with the
   potential of the previous step (solve_for_psi_squared: phase = exp(-1j * mu * dt)); exp is an oracle [expi].
   Per step: links (the applied potential may depend on time), disorder, time step and boundary data.
   One entry per step; None = the update was refused and ends the list (the retry logic that then shrinks dt is
   Model.Adapt). ---------- *)
Section Run.
  Variable O : Ops.
  Local Notation T := (T O).
  Local Notation C := (C O).
  Variable a : nat -> T.
  Variable n : nat.
  Variable es : list (edge O).
  Variable fixed : list nat.
  Variable solve : (nat -> T) -> (nat -> T).
  Variable repin : option C.
  Variable expi : T -> C.                                   (* x |-> exp(-i x) *)

  Record step_in := { si_U : list C; si_eps : nat -> T; si_dt : T; si_muB : nat -> T; si_dAdt : nat -> T }.
  Fixpoint run_steps (gamma u : T) (psi : nat -> C) (mu : nat -> T) (l : list step_in) : list (option (step_out O)) :=
    match l with
    | [] => []
    | i :: tl =>
        match step O a n es fixed solve (fun r => expi (o_mul O (mu r) (si_dt i))) repin
                   (si_U i) psi (si_eps i) gamma u (si_dt i) (si_muB i) (si_dAdt i) with
        | None => [None]
        | Some o => Some o :: run_steps gamma u (so_psi O o) (ob_mu O (so_obs O o)) tl
        end
    end.
End Run.
