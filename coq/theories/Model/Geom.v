(* Polygon vertex lists (tdgl/device/polygon.py, tdgl/geometry.py): shoelace signed area, the
   normalisation applied by the Polygon.points setter (shapely orient: counter-clockwise; close_curve:
   first vertex repeated at the end), and the affine maps behind rotate / translate / scale.
   Definitions only. *)
From Coq Require Import ZArith List Bool.
From PyTdgl Require Import Base.Ops.
Import ListNotations.

Section Geom.
  Variable O : Ops.
  Local Notation T := (T O).
  Local Notation "x + y" := (o_add O x y).
  Local Notation "x - y" := (o_sub O x y).
  Local Notation "x * y" := (o_mul O x y).
  Local Notation "'#' z" := (o_of_Z O z) (at level 9).

  Definition pt := (T * T)%type.

  (* twice the signed area contributed by consecutive vertices of a vertex list (open chain) *)
  Fixpoint chain2 (l : list pt) : T :=
    match l with
    | p :: ((q :: _) as tl) => (fst p * snd q - fst q * snd p) + chain2 tl
    | _ => # 0
    end.
  (* twice the signed area of the ring whose vertices are l, first vertex repeated at the end *)
  Definition area2_closed (l : list pt) : T := chain2 l.

  Definition first_pt (l : list pt) : pt := hd (# 0, # 0) l.
  Definition last_pt (l : list pt) : pt := last l (# 0, # 0).
  Definition pt_eqb (p q : pt) : bool := (o_eqb O (fst p) (fst q) && o_eqb O (snd p) (snd q))%bool.

  (* close_curve: append the first point unless the curve is already closed *)
  Definition close_curve (l : list pt) : list pt :=
    match l with
    | [] => []
    | p :: _ => if pt_eqb p (last_pt l) then l else l ++ [p]
    end.

  (* shapely.geometry.polygon.orient(sign=1.0): exterior counter-clockwise *)
  Definition orient (l : list pt) : list pt :=
    if o_ltb O (area2_closed l) (# 0) then rev l else l.

  (* the Polygon.points setter on a closed ring *)
  Definition normalise (l : list pt) : list pt := close_curve (orient (close_curve l)).

  (* affine maps *)
  Definition translate (dx dy : T) (l : list pt) : list pt := map (fun p => (fst p + dx, snd p + dy)) l.
  Definition scale_about (ox oy fx fy : T) (l : list pt) : list pt :=
    map (fun p => (ox + fx * (fst p - ox), oy + fy * (snd p - oy))) l.
  (* rotation by an angle with cosine c and sine s about (ox, oy) *)
  Definition rotate_about (ox oy c s : T) (l : list pt) : list pt :=
    map (fun p => (ox + (c * (fst p - ox) - s * (snd p - oy)), oy + (s * (fst p - ox) + c * (snd p - oy)))) l.

  (* crossing-number point-in-polygon test on a closed ring (even-odd rule) *)
  Fixpoint crossings (l : list pt) (p : pt) : bool :=
    match l with
    | a :: ((b :: _) as tl) =>
        let straddles := negb (Bool.eqb (o_ltb O (snd p) (snd a)) (o_ltb O (snd p) (snd b))) in
        let hit := if straddles
                   then o_ltb O (fst p) (o_add O (fst a) (o_div O ((fst b - fst a) * (snd p - snd a)) (snd b - snd a)))
                   else false in
        xorb hit (crossings tl p)
    | _ => false
    end.
  Definition inside (l : list pt) (p : pt) : bool := crossings l p.
End Geom.
