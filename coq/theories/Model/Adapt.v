(* Model of the adaptive time-step logic of TDGLSolver (solver.py):
   adaptive_euler_step (retry loop) and the bookkeeping at the end of update()
   (d_psi_sq_vals, window mean, tentative_dt).  Definitions only. *)
From Coq Require Import ZArith List Arith Bool.
From PyTdgl Require Import Base.Ops.
Import ListNotations.

Section Adapt.
  Variable O : Ops.
  Local Notation T := (T O).
  Local Notation "x + y" := (o_add O x y).
  Local Notation "x * y" := (o_mul O x y).
  Local Notation "x / y" := (o_div O x y).

  Record opts := { dt_init : T; dt_max : T; adaptive : bool; window : nat; mult : T; max_retries : nat;
                   half : T; floor_ : T (* 0.5 and 1e-10 as data *) }.

  (* self.dt_max = options.dt_max if options.adaptive else options.dt_init *)
  Definition dt_max_eff (o : opts) : T := if adaptive o then dt_max o else dt_init o.

  (* adaptive_euler_step: None = RuntimeError.  [refuse dt] = solve_for_psi_squared returned None *)
  Fixpoint retry (o : opts) (refuse : T -> bool) (fuel retries : nat) (dt : T) : option T :=
    if negb (refuse dt) then Some dt
    else if (negb (adaptive o) || Nat.ltb (max_retries o) retries)%bool then None
    else match fuel with
         | 0%nat => None
         | S f => retry o refuse f (S retries) (dt * mult o)
         end.
  Definition euler_dt (o : opts) (refuse : T -> bool) (dt : T) : option T :=
    retry o refuse (max_retries o + 2) 0 dt.

  Definition omax (a b : T) : T := if o_ltb O a b then b else a.
  Definition omin (a b : T) : T := if o_ltb O b a then b else a.
  (* np.clip(x, 0, hi) *)
  Definition clip0 (x hi : T) : T := omin (omax x (o_of_Z O 0)) hi.

  Fixpoint lastn {A} (n : nat) (l : list A) : list A :=      (* l[-n:] *)
    if Nat.leb (length l) n then l else match l with [] => [] | _ :: tl => lastn n tl end.
  Definition mean (l : list T) : T := fold_left (o_add O) l (o_of_Z O 0) / o_of_Z O (Z.of_nat (length l)).

  Record astate := { tentative : T; dvals : list T }.

  (* end of update(): bookkeeping with the step index, the dt used and this step's max |d|psi|^2| *)
  Definition bookkeep (o : opts) (s : astate) (step : nat) (dt_used d : T) : astate :=
    if adaptive o then
      let vals := dvals s ++ [d] in
      if Nat.ltb (window o) step then
        let new_dt := dt_init o / omax (floor_ o) (mean (lastn (window o) vals)) in
        {| tentative := clip0 (half o * (new_dt + dt_used)) (dt_max_eff o); dvals := vals |}
      else {| tentative := tentative s; dvals := vals |}
    else s.

  (* one step: Some (dt used, new state) or None (raise) *)
  Definition astep (o : opts) (s : astate) (step : nat) (refuse : T -> bool) (dof : T -> T) : option (T * astate) :=
    match euler_dt o refuse (tentative s) with
    | None => None
    | Some dt => Some (dt, bookkeep o s step dt (dof dt))
    end.

  Definition ainit (o : opts) : astate := {| tentative := dt_init o; dvals := [] |}.

  (* a whole history of the controller: per step, which attempts are refused and the max |d|psi|^2| recorded for the
     accepted attempt.  One entry per step: Some (dt used, next proposal), or None (RuntimeError) which ends it. *)
  Fixpoint ahist (o : opts) (s : astate) (step : nat) (l : list ((T -> bool) * (T -> T))) : list (option (T * T)) :=
    match l with
    | [] => []
    | (refuse, dof) :: tl =>
        match astep o s step refuse dof with
        | None => [None]
        | Some (dt, s') => Some (dt, tentative s') :: ahist o s' (S step) tl
        end
    end.
End Adapt.
