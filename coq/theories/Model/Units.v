(* Model of the unit handling: the dimensionless scale factors computed in TDGLSolver.__init__
   (A_scale, J_scale, screening area factor), the output scale K0 of Solution.current_density, and the
   uniform-field vector potential of tdgl.em.uniform_Bz_vector_potential.  Definitions only. *)
From Coq Require Import ZArith List.
From PyTdgl Require Import Base.Ops.
Import ListNotations.

Section Units.
  Variable O : Ops.
  Local Notation T := (T O).
  Local Notation "x + y" := (o_add O x y).
  Local Notation "x - y" := (o_sub O x y).
  Local Notation "x * y" := (o_mul O x y).
  Local Notation "x / y" := (o_div O x y).
  Local Notation "'#' z" := (o_of_Z O z) (at level 9).

  Variables Phi0 mu0 twopi fourpi : T.      (* physical constants (pint) and 2 pi, 4 pi *)

  (* a unit system: SI value of the length, field and current units *)
  Record usys := { lu : T; fu : T; cu : T }.
  (* the device as the user states it in that system: numbers *)
  Record devnum := { xi_n : T; lambda_n : T; d_n : T }.

  Definition xi_si (u : usys) (v : devnum) : T := xi_n v * lu u.
  Definition Bc2 (u : usys) (v : devnum) : T := Phi0 / (twopi * (xi_si u v * xi_si u v)).
  Definition A0 (u : usys) (v : devnum) : T := Bc2 u v * xi_si u v.
  Definition Lambda (u : usys) (v : devnum) : T := (lambda_n v * lu u) * (lambda_n v * lu u) / (d_n v * lu u).
  Definition K0 (u : usys) (v : devnum) : T := # 4 * xi_si u v * Bc2 u v / (mu0 * Lambda u v).

  (* A_scale = field_units * length_units / (Bc2 * xi * length_units) *)
  Definition A_scale (u : usys) (v : devnum) : T := fu u * lu u / (Bc2 u v * (xi_n v * lu u)).
  (* J_scale = 4 (current_units / length_units) / K0 *)
  Definition J_scale (u : usys) (v : devnum) : T := # 4 * (cu u / lu u) / K0 u v.
  (* screening: (mu_0/4pi K0/A0).to(1/length_units) * areas * xi^2 *)
  Definition scr_scale (u : usys) (v : devnum) : T := mu0 / fourpi * K0 u v / A0 u v * lu u.
  Definition scr_area (u : usys) (v : devnum) (a_dimless : T) : T := scr_scale u v * a_dimless * (xi_n v * xi_n v).

  (* dimensionless quantities the solver actually uses *)
  (* link exponent of an edge: A_scale * A_num . dir, with A_num in field*length units and dir dimensionless *)
  Definition link_exponent (u : usys) (v : devnum) (Ax_n Ay_n dirx diry : T) : T :=
    (A_scale u v * Ax_n) * dirx + (A_scale u v * Ay_n) * diry.
  (* boundary density of a terminal: -(1/L_num) * sum of scaled currents *)
  Definition terminal_density (u : usys) (v : devnum) (I_sum_n L_n : T) : T :=
    (o_opp O (# 1) / L_n) * (J_scale u v * I_sum_n).
  (* screening kernel weight of a source cell seen from an edge: areas / |r| with r = xi_n * rho *)
  Definition scr_weight (u : usys) (v : devnum) (a_dimless rho : T) : T := scr_area u v a_dimless / (xi_n v * rho).

  (* uniform field: A = B/2 (-(y - yc), (x - xc)) *)
  Definition A_uniform (B xc yc x y : T) : T * T := (o_opp O B * (y - yc) / # 2, B * (x - xc) / # 2).
End Units.
