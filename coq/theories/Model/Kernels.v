(* Model of the field kernels of tdgl/em.py (_biot_savart_2d_vector / _biot_savart_2d_z), the Coulomb kernel of
   Solution.vector_potential_at_position, the distance kernels of tdgl/distance.py and convert_field.
   Definitions only. *)
From Coq Require Import ZArith List Bool.
From PyTdgl Require Import Base.Ops.
Import ListNotations.

Section Kernels.
  Variable O : Ops.
  Local Notation T := (T O).
  Local Notation "x + y" := (o_add O x y).
  Local Notation "x - y" := (o_sub O x y).
  Local Notation "x * y" := (o_mul O x y).
  Local Notation "x / y" := (o_div O x y).
  Local Notation "'#' z" := (o_of_Z O z) (at level 9).

  (* geometry of one source cell: position (x, y, z0) and area; its sheet current density (Jx, Jy) *)
  Record cell := { c_x : T; c_y : T; c_z : T; c_area : T }.
  Definition cur := (T * T)%type.

  Variable c0 : T.                          (* mu_0 / (4 pi) *)

  (* pref = (mu_0/4pi) * area * (dx^2+dy^2+dz^2)^(-3/2) *)
  Definition pref (g : cell) (ex ey ez : T) : T :=
    let dx := ex - c_x g in let dy := ey - c_y g in let dz := ez - c_z g in
    let r2 := dx * dx + dy * dy + dz * dz in
    c0 * c_area g * (# 1 / (r2 * o_sqrt O r2)).

  Record acc4 := { a_xdy : T; a_ydx : T; a_xdz : T; a_ydz : T }.
  Definition bs_fold (srcs : list (cell * cur)) (ex ey ez : T) : acc4 :=
    fold_left (fun a s =>
                 let g := fst s in let j := snd s in
                 let p := pref g ex ey ez in
                 {| a_xdy := a_xdy a + p * fst j * (ey - c_y g);
                    a_ydx := a_ydx a + p * snd j * (ex - c_x g);
                    a_xdz := a_xdz a + p * fst j * (ez - c_z g);
                    a_ydz := a_ydz a + p * snd j * (ez - c_z g) |})
              srcs {| a_xdy := # 0; a_ydx := # 0; a_xdz := # 0; a_ydz := # 0 |}.

  (* B_out[i] = (Jy_dz, -Jx_dz, Jx_dy - Jy_dx) *)
  Definition bs_vector (srcs : list (cell * cur)) (ex ey ez : T) : T * T * T :=
    let a := bs_fold srcs ex ey ez in (a_ydz a, o_opp O (a_xdz a), a_xdy a - a_ydx a).
  (* the scalar (z) kernel accumulates only the two z-terms *)
  Definition bs_z (srcs : list (cell * cur)) (ex ey ez : T) : T :=
    let a := bs_fold srcs ex ey ez in a_xdy a - a_ydx a.

  (* Coulomb kernel: A = (mu_0/4pi) sum_k area_k K_k / |r - r_k| *)
  Definition coulomb (srcs : list (cell * cur)) (ex ey ez : T) : T * T :=
    fold_left (fun a s =>
                 let g := fst s in let j := snd s in
                 let dx := ex - c_x g in let dy := ey - c_y g in let dz := ez - c_z g in
                 let w := c0 * c_area g / o_sqrt O (dx * dx + dy * dy + dz * dz) in
                 (fst a + w * fst j, snd a + w * snd j))
              srcs (# 0, # 0).

  (* distance kernels *)
  Definition sqdist2 (a b : T * T) : T :=
    let dx := fst a - fst b in let dy := snd a - snd b in dx * dx + dy * dy.
  Definition dist2 (a b : T * T) : T := o_sqrt O (sqdist2 a b).
  Definition sqdist3 (a b : T * T * T) : T :=
    let dx := fst (fst a) - fst (fst b) in let dy := snd (fst a) - snd (fst b) in let dz := snd a - snd b in
    dx * dx + dy * dy + dz * dz.
  Definition dist3 (a b : T * T * T) : T := o_sqrt O (sqdist3 a b).
  Definition cdist {P} (d : P -> P -> T) (XA XB : list P) : list (list T) := map (fun a => map (d a) XB) XA.

  (* convert_field between H [A/m] and B = mu0 H [T] (same-dimension conversions are a unit scale) *)
  Variable mu0 : T.
  Definition H_to_B (h : T) : T := h * mu0.
  Definition B_to_H (b : T) : T := b / mu0.
End Kernels.
