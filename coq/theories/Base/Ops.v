(* Arithmetic policy: one definition, several interpretations.
   Numeric models are written once over a record of operations and are
   interpreted over R (theorems), PrimFloat (execution, binary64) and Q (exact). *)
From Coq Require Import ZArith QArith Reals PrimFloat Uint63.
From Coq Require Import Qreals.

Record Ops := mkOps {
  T : Type;
  o_add : T -> T -> T;
  o_sub : T -> T -> T;
  o_mul : T -> T -> T;
  o_div : T -> T -> T;
  o_opp : T -> T;
  o_sqrt : T -> T;
  o_ltb : T -> T -> bool;
  o_leb : T -> T -> bool;
  o_eqb : T -> T -> bool;
  o_of_Z : Z -> T;
  o_isfin : T -> bool;
}.

(* ---------------------------------------------------------------- R *)
Definition Rltb (x y : R) : bool := if Rlt_dec x y then true else false.
Definition Rleb (x y : R) : bool := if Rle_dec x y then true else false.
Definition Reqb (x y : R) : bool := if Req_EM_T x y then true else false.

Definition OpsR : Ops :=
  mkOps R Rplus Rminus Rmult Rdiv Ropp R_sqrt.sqrt Rltb Rleb Reqb IZR (fun _ => true).

Lemma Rltb_true x y : Rltb x y = true <-> (x < y)%R.
Proof. unfold Rltb; destruct (Rlt_dec x y); split; auto; discriminate. Qed.
Lemma Rltb_false x y : Rltb x y = false <-> (y <= x)%R.
Proof.
  unfold Rltb; destruct (Rlt_dec x y) as [H|H]; split; intros H'; auto; try discriminate.
  - exfalso. apply (Rlt_irrefl x). eapply Rlt_le_trans; eauto.
  - apply Rnot_lt_le; exact H.
Qed.
Lemma Rleb_true x y : Rleb x y = true <-> (x <= y)%R.
Proof. unfold Rleb; destruct (Rle_dec x y); split; auto; discriminate. Qed.
Lemma Rleb_false x y : Rleb x y = false <-> (y < x)%R.
Proof.
  unfold Rleb; destruct (Rle_dec x y) as [H|H]; split; intros H'; auto; try discriminate.
  - exfalso. apply (Rlt_irrefl x). eapply Rle_lt_trans; eauto.
  - apply Rnot_le_lt; exact H.
Qed.
Lemma Reqb_true x y : Reqb x y = true <-> x = y.
Proof. unfold Reqb; destruct (Req_EM_T x y); split; auto; discriminate. Qed.
Lemma Reqb_false x y : Reqb x y = false <-> x <> y.
Proof. unfold Reqb; destruct (Req_EM_T x y); split; auto; try discriminate; contradiction. Qed.

(* ------------------------------------------------------------ float *)
Definition OpsF : Ops :=
  mkOps float PrimFloat.add PrimFloat.sub PrimFloat.mul PrimFloat.div
        PrimFloat.opp PrimFloat.sqrt PrimFloat.ltb PrimFloat.leb PrimFloat.eqb
        (fun z => match z with
                  | Z0 => PrimFloat.zero
                  | Zpos p => PrimFloat.of_uint63 (Uint63.of_Z (Zpos p))
                  | Zneg p => PrimFloat.opp (PrimFloat.of_uint63 (Uint63.of_Z (Zpos p)))
                  end)
        PrimFloat.is_finite.

(* ---------------------------------------------------------------- Q *)
(* exact rationals; every operation normalises (Qred).  sqrt is NOT available:
   OpsQ is used only for sqrt-free kernels (o_sqrt is the identity and must not
   be reached; kernels that use it are never instantiated with OpsQ). *)
Definition Qltb (x y : Q) : bool := negb (Qle_bool y x).
Definition OpsQ : Ops :=
  mkOps Q (fun x y => Qred (Qplus x y)) (fun x y => Qred (Qminus x y))
        (fun x y => Qred (Qmult x y)) (fun x y => Qred (Qdiv x y))
        (fun x => Qopp x) (fun x => x) Qltb Qle_bool Qeq_bool (fun z => inject_Z z) (fun _ => true).

(* Generic notations local to model files *)
Declare Scope ops_scope.
Delimit Scope ops_scope with ops.
