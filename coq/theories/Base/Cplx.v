(* Complex numbers as pairs over an Ops record (complex128 in the code). *)
From Coq Require Import ZArith.
From PyTdgl Require Import Base.Ops.
Local Open Scope Z_scope.

Section Cplx.
  Variable O : Ops.
  Local Notation T := (T O).
  Local Notation "x + y" := (o_add O x y).
  Local Notation "x - y" := (o_sub O x y).
  Local Notation "x * y" := (o_mul O x y).
  Local Notation "x / y" := (o_div O x y).
  Local Notation "- x" := (o_opp O x).

  Definition C : Type := (T * T)%type.
  Definition re (a : C) : T := fst a.
  Definition im (a : C) : T := snd a.
  Definition c_of (x : T) : C := (x, o_of_Z O 0).
  Definition c0 : C := (o_of_Z O 0, o_of_Z O 0).
  Definition c1 : C := (o_of_Z O 1, o_of_Z O 0).
  Definition cadd (a b : C) : C := (re a + re b, im a + im b).
  Definition csub (a b : C) : C := (re a - re b, im a - im b).
  Definition cmul (a b : C) : C :=
    (re a * re b - im a * im b, re a * im b + im a * re b).
  Definition cscale (k : T) (a : C) : C := (k * re a, k * im a).
  Definition cdivr (a : C) (k : T) : C := (re a / k, im a / k).
  Definition cconj (a : C) : C := (re a, - im a).
  Definition copp (a : C) : C := (- re a, - im a).
  Definition cabs2 (a : C) : T := re a * re a + im a * im a.
End Cplx.

Arguments re {O} a.
Arguments im {O} a.
