(* Finite sums of reals over lists of indices. *)
From Coq Require Import Reals Lra List Arith Lia.
Import ListNotations.
Open Scope R_scope.

Fixpoint Rsum {A} (f : A -> R) (l : list A) : R :=
  match l with [] => 0 | x :: tl => f x + Rsum f tl end.

Lemma Rsum_ext {A} (f g : A -> R) l : (forall x, In x l -> f x = g x) -> Rsum f l = Rsum g l.
Proof.
  induction l as [|x tl IH]; intros H; cbn; [reflexivity|].
  rewrite (H x) by (left; reflexivity). rewrite IH; [reflexivity|].
  intros y Hy. apply H. right; exact Hy.
Qed.

Lemma Rsum_plus {A} (f g : A -> R) l : Rsum (fun x => f x + g x) l = Rsum f l + Rsum g l.
Proof. induction l as [|x tl IH]; cbn; [lra|rewrite IH; lra]. Qed.

Lemma Rsum_scal {A} c (f : A -> R) l : Rsum (fun x => c * f x) l = c * Rsum f l.
Proof. induction l as [|x tl IH]; cbn; [lra|rewrite IH; lra]. Qed.

Lemma Rsum_zero {A} (l : list A) : Rsum (fun _ => 0) l = 0.
Proof. induction l as [|x tl IH]; cbn; [reflexivity|rewrite IH; lra]. Qed.

Lemma Rsum_app {A} (f : A -> R) l1 l2 : Rsum f (l1 ++ l2) = Rsum f l1 + Rsum f l2.
Proof. induction l1 as [|x tl IH]; cbn; [lra|rewrite IH; lra]. Qed.

Lemma Rsum_nonneg {A} (f : A -> R) l : (forall x, In x l -> 0 <= f x) -> 0 <= Rsum f l.
Proof.
  induction l as [|x tl IH]; intros H; cbn; [lra|].
  assert (0 <= f x) by (apply H; left; reflexivity).
  assert (0 <= Rsum f tl) by (apply IH; intros y Hy; apply H; right; exact Hy). lra.
Qed.

Lemma Rsum_nonneg_zero {A} (f : A -> R) l :
  (forall x, In x l -> 0 <= f x) -> Rsum f l = 0 -> forall x, In x l -> f x = 0.
Proof.
  induction l as [|y tl IH]; intros Hpos Hz x Hx; [destruct Hx|].
  cbn in Hz.
  assert (H0 : 0 <= f y) by (apply Hpos; left; reflexivity).
  assert (H1 : 0 <= Rsum f tl) by (apply Rsum_nonneg; intros z Hzz; apply Hpos; right; exact Hzz).
  destruct Hx as [->|Hx]; [lra|].
  apply IH; [intros z Hzz; apply Hpos; right; exact Hzz|lra|exact Hx].
Qed.

(* sum of an indicator over a duplicate-free index list *)
Lemma Rsum_indicator (i : nat) (x : R) (l : list nat) :
  NoDup l -> In i l -> Rsum (fun r => if Nat.eqb i r then x else 0) l = x.
Proof.
  induction l as [|y tl IH]; intros Hnd Hin; [destruct Hin|].
  inversion Hnd as [|? ? Hny Hnd']; subst. cbn.
  destruct (Nat.eqb_spec i y) as [->|Hne].
  - rewrite (Rsum_ext _ (fun _ => 0)).
    + rewrite Rsum_zero; lra.
    + intros z Hz. destruct (Nat.eqb_spec y z) as [->|]; [contradiction|reflexivity].
  - destruct Hin as [->|Hin]; [contradiction|]. rewrite IH by assumption. lra.
Qed.

Lemma Rsum_indicator_out (i : nat) (x : R) (l : list nat) :
  ~ In i l -> Rsum (fun r => if Nat.eqb i r then x else 0) l = 0.
Proof.
  intros H. rewrite (Rsum_ext _ (fun _ => 0)); [apply Rsum_zero|].
  intros z Hz. destruct (Nat.eqb_spec i z) as [->|]; [contradiction|reflexivity].
Qed.

Lemma in_seq0 i n : (i < n)%nat -> In i (seq 0 n).
Proof. intros H. apply in_seq. lia. Qed.
