(* C05 / C11: frames, times and per-step records of the simulation loop. *)
From Coq Require Import List Arith Bool Lia ZArith.
From PyTdgl Require Import Model.Runner.
Import ListNotations.

Section RunnerP.
  Variable Tm : Type.
  Variable t0 : Tm.
  Variable tadd : Tm -> Tm -> Tm.
  Variable tleb : Tm -> Tm -> bool.
  Variable St Rec : Type.
  (* an update that always answers *)
  Variable updf : nat -> Tm -> Tm -> St -> Tm * St * Rec.
  Definition upd_ok : nat -> Tm -> Tm -> St -> outcome Tm St Rec :=
    fun i t d v => let r := updf i t d v in Ok Tm St Rec (fst (fst r)) (snd (fst r)) (snd r).

  Variable k : nat.
  Hypothesis k_pos : k <> 0.
  Variable dt0 : Tm.
  Variable v0 : St.

  (* the reference trajectory: what "the state after exactly i updates" means *)
  Fixpoint traj (i : nat) : Tm * Tm * St :=
    match i with
    | O => (t0, dt0, v0)
    | S j => let p := traj j in
             let r := updf j (fst (fst p)) (snd (fst p)) (snd p) in
             (tadd (fst (fst p)) (fst (fst r)), fst (fst r), snd (fst r))
    end.
  Definition T (i : nat) : Tm := fst (fst (traj i)).
  Definition D (i : nat) : Tm := snd (fst (traj i)).
  Definition V (i : nat) : St := snd (traj i).
  Definition recd (j : nat) : Rec := snd (updf j (T j) (D j) (V j)).

  (* the RunningState buffer at loop entry i (before the clear) *)
  Fixpoint Bf (i : nat) : list Rec :=
    match i with
    | O => []
    | S j => (if Nat.eqb (j mod k) 0 then [] else Bf j) ++ [recd j]
    end.

  Definition frame_of (i : nat) : frame Tm St Rec :=
    mkFrame Tm St Rec i (T i) (D i) (V i) (if Nat.eqb i 0 then None else Some (Bf i)).
  Definition spec_frames (i m : nat) : list (frame Tm St Rec) :=
    flat_map (fun j => if Nat.eqb (j mod k) 0 then [frame_of j] else []) (seq i m).

  Definition canon (i : nat) (F : list (frame Tm St Rec)) : rstate Tm St Rec :=
    mkR Tm St Rec (T i) (D i) (V i) (Bf i) F.

  Notation stage' := (stage Tm tadd tleb St Rec upd_ok k true).

  Lemma traj_S i :
    traj (S i) = (tadd (T i) (fst (fst (updf i (T i) (D i) (V i)))),
                  fst (fst (updf i (T i) (D i) (V i))), snd (fst (updf i (T i) (D i) (V i)))).
  Proof. reflexivity. Qed.

  (* loop invariant: from the canonical state at step i, if the stop test first succeeds at i+m *)
  Lemma stage_spec (save : bool) (end_time : Tm) : forall m i F fuel,
    (forall j, i <= j < i + m -> tleb end_time (T j) = false) ->
    tleb end_time (T (i + m)) = true ->
    m < fuel ->
    stage' fuel save end_time i (canon i F) =
    (Finished,
     final_save Tm St Rec k save (i + m)
       (mkR Tm St Rec (T (i + m)) (D (i + m)) (V (i + m))
            (if Nat.eqb ((i + m) mod k) 0 then [] else Bf (i + m))
            (F ++ if save then spec_frames i (S m) else []))).
  Proof.
    induction m as [|m IH]; intros i F fuel Hlt Hge Hf.
    - destruct fuel as [|fuel]; [lia|]. rewrite Nat.add_0_r in *.
      cbn [stage]. unfold spec_frames. cbn [seq flat_map]. rewrite app_nil_r.
      destruct (Nat.eqb (i mod k) 0) eqn:E; unfold canon; cbn [r_time r_dt r_vals r_buf r_frames];
        rewrite Hge; cbn [andb]; unfold save_frame; cbn [r_time r_dt r_vals r_buf r_frames];
        destruct save; try rewrite app_nil_r; reflexivity.
    - destruct fuel as [|fuel]; [lia|].
      assert (Hi : tleb end_time (T i) = false) by (apply Hlt; lia).
      replace (i + S m) with (S i + m) in * by lia.
      cbn [stage].
      destruct (Nat.eqb (i mod k) 0) eqn:E; unfold canon; cbn [r_time r_dt r_vals r_buf r_frames];
        rewrite Hi; cbn [andb negb]; unfold upd_ok at 1; cbn [fst snd r_time r_dt r_vals r_buf r_frames].
      + replace ([] ++ [snd (updf i (T i) (D i) (V i))]) with (Bf (S i))
          by (cbn [Bf]; rewrite E; reflexivity).
        set (F' := save_frame Tm St Rec save i (mkR Tm St Rec (T i) (D i) (V i) (Bf i) F) (Bf i) (V i)).
        change (stage' fuel save end_time (S i) (canon (S i) F') =
                (Finished, final_save Tm St Rec k save (S i + m)
                   (mkR Tm St Rec (T (S i + m)) (D (S i + m)) (V (S i + m))
                      (if Nat.eqb ((S i + m) mod k) 0 then [] else Bf (S i + m))
                      (F ++ (if save then spec_frames i (S (S m)) else []))))).
        rewrite (IH (S i) F' fuel); [|intros j Hj; apply Hlt; lia|exact Hge|lia].
        f_equal. f_equal. unfold F', save_frame. cbn [r_time r_dt r_vals r_buf r_frames].
        unfold spec_frames. cbn [seq flat_map]. rewrite E.
        destruct save; [|rewrite !app_nil_r; reflexivity].
        rewrite <- app_assoc. reflexivity.
      + replace (Bf i ++ [snd (updf i (T i) (D i) (V i))]) with (Bf (S i))
          by (cbn [Bf]; rewrite E; reflexivity).
        change (stage' fuel save end_time (S i) (canon (S i) F) =
                (Finished, final_save Tm St Rec k save (S i + m)
                   (mkR Tm St Rec (T (S i + m)) (D (S i + m)) (V (S i + m))
                      (if Nat.eqb ((S i + m) mod k) 0 then [] else Bf (S i + m))
                      (F ++ (if save then spec_frames i (S (S m)) else []))))).
        rewrite (IH (S i) F fuel); [|intros j Hj; apply Hlt; lia|exact Hge|lia].
        f_equal. f_equal. unfold spec_frames. cbn [seq flat_map]. rewrite E. reflexivity.
  Qed.

  (* the frames of a whole (un-thermalised) run that stops at step N *)
  Definition run_frames (N : nat) : list (frame Tm St Rec) :=
    spec_frames 0 (S N) ++ (if Nat.eqb (N mod k) 0 then [] else [frame_of N]).

  Theorem run_frames_correct (end_time : Tm) (N fuel : nat) :
    (forall j, j < N -> tleb end_time (T j) = false) -> tleb end_time (T N) = true -> N < fuel ->
    let res := stage' fuel true end_time 0 (mkR Tm St Rec t0 dt0 v0 [] []) in
    fst res = Finished /\ r_frames _ _ _ (snd res) = run_frames N.
  Proof.
    intros Hlt Hge Hf res. unfold res.
    change (mkR Tm St Rec t0 dt0 v0 [] []) with (canon 0 []).
    rewrite (stage_spec true end_time N 0 [] fuel); [|intros j Hj; apply Hlt; lia|exact Hge|exact Hf].
    cbn [fst snd plus]. split; [reflexivity|].
    unfold final_save, run_frames. cbn [andb app].
    destruct (Nat.eqb (N mod k) 0) eqn:E; cbn [negb r_frames]; [rewrite app_nil_r; reflexivity|].
    unfold save_frame. cbn [r_time r_dt r_vals r_buf r_frames]. unfold frame_of. reflexivity.
  Qed.

  Lemma spec_steps : forall n a,
    map (f_step Tm St Rec) (spec_frames a n) = filter (fun j => Nat.eqb (j mod k) 0) (seq a n).
  Proof.
    induction n as [|n IH]; intros a; [reflexivity|].
    unfold spec_frames in *. cbn [seq flat_map filter]. rewrite map_app, IH.
    destruct (Nat.eqb (a mod k) 0); reflexivity.
  Qed.

  (* C05: frames are recorded at 0, k, 2k, ... and at the final step *)
  Theorem frame_steps N :
    map (f_step _ _ _) (run_frames N)
    = filter (fun j => Nat.eqb (j mod k) 0) (seq 0 (S N)) ++ (if Nat.eqb (N mod k) 0 then [] else [N]).
  Proof.
    unfold run_frames. rewrite map_app, spec_steps. f_equal.
    destruct (Nat.eqb (N mod k) 0); reflexivity.
  Qed.

  (* C05: a frame labelled (step s, time t) holds the state after exactly s updates, and t is the
     time accumulated by the first s steps (same additions, same order) *)
  Theorem frame_content N f :
    In f (run_frames N) ->
    f_vals _ _ _ f = V (f_step _ _ _ f) /\ f_time _ _ _ f = T (f_step _ _ _ f) /\ f_dt _ _ _ f = D (f_step _ _ _ f).
  Proof.
    unfold run_frames. intros H. apply in_app_or in H. destruct H as [H|H].
    - unfold spec_frames in H. apply in_flat_map in H. destruct H as [j [_ H]].
      destruct (Nat.eqb (j mod k) 0); [|destruct H]. destruct H as [<-|[]]. cbn. auto.
    - destruct (Nat.eqb (N mod k) 0); [destruct H|]. destruct H as [<-|[]]. cbn. auto.
  Qed.

  Theorem time_is_sum_of_steps i :
    T i = fold_left tadd (map (fun j => D (S j)) (seq 0 i)) t0.
  Proof.
    induction i as [|i IH]; [reflexivity|].
    rewrite seq_S, map_app, fold_left_app, <- IH. cbn [map fold_left plus].
    unfold T at 1, D. rewrite traj_S. reflexivity.
  Qed.

  (* C05: per-step records appear exactly once per step, in order *)
  Lemma spec_frames_S a n :
    spec_frames a (S n) = spec_frames a n ++ (if Nat.eqb ((a + n) mod k) 0 then [frame_of (a + n)] else []).
  Proof.
    unfold spec_frames. rewrite seq_S, flat_map_app. cbn [flat_map]. rewrite app_nil_r. reflexivity.
  Qed.

  Lemma read_records_app l1 l2 :
    read_records Tm St Rec (l1 ++ l2) = read_records Tm St Rec l1 ++ read_records Tm St Rec l2.
  Proof. unfold read_records. apply flat_map_app. Qed.

  Lemma records_upto n :
    read_records Tm St Rec (spec_frames 0 (S n)) ++ (if Nat.eqb (n mod k) 0 then [] else Bf n)
    = map recd (seq 0 n).
  Proof.
    induction n as [|n IH].
    - unfold read_records, spec_frames. cbn [seq flat_map].
      rewrite Nat.mod_0_l by exact k_pos. cbn. reflexivity.
    - rewrite spec_frames_S, read_records_app. cbn [plus].
      assert (EB : read_records Tm St Rec (if Nat.eqb (S n mod k) 0 then [frame_of (S n)] else [])
                   ++ (if Nat.eqb (S n mod k) 0 then [] else Bf (S n)) = Bf (S n)).
      { destruct (Nat.eqb (S n mod k) 0); [|reflexivity].
        unfold read_records. cbn [flat_map frame_of f_buf Nat.eqb]. rewrite !app_nil_r. reflexivity. }
      rewrite <- app_assoc, EB. cbn [Bf]. rewrite app_assoc, IH, seq_S, map_app. reflexivity.
  Qed.

  Theorem records_once_in_order N :
    read_records Tm St Rec (run_frames N) = map recd (seq 0 N).
  Proof.
    unfold run_frames. unfold read_records. rewrite flat_map_app. fold (read_records Tm St Rec (spec_frames 0 (S N))).
    rewrite <- records_upto.
    f_equal. destruct (Nat.eqb (N mod k) 0) eqn:E; [reflexivity|].
    cbn [flat_map frame_of f_buf]. destruct N; [rewrite Nat.mod_0_l in E by exact k_pos; discriminate|].
    cbn. rewrite app_nil_r. reflexivity.
  Qed.
  (* ---------- C05: Solution.times are the times of the recorded frames ---------- *)
  Lemma T_S a : tadd (T a) (D (S a)) = T (S a).
  Proof. unfold T, D. rewrite traj_S. reflexivity. Qed.

  Lemma cumsum_traj : forall n a,
    cumsum Tm tadd (T a) (map (fun j => D (S j)) (seq a n)) = map T (seq (S a) n).
  Proof.
    induction n as [|n IH]; intros a; [reflexivity|].
    cbn [seq map cumsum]. rewrite T_S, IH. reflexivity.
  Qed.

  Lemma every_kth_filter : forall n a j, j < k -> (a + j) mod k = 0 ->
    every_kth Tm k j (map T (seq a n)) = map T (filter (fun i => Nat.eqb (i mod k) 0) (seq a n)).
  Proof.
    induction n as [|n IH]; intros a j Hj Hm; [reflexivity|].
    cbn [seq map every_kth filter]. destruct j as [|j'].
    - rewrite Nat.add_0_r in Hm. rewrite Hm. cbn [Nat.eqb map]. f_equal.
      apply IH; [lia|]. replace (S a + (k - 1)) with (a + 1 * k) by lia.
      rewrite Nat.mod_add by exact k_pos. exact Hm.
    - cbn [Nat.eqb]. destruct (Nat.eqb (a mod k) 0) eqn:E.
      + exfalso. apply Nat.eqb_eq in E.
        rewrite Nat.add_mod in Hm by exact k_pos. rewrite E in Hm. cbn [plus] in Hm.
        rewrite Nat.mod_mod in Hm by exact k_pos. rewrite Nat.mod_small in Hm by exact Hj. discriminate.
      + replace (S j' - 1) with j' by lia. apply IH; [lia|].
        replace (S a + j') with (a + S j') by lia. exact Hm.
  Qed.

  Lemma spec_times : forall n a,
    map (f_time Tm St Rec) (spec_frames a n) = map T (filter (fun j => Nat.eqb (j mod k) 0) (seq a n)).
  Proof.
    induction n as [|n IH]; intros a; [reflexivity|].
    unfold spec_frames in *. cbn [seq flat_map filter]. rewrite map_app, IH.
    destruct (Nat.eqb (a mod k) 0); reflexivity.
  Qed.

  (* the reader's time axis, computed from the per-step dt values alone (0 :: cumsum dt, every k-th and the last),
     is exactly the list of times stored in the frames, frame by frame *)
  Theorem times_are_frame_times N :
    solution_times Tm t0 tadd k (map (fun j => D (S j)) (seq 0 N)) = map (f_time Tm St Rec) (run_frames N).
  Proof.
    unfold solution_times, run_frames. cbv zeta. rewrite map_length, seq_length.
    assert (E : t0 :: cumsum Tm tadd t0 (map (fun j => D (S j)) (seq 0 N)) = map T (seq 0 (S N))).
    { change (cumsum Tm tadd t0) with (cumsum Tm tadd (T 0)). rewrite cumsum_traj. reflexivity. }
    rewrite !E. clear E.
    rewrite every_kth_filter; [|lia|rewrite Nat.add_0_r; apply Nat.mod_0_l; exact k_pos].
    rewrite map_app, spec_times.
    destruct (Nat.eqb (N mod k) 0); [rewrite app_nil_r; reflexivity|].
    f_equal. rewrite seq_S, map_app. cbn [map plus]. rewrite last_last. reflexivity.
  Qed.

  (* ... and the same from the records actually read back from the file, when the update records the dt it used *)
  Theorem times_from_records (rec_dt : Rec -> Tm) N :
    (forall i t d v, rec_dt (snd (updf i t d v)) = fst (fst (updf i t d v))) ->
    solution_times Tm t0 tadd k (map rec_dt (read_records Tm St Rec (run_frames N)))
    = map (f_time Tm St Rec) (run_frames N).
  Proof.
    intros Hr. rewrite records_once_in_order, map_map, <- times_are_frame_times. f_equal.
    apply map_ext. intros j. unfold recd. rewrite Hr. unfold D. rewrite traj_S. reflexivity.
  Qed.
End RunnerP.

(* ---------- C05: the thermalisation stage leaves no trace in the recorded frames ---------- *)
Section Thermal.
  Variable Tm : Type.
  Variable t0 : Tm.
  Variable tadd : Tm -> Tm -> Tm.
  Variable tleb : Tm -> Tm -> bool.
  Variable St Rec : Type.
  Variable updf : nat -> Tm -> Tm -> St -> Tm * St * Rec.
  Variable k : nat.
  Hypothesis k_pos : k <> 0.

  (* Runner.run with skip_time: the thermalisation stage runs M updates (never saved), then step and time restart at
     0 and the recorded frames are exactly those of an un-thermalised run started from the thermalised values and
     time step: no frame, record or time offset of the first stage survives *)
  Theorem thermalisation_unrecorded (sk solve_time dt0 : Tm) (v0 : St) (M N fuel : nat) :
    (forall j, j < M -> tleb sk (T Tm t0 tadd St Rec updf dt0 v0 j) = false) ->
    tleb sk (T Tm t0 tadd St Rec updf dt0 v0 M) = true -> M < fuel ->
    let dt1 := D Tm t0 tadd St Rec updf dt0 v0 M in
    let v1 := V Tm t0 tadd St Rec updf dt0 v0 M in
    (forall j, j < N -> tleb solve_time (T Tm t0 tadd St Rec updf dt1 v1 j) = false) ->
    tleb solve_time (T Tm t0 tadd St Rec updf dt1 v1 N) = true -> N < fuel ->
    let res := run Tm t0 tadd tleb St Rec (upd_ok Tm St Rec updf) k true fuel (Some sk) solve_time dt0 v0 in
    fst res = Finished /\ r_frames _ _ _ (snd res) = run_frames Tm t0 tadd St Rec updf k dt1 v1 N.
  Proof.
    intros H1 H2 H3 dt1 v1 H4 H5 H6 res. unfold res, run.
    change (mkR Tm St Rec t0 dt0 v0 [] []) with (canon Tm t0 tadd St Rec updf k dt0 v0 0 []).
    erewrite stage_spec with (m := M) (i := 0) (F := []); try eassumption;
      [|intros j Hj; apply H1; lia].
    unfold final_save. cbn [andb plus r_dt r_vals r_frames app].
    apply run_frames_correct; assumption.
  Qed.
End Thermal.

(* ---------- the loop as found (stop test after the update) violates frame_content ---------- *)
Definition cnt_upd : nat -> Z -> Z -> nat -> outcome Z nat Z :=
  fun i t d v => Ok Z nat Z 1%Z (S v) 1%Z.          (* values = number of updates performed; dt = 1 *)

Theorem frame_content_as_found_refuted :
  exists f, In f (r_frames _ _ _ (snd (stage Z Z.add Z.leb nat Z cnt_upd 2 false 20 true 5%Z 0
                                      (mkR Z nat Z 0%Z 1%Z 0 [] []))))
            /\ f_step _ _ _ f = 5 /\ f_vals _ _ _ f = 6.
Proof. eexists. split; [vm_compute; do 3 right; left; reflexivity|]. split; reflexivity. Qed.

(* with the stop test first the same run gives frame 5 holding 5 updates *)
Example frame_content_repaired_example :
  map (fun f => (f_step _ _ _ f, f_vals _ _ _ f))
      (r_frames _ _ _ (snd (stage Z Z.add Z.leb nat Z cnt_upd 2 true 20 true 5%Z 0 (mkR Z nat Z 0%Z 1%Z 0 [] []))))
  = [(0, 0); (2, 2); (4, 4); (5, 5)].
Proof. vm_compute. reflexivity. Qed.

(* ---------- C11: observing does not change the trajectory; resuming ---------- *)
Section Observer.
  Variable Tm : Type.
  Variable t0 : Tm.
  Variable tadd : Tm -> Tm -> Tm.
  Variable St Rec : Type.
  Variable updf : nat -> Tm -> Tm -> St -> Tm * St * Rec.
  Variable dt0 : Tm.
  Variable v0 : St.

  (* frames carrying the same step label are identical whatever the two save intervals are
     (the trajectory T, D, V does not mention the save interval at all) *)
  Theorem observer_independent (k k' N N' : nat) f f' :
    In f (run_frames Tm t0 tadd St Rec updf k dt0 v0 N) ->
    In f' (run_frames Tm t0 tadd St Rec updf k' dt0 v0 N') ->
    f_step _ _ _ f = f_step _ _ _ f' ->
    f_vals _ _ _ f = f_vals _ _ _ f' /\ f_time _ _ _ f = f_time _ _ _ f' /\ f_dt _ _ _ f = f_dt _ _ _ f'.
  Proof.
    intros H H' E.
    destruct (frame_content Tm t0 tadd St Rec updf k dt0 v0 N f H) as (A1 & A2 & A3).
    destruct (frame_content Tm t0 tadd St Rec updf k' dt0 v0 N' f' H') as (B1 & B2 & B3).
    rewrite A1, A2, A3, B1, B2, B3, E. auto.
  Qed.

  (* resuming: if the update depends on neither the step index nor the time (time-independent drive),
     n+m steps equal n steps followed by m steps started from the state reached *)
  Hypothesis upd_autonomous : forall i j t t' d v, updf i t d v = updf j t' d v.

  Theorem resume_concat n m :
    V Tm t0 tadd St Rec updf dt0 v0 (n + m)
      = V Tm t0 tadd St Rec updf (D Tm t0 tadd St Rec updf dt0 v0 n) (V Tm t0 tadd St Rec updf dt0 v0 n) m
    /\ D Tm t0 tadd St Rec updf dt0 v0 (n + m)
      = D Tm t0 tadd St Rec updf (D Tm t0 tadd St Rec updf dt0 v0 n) (V Tm t0 tadd St Rec updf dt0 v0 n) m.
  Proof.
    induction m as [|m [IHV IHD]].
    - rewrite Nat.add_0_r. split; reflexivity.
    - replace (n + S m) with (S (n + m)) by lia.
      unfold V, D in *. rewrite !traj_S. cbn [fst snd]. unfold V, D, T in *.
      rewrite IHV, IHD.
      rewrite (upd_autonomous (n + m) m _ (fst (fst (traj Tm t0 tadd St Rec updf
                 (snd (fst (traj Tm t0 tadd St Rec updf dt0 v0 n))) (snd (traj Tm t0 tadd St Rec updf dt0 v0 n)) m)))).
      split; reflexivity.
  Qed.

  (* the frames of the continuation: started from the state (and time step) reached after n updates and recorded with ANY save
     interval k, the frame labelled s holds what the uninterrupted run holds after n + s updates *)
  Theorem resume_frames (k n m : nat) f :
    In f (run_frames Tm t0 tadd St Rec updf k
            (D Tm t0 tadd St Rec updf dt0 v0 n) (V Tm t0 tadd St Rec updf dt0 v0 n) m) ->
    f_vals _ _ _ f = V Tm t0 tadd St Rec updf dt0 v0 (n + f_step _ _ _ f) /\
    f_dt _ _ _ f = D Tm t0 tadd St Rec updf dt0 v0 (n + f_step _ _ _ f).
  Proof.
    intros H.
    destruct (frame_content Tm t0 tadd St Rec updf k _ _ m f H) as (A1 & _ & A3).
    destruct (resume_concat n (f_step _ _ _ f)) as [RV RD].
    rewrite A1, A3, RV, RD. split; reflexivity.
  Qed.
End Observer.

(* ---------- C15: a fault (exception or KeyboardInterrupt) in the update at step p ---------- *)
Section Fault.
  Variable Tm : Type.
  Variable t0 : Tm.
  Variable tadd : Tm -> Tm -> Tm.
  Variable tleb : Tm -> Tm -> bool.
  Variable St Rec : Type.
  Variable updf : nat -> Tm -> Tm -> St -> Tm * St * Rec.
  Variable k : nat.
  Variable dt0 : Tm.
  Variable v0 : St.
  Variable p : nat.                       (* the update call that fails *)
  Variable kbd : bool.                    (* true: KeyboardInterrupt, false: exception *)

  Definition upd_fault : nat -> Tm -> Tm -> St -> outcome Tm St Rec :=
    fun i t d v => if Nat.eqb i p then (if kbd then Kbd Tm St Rec else Err Tm St Rec)
                   else upd_ok Tm St Rec updf i t d v.

  Notation Tq := (T Tm t0 tadd St Rec updf dt0 v0).
  Notation Dq := (D Tm t0 tadd St Rec updf dt0 v0).
  Notation Vq := (V Tm t0 tadd St Rec updf dt0 v0).
  Notation Bq := (Bf Tm t0 tadd St Rec updf k dt0 v0).
  Notation specq := (spec_frames Tm t0 tadd St Rec updf k dt0 v0).
  Notation canonq := (canon Tm t0 tadd St Rec updf k dt0 v0).

  Lemma stage_fault (save : bool) (end_time : Tm) : forall m i F fuel,
    i + m = p ->
    (forall j, i <= j <= p -> tleb end_time (Tq j) = false) ->
    m < fuel ->
    stage Tm tadd tleb St Rec upd_fault k true fuel save end_time i (canonq i F) =
    let s := mkR Tm St Rec (Tq p) (Dq p) (Vq p)
                 (if Nat.eqb (p mod k) 0 then [] else Bq p)
                 (F ++ if save then specq i (S m) else []) in
    if kbd then (Cancelled, final_save Tm St Rec k save p s) else (Raised, s).
  Proof.
    induction m as [|m IH]; intros i F fuel Hp Hlt Hf.
    - destruct fuel as [|fuel]; [lia|]. rewrite Nat.add_0_r in Hp. subst i.
      assert (Hi : tleb end_time (Tq p) = false) by (apply Hlt; lia).
      cbn [stage]. unfold spec_frames. cbn [seq flat_map]. rewrite app_nil_r.
      destruct (Nat.eqb (p mod k) 0) eqn:E; unfold canon; cbn [r_time r_dt r_vals r_buf r_frames];
        rewrite Hi; cbn [andb]; unfold upd_fault at 1; rewrite Nat.eqb_refl;
        unfold save_frame; cbn [r_time r_dt r_vals r_buf r_frames];
        destruct kbd, save; try rewrite app_nil_r; reflexivity.
    - destruct fuel as [|fuel]; [lia|].
      assert (Hi : tleb end_time (Tq i) = false) by (apply Hlt; lia).
      assert (Hne : Nat.eqb i p = false) by (apply Nat.eqb_neq; lia).
      cbn [stage].
      destruct (Nat.eqb (i mod k) 0) eqn:E; unfold canon; cbn [r_time r_dt r_vals r_buf r_frames];
        rewrite Hi; cbn [andb negb]; unfold upd_fault at 1; rewrite Hne; unfold upd_ok at 1;
        cbn [fst snd r_time r_dt r_vals r_buf r_frames].
      + replace ([] ++ [snd (updf i (Tq i) (Dq i) (Vq i))]) with (Bq (S i))
          by (cbn [Bf]; rewrite E; reflexivity).
        set (F' := save_frame Tm St Rec save i (mkR Tm St Rec (Tq i) (Dq i) (Vq i) (Bq i) F) (Bq i) (Vq i)).
        match goal with |- _ = ?rhs =>
          change (stage Tm tadd tleb St Rec upd_fault k true fuel save end_time (S i) (canonq (S i) F') = rhs) end.
        rewrite (IH (S i) F' fuel); [|lia|intros j Hj; apply Hlt; lia|lia].
        cbv zeta. unfold F', save_frame. cbn [r_time r_dt r_vals r_buf r_frames].
        unfold spec_frames. cbn [seq flat_map]. rewrite E.
        destruct save; rewrite ?app_nil_r, <- ?app_assoc; reflexivity.
      + replace (Bq i ++ [snd (updf i (Tq i) (Dq i) (Vq i))]) with (Bq (S i))
          by (cbn [Bf]; rewrite E; reflexivity).
        match goal with |- _ = ?rhs =>
          change (stage Tm tadd tleb St Rec upd_fault k true fuel save end_time (S i) (canonq (S i) F) = rhs) end.
        rewrite (IH (S i) F fuel); [|lia|intros j Hj; apply Hlt; lia|lia].
        cbv zeta. unfold spec_frames. cbn [seq flat_map]. rewrite E. reflexivity.
  Qed.
End Fault.

Section FaultThm.
  Variable Tm : Type.
  Variable t0 : Tm.
  Variable tadd : Tm -> Tm -> Tm.
  Variable tleb : Tm -> Tm -> bool.
  Variable St Rec : Type.
  Variable updf : nat -> Tm -> Tm -> St -> Tm * St * Rec.
  Variable k : nat.
  Variable dt0 : Tm.
  Variable v0 : St.

  (* an exception in update call p: the file holds exactly the frames recorded before it
     (labels 0, k, 2k, ... <= p), each complete *)
  Theorem frames_prefix_on_error (end_time : Tm) (p fuel : nat) :
    (forall j, j <= p -> tleb end_time (T Tm t0 tadd St Rec updf dt0 v0 j) = false) -> p < fuel ->
    let res := stage Tm tadd tleb St Rec (upd_fault Tm St Rec updf p false) k true fuel true end_time 0
                     (mkR Tm St Rec t0 dt0 v0 [] []) in
    fst res = Raised /\
    r_frames _ _ _ (snd res) = spec_frames Tm t0 tadd St Rec updf k dt0 v0 0 (S p).
  Proof.
    intros Hlt Hf res. unfold res.
    change (mkR Tm St Rec t0 dt0 v0 [] []) with (canon Tm t0 tadd St Rec updf k dt0 v0 0 []).
    rewrite (stage_fault Tm t0 tadd tleb St Rec updf k dt0 v0 p false true end_time p 0 [] fuel);
      [|reflexivity|intros j Hj; apply Hlt; lia|exact Hf].
    cbv zeta. split; reflexivity.
  Qed.

  (* a cancellation in update call p: the frames are exactly those of a run that ends at step p
     (so the partial solution is a genuine solution of the shorter run) *)
  Theorem frames_on_cancel (end_time : Tm) (p fuel : nat) :
    (forall j, j <= p -> tleb end_time (T Tm t0 tadd St Rec updf dt0 v0 j) = false) -> p < fuel ->
    let res := stage Tm tadd tleb St Rec (upd_fault Tm St Rec updf p true) k true fuel true end_time 0
                     (mkR Tm St Rec t0 dt0 v0 [] []) in
    fst res = Cancelled /\
    r_frames _ _ _ (snd res) = run_frames Tm t0 tadd St Rec updf k dt0 v0 p.
  Proof.
    intros Hlt Hf res. unfold res.
    change (mkR Tm St Rec t0 dt0 v0 [] []) with (canon Tm t0 tadd St Rec updf k dt0 v0 0 []).
    rewrite (stage_fault Tm t0 tadd tleb St Rec updf k dt0 v0 p true true end_time p 0 [] fuel);
      [|reflexivity|intros j Hj; apply Hlt; lia|exact Hf].
    cbv zeta. cbn [fst snd app]. split; [reflexivity|].
    unfold final_save, run_frames. cbn [andb].
    destruct (Nat.eqb (p mod k) 0) eqn:E; cbn [negb r_frames]; [rewrite app_nil_r; reflexivity|].
    unfold save_frame. cbn [r_time r_dt r_vals r_buf r_frames]. unfold frame_of. reflexivity.
  Qed.
End FaultThm.
