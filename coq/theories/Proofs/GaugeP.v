(* The scalar potential is fixed at one site (fix b2b65b0: row 0 of the Poisson matrix is the identity row and
   rhs[0] = 0).  The linear solver then returns mu with mu_0 = 0 and (L mu)_r = rhs_r for every r <> 0 only.
   Here: the area-weighted defect of the dropped row equals minus the area-weighted sum of the right-hand side,
   which is the total injected current; so for balanced terminal currents the equation of cell 0 follows from
   the others and charge is conserved in EVERY cell, cell 0 included - and for unbalanced currents the whole
   imbalance appears in cell 0. *)
From Coq Require Import Reals Lra List Arith Lia Bool.
From PyTdgl Require Import Base.Ops Base.Cplx Base.Sums Model.FV Model.Euler Model.Step
     Proofs.EulerR Proofs.FVR Proofs.FVC Proofs.StepP.
Import ListNotations.
Open Scope R_scope.

Lemma seq_head n : (0 < n)%nat -> seq 0 n = 0%nat :: seq 1 (n - 1).
Proof. intros H. destruct n as [|m]; [lia|]. cbn [seq]. replace (S m - 1)%nat with m by lia. reflexivity. Qed.

Section Gauge.
  Variable a : nat -> R.
  Variable n : nat.
  Variable es : list edgeR.
  Hypothesis Hwf : wf_edges n es.
  Hypothesis Ha : areas_nz n a.
  Hypothesis Hn : (0 < n)%nat.

  Lemma lap_sum_zero g :
    Rsum (fun r => a r * applyR (lap_coo OpsR a es) g r) (seq 0 n) = 0.
  Proof.
    rewrite (Rsum_ext _ (fun r => a r * applyR (div_coo OpsR a 0 es) (applyR (grad_coo OpsR 0 es) g) r))
      by (intros r _; rewrite lap_div_grad; reflexivity).
    apply div_sum_zero; assumption.
  Qed.

  (* the dropped row: a_0 ((L mu)_0 - rhs_0) = - sum_r a_r rhs_r whenever all the other rows hold *)
  Lemma pinned_row_defect mu rhs :
    (forall r, (0 < r < n)%nat -> applyR (lap_coo OpsR a es) mu r = rhs r) ->
    a 0%nat * (applyR (lap_coo OpsR a es) mu 0%nat - rhs 0%nat) = - Rsum (fun r => a r * rhs r) (seq 0 n).
  Proof.
    intros Hrows.
    pose proof (lap_sum_zero mu) as HL.
    assert (Hd : Rsum (fun r => a r * (applyR (lap_coo OpsR a es) mu r - rhs r)) (seq 0 n)
                 = - Rsum (fun r => a r * rhs r) (seq 0 n)).
    { rewrite (Rsum_ext _ (fun r => a r * applyR (lap_coo OpsR a es) mu r + (-1) * (a r * rhs r)))
        by (intros; lra).
      rewrite Rsum_plus, Rsum_scal, HL. lra. }
    rewrite <- Hd, (seq_head n Hn). cbn [Rsum].
    rewrite (Rsum_ext _ (fun _ => 0)), Rsum_zero; [lra|].
    intros r Hr. apply in_seq in Hr. rewrite Hrows by lia. lra.
  Qed.

  Lemma pinned_row_implied mu rhs :
    Rsum (fun r => a r * rhs r) (seq 0 n) = 0 ->
    (forall r, (0 < r < n)%nat -> applyR (lap_coo OpsR a es) mu r = rhs r) ->
    applyR (lap_coo OpsR a es) mu 0%nat = rhs 0%nat.
  Proof.
    intros Hc Hrows. pose proof (pinned_row_defect mu rhs Hrows) as H. rewrite Hc in H.
    pose proof (Ha 0%nat Hn) as Ha0.
    assert (applyR (lap_coo OpsR a es) mu 0%nat - rhs 0%nat = 0); [|lra].
    apply (Rmult_eq_reg_l (a 0%nat)); [lra|exact Ha0].
  Qed.

  Variable solve : (nat -> R) -> (nat -> R).

  (* area-weighted sum of the right-hand side of the Poisson equation = - total injected current *)
  Lemma rhs_sum U psi muB dAdt :
    let ob := solve_for_observables OpsR a es solve U psi muB dAdt in
    Rsum (fun r => a r * ob_rhs _ ob r) (seq 0 n) = - bflux_total 0 es muB.
  Proof.
    intros ob. unfold ob, solve_for_observables. cbn [ob_rhs]. ops.
    set (F := fun k => nthT OpsR (supercurrent OpsR es U psi) k - dAdt k).
    rewrite (Rsum_ext _ (fun r => a r * applyR (div_coo OpsR a 0 es) F r
                                  + (-1) * (a r * applyR (bflux_coo OpsR a 0 es) muB r)))
      by (intros; lra).
    rewrite Rsum_plus, Rsum_scal, div_sum_zero, boundary_flux_integral by assumption. lra.
  Qed.

  (* C01 with the pinned solver: balanced injection => continuity in every cell, the pinned one included *)
  Theorem continuity_pinned U psi muB dAdt :
    let ob := solve_for_observables OpsR a es solve U psi muB dAdt in
    bflux_total 0 es muB = 0 ->
    (forall r, (0 < r < n)%nat -> applyR (lap_coo OpsR a es) (ob_mu _ ob) r = ob_rhs _ ob r) ->
    forall r, (r < n)%nat ->
      applyR (div_coo OpsR a 0 es) (fun k => ob_Js _ ob k + ob_Jn _ ob k) r
      = applyR (bflux_coo OpsR a 0 es) muB r.
  Proof.
    intros ob Hbal Hrows. apply (continuity a n es solve).
    intros r Hr. destruct r as [|r']; [|apply Hrows; lia].
    apply pinned_row_implied; [|exact Hrows].
    pose proof (rhs_sum U psi muB dAdt) as Hs. cbv zeta in Hs. unfold ob.
    etransitivity; [exact Hs|]. rewrite Hbal. lra.
  Qed.

  (* ... and an unbalanced injection cannot be hidden: the defect of cell 0 is the total imbalance *)
  Theorem pinned_cell_carries_imbalance U psi muB dAdt :
    let ob := solve_for_observables OpsR a es solve U psi muB dAdt in
    (forall r, (0 < r < n)%nat -> applyR (lap_coo OpsR a es) (ob_mu _ ob) r = ob_rhs _ ob r) ->
    a 0%nat * (applyR (lap_coo OpsR a es) (ob_mu _ ob) 0%nat - ob_rhs _ ob 0%nat) = bflux_total 0 es muB.
  Proof.
    intros ob Hrows. etransitivity; [exact (pinned_row_defect _ _ Hrows)|].
    pose proof (rhs_sum U psi muB dAdt) as Hs. cbv zeta in Hs. unfold ob.
    apply Ropp_eq_compat in Hs. rewrite Ropp_involutive in Hs. exact Hs.
  Qed.
End Gauge.
