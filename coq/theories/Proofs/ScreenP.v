(* C13: screening returns a self-consistent induced vector potential or fails. *)
From Coq Require Import Reals Lra List Arith Lia Bool.
From PyTdgl Require Import Base.Ops Base.Sums Model.Screen.
Import ListNotations.
Open Scope R_scope.

Notation vecR := (vec OpsR).
Notation sourceR := (source OpsR).

Ltac opsr := cbn [o_add o_sub o_mul o_div o_opp o_of_Z o_sqrt o_ltb OpsR T] in *.

(* the accelerated kernel is the direct double sum, edge by edge and component by component *)
Lemma kernel_fold (srcs : list sourceR) (ex ey : R) : forall acc : R * R,
  fold_left (fun (acc : R * R) (s : sourceR) =>
               let dx := ex - s_x _ s in let dy := ey - s_y _ s in
               let dr := sqrt (dx * dx + dy * dy) in
               (fst acc + fst (s_J _ s) * s_area _ s / dr, snd acc + snd (s_J _ s) * s_area _ s / dr))
            srcs acc
  = (fst acc + Rsum (fun s : sourceR => fst (term OpsR s ex ey)) srcs,
     snd acc + Rsum (fun s : sourceR => snd (term OpsR s ex ey)) srcs).
Proof.
  induction srcs as [|s tl IH]; intros [a b]; cbn [fold_left Rsum fst snd]; [f_equal; lra|].
  rewrite IH. cbn [fst snd]. unfold term. opsr. cbn [fst snd]. f_equal; lra.
Qed.

Theorem kernel_is_double_sum (srcs : list sourceR) (ex ey : R) :
  kernel_at OpsR srcs ex ey
  = (Rsum (fun s : sourceR => fst (term OpsR s ex ey)) srcs, Rsum (fun s : sourceR => snd (term OpsR s ex ey)) srcs).
Proof.
  unfold kernel_at. opsr. rewrite kernel_fold. unfold vzero. opsr. cbn [fst snd]. f_equal; lra.
Qed.

(* ... and it is linear in the currents (used by C20 as well) *)
Definition scaleJ (c : R) (s : sourceR) : sourceR :=
  Build_source OpsR (s_x _ s) (s_y _ s) (s_area _ s) (c * fst (s_J _ s), c * snd (s_J _ s)).
Theorem kernel_homogeneous (c : R) (srcs : list sourceR) (ex ey : R) :
  kernel_at OpsR (map (scaleJ c) srcs) ex ey = vscale OpsR c (kernel_at OpsR srcs ex ey).
Proof.
  rewrite !kernel_is_double_sum. unfold vscale. opsr. cbn [fst snd].
  f_equal; induction srcs as [|s tl IH]; cbn [map Rsum]; try lra; rewrite IH; unfold term, scaleJ; opsr; cbn [fst snd s_x s_y s_area s_J];
    unfold Rdiv; ring.
Qed.

(* ---------- one Polyak step ---------- *)
Lemma map2_length {A B C} (f : A -> B -> C) : forall l1 l2, length l1 = length l2 -> length (map2 f l1 l2) = length l1.
Proof. induction l1 as [|a t IH]; intros [|b t2] H; try discriminate; cbn; [reflexivity|]. f_equal. apply IH. cbn in H. lia. Qed.

(* K - A' = dA - v'  : the mismatch between the kernel of the stored currents and the stored potential *)
Theorem stored_mismatch_identity : forall (K A v' : list vecR),
  length K = length A -> length v' = length A ->
  map2 (vsub OpsR) K (map2 (vadd OpsR) A v') = map2 (vsub OpsR) (map2 (vsub OpsR) K A) v'.
Proof.
  induction K as [|k tk IH]; intros [|a ta] [|w tw] H1 H2; try discriminate; [reflexivity|].
  cbn [map2]. f_equal; [|apply IH; cbn in *; lia].
  destruct k, a, w. unfold vsub, vadd. opsr. cbn [fst snd]. f_equal; lra.
Qed.

(* with drag beta = 1 the stored mismatch is exactly (1 - alpha) * dA *)
Theorem stored_mismatch_beta1 alpha tiny : forall (K A vv : list vecR),
  length K = length A -> length vv = length A ->
  map2 (vsub OpsR) K (p_A _ (polyak_step OpsR alpha 1 tiny K A (Some vv)))
  = map (vscale OpsR (1 - alpha)) (map2 (vsub OpsR) K A).
Proof.
  unfold polyak_step. cbn [p_A].
  induction K as [|k tk IH]; intros [|a ta] [|w tw] H1 H2; try discriminate; [reflexivity|].
  cbn [map2 map]. f_equal; [|apply IH; cbn in *; lia].
  destruct k, a, w. unfold vsub, vadd, vscale. opsr. cbn [fst snd]. f_equal; lra.
Qed.

(* ---------- the relative error and what `err < tol` means edge by edge ---------- *)
Lemma omaxT_Rmax a b : omaxT OpsR a b = Rmax a b.
Proof.
  unfold omaxT. opsr. destruct (Rltb a b) eqn:E.
  - apply Rltb_true in E. rewrite Rmax_right; lra.
  - apply Rltb_false in E. rewrite Rmax_left; lra.
Qed.

Lemma fold_max_ge (l : list R) : forall acc, acc <= fold_left (omaxT OpsR) l acc /\ forall x, In x l -> x <= fold_left (omaxT OpsR) l acc.
Proof.
  induction l as [|y tl IH]; intros acc; cbn [fold_left]; [split; [lra|intros x []]|].
  destruct (IH (omaxT OpsR acc y)) as [A B]. rewrite omaxT_Rmax in *.
  split; [pose proof (Rmax_l acc y); lra|].
  intros x [E|Hx]; [subst; pose proof (Rmax_r acc x); lra|apply B; exact Hx].
Qed.

Theorem rel_error_bound tiny tol : forall (dA Anew : list vecR),
  0 < tiny -> rel_error OpsR tiny dA Anew < tol ->
  Forall (fun '(d, a) => vnorm OpsR d < tol * Rmax tiny (vnorm OpsR a)) (combine dA Anew).
Proof.
  intros dA Anew Ht H. unfold rel_error in H.
  set (qs := map2 _ dA Anew) in H.
  destruct (fold_max_ge qs (o_of_Z OpsR 0)) as [_ B].
  assert (Hq : forall q, In q qs -> q < tol) by (intros q Hq; specialize (B q Hq); lra).
  clear H B. unfold qs in Hq. clear qs. revert Anew Hq.
  induction dA as [|d td IH]; intros [|a ta] Hq; cbn [combine]; try constructor.
  - specialize (Hq (vnorm OpsR d / omaxT OpsR tiny (vnorm OpsR a)) ltac:(left; reflexivity)).
    rewrite omaxT_Rmax in Hq. opsr.
    assert (Hm : 0 < Rmax tiny (vnorm OpsR a)) by (pose proof (Rmax_l tiny (vnorm OpsR a)); lra).
    apply (Rmult_lt_compat_r _ _ _ Hm) in Hq. unfold Rdiv in Hq.
    rewrite Rmult_assoc, Rinv_l, Rmult_1_r in Hq by lra. exact Hq.
  - apply IH. intros q Hin. apply Hq. right; exact Hin.
Qed.

(* ---------- the loop ---------- *)
Section Loop.
  Variable Jof : list vecR -> list sourceR.
  Variable edges : list (R * R).
  Variables (alpha beta tol tiny : R).
  Variable max_it : nat.

  Definition loop_inv (err : option R) (A : list vecR) (lastK prevA : list vecR) : Prop :=
    match err with
    | None => True
    | Some e => lastK = kernel OpsR (Jof prevA) edges /\
                exists v, A = p_A _ (polyak_step OpsR alpha beta tiny lastK prevA v) /\
                          e = rel_error OpsR tiny (map2 (vsub OpsR) lastK prevA) A
    end.

  (* C13: whatever is returned was accepted by the convergence test: its last computed error is below the
     tolerance, and that error IS the mismatch between the kernel of the last currents and the previous
     iterate, relative to the returned iterate (no unconverged iterate is ever returned) *)
  Theorem exit_implies_converged : forall fuel it err A v lastK prevA A' iters e K' P',
    loop_inv err A lastK prevA ->
    screen_loop OpsR Jof edges fuel alpha beta tol tiny max_it it err A v lastK prevA = Converged OpsR A' iters e K' P' ->
    e < tol /\ loop_inv (Some e) A' K' P'.
  Proof.
    induction fuel as [|fuel IH]; intros it err A v lastK prevA A' iters e K' P' Hinv H; [discriminate|].
    cbn [screen_loop] in H.
    assert (Hrec : forall e1,
       screen_loop OpsR Jof edges fuel alpha beta tol tiny max_it (S it)
         (Some (p_err _ (polyak_step OpsR alpha beta tiny (kernel OpsR (Jof A) edges) A v)))
         (p_A _ (polyak_step OpsR alpha beta tiny (kernel OpsR (Jof A) edges) A v))
         (Some (p_v _ (polyak_step OpsR alpha beta tiny (kernel OpsR (Jof A) edges) A v)))
         (kernel OpsR (Jof A) edges) A = Converged OpsR A' iters e1 K' P' ->
       e1 < tol /\ loop_inv (Some e1) A' K' P').
    { intros e1 Hc. apply IH in Hc; [exact Hc|].
      cbn. split; [reflexivity|]. exists v. split; reflexivity. }
    destruct err as [e0|].
    - opsr. destruct (Rltb e0 tol) eqn:E.
      + inversion H; subst; clear H. apply Rltb_true in E. split; [exact E|exact Hinv].
      + destruct (Nat.ltb max_it it); [discriminate|]. apply Hrec. exact H.
    - destruct (Nat.ltb max_it it); [discriminate|]. apply Hrec. exact H.
  Qed.

  (* C13, the stored potential (as repaired: update() keeps the iterate P' that passed the test, the one the step's currents were
     computed with, not the next Polyak iterate A'): it reproduces the kernel of those currents edge by edge to within the
     tolerance (relative to max(tiny, |A'_e|)), whatever the step size, the drag and the velocity history *)
  Theorem stored_tested_iterate_mismatch : forall fuel it err A v lastK prevA A' iters e K' P',
    0 < tiny ->
    loop_inv err A lastK prevA ->
    screen_loop OpsR Jof edges fuel alpha beta tol tiny max_it it err A v lastK prevA = Converged OpsR A' iters e K' P' ->
    K' = kernel OpsR (Jof P') edges /\
    Forall (fun '(d, a) => vnorm OpsR d < tol * Rmax tiny (vnorm OpsR a)) (combine (map2 (vsub OpsR) K' P') A').
  Proof.
    intros fuel it err A v lastK prevA A' iters e K' P' Ht Hinv H.
    destruct (exit_implies_converged _ _ _ _ _ _ _ _ _ _ _ _ Hinv H) as [He [HK [v' [_ Hee]]]].
    split; [exact HK|]. apply rel_error_bound; [exact Ht|]. rewrite <- Hee. exact He.
  Qed.

  (* the number of screening iterations reported never exceeds max_iterations_per_step + 1 *)
  Theorem iterations_bounded : forall fuel it err A v lastK prevA A' iters e K' P',
    (it <= max_it + 1)%nat ->
    screen_loop OpsR Jof edges fuel alpha beta tol tiny max_it it err A v lastK prevA = Converged OpsR A' iters e K' P' ->
    (it <= iters <= max_it + 1)%nat.
  Proof.
    induction fuel as [|fuel IH]; intros it err A v lastK prevA A' iters e K' P' Hit H; [discriminate|].
    cbn [screen_loop] in H.
    destruct (match err with Some e1 => o_ltb OpsR e1 tol | None => false end).
    - inversion H; subst. lia.
    - destruct (Nat.ltb max_it it) eqn:G; [discriminate|]. apply Nat.ltb_ge in G.
      apply IH in H; lia.
  Qed.

  (* with enough fuel the model always decides: converged, or the RuntimeError of the code *)
  Theorem loop_decides : forall fuel it err A v lastK prevA,
    (it <= max_it + 1)%nat -> (max_it + 2 < fuel + it)%nat ->
    screen_loop OpsR Jof edges fuel alpha beta tol tiny max_it it err A v lastK prevA <> Fuel OpsR.
  Proof.
    induction fuel as [|fuel IH]; intros it err A v lastK prevA Hit Hf; [lia|].
    cbn [screen_loop].
    destruct (match err with Some e1 => o_ltb OpsR e1 tol | None => false end); [discriminate|].
    destruct (Nat.ltb max_it it) eqn:G; [discriminate|]. apply Nat.ltb_ge in G.
    apply IH; lia.
  Qed.
End Loop.
