(* The whole step, and every step of a run, solves the documented discretised TDGL equation (docs eq. tdgl-num) at
   every free site, with the documented covariant Laplacian (docs eq. laplacian-psi) on the right-hand side. *)
From Coq Require Import Reals Lra List Arith Lia Bool.
From PyTdgl Require Import Base.Ops Base.Cplx Base.Sums Model.FV Model.Euler Model.Step
  Proofs.FVR Proofs.FVC Proofs.EulerR Proofs.EulerNum Proofs.StepP.
Import ListNotations.
Open Scope R_scope.

Section StepNum.
  Variable a : nat -> R.
  Variable n : nat.
  Variable es : list edgeR.
  Variable fixed : list nat.
  Variable solve : (nat -> R) -> (nat -> R).

  (* docs eq. laplacian-psi: (1/a_r) sum over the edges at r of (s/e) (U psi_other - psi_r); Kedge is one edge's term *)
  Definition lap_doc (U : list RC) (psi : nat -> RC) (r : nat) : RC :=
    fold_right (fun eu acc => cxadd (Kedge a (fst eu) (snd eu) psi r) acc) cx0 (combine es U).

  Lemma clap_free_is_documented : forall (l : list edgeR) U psi r,
    capplyR (clap_free OpsR a [] l U) psi r
    = fold_right (fun eu acc => cxadd (Kedge a (fst eu) (snd eu) psi r) acc) cx0 (combine l U).
  Proof.
    induction l as [|e tl IH]; intros U psi r; [reflexivity|].
    destruct U as [|u us]; [reflexivity|].
    rewrite clap_free_nil_cons, IH. reflexivity.
  Qed.

  Lemma clap_is_documented U psi r : ~ In r fixed ->
    capplyR (clap_coo OpsR a fixed es U) psi r = lap_doc U psi r.
  Proof.
    intros Hr. rewrite (free_rows_unpinned a fixed es U psi r Hr).
    unfold clap_coo. cbn [map]. rewrite capplyR_app, capplyR_nil, cxadd_0_r.
    apply clap_free_is_documented.
  Qed.

  Lemma euler_all_site tlink U psi eps gamma u dt p r :
    euler_all OpsR a n es fixed tlink U psi eps gamma u dt = Some p -> (r < n)%nat ->
    exists x, euler_site OpsR a es fixed tlink U psi eps gamma u dt r = Some (x, p r).
  Proof.
    unfold euler_all. intros H Hr.
    destruct (forallb _ (seq 0 n)) eqn:F; [|discriminate].
    inversion H; subst p; clear H.
    rewrite forallb_forall in F. specialize (F r). 
    assert (Hin : In r (seq 0 n)) by (apply in_seq; lia). specialize (F Hin).
    destruct (euler_site OpsR a es fixed tlink U psi eps gamma u dt r) as [[x q]|]; [|discriminate].
    exists x. reflexivity.
  Qed.

  Theorem step_solves_tdgl_num tlink repin U psi eps gamma u dt muB dAdt o r :
    step OpsR a n es fixed solve tlink repin U psi eps gamma u dt muB dAdt = Some o ->
    (r < n)%nat -> ~ In r fixed -> cabs2 OpsR (tlink r) = 1 -> 0 < u -> 0 < dt ->
    tdgl_num_lhs (tlink r) (psi r) (so_psi _ o r) (cabs2 OpsR (so_psi _ o r)) (cabs2 OpsR (psi r)) gamma u dt
    = tdgl_num_rhs (psi r) (lap_doc U psi r) (cabs2 OpsR (psi r)) (eps r).
  Proof.
    intros H Hr Hfree HU Hu Hdt. unfold step in H.
    destruct (euler_all OpsR a n es fixed tlink U psi eps gamma u dt) as [p|] eqn:E; [|discriminate].
    destruct (euler_all_site tlink U psi eps gamma u dt p r E Hr) as [x Hx].
    assert (Ep : so_psi _ o r = p r).
    { inversion H; subst o; clear H. cbn [so_psi]. destruct repin as [v|]; [|reflexivity].
      rewrite (is_fixed_notin fixed r Hfree). reflexivity. }
    rewrite Ep. unfold euler_site in Hx. rewrite (clap_is_documented U psi r Hfree) in Hx.
    apply (answered_solves_tdgl_num (tlink r) (psi r) (lap_doc U psi r) (p r) x
             (cabs2 OpsR (psi r)) (eps r) gamma u dt); try assumption.
    unfold cabs2. cbn. destruct (psi r) as [pr pi_]. cbn. nra.
  Qed.
End StepNum.

Section RunNum.
  Variable a : nat -> R.
  Variable n : nat.
  Variable es : list edgeR.
  Variable fixed : list nat.
  Variable solve : (nat -> R) -> (nat -> R).
  Variable expi : R -> RC.
  Hypothesis expi_unit : forall x, cabs2 OpsR (expi x) = 1.

  (* the state a step of the run starts from: the initial state, or what the previous entry produced *)
  Definition state_before (repin : option RC) gamma u psi mu (l : list (step_in OpsR)) (k : nat)
             (psik : nat -> RC) (muk : nat -> R) : Prop :=
    match k with
    | O => psik = psi /\ muk = mu
    | S k' => exists o', nth_error (run_steps OpsR a n es fixed solve repin expi gamma u psi mu l) k' = Some (Some o')
                         /\ psik = so_psi _ o' /\ muk = ob_mu _ (so_obs _ o')
    end.

  Lemma run_steps_nth_state repin gamma u : forall l psi mu k o,
    nth_error (run_steps OpsR a n es fixed solve repin expi gamma u psi mu l) k = Some (Some o) ->
    exists i psik muk,
      nth_error l k = Some i /\ state_before repin gamma u psi mu l k psik muk /\
      step OpsR a n es fixed solve (fun r => expi (o_mul OpsR (muk r) (si_dt _ i))) repin
           (si_U _ i) psik (si_eps _ i) gamma u (si_dt _ i) (si_muB _ i) (si_dAdt _ i) = Some o.
  Proof.
    induction l as [|i tl IH]; intros psi mu k o H; [destruct k; discriminate|].
    cbn [run_steps] in H.
    destruct (step OpsR a n es fixed solve (fun r => expi (o_mul OpsR (mu r) (si_dt _ i))) repin
                   (si_U _ i) psi (si_eps _ i) gamma u (si_dt _ i) (si_muB _ i) (si_dAdt _ i)) as [o1|] eqn:E.
    - destruct k as [|k].
      + cbn [nth_error] in H. inversion H; subst. exists i, psi, mu.
        split; [reflexivity|]. split; [split; reflexivity|exact E].
      + cbn [nth_error] in H. destruct (IH _ _ _ _ H) as (i' & pk & mk & A & S & B).
        exists i', pk, mk. split; [exact A|]. split; [|exact B].
        unfold state_before. cbn [run_steps]. rewrite E.
        destruct k as [|k'].
        * destruct S as [-> ->]. exists o1. cbn [nth_error]. repeat split; reflexivity.
        * destruct S as (o' & N & P & M). exists o'. cbn [nth_error]. repeat split; assumption.
    - destruct k as [|[|k]]; cbn [nth_error] in H; discriminate.
  Qed.

  (* C02 at every step of a run: every answered step solves eq. tdgl-num at every free site, starting from the state
     the run was in (initial state, or the previous entry's psi and mu), with that step's links, epsilon and dt *)
  Theorem run_solves_tdgl_num repin gamma u : 0 < u ->
    forall l psi mu k o,
      nth_error (run_steps OpsR a n es fixed solve repin expi gamma u psi mu l) k = Some (Some o) ->
      exists i psik muk,
        nth_error l k = Some i /\ state_before repin gamma u psi mu l k psik muk /\
        (0 < si_dt _ i ->
         forall r, (r < n)%nat -> ~ In r fixed ->
           tdgl_num_lhs (expi (muk r * si_dt _ i)) (psik r) (so_psi _ o r) (cabs2 OpsR (so_psi _ o r))
                        (cabs2 OpsR (psik r)) gamma u (si_dt _ i)
           = tdgl_num_rhs (psik r) (lap_doc a es (si_U _ i) psik r) (cabs2 OpsR (psik r)) (si_eps _ i r)).
  Proof.
    intros Hu l psi mu k o H.
    destruct (run_steps_nth_state repin gamma u l psi mu k o H) as (i & pk & mk & A & S & B).
    exists i, pk, mk. split; [exact A|]. split; [exact S|].
    intros Hdt r Hr Hfree.
    apply (step_solves_tdgl_num a n es fixed solve _ repin (si_U _ i) pk (si_eps _ i) gamma u (si_dt _ i)
             (si_muB _ i) (si_dAdt _ i) o r B Hr Hfree (expi_unit _) Hu Hdt).
  Qed.
End RunNum.
