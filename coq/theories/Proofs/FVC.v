(* Covariant (complex, link-variable) operators: Hermiticity, gauge covariance,
   pinned rows. *)
From Coq Require Import Reals Lra List Arith Lia Bool.
From PyTdgl Require Import Base.Ops Base.Cplx Base.Sums Model.FV Proofs.FVR.
Import ListNotations.
Open Scope R_scope.

Notation RC := (C OpsR).
Notation capplyR := (capply_coo OpsR).

Definition cxadd (x y : RC) : RC := cadd OpsR x y.
Definition cxmul (x y : RC) : RC := cmul OpsR x y.
Definition cxconj (x : RC) : RC := cconj OpsR x.
Definition cxscale (k : R) (x : RC) : RC := cscale OpsR k x.
Definition cx0 : RC := c0 OpsR.

Ltac cx_unfold :=
  unfold cxadd, cxmul, cxconj, cxscale, cx0, cadd, cmul, cscale, cconj, csub, cdivr, c_of, c0, c1, copp, cabs2 in *;
  cbn [re im fst snd] in *; ops.
Ltac cx_ring := cx_unfold; f_equal; ring.
Ltac cx_field := cx_unfold; f_equal; field.

Lemma capplyR_cons r' c x m v r :
  capplyR ((r', c, x) :: m) v r = cxadd (if Nat.eqb r' r then cxmul x (v c) else cx0) (capplyR m v r).
Proof.
  unfold capply_coo. cbn [fold_right].
  destruct (Nat.eqb r' r); [reflexivity|].
  destruct (fold_right _ _ m) as [p q]. cx_ring.
Qed.

Lemma capplyR_nil v r : capplyR [] v r = cx0.
Proof. reflexivity. Qed.

Lemma cxadd_0_l x : cxadd cx0 x = x.
Proof. destruct x. cx_ring. Qed.
Lemma cxadd_0_r x : cxadd x cx0 = x.
Proof. destruct x. cx_ring. Qed.
Lemma cxadd_assoc x y z : cxadd (cxadd x y) z = cxadd x (cxadd y z).
Proof. destruct x, y, z. cx_ring. Qed.
Lemma cxmul_0_r x : cxmul x cx0 = cx0.
Proof. destruct x. cx_ring. Qed.
Lemma cxmul_add_r x y z : cxmul x (cxadd y z) = cxadd (cxmul x y) (cxmul x z).
Proof. destruct x, y, z. cx_ring. Qed.

Lemma capplyR_app m1 m2 v r : capplyR (m1 ++ m2) v r = cxadd (capplyR m1 v r) (capplyR m2 v r).
Proof.
  induction m1 as [|[[r' c] x] tl IH]; cbn [app].
  - rewrite capplyR_nil, cxadd_0_l. reflexivity.
  - rewrite !capplyR_cons, IH, cxadd_assoc. reflexivity.
Qed.

(* rows that do not occur in a matrix give 0 *)
Lemma capplyR_norow m v r :
  (forall r' c x, In (r', c, x) m -> r' <> r) -> capplyR m v r = cx0.
Proof.
  induction m as [|[[r' c] x] tl IH]; intros H; [reflexivity|].
  rewrite capplyR_cons, IH by (intros; eapply H; right; eassumption).
  destruct (Nat.eqb_spec r' r) as [E|]; [exfalso; eapply H; [left; reflexivity|exact E]|].
  apply cxadd_0_l.
Qed.

Section Cov.
  Variable a : nat -> R.

  (* contribution of one edge to row r of the (free) covariant Laplacian *)
  Definition Kedge (e : edgeR) (u : RC) (g : nat -> RC) (r : nat) : RC :=
    cxadd (if Nat.eqb (e_i _ e) r
           then cxscale (lap_w OpsR e / a (e_i _ e)) (cxadd (cxmul u (g (e_j _ e))) (cxscale (-1) (g (e_i _ e))))
           else cx0)
          (if Nat.eqb (e_j _ e) r
           then cxscale (lap_w OpsR e / a (e_j _ e)) (cxadd (cxmul (cxconj u) (g (e_i _ e))) (cxscale (-1) (g (e_j _ e))))
           else cx0).

  Lemma clap_free_nil_cons e tl u us g r :
    capplyR (clap_free OpsR a [] (e :: tl) (u :: us)) g r =
    cxadd (Kedge e u g r) (capplyR (clap_free OpsR a [] tl us) g r).
  Proof.
    cbn [clap_free is_fixed existsb negb app]. rewrite !capplyR_cons. unfold Kedge.
    destruct (capplyR (clap_free OpsR a [] tl us) g r) as [p q].
    destruct u as [ur ui]. destruct (g (e_j _ e)) as [gjr gji]. destruct (g (e_i _ e)) as [gir gii].
    destruct (Nat.eqb (e_i _ e) r), (Nat.eqb (e_j _ e) r); cx_unfold; f_equal; unfold Rdiv; ring.
  Qed.

  (* ---------- gauge covariance (C04) ---------- *)
  Variable gz : nat -> RC.                       (* g_i = e^{i chi_i} *)
  Hypothesis gz_unit : forall i, cabs2 OpsR (gz i) = 1.

  Definition gauge_links (es : list edgeR) (U : list RC) : list RC :=
    map (fun '(e, u) => cxmul u (cxmul (gz (e_i _ e)) (cxconj (gz (e_j _ e))))) (combine es U).
  Definition gauge_psi (psi : nat -> RC) : nat -> RC := fun i => cxmul (gz i) (psi i).

  Lemma gauge_links_cons e tl u us :
    gauge_links (e :: tl) (u :: us)
    = cxmul u (cxmul (gz (e_i _ e)) (cxconj (gz (e_j _ e)))) :: gauge_links tl us.
  Proof. reflexivity. Qed.

  Lemma gauge_cancel (u gi gj q : RC) :
    cabs2 OpsR gj = 1 ->
    cxmul (cxmul u (cxmul gi (cxconj gj))) (cxmul gj q) = cxmul gi (cxmul u q).
  Proof.
    destruct u as [ur ui], gi as [ar ai], gj as [br bi], q as [qr qi]. cx_unfold. intros H.
    f_equal.
    - transitivity ((br*br+bi*bi) * (ar*(ur*qr - ui*qi) - ai*(ur*qi + ui*qr))); [ring|rewrite H; ring].
    - transitivity ((br*br+bi*bi) * (ar*(ur*qi + ui*qr) + ai*(ur*qr - ui*qi))); [ring|rewrite H; ring].
  Qed.

  Lemma conj_gauge_link (u gi gj : RC) :
    cxconj (cxmul u (cxmul gi (cxconj gj))) = cxmul (cxconj u) (cxmul gj (cxconj gi)).
  Proof. destruct u, gi, gj. cx_ring. Qed.

  Lemma cxmul_scale_r k g x : cxscale k (cxmul g x) = cxmul g (cxscale k x).
  Proof. destruct g, x. cx_ring. Qed.

  Lemma link_term_covariant (u gi gj p q : RC) :
    cabs2 OpsR gj = 1 ->
    cxadd (cxmul (cxmul u (cxmul gi (cxconj gj))) (cxmul gj q)) (cxscale (-1) (cxmul gi p))
    = cxmul gi (cxadd (cxmul u q) (cxscale (-1) p)).
  Proof.
    intros H. rewrite gauge_cancel by exact H. rewrite cxmul_add_r, cxmul_scale_r. reflexivity.
  Qed.

  Lemma Kedge_covariant e u psi r :
    Kedge e (cxmul u (cxmul (gz (e_i _ e)) (cxconj (gz (e_j _ e))))) (gauge_psi psi) r
    = cxmul (gz r) (Kedge e u psi r).
  Proof.
    unfold Kedge, gauge_psi. rewrite cxmul_add_r. f_equal.
    - destruct (Nat.eqb_spec (e_i _ e) r) as [<-|_]; [|rewrite cxmul_0_r; reflexivity].
      rewrite link_term_covariant by apply gz_unit. apply cxmul_scale_r.
    - destruct (Nat.eqb_spec (e_j _ e) r) as [<-|_]; [|rewrite cxmul_0_r; reflexivity].
      rewrite conj_gauge_link, link_term_covariant by apply gz_unit. apply cxmul_scale_r.
  Qed.

  (* C04: the covariant Laplacian transforms covariantly (free rows) *)
  Theorem cov_lap_covariant es : forall U psi r,
    capplyR (clap_free OpsR a [] es (gauge_links es U)) (gauge_psi psi) r
    = cxmul (gz r) (capplyR (clap_free OpsR a [] es U) psi r).
  Proof.
    induction es as [|e tl IH]; intros U psi r.
    - cbn. rewrite cxmul_0_r. reflexivity.
    - destruct U as [|u us].
      + cbn. rewrite cxmul_0_r. reflexivity.
      + rewrite gauge_links_cons, !clap_free_nil_cons, Kedge_covariant, IH, cxmul_add_r. reflexivity.
  Qed.
End Cov.

(* ---------------- covariant gradient and supercurrent ---------------- *)
Lemma cgrad_coo_low es : forall k U g q, (q < k)%nat -> capplyR (cgrad_coo OpsR k es U) g q = cx0.
Proof.
  induction es as [|e tl IH]; intros k U g q H; [reflexivity|].
  destruct U as [|u us]; [reflexivity|].
  cbn [cgrad_coo]. rewrite !capplyR_cons, IH by lia.
  destruct (Nat.eqb_spec k q); [lia|]. rewrite !cxadd_0_l. reflexivity.
Qed.

Lemma cgrad_coo_rows es : forall k U g, length U = length es ->
  map (capplyR (cgrad_coo OpsR k es U) g) (seq k (length es)) = cgrad_list OpsR es U g.
Proof.
  induction es as [|e tl IH]; intros k U g HL; [reflexivity|].
  destruct U as [|u us]; [discriminate|]. injection HL as HL.
  unfold cgrad_list. cbn [cgrad_coo length seq map combine]. f_equal.
  - rewrite !capplyR_cons, cgrad_coo_low by lia. rewrite Nat.eqb_refl.
    rewrite cxadd_0_r. reflexivity.
  - fold (cgrad_list OpsR tl us g). rewrite <- (IH (S k) us g HL). apply map_ext_in.
    intros q Hq. apply in_seq in Hq.
    rewrite !capplyR_cons. destruct (Nat.eqb_spec k q); [lia|]. rewrite !cxadd_0_l. reflexivity.
Qed.

Section Cov2.
  Variable gz : nat -> RC.
  Hypothesis gz_unit : forall i, cabs2 OpsR (gz i) = 1.

  (* C04: covariant gradient transforms covariantly (with the phase of the edge's first site) *)
  Theorem cov_grad_covariant es : forall U psi,
    cgrad_list OpsR es (gauge_links gz es U) (gauge_psi gz psi)
    = map (fun '(e, x) => cxmul (gz (e_i _ e)) x) (combine es (cgrad_list OpsR es U psi)).
  Proof.
    induction es as [|e tl IH]; intros U psi; [reflexivity|].
    destruct U as [|u us]; [reflexivity|].
    rewrite gauge_links_cons. unfold cgrad_list in *. cbn [combine map]. f_equal; [|apply IH].
    unfold gauge_psi.
    pose proof (gauge_cancel (cxscale (1 / e_len _ e) u) (gz (e_i _ e)) (gz (e_j _ e)) (psi (e_j _ e)) (gz_unit _)) as G.
    ops. fold cxadd cxmul cxscale.
    replace (cscale OpsR (1 / e_len OpsR e) (cxmul u (cxmul (gz (e_i OpsR e)) (cxconj (gz (e_j OpsR e))))))
      with (cxmul (cxscale (1 / e_len _ e) u) (cxmul (gz (e_i _ e)) (cxconj (gz (e_j _ e)))))
      by (destruct u, (gz (e_i _ e)), (gz (e_j _ e)); cx_ring).
    change (cmul OpsR) with cxmul. change (cadd OpsR) with cxadd. change (cscale OpsR) with cxscale.
    rewrite G, cxmul_add_r. f_equal.
    destruct (gz (e_i _ e)), (psi (e_i _ e)). cx_ring.
  Qed.

  Lemma conj_mul_unit (g p x : RC) : cabs2 OpsR g = 1 ->
    im (cxmul (cxconj (cxmul g p)) (cxmul g x)) = im (cxmul (cxconj p) x).
  Proof.
    destruct g as [gr gi], p as [pr pi_], x as [xr xi]. cx_unfold. intros H.
    transitivity ((gr*gr+gi*gi) * (pr*xi + - pi_*xr)); [ring|rewrite H; ring].
  Qed.

  (* C04: the supercurrent on every edge is gauge invariant *)
  Theorem supercurrent_invariant es U psi : length U = length es ->
    supercurrent OpsR es (gauge_links gz es U) (gauge_psi gz psi) = supercurrent OpsR es U psi.
  Proof.
    intros HL. unfold supercurrent, matvec_c.
    assert (HL' : length (gauge_links gz es U) = length es).
    { unfold gauge_links. rewrite map_length, combine_length, HL. apply Nat.min_id. }
    rewrite !cgrad_coo_rows by assumption. rewrite cov_grad_covariant.
    generalize (cgrad_list OpsR es U psi) as X. clear HL HL'.
    induction es as [|e tl IH]; intros X; [reflexivity|].
    destruct X as [|x xs]; [reflexivity|].
    unfold supercurrent_of in *. cbn [combine map]. f_equal; [|apply IH].
    unfold gauge_psi. apply conj_mul_unit. apply gz_unit.
  Qed.
End Cov2.

(* ---------------- pinned rows (C06) ---------------- *)
Section Pinned.
  Variable a : nat -> R.

  Lemma clap_free_rows fixed es : forall U r c x,
    In (r, c, x) (clap_free OpsR a fixed es U) -> is_fixed fixed r = false.
  Proof.
    induction es as [|e tl IH]; intros U r c x H; [destruct H|].
    destruct U as [|u us]; [destruct H|].
    cbn [clap_free] in H.
    repeat (apply in_app_or in H; destruct H as [H|H]);
      try (destruct (is_fixed fixed (e_i _ e)) eqn:E0; cbn in H; [destruct H|destruct H as [H|[]]; inversion H; subst; exact E0]);
      try (destruct (is_fixed fixed (e_j _ e)) eqn:E1; cbn in H; [destruct H|destruct H as [H|[]]; inversion H; subst; exact E1]).
    eapply IH; exact H.
  Qed.

  Lemma is_fixed_in fixed f : In f fixed -> is_fixed fixed f = true.
  Proof.
    intros H. unfold is_fixed. apply existsb_exists. exists f. split; [exact H|apply Nat.eqb_refl].
  Qed.
  Lemma is_fixed_notin fixed f : ~ In f fixed -> is_fixed fixed f = false.
  Proof.
    intros H. unfold is_fixed. destruct (existsb (Nat.eqb f) fixed) eqn:E; [|reflexivity].
    apply existsb_exists in E. destruct E as [y [Hy E]]. apply Nat.eqb_eq in E. subst. contradiction.
  Qed.

  Lemma identity_rows fixed psi f :
    NoDup fixed -> In f fixed ->
    capplyR (map (fun f => (f, f, c1 OpsR)) fixed) psi f = psi f.
  Proof.
    induction fixed as [|y tl IH]; intros Hnd Hin; [destruct Hin|].
    inversion Hnd as [|? ? Hny Hnd']; subst. cbn [map]. rewrite capplyR_cons.
    destruct (Nat.eqb_spec y f) as [->|Hne].
    - rewrite capplyR_norow.
      + destruct (psi f). cx_ring.
      + intros r' c x Hx. apply in_map_iff in Hx. destruct Hx as [z [Ez Hz]]. inversion Ez; subst.
        intros ->. contradiction.
    - destruct Hin as [->|Hin]; [contradiction|]. rewrite IH by assumption. apply cxadd_0_l.
  Qed.

  (* C06: a pinned row of the covariant Laplacian is the identity row, whatever the links *)
  Theorem pinned_row_identity fixed es U psi f :
    NoDup fixed -> In f fixed -> capplyR (clap_coo OpsR a fixed es U) psi f = psi f.
  Proof.
    intros Hnd Hin. unfold clap_coo. rewrite capplyR_app, capplyR_norow.
    - rewrite cxadd_0_l. apply identity_rows; assumption.
    - intros r' c x Hx ->. apply clap_free_rows in Hx. rewrite is_fixed_in in Hx by exact Hin. discriminate.
  Qed.

  (* C06: rows of sites outside the pinned set equal the rows of the unpinned operator
     restricted to ... (they only lose nothing: same entries) *)
  Lemma clap_free_row_unpinned fixed es : forall U psi r, is_fixed fixed r = false ->
    capplyR (clap_free OpsR a fixed es U) psi r = capplyR (clap_free OpsR a [] es U) psi r.
  Proof.
    induction es as [|e tl IH]; intros U psi r Hr; [reflexivity|].
    destruct U as [|u us]; [reflexivity|].
    cbn [clap_free]. rewrite !capplyR_app, IH by exact Hr.
    cbn [is_fixed existsb negb].
    assert (A : forall i (l : list (nat*nat*RC)),
               (forall r' c x, In (r',c,x) l -> r' = i) ->
               capplyR (if negb (is_fixed fixed i) then l else []) psi r = capplyR l psi r).
    { intros i l Hl. destruct (is_fixed fixed i) eqn:E; [|reflexivity]. cbn [negb].
      rewrite capplyR_nil. symmetry. apply capplyR_norow. intros r' c x Hx ->.
      rewrite (Hl _ _ _ Hx) in Hr. rewrite Hr in E. discriminate. }
    rewrite !A; [reflexivity| | | |]; intros r' c x [H|[]]; inversion H; reflexivity.
  Qed.

  Theorem free_rows_unpinned fixed es U psi r :
    ~ In r fixed ->
    capplyR (clap_coo OpsR a fixed es U) psi r = capplyR (clap_coo OpsR a [] es U) psi r.
  Proof.
    intros Hr. unfold clap_coo. cbn [map]. rewrite !capplyR_app, capplyR_nil.
    f_equal.
    - apply clap_free_row_unpinned. apply is_fixed_notin. exact Hr.
    - apply capplyR_norow. intros r' c x Hx ->. apply in_map_iff in Hx.
      destruct Hx as [z [Ez Hz]]. inversion Ez; subst. contradiction.
  Qed.
End Pinned.

(* ---------------- Hermiticity of the covariant Laplacian (C03) ---------------- *)
Section Herm.
  Variable a : nat -> R.

  (* area-weighted inner product <f,h>_a = sum_r a_r conj(f_r) h_r, as a pair of real sums *)
  Definition ip (n : nat) (f h : nat -> RC) : RC :=
    (Rsum (fun r => a r * re (cxmul (cxconj (f r)) (h r))) (seq 0 n),
     Rsum (fun r => a r * im (cxmul (cxconj (f r)) (h r))) (seq 0 n)).

  Lemma re_ind (i r : nat) (p X : RC) :
    re (cxmul p (if Nat.eqb i r then X else cx0)) = re (cxmul p X) * (if Nat.eqb i r then 1 else 0).
  Proof. destruct (Nat.eqb i r); destruct p, X; cx_unfold; ring. Qed.
  Lemma im_ind (i r : nat) (p X : RC) :
    im (cxmul p (if Nat.eqb i r then X else cx0)) = im (cxmul p X) * (if Nat.eqb i r then 1 else 0).
  Proof. destruct (Nat.eqb i r); destruct p, X; cx_unfold; ring. Qed.
  Lemma re_add p x y : re (cxmul p (cxadd x y)) = re (cxmul p x) + re (cxmul p y).
  Proof. destruct p, x, y; cx_unfold; ring. Qed.
  Lemma im_add p x y : im (cxmul p (cxadd x y)) = im (cxmul p x) + im (cxmul p y).
  Proof. destruct p, x, y; cx_unfold; ring. Qed.

  Definition Xi (e : edgeR) (u : RC) (g : nat -> RC) : RC :=
    cxscale (lap_w OpsR e / a (e_i _ e)) (cxadd (cxmul u (g (e_j _ e))) (cxscale (-1) (g (e_i _ e)))).
  Definition Xj (e : edgeR) (u : RC) (g : nat -> RC) : RC :=
    cxscale (lap_w OpsR e / a (e_j _ e)) (cxadd (cxmul (cxconj u) (g (e_i _ e))) (cxscale (-1) (g (e_j _ e)))).

  Lemma ip_edge n e u f g :
    (e_i _ e < n)%nat -> (e_j _ e < n)%nat ->
    ip n f (Kedge a e u g) =
    (a (e_i _ e) * re (cxmul (cxconj (f (e_i _ e))) (Xi e u g)) + a (e_j _ e) * re (cxmul (cxconj (f (e_j _ e))) (Xj e u g)),
     a (e_i _ e) * im (cxmul (cxconj (f (e_i _ e))) (Xi e u g)) + a (e_j _ e) * im (cxmul (cxconj (f (e_j _ e))) (Xj e u g))).
  Proof.
    intros Hi Hj. unfold ip, Kedge. fold (Xi e u g) (Xj e u g). f_equal.
    - rewrite (Rsum_ext _ (fun r =>
         a r * (fun r => re (cxmul (cxconj (f r)) (Xi e u g))) r * (if Nat.eqb (e_i _ e) r then 1 else 0)
       + a r * (fun r => re (cxmul (cxconj (f r)) (Xj e u g))) r * (if Nat.eqb (e_j _ e) r then 1 else 0)))
        by (intros r _; rewrite re_add, !re_ind; ring).
      rewrite Rsum_plus, !wsum_indicator by assumption. ring.
    - rewrite (Rsum_ext _ (fun r =>
         a r * (fun r => im (cxmul (cxconj (f r)) (Xi e u g))) r * (if Nat.eqb (e_i _ e) r then 1 else 0)
       + a r * (fun r => im (cxmul (cxconj (f r)) (Xj e u g))) r * (if Nat.eqb (e_j _ e) r then 1 else 0)))
        by (intros r _; rewrite im_add, !im_ind; ring).
      rewrite Rsum_plus, !wsum_indicator by assumption. ring.
  Qed.

  Lemma ip_add n f h1 h2 : ip n f (fun r => cxadd (h1 r) (h2 r)) = cxadd (ip n f h1) (ip n f h2).
  Proof.
    unfold ip. cx_unfold. f_equal; rewrite <- Rsum_plus; apply Rsum_ext; intros r _.
    - destruct (f r), (h1 r), (h2 r); cbn; ring.
    - destruct (f r), (h1 r), (h2 r); cbn; ring.
  Qed.

  Lemma ip_zero n f h : (forall r, h r = cx0) -> ip n f h = cx0.
  Proof.
    intros H. unfold ip, cx0, c0. ops. f_equal; (rewrite (Rsum_ext _ (fun _ => 0)); [apply Rsum_zero|]);
      intros r _; rewrite H; destruct (f r); cx_unfold; ring.
  Qed.

  Lemma edge_hermitian e u f g :
    a (e_i _ e) <> 0 -> a (e_j _ e) <> 0 ->
    (a (e_i _ e) * re (cxmul (cxconj (f (e_i _ e))) (Xi e u g)) + a (e_j _ e) * re (cxmul (cxconj (f (e_j _ e))) (Xj e u g))
     = a (e_i _ e) * re (cxmul (cxconj (g (e_i _ e))) (Xi e u f)) + a (e_j _ e) * re (cxmul (cxconj (g (e_j _ e))) (Xj e u f)))
    /\
    (a (e_i _ e) * im (cxmul (cxconj (f (e_i _ e))) (Xi e u g)) + a (e_j _ e) * im (cxmul (cxconj (f (e_j _ e))) (Xj e u g))
     = - (a (e_i _ e) * im (cxmul (cxconj (g (e_i _ e))) (Xi e u f)) + a (e_j _ e) * im (cxmul (cxconj (g (e_j _ e))) (Xj e u f)))).
  Proof.
    intros Hi Hj. unfold Xi, Xj.
    destruct u as [ur ui]. destruct (f (e_i _ e)) as [fir fii]. destruct (f (e_j _ e)) as [fjr fji].
    destruct (g (e_i _ e)) as [gir gii]. destruct (g (e_j _ e)) as [gjr gji].
    cx_unfold. split; field; split; assumption.
  Qed.

  (* C03 (5): <f, L_U g>_a = conj <g, L_U f>_a for arbitrary complex link variables *)
  Theorem cov_lap_hermitian n es : forall U f g,
    wf_edges n es -> areas_nz n a ->
    ip n f (capplyR (clap_free OpsR a [] es U) g)
    = cxconj (ip n g (capplyR (clap_free OpsR a [] es U) f)).
  Proof.
    induction es as [|e tl IH]; intros U f g Hwf Ha.
    - rewrite !ip_zero by (intros; reflexivity). cx_unfold. f_equal; ring.
    - destruct U as [|u us].
      + rewrite !ip_zero by (intros; reflexivity). cx_unfold. f_equal; ring.
      + inversion Hwf as [|? ? [Hi Hj] Hwf']; subst.
        assert (E : forall h k, ip n h (capplyR (clap_free OpsR a [] (e :: tl) (u :: us)) k)
                 = cxadd (ip n h (Kedge a e u k)) (ip n h (capplyR (clap_free OpsR a [] tl us) k))).
        { intros h k. rewrite <- ip_add. unfold ip. f_equal; apply Rsum_ext; intros r _;
            rewrite clap_free_nil_cons; reflexivity. }
        rewrite !E, (IH us f g Hwf' Ha), !ip_edge by assumption.
        destruct (edge_hermitian e u f g (Ha _ Hi) (Ha _ Hj)) as [H1 H2].
        destruct (ip n g (capplyR (clap_free OpsR a [] tl us) f)) as [p q].
        cx_unfold. f_equal; [rewrite H1|rewrite H2]; ring.
  Qed.
End Herm.
