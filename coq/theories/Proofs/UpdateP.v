(* The adaptive solver loop is a run of solve steps with the time steps the controller chose (C02 / C12 glue):
   every run-level theorem about Model.Step.run_steps applies to the adaptive solver. *)
From Coq Require Import Reals Lra List Arith Lia Bool.
From PyTdgl Require Import Base.Ops Base.Cplx Model.FV Model.Euler Model.Step Model.Adapt Model.Update
     Proofs.AdaptP.
Import ListNotations.
Open Scope R_scope.

Section UpdateP.
  Variable a : nat -> R.
  Variable n : nat.
  Variable es : list (edge OpsR).
  Variable fixed : list nat.
  Variable solve : (nat -> R) -> (nat -> R).
  Variable repin : option (C OpsR).
  Variable expi : R -> C OpsR.
  Variable gamma u : R.
  Variable o : opts OpsR.

  Notation attempt' := (attempt OpsR a n es fixed solve repin expi gamma u).
  Notation update' := (update OpsR a n es fixed solve repin expi gamma u).
  Notation solver_run' := (solver_run OpsR a n es fixed solve repin expi gamma u).

  (* what an answered update means: the result is the solve step at the reported dt; the reported dt is the proposal
     times mult^r, r <= max_retries + 1; every earlier, larger attempt was refused by the step itself; the controller
     state is the documented bookkeeping for the dt actually used *)
  Theorem update_answered s idx i psi mu dt s' out :
    update' o s idx i psi mu = Some (dt, s', out) ->
    attempt' i psi mu dt = Some out /\
    (exists r, (r <= max_retries _ o + 1)%nat /\ dt = tentative _ s * mult _ o ^ r /\
               (forall j, (j < r)%nat -> attempt' i psi mu (tentative _ s * mult _ o ^ j) = None) /\
               (r = 0%nat \/ adaptive _ o = true)) /\
    s' = bookkeep OpsR o s idx dt (dmax OpsR n psi (so_psi _ out)).
  Proof.
    unfold update. intros H.
    destruct (euler_dt OpsR o (refused OpsR a n es fixed solve repin expi gamma u i psi mu) (tentative _ s)) as [d|] eqn:E;
      [|discriminate].
    destruct (attempt' i psi mu d) as [out0|] eqn:A; [|discriminate].
    inversion H; subst; clear H. split; [exact A|]. split; [|reflexivity].
    destruct (retry_rule o _ _ _ E) as (r & Hr & Ed & _ & Hall & Hor).
    exists r. repeat split; try assumption.
    intros j Hj. specialize (Hall j Hj). unfold refused in Hall.
    cbn [o_mul OpsR] in Hall.
    destruct (attempt' i psi mu (tentative _ s * mult _ o ^ j)); [discriminate|reflexivity].
  Qed.

  (* the steps the adaptive loop answered *)
  Definition answered (res : list (option (R * step_out OpsR))) : list (R * step_out OpsR) :=
    flat_map (fun x => match x with Some p => [p] | None => [] end) res.

  (* the adaptive loop IS a run of solve steps (Model.Step.run_steps) over the same inputs with the time steps the
     controller chose: step by step the same results.  Hence every theorem about run_steps (conservation, pinning,
     gauge covariance, stationarity at every step) holds for the adaptive solver, retries included. *)
  Theorem solver_run_is_run_steps : forall l s idx psi mu,
    let ans := answered (solver_run' o s idx psi mu l) in
    run_steps OpsR a n es fixed solve repin expi gamma u psi mu
      (map (fun p => with_dt OpsR (fst p) (snd p)) (combine l (map fst ans)))
    = map (fun p => Some (snd p)) ans.
  Proof.
    induction l as [|i tl IH]; intros s idx psi mu; [reflexivity|].
    cbn zeta. cbn [solver_run].
    destruct (update' o s idx i psi mu) as [[[dt s'] out]|] eqn:E.
    - destruct (update_answered _ _ _ _ _ _ _ _ E) as (A & _ & _).
      unfold answered. cbn [flat_map app map fst snd combine run_steps with_dt si_U si_eps si_dt si_muB si_dAdt].
      unfold attempt in A. rewrite A. f_equal.
      specialize (IH s' (S idx) (so_psi _ out) (ob_mu _ (so_obs _ out))). cbn zeta in IH. exact IH.
    - reflexivity.
  Qed.

  (* a refused update (RuntimeError): the proposal itself was refused and, with adaptivity on, so was every retry *)
  Theorem update_refused s idx i psi mu :
    update' o s idx i psi mu = None ->
    attempt' i psi mu (tentative _ s) = None.
  Proof.
    unfold update. intros H.
    destruct (euler_dt OpsR o (refused OpsR a n es fixed solve repin expi gamma u i psi mu) (tentative _ s)) as [d|] eqn:E.
    - destruct (retry_rule o _ _ _ E) as (r & _ & _ & Hok & _). unfold refused in Hok.
      destruct (attempt' i psi mu d); discriminate.
    - unfold euler_dt in E. rewrite Nat.add_comm in E. cbn [plus retry] in E.
      unfold refused in E at 1.
      destruct (attempt' i psi mu (tentative _ s)); [discriminate|reflexivity].
  Qed.
End UpdateP.
