(* C12: the adaptive time-step rule and its bounds (over R). *)
From Coq Require Import Reals Lra List Arith Lia Bool.
From PyTdgl Require Import Base.Ops Model.Adapt.
Import ListNotations.
Open Scope R_scope.

Notation optsR := (opts OpsR).

Lemma omax_Rmax a b : omax OpsR a b = Rmax a b.
Proof.
  unfold omax. cbn [o_ltb OpsR]. destruct (Rltb a b) eqn:E.
  - apply Rltb_true in E. rewrite Rmax_right; lra.
  - apply Rltb_false in E. rewrite Rmax_left; lra.
Qed.
Lemma omin_Rmin a b : omin OpsR a b = Rmin a b.
Proof.
  unfold omin. cbn [o_ltb OpsR]. destruct (Rltb b a) eqn:E.
  - apply Rltb_true in E. rewrite Rmin_right; lra.
  - apply Rltb_false in E. rewrite Rmin_left; lra.
Qed.
Lemma clip0_spec x hi : clip0 OpsR x hi = Rmin (Rmax x 0) hi.
Proof. unfold clip0. rewrite omin_Rmin, omax_Rmax. reflexivity. Qed.

Section AdaptR.
  Variable o : optsR.
  Variable refuse : R -> bool.

  (* a refused update is retried with the step multiplied by the configured factor; the step used is
     tentative * mult^r with r the number of refusals, r <= max_retries + 1 *)
  Lemma retry_spec : forall fuel retries dt dt',
    (retries <= max_retries _ o + 1)%nat ->
    retry OpsR o refuse fuel retries dt = Some dt' ->
    exists r, (retries + r <= max_retries _ o + 1)%nat /\ dt' = dt * mult _ o ^ r /\ refuse dt' = false /\
              (forall j, (j < r)%nat -> refuse (dt * mult _ o ^ j) = true) /\ (r = 0%nat \/ adaptive _ o = true).
  Proof.
    induction fuel as [|fuel IH]; intros retries dt dt' Hr H; cbn [retry] in H.
    - destruct (refuse dt) eqn:E; cbn [negb] in H.
      + destruct (negb (adaptive _ o) || Nat.ltb (max_retries _ o) retries)%bool; discriminate.
      + inversion H; subst. exists 0%nat. cbn. repeat split; try lia; try lra; auto; try (intros j Hj; lia).
    - destruct (refuse dt) eqn:E; cbn [negb] in H.
      + destruct (negb (adaptive _ o) || Nat.ltb (max_retries _ o) retries)%bool eqn:G; [discriminate|].
        apply orb_false_iff in G. destruct G as [Ga Gr]. apply negb_false_iff in Ga. apply Nat.ltb_ge in Gr.
        apply IH in H; [|lia]. destruct H as (r & B & E1 & E2 & E3 & _).
        exists (S r). repeat split; try lia.
        * rewrite E1. cbn [o_mul OpsR pow]. change (@eq (T OpsR)) with (@eq R). ring.
        * exact E2.
        * intros j Hj. destruct j as [|j]; [cbn; rewrite Rmult_1_r; exact E|].
          specialize (E3 j ltac:(lia)). cbn [o_mul OpsR pow] in *. rewrite <- E3. f_equal.
          change (@eq (T OpsR)) with (@eq R). ring.
        * right; exact Ga.
      + inversion H; subst. exists 0%nat. cbn. repeat split; try lia; try lra; auto; try (intros j Hj; lia).
  Qed.

  Theorem retry_rule dt dt' :
    euler_dt OpsR o refuse dt = Some dt' ->
    exists r, (r <= max_retries _ o + 1)%nat /\ dt' = dt * mult _ o ^ r /\ refuse dt' = false /\
              (forall j, (j < r)%nat -> refuse (dt * mult _ o ^ j) = true) /\ (r = 0%nat \/ adaptive _ o = true).
  Proof.
    intros H. apply retry_spec in H; [|lia]. destruct H as (r & B & H). exists r. split; [lia|exact H].
  Qed.

  (* exhausting the retries raises (never a continued step) *)
  Lemma retry_exhausted : forall fuel retries dt,
    (retries <= max_retries _ o + 1)%nat -> (max_retries _ o + 2 <= fuel + retries)%nat ->
    (forall j, (retries + j <= max_retries _ o + 1)%nat -> refuse (dt * mult _ o ^ j) = true) ->
    retry OpsR o refuse fuel retries dt = None.
  Proof.
    induction fuel as [|fuel IH]; intros retries dt Hr Hf Hall.
    - lia.
    - cbn [retry]. assert (E : refuse dt = true).
      { specialize (Hall 0%nat ltac:(lia)). cbn in Hall. rewrite Rmult_1_r in Hall. exact Hall. }
      rewrite E. cbn [negb].
      destruct (negb (adaptive _ o) || Nat.ltb (max_retries _ o) retries)%bool eqn:G; [reflexivity|].
      apply orb_false_iff in G. destruct G as [_ Gr]. apply Nat.ltb_ge in Gr.
      destruct fuel as [|fuel'].
      + cbn [retry]. (* fuel exhausted only if retries = max+1, excluded by Gr *) lia.
      + apply IH; [lia|lia|]. intros j Hj. specialize (Hall (S j) ltac:(lia)).
        cbn [o_mul OpsR pow] in *. rewrite <- Hall. f_equal. change (@eq (T OpsR)) with (@eq R). ring.
  Qed.

  Theorem retries_exhausted_raise dt :
    (forall j, (j <= max_retries _ o + 1)%nat -> refuse (dt * mult _ o ^ j) = true) ->
    euler_dt OpsR o refuse dt = None.
  Proof. intros H. apply retry_exhausted; [lia|lia|]. intros j Hj. apply H. lia. Qed.

  (* with adaptivity off a refusal raises at once *)
  Theorem fixed_step_refusal_raises dt :
    adaptive _ o = false -> refuse dt = true -> euler_dt OpsR o refuse dt = None.
  Proof.
    intros Ha E. unfold euler_dt. destruct (max_retries _ o + 2)%nat; cbn [retry]; rewrite E, Ha; reflexivity.
  Qed.
End AdaptR.

Section Bounds.
  Variable o : optsR.
  Hypothesis Hinit : 0 < dt_init _ o.
  Hypothesis Hmax : dt_init _ o <= dt_max _ o.
  Hypothesis Hmult : 0 < mult _ o < 1.
  Hypothesis Hhalf : half _ o = 1/2.
  Hypothesis Hfloor : 0 < floor_ _ o.

  Definition Inv (s : astate OpsR) : Prop := 0 < tentative _ s <= dt_max_eff OpsR o.

  Lemma dmax_pos : 0 < dt_max_eff OpsR o /\ dt_init _ o <= dt_max_eff OpsR o.
  Proof. unfold dt_max_eff. destruct (adaptive _ o); lra. Qed.

  Lemma Inv_init : Inv (ainit OpsR o).
  Proof. unfold Inv, ainit. cbn. destruct dmax_pos. lra. Qed.

  Lemma pow_mult_bounds r : 0 < mult _ o ^ r <= 1.
  Proof.
    induction r as [|r [A B]]; cbn; [lra|]. split.
    - apply Rmult_lt_0_compat; lra.
    - assert (mult _ o * mult _ o ^ r <= 1 * 1) by (apply Rmult_le_compat; lra). lra.
  Qed.

  (* C12: every step used is positive and at most the configured maximum, and the invariant carries on *)
  Theorem dt_positive_bounded s step refuse dof dt s' :
    Inv s -> astep OpsR o s step refuse dof = Some (dt, s') ->
    0 < dt <= dt_max_eff OpsR o /\ dt <= tentative _ s /\ Inv s'.
  Proof.
    intros [I1 I2] H. unfold astep in H.
    destruct (euler_dt OpsR o refuse (tentative _ s)) as [d|] eqn:E; [|discriminate].
    inversion H; subst; clear H.
    destruct (retry_rule o refuse _ _ E) as (r & _ & Ed & _).
    destruct (pow_mult_bounds r) as [P1 P2].
    assert (Hd : 0 < dt <= tentative _ s).
    { rewrite Ed. cbn [o_mul OpsR]. split; [apply Rmult_lt_0_compat; lra|].
      assert (tentative _ s * mult _ o ^ r <= tentative _ s * 1) by (apply Rmult_le_compat_l; lra). lra. }
    split; [lra|]. split; [lra|].
    unfold Inv, bookkeep. destruct (adaptive _ o) eqn:Ea; [|cbn; lra].
    destruct (Nat.ltb (window _ o) step); cbn [tentative]; [|lra].
    rewrite clip0_spec, omax_Rmax. cbn [o_add o_mul o_div OpsR]. rewrite Hhalf.
    set (m := Rmax (floor_ _ o) _).
    assert (Hm : 0 < m) by (unfold m; pose proof (Rmax_l (floor_ _ o) (mean OpsR (lastn (window _ o) (dvals _ s ++ [dof dt])))); lra).
    assert (Hq : 0 < dt_init _ o / m) by (apply Rdiv_lt_0_compat; assumption).
    destruct dmax_pos as [D1 D2].
    rewrite Rmax_left by lra.
    split; [apply Rmin_glb_lt; lra|apply Rmin_r].
  Qed.

  (* C12: with adaptivity off every step equals the initial step *)
  Theorem fixed_step s step refuse dof dt s' :
    adaptive _ o = false -> tentative _ s = dt_init _ o ->
    astep OpsR o s step refuse dof = Some (dt, s') -> dt = dt_init _ o /\ s' = s.
  Proof.
    intros Ha Ht H. unfold astep in H.
    destruct (euler_dt OpsR o refuse (tentative _ s)) as [d|] eqn:E; [|discriminate].
    inversion H; subst; clear H.
    destruct (retry_rule o refuse _ _ E) as (r & _ & Ed & _ & _ & [Hr|Hr]); [|congruence].
    subst r. cbn in Ed. unfold bookkeep. rewrite Ha. split; [lra|reflexivity].
  Qed.

  (* C12: the step proposed after the warm-up window is min(1/2 (dt + dt_init/delta), dt_max),
     delta = max(1e-10, windowed mean of the recorded max |d|psi|^2|) *)
  Theorem tentative_rule s step dt d :
    adaptive _ o = true -> (window _ o < step)%nat -> 0 < dt ->
    tentative _ (bookkeep OpsR o s step dt d)
    = Rmin (1/2 * (dt + dt_init _ o / Rmax (floor_ _ o) (mean OpsR (lastn (window _ o) (dvals _ s ++ [d])))))
           (dt_max _ o).
  Proof.
    intros Ha Hw Hdt. unfold bookkeep. rewrite Ha.
    replace (Nat.ltb (window _ o) step) with true by (symmetry; apply Nat.ltb_lt; exact Hw).
    cbn [tentative]. rewrite clip0_spec, omax_Rmax. cbn [o_add o_mul o_div OpsR]. rewrite Hhalf.
    unfold dt_max_eff. rewrite Ha.
    set (m := Rmax (floor_ _ o) _).
    assert (Hm : 0 < m) by (unfold m; pose proof (Rmax_l (floor_ _ o) (mean OpsR (lastn (window _ o) (dvals _ s ++ [d])))); lra).
    assert (Hq : 0 < dt_init _ o / m) by (apply Rdiv_lt_0_compat; assumption).
    rewrite Rmax_left by lra. f_equal. lra.
  Qed.

  (* C12: during the warm-up window the proposal is unchanged *)
  Theorem warmup_keeps_dt s step dt d :
    (step <= window _ o)%nat -> tentative _ (bookkeep OpsR o s step dt d) = tentative _ s.
  Proof.
    intros Hw. unfold bookkeep. destruct (adaptive _ o); [|reflexivity].
    replace (Nat.ltb (window _ o) step) with false by (symmetry; apply Nat.ltb_ge; exact Hw). reflexivity.
  Qed.
  (* ---------- whole histories ---------- *)
  Definition entry_ok (x : option (R * R)) : Prop :=
    match x with
    | Some (dt, tn) => 0 < dt <= dt_max_eff OpsR o /\ 0 < tn <= dt_max_eff OpsR o
    | None => True
    end.

  (* C12: in every history, whatever is refused and whatever the dynamics do, every step used and every proposal
     lies in (0, dt_max] *)
  Theorem all_steps_bounded : forall l s step, Inv s -> Forall entry_ok (ahist OpsR o s step l).
  Proof.
    induction l as [|[refuse dof] tl IH]; intros s step HI; cbn [ahist]; [constructor|].
    destruct (astep OpsR o s step refuse dof) as [[dt s']|] eqn:E.
    - destruct (dt_positive_bounded s step refuse dof dt s' HI E) as (A & _ & B).
      constructor; [cbn; split; [exact A|exact B]|apply IH; exact B].
    - constructor; [exact I|constructor].
  Qed.

  (* C12: with adaptivity off every step of every history equals dt_init *)
  Theorem fixed_steps_all : forall l s step,
    adaptive _ o = false -> tentative _ s = dt_init _ o ->
    Forall (fun x => match x with Some (dt, tn) => dt = dt_init _ o /\ tn = dt_init _ o | None => True end)
           (ahist OpsR o s step l).
  Proof.
    induction l as [|[refuse dof] tl IH]; intros s step Ha Ht; cbn [ahist]; [constructor|].
    destruct (astep OpsR o s step refuse dof) as [[dt s']|] eqn:E.
    - destruct (fixed_step s step refuse dof dt s' Ha Ht E) as [A B]. subst s'.
      constructor; [split; [exact A|exact Ht]|apply IH; assumption].
    - constructor; [exact I|constructor].
  Qed.

  (* ---------- a stationary state (nothing refused, |psi|^2 does not change) ---------- *)
  Definition zeros (s : astate OpsR) : Prop := Forall (fun x => x = 0) (dvals _ s).

  Lemma fold_zeros : forall (l : list R) acc, Forall (fun x => x = 0) l -> fold_left Rplus l acc = acc.
  Proof.
    induction l as [|x tl IH]; intros acc H; [reflexivity|]. inversion H; subst. cbn [fold_left].
    rewrite IH by assumption. lra.
  Qed.
  Lemma mean_zeros (l : list R) : Forall (fun x => x = 0) l -> mean OpsR l = 0.
  Proof.
    intros H. unfold mean. cbn [o_add o_div o_of_Z OpsR]. rewrite fold_zeros by exact H. unfold Rdiv. lra.
  Qed.
  Lemma lastn_Forall {A} (P : A -> Prop) n : forall l, Forall P l -> Forall P (lastn n l).
  Proof.
    induction l as [|x tl IH]; intros H; cbn [lastn].
    - destruct (Nat.leb (length (@nil A)) n); exact H.
    - destruct (Nat.leb (length (x :: tl)) n); [exact H|]. inversion H; subst. apply IH. assumption.
  Qed.

  Hypothesis Hadapt : adaptive _ o = true.
  (* the largest step is not larger than what a vanishing |d|psi|^2| proposes (defaults: 1e-10 floor) *)
  Hypothesis Hreach : dt_max _ o <= 1/2 * (dt_init _ o / floor_ _ o).

  Definition stat : (R -> bool) * (R -> R) := (fun _ => false, fun _ => 0).

  Lemma stat_step s step :
    Inv s -> zeros s ->
    astep OpsR o s step (fst stat) (snd stat)
    = Some (tentative _ s, {| tentative := if Nat.ltb (window _ o) step then dt_max _ o else tentative _ s;
                              dvals := dvals _ s ++ [0] |}).
  Proof.
    intros [I1 I2] Hz. unfold astep, euler_dt. rewrite Nat.add_comm. cbn [plus retry stat fst snd negb].
    f_equal. f_equal. unfold bookkeep. rewrite Hadapt.
    destruct (Nat.ltb (window _ o) step); [|reflexivity].
    f_equal. rewrite clip0_spec, omax_Rmax. cbn [o_add o_mul o_div OpsR]. rewrite Hhalf.
    rewrite mean_zeros by (apply lastn_Forall, Forall_app; split; [exact Hz|repeat constructor]).
    rewrite (Rmax_left (floor_ _ o) 0) by lra.
    unfold dt_max_eff. rewrite Hadapt.
    assert (Hq : 0 < dt_init _ o / floor_ _ o) by (apply Rdiv_lt_0_compat; assumption).
    rewrite Rmax_left by lra. apply Rmin_right. lra.
  Qed.

  (* C17/C12: in a stationary state the step stays at its proposal during the warm-up window and is the configured
     maximum from the first step after it: the explicit list of (dt used, next proposal) *)
  Fixpoint stat_hist (tn : R) (step n : nat) : list (option (R * R)) :=
    match n with
    | 0%nat => []
    | S n' => let tn' := if Nat.ltb (window _ o) step then dt_max _ o else tn in
              Some (tn, tn') :: stat_hist tn' (S step) n'
    end.
  Theorem stationary_history : forall n s step,
    Inv s -> zeros s -> ahist OpsR o s step (repeat stat n) = stat_hist (tentative _ s) step n.
  Proof.
    induction n as [|n IH]; intros s step HI Hz; [reflexivity|].
    cbn [repeat stat_hist]. change (stat :: repeat stat n) with ((fst stat, snd stat) :: repeat stat n).
    cbn [ahist]. rewrite (stat_step s step HI Hz). cbn [tentative]. f_equal.
    apply IH.
    - unfold Inv in *. cbn [tentative]. destruct (Nat.ltb (window _ o) step); [|exact HI].
      unfold dt_max_eff. rewrite Hadapt. lra.
    - unfold zeros in *. cbn [dvals]. apply Forall_app. split; [exact Hz|repeat constructor].
  Qed.
  (* ... hence from the start of a run: dt = dt_init up to step window+1, dt_max ever after *)
  Theorem dt_grows_to_max n i :
    (i < n)%nat ->
    nth_error (ahist OpsR o (ainit OpsR o) 0 (repeat stat n)) i
    = Some (Some (if Nat.ltb (S (window _ o)) i then dt_max _ o else dt_init _ o,
                  if Nat.ltb (window _ o) i then dt_max _ o else dt_init _ o)).
  Proof.
    intros Hi. rewrite stationary_history; [|apply Inv_init|constructor].
    cbn [ainit tentative].
    assert (G : forall n step tn i, (i < n)%nat ->
              (tn = if Nat.ltb (S (window _ o)) step then dt_max _ o else dt_init _ o) ->
              nth_error (stat_hist tn step n) i
              = Some (Some (if Nat.ltb (S (window _ o)) (step + i) then dt_max _ o else dt_init _ o,
                            if Nat.ltb (window _ o) (step + i) then dt_max _ o else dt_init _ o))).
    { clear n i Hi. induction n as [|n IH]; intros step tn i Hi Htn; [lia|].
      cbn [stat_hist]. destruct i as [|i].
      - cbn [nth_error]. rewrite Nat.add_0_r. rewrite Htn. f_equal. f_equal. f_equal.
        destruct (Nat.ltb_spec (window _ o) step) as [H|H]; [reflexivity|].
        destruct (Nat.ltb_spec (S (window _ o)) step); [lia|reflexivity].
      - cbn [nth_error]. replace (step + S i)%nat with (S step + i)%nat by lia. apply IH; [lia|].
        destruct (Nat.ltb_spec (window _ o) step) as [H|H].
        + destruct (Nat.ltb_spec (S (window _ o)) (S step)); [reflexivity|lia].
        + destruct (Nat.ltb_spec (S (window _ o)) (S step)); [lia|].
          rewrite Htn. destruct (Nat.ltb_spec (S (window _ o)) step); [lia|reflexivity]. }
    apply (G n 0%nat (dt_init _ o) i Hi).
    destruct (Nat.ltb_spec (S (window _ o)) 0); [lia|reflexivity].
  Qed.
End Bounds.
