(* C10: refreshing the link entries in place equals rebuilding the operators. *)
From Coq Require Import Reals Lra List Arith Lia Bool.
From PyTdgl Require Import Base.Ops Base.Cplx Model.FV Model.Refresh Proofs.FVR Proofs.FVC.
Import ListNotations.
Open Scope R_scope.

Notation centryR := (centry OpsR).
Definition pos {V} (t : nat * nat * V) : nat * nat := (fst (fst t), snd (fst t)).

Lemma cx_ext (x y : RC) : re x = re y -> im x = im y -> x = y.
Proof. destruct x, y; cbn; intros -> ->; reflexivity. Qed.
Lemma re_cxadd x y : re (cxadd x y) = re x + re y.
Proof. destruct x, y; reflexivity. Qed.
Lemma im_cxadd x y : im (cxadd x y) = im x + im y.
Proof. destruct x, y; reflexivity. Qed.
Lemma re_cx0 : re cx0 = 0. Proof. reflexivity. Qed.
Lemma im_cx0 : im cx0 = 0. Proof. reflexivity. Qed.
Ltac cx_shuffle := apply cx_ext; rewrite ?re_cxadd, ?im_cxadd, ?re_cx0, ?im_cx0;
  change (@eq (T OpsR)) with (@eq R); ring.

Lemma centry_cons r' c' x m r c :
  centryR ((r', c', x) :: m) r c =
  cxadd (if (Nat.eqb r' r && Nat.eqb c' c)%bool then x else cx0) (centryR m r c).
Proof.
  unfold centry. cbn [fold_right]. destruct (Nat.eqb r' r && Nat.eqb c' c)%bool; [reflexivity|].
  symmetry. apply cxadd_0_l.
Qed.
Lemma centry_nil r c : centryR [] r c = cx0.
Proof. reflexivity. Qed.
Lemma centry_app m1 m2 r c : centryR (m1 ++ m2) r c = cxadd (centryR m1 r c) (centryR m2 r c).
Proof.
  induction m1 as [|[[r' c'] x] tl IH]; cbn [app].
  - rewrite centry_nil, cxadd_0_l. reflexivity.
  - rewrite !centry_cons, IH, cxadd_assoc. reflexivity.
Qed.

Lemma eqb_pos r' c' r c : (Nat.eqb r' r && Nat.eqb c' c)%bool = true <-> (r', c') = (r, c).
Proof.
  rewrite andb_true_iff, !Nat.eqb_eq. split; [intros [-> ->]; reflexivity|intros H; inversion H; auto].
Qed.

Lemma centry_nomatch m r c : (forall t, In t m -> pos t <> (r, c)) -> centryR m r c = cx0.
Proof.
  induction m as [|[[r' c'] x] tl IH]; intros H; [reflexivity|].
  rewrite centry_cons, IH by (intros t Ht; apply H; right; exact Ht).
  destruct (Nat.eqb r' r && Nat.eqb c' c)%bool eqn:E.
  - apply eqb_pos in E. exfalso. apply (H (r', c', x)); [left; reflexivity|exact E].
  - apply cxadd_0_l.
Qed.

Lemma centry_single m r c x : NoDup (map pos m) -> In (r, c, x) m -> centryR m r c = x.
Proof.
  induction m as [|[[r' c'] x'] tl IH]; intros Hnd Hin; [destruct Hin|].
  cbn [map] in Hnd. inversion Hnd as [|? ? Hni Hnd']; subst. rewrite centry_cons.
  destruct Hin as [E|Hin].
  - inversion E; subst. rewrite !Nat.eqb_refl. cbn [andb].
    rewrite centry_nomatch; [apply cxadd_0_r|].
    intros t Ht Hp. apply Hni. change (pos (r, c, x)) with (r, c). rewrite <- Hp. apply in_map. exact Ht.
  - destruct (Nat.eqb r' r && Nat.eqb c' c)%bool eqn:E.
    + apply eqb_pos in E. exfalso. apply Hni. unfold pos at 1. cbn [fst snd]. rewrite E.
      change (r, c) with (pos (r, c, x)). apply in_map. exact Hin.
    + rewrite IH by assumption. apply cxadd_0_l.
Qed.

Lemma set_many_notin upd : forall (M : dense OpsR) r c,
  (forall t, In t upd -> pos t <> (r, c)) -> set_many OpsR M upd r c = M r c.
Proof.
  induction upd as [|[[r' c'] x] tl IH]; intros M r c H; [reflexivity|].
  cbn [set_many]. rewrite IH by (intros t Ht; apply H; right; exact Ht).
  destruct (Nat.eqb r r' && Nat.eqb c c')%bool eqn:E; [|reflexivity].
  apply eqb_pos in E. exfalso. apply (H (r', c', x)); [left; reflexivity|]. symmetry. exact E.
Qed.

Lemma set_many_in upd : forall (M : dense OpsR) r c x,
  NoDup (map pos upd) -> In (r, c, x) upd -> set_many OpsR M upd r c = x.
Proof.
  induction upd as [|[[r' c'] x'] tl IH]; intros M r c x Hnd Hin; [destruct Hin|].
  cbn [map] in Hnd. inversion Hnd as [|? ? Hni Hnd']; subst. cbn [set_many].
  destruct Hin as [E|Hin].
  - inversion E; subst. rewrite set_many_notin.
    + rewrite !Nat.eqb_refl. reflexivity.
    + intros t Ht Hp. apply Hni. change (pos (r, c, x)) with (r, c). rewrite <- Hp. apply in_map. exact Ht.
  - apply IH; assumption.
Qed.

Lemma NoDup_app_intro {A} (l1 l2 : list A) :
  NoDup l1 -> NoDup l2 -> (forall x, In x l1 -> ~ In x l2) -> NoDup (l1 ++ l2).
Proof.
  induction l1 as [|y tl IH]; intros H1 H2 Hd; [exact H2|].
  inversion H1 as [|? ? Hny H1']; subst. cbn [app]. constructor.
  - intros Hin. apply in_app_or in Hin. destruct Hin as [Hin|Hin]; [contradiction|].
    apply (Hd y); [left; reflexivity|exact Hin].
  - apply IH; [assumption|assumption|]. intros x Hx. apply Hd. right; exact Hx.
Qed.

Lemma last_cons {A} (l : list A) : forall (x d : A), last (x :: l) d = last l x.
Proof.
  induction l as [|y tl IH]; intros x d; [reflexivity|].
  change (last (x :: y :: tl) d) with (last (y :: tl) d). rewrite !IH. reflexivity.
Qed.

Section RefreshLap.
  Variable a : nat -> R.
  Variable fixed : list nat.

  Definition key (e : edgeR) : nat * nat := (e_i _ e, e_j _ e).
  (* what get_edges guarantees: sorted endpoints, no duplicate edge *)
  Definition canonical (es : list edgeR) : Prop :=
    NoDup (map key es) /\ Forall (fun e => (e_i _ e < e_j _ e)%nat) es.

  Definition posI (es : list edgeR) : list (nat * nat) :=
    flat_map (fun e => if negb (is_fixed fixed (e_i _ e)) then [(e_i _ e, e_j _ e)] else []) es.
  Definition posJ (es : list edgeR) : list (nat * nat) :=
    flat_map (fun e => if negb (is_fixed fixed (e_j _ e)) then [(e_j _ e, e_i _ e)] else []) es.

  Lemma pos_updI es : forall U, length U = length es -> map pos (updI OpsR a fixed es U) = posI es.
  Proof.
    induction es as [|e tl IH]; intros U HL; destruct U as [|u us]; try discriminate; [reflexivity|].
    injection HL as HL. unfold updI, posI in *. cbn [combine flat_map]. rewrite map_app, IH by exact HL.
    destruct (negb (is_fixed fixed (e_i _ e))); reflexivity.
  Qed.
  Lemma pos_updJ es : forall U, length U = length es -> map pos (updJ OpsR a fixed es U) = posJ es.
  Proof.
    induction es as [|e tl IH]; intros U HL; destruct U as [|u us]; try discriminate; [reflexivity|].
    injection HL as HL. unfold updJ, posJ in *. cbn [combine flat_map]. rewrite map_app, IH by exact HL.
    destruct (negb (is_fixed fixed (e_j _ e))); reflexivity.
  Qed.

  Lemma posI_incl es p : In p (posI es) -> In p (map key es).
  Proof.
    induction es as [|e tl IH]; intros H; [destruct H|].
    unfold posI in H. cbn [flat_map] in H. apply in_app_or in H. destruct H as [H|H].
    - destruct (negb (is_fixed fixed (e_i _ e))); [|destruct H].
      destruct H as [<-|[]]. left; reflexivity.
    - right. apply IH. exact H.
  Qed.
  Lemma posJ_incl es p : In p (posJ es) -> In (snd p, fst p) (map key es).
  Proof.
    induction es as [|e tl IH]; intros H; [destruct H|].
    unfold posJ in H. cbn [flat_map] in H. apply in_app_or in H. destruct H as [H|H].
    - destruct (negb (is_fixed fixed (e_j _ e))); [|destruct H].
      destruct H as [<-|[]]. left; reflexivity.
    - right. apply IH. exact H.
  Qed.

  Lemma key_lt es p : Forall (fun e => (e_i _ e < e_j _ e)%nat) es -> In p (map key es) -> (fst p < snd p)%nat.
  Proof.
    intros HF Hin. apply in_map_iff in Hin. destruct Hin as [e [<- He]].
    rewrite Forall_forall in HF. apply HF. exact He.
  Qed.

  Lemma NoDup_posI es : NoDup (map key es) -> NoDup (posI es).
  Proof.
    induction es as [|e tl IH]; intros H; [constructor|].
    cbn [map] in H. inversion H as [|? ? Hni H']; subst. unfold posI. cbn [flat_map].
    destruct (negb (is_fixed fixed (e_i _ e))); cbn [app]; [|apply IH; exact H'].
    constructor; [|apply IH; exact H']. intros Hin. apply Hni. apply posI_incl. exact Hin.
  Qed.
  Lemma NoDup_posJ es : NoDup (map key es) -> NoDup (posJ es).
  Proof.
    induction es as [|e tl IH]; intros H; [constructor|].
    cbn [map] in H. inversion H as [|? ? Hni H']; subst. unfold posJ. cbn [flat_map].
    destruct (negb (is_fixed fixed (e_j _ e))); cbn [app]; [|apply IH; exact H'].
    constructor; [|apply IH; exact H']. intros Hin. apply Hni. apply posJ_incl in Hin. exact Hin.
  Qed.

  Lemma NoDup_positions es U :
    canonical es -> length U = length es -> NoDup (map pos (lap_updates OpsR a fixed es U)).
  Proof.
    intros [Hnd Hlt] HL. unfold lap_updates. rewrite map_app, pos_updI, pos_updJ by exact HL.
    apply NoDup_app_intro; [apply NoDup_posI; exact Hnd|apply NoDup_posJ; exact Hnd|].
    intros p HI HJ. apply posI_incl in HI. apply posJ_incl in HJ.
    apply (key_lt es _ Hlt) in HI. apply (key_lt es _ Hlt) in HJ. cbn in HJ. lia.
  Qed.

  Lemma updates_offdiag es U t :
    canonical es -> length U = length es -> In t (lap_updates OpsR a fixed es U) -> fst (pos t) <> snd (pos t).
  Proof.
    intros [Hnd Hlt] HL Hin.
    assert (Hp : In (pos t) (map pos (lap_updates OpsR a fixed es U))) by (apply in_map; exact Hin).
    unfold lap_updates in Hp. rewrite map_app, pos_updI, pos_updJ in Hp by exact HL.
    apply in_app_or in Hp. destruct Hp as [Hp|Hp].
    - apply posI_incl in Hp. apply (key_lt es _ Hlt) in Hp. lia.
    - apply posJ_incl in Hp. apply (key_lt es _ Hlt) in Hp. cbn [fst snd] in Hp. lia.
  Qed.

  Lemma rest_diag es t : In t (lap_rest OpsR a fixed es) -> fst (pos t) = snd (pos t).
  Proof.
    unfold lap_rest. intros H. apply in_app_or in H. destruct H as [H|H].
    - unfold diag_part in H. apply in_flat_map in H. destruct H as [e [_ H]].
      apply in_app_or in H. destruct H as [H|H].
      + destruct (negb (is_fixed fixed (e_i _ e))); [|destruct H]. destruct H as [<-|[]]. reflexivity.
      + destruct (negb (is_fixed fixed (e_j _ e))); [|destruct H]. destruct H as [<-|[]]. reflexivity.
    - apply in_map_iff in H. destruct H as [f [<- _]]. reflexivity.
  Qed.

  (* build = link entries + link-independent rest *)
  Lemma clap_free_decomp es : forall U r c, length U = length es ->
    centryR (clap_free OpsR a fixed es U) r c =
    cxadd (cxadd (centryR (updI OpsR a fixed es U) r c) (centryR (updJ OpsR a fixed es U) r c))
          (centryR (diag_part OpsR a fixed es) r c).
  Proof.
    induction es as [|e tl IH]; intros U r c HL; destruct U as [|u us]; try discriminate.
    - unfold updI, updJ, diag_part. cbn [clap_free combine flat_map]. rewrite !centry_nil. cx_shuffle.
    - injection HL as HL. cbn [clap_free]. unfold updI, updJ, diag_part in *. cbn [combine flat_map].
      rewrite !centry_app, (IH us r c HL). cx_shuffle.
  Qed.

  Lemma build_decomp es U r c : length U = length es ->
    build_lap OpsR a fixed es U r c =
    cxadd (centryR (lap_updates OpsR a fixed es U) r c) (centryR (lap_rest OpsR a fixed es) r c).
  Proof.
    intros HL. unfold build_lap, clap_coo, lap_updates, lap_rest.
    rewrite !centry_app, clap_free_decomp by exact HL. cx_shuffle.
  Qed.

  (* C10: one in-place refresh of a matrix that was built (or correctly refreshed) for ANY
     earlier link variables gives exactly the matrix built from scratch for the new ones *)
  Theorem refresh_eq_build es U U' (M : dense OpsR) :
    canonical es -> length U = length es -> length U' = length es ->
    (forall r c, M r c = build_lap OpsR a fixed es U r c) ->
    forall r c, refresh_lap OpsR a fixed es U' M r c = build_lap OpsR a fixed es U' r c.
  Proof.
    intros Hc HL HL' HM r c. unfold refresh_lap. rewrite (build_decomp es U' r c HL').
    pose proof (NoDup_positions es U' Hc HL') as Hnd.
    destruct (in_dec (fun p q : nat * nat => ltac:(decide equality; apply Nat.eq_dec)) (r, c)
                (map pos (lap_updates OpsR a fixed es U'))) as [Hin|Hout].
    - apply in_map_iff in Hin. destruct Hin as [[[r0 c0] x] [Hp Hin]].
      unfold pos in Hp. cbn in Hp. inversion Hp; subst r0 c0.
      rewrite (set_many_in _ M r c x Hnd Hin), (centry_single _ r c x Hnd Hin).
      rewrite centry_nomatch; [symmetry; apply cxadd_0_r|].
      intros t Ht Hpt. apply rest_diag in Ht. rewrite Hpt in Ht. cbn in Ht.
      apply (updates_offdiag es U' _ Hc HL') in Hin. unfold pos in Hin. cbn in Hin. contradiction.
    - rewrite set_many_notin by (intros t Ht Hp; apply Hout; rewrite <- Hp; apply in_map; exact Ht).
      rewrite HM, (build_decomp es U r c HL).
      assert (Hpos : map pos (lap_updates OpsR a fixed es U) = map pos (lap_updates OpsR a fixed es U')).
      { unfold lap_updates. rewrite !map_app, !pos_updI, !pos_updJ by assumption. reflexivity. }
      rewrite (centry_nomatch (lap_updates OpsR a fixed es U)), (centry_nomatch (lap_updates OpsR a fixed es U')).
      + reflexivity.
      + intros t Ht Hp. apply Hout. rewrite <- Hp. apply in_map. exact Ht.
      + intros t Ht Hp. apply Hout. rewrite <- Hpos, <- Hp. apply in_map. exact Ht.
  Qed.

  (* any finite sequence of refreshes: the Laplacian in use is the one built from scratch
     for the latest link variables *)
  Lemma refresh_fold es : canonical es -> forall Us U (L : dense OpsR),
    length U = length es -> Forall (fun U => length U = length es) Us ->
    (forall r c, L r c = build_lap OpsR a fixed es U r c) ->
    forall r c, fold_left (fun L U => refresh_lap OpsR a fixed es U L) Us L r c
                = build_lap OpsR a fixed es (last Us U) r c.
  Proof.
    intros Hc. induction Us as [|V tl IH]; intros U L HLU HF HLq r c; [apply HLq|].
    inversion HF as [|? ? HLV HF']; subst. cbn [fold_left].
    rewrite last_cons.
    apply (IH V _ HLV HF'). intros r1 c1. apply (refresh_eq_build es U V L Hc HLU HLV HLq).
  Qed.

  Theorem refresh_sequence es U0 Us :
    canonical es -> length U0 = length es -> Forall (fun U => length U = length es) Us ->
    forall r c,
      fold_left (fun L U => refresh_lap OpsR a fixed es U L) Us (build_lap OpsR a fixed es U0) r c
      = build_lap OpsR a fixed es (last Us U0) r c.
  Proof.
    intros Hc HL0 HF. apply (refresh_fold es Hc Us U0 _ HL0 HF). intros; reflexivity.
  Qed.
End RefreshLap.

(* ---------------- the refresh trigger ---------------- *)
Section TriggerP.
  Variable V : Type.
  Variable same : V -> V -> bool.
  Hypothesis same_exact : forall x y, same x y = true -> x = y.

  (* with an exact comparison, the operators always hold the latest vector potential *)
  Theorem trigger_fresh (A0 : V) (As : list V) :
    snd (trigger_run V same A0 As) = last As A0 /\ fst (trigger_run V same A0 As) = last As A0.
  Proof.
    unfold trigger_run.
    assert (G : forall st, fst st = snd st ->
              let st' := fold_left (trigger_step V same) As st in
              snd st' = last As (snd st) /\ fst st' = last As (snd st)).
    { induction As as [|x tl IH]; intros [p h] E; cbn in E; subst; [split; reflexivity|].
      cbn [fold_left trigger_step].
      destruct (same x h) eqn:S.
      - apply same_exact in S. subst.
        specialize (IH (h, h) eq_refl). cbn in IH.
        rewrite last_cons. exact IH.
      - specialize (IH (x, x) eq_refl). cbn in IH.
        rewrite last_cons. exact IH. }
    apply (G (A0, A0) eq_refl).
  Qed.
End TriggerP.

(* with a tolerance comparison (np.allclose against the previous step) a slow ramp is
   never refreshed: the operators keep the initial potential although the current one differs *)
Definition close_tol (x y : Z) : bool := (Z.abs (x - y) <=? 1)%Z.
Theorem trigger_allclose_refuted :
  exists (A0 : Z) (As : list Z),
    snd (trigger_run Z close_tol A0 As) <> last As A0.
Proof. exists 0%Z, [1; 2; 3; 4; 5]%Z. vm_compute. discriminate. Qed.
