(* C16: parameter arithmetic is pointwise arithmetic of its operands (structural induction: any depth). *)
From Coq Require Import ZArith QArith List Bool Arith Lia.
From PyTdgl Require Import Model.Param.
Import ListNotations.

(* evaluating a composite = evaluating the operands (time only to the time-dependent ones) and combining *)
Definition operand_value (x : expr) (en : env) : res Q :=
  match x with
  | Num q => Val q
  | _ => if td x then eval false x en else eval false x (Build_env (has_z en) false (leafval en))
  end.

Theorem eval_pointwise top o l r en :
  eval top (Comp o l r) en =
  match operand_value l en with
  | Raise e => Raise e
  | Val a => match operand_value r en with Raise e => Raise e | Val b => apply_op o a b end
  end.
Proof. reflexivity. Qed.

(* on values the five operators are exact rational arithmetic *)
Theorem apply_op_values a b :
  apply_op Add a b = Val (Qred (a + b)) /\ apply_op Sub a b = Val (Qred (a - b)) /\
  apply_op Mul a b = Val (Qred (a * b)) /\ (Qeq_bool b 0 = false -> apply_op Div a b = Val (Qred (a / b))).
Proof. repeat split. intros H. cbn. rewrite H. reflexivity. Qed.

(* a composite is time-dependent exactly when some leaf is a time-dependent parameter *)
Fixpoint has_kt (e : expr) : Prop :=
  match e with
  | Num _ => False
  | Par KT _ => True
  | Par _ _ => False
  | Comp _ l r => has_kt l \/ has_kt r
  end.
Theorem td_iff_some_leaf e : td e = true <-> has_kt e.
Proof.
  induction e as [q|k i|o l IHl r IHr]; cbn.
  - split; [discriminate|intros []].
  - destruct k; cbn; split; auto; try discriminate; intros [].
  - rewrite orb_true_iff, IHl, IHr. reflexivity.
Qed.

(* construction never raises, except for the documented number-number case *)
Theorem nest_total o l r : mk_comp o l r = Raise TypeErr <-> (is_num l = true /\ is_num r = true).
Proof.
  unfold mk_comp. destruct (is_num l), (is_num r); cbn; split; try discriminate; auto; intros [A B]; discriminate.
Qed.
Theorem nest_ok o l r : is_num l = false \/ is_num r = false -> mk_comp o l r = Val (Comp o l r).
Proof. unfold mk_comp. intros [H|H]; rewrite H; [|rewrite andb_false_r]; reflexivity. Qed.

(* equality is structural: reflexive, symmetric, and equal expressions have the same flag *)
Lemma kind_eqb_refl k : kind_eqb k k = true. Proof. destruct k; reflexivity. Qed.
Lemma op_eqb_refl o : op_eqb o o = true. Proof. destruct o; reflexivity. Qed.
Theorem eqb_refl e : eqb e e = true.
Proof.
  induction e as [q|k i|o l IHl r IHr]; cbn.
  - apply Qeq_bool_iff. reflexivity.
  - rewrite kind_eqb_refl, Nat.eqb_refl. reflexivity.
  - rewrite op_eqb_refl, IHl, IHr. reflexivity.
Qed.
Theorem eqb_sym a : forall b, eqb a b = eqb b a.
Proof.
  induction a as [q|k i|o l IHl r IHr]; intros [q'|k' i'|o' l' r']; cbn; try reflexivity.
  - destruct (Qeq_bool q q') eqn:E1, (Qeq_bool q' q) eqn:E2; try reflexivity.
    + apply Qeq_bool_iff in E1. symmetry in E1. apply Qeq_bool_iff in E1. congruence.
    + apply Qeq_bool_iff in E2. symmetry in E2. apply Qeq_bool_iff in E2. congruence.
  - rewrite (Nat.eqb_sym i i'). destruct k, k'; reflexivity.
  - rewrite IHl, IHr. destruct o, o'; reflexivity.
Qed.
Theorem eqb_td a : forall b, eqb a b = true -> td a = td b.
Proof.
  induction a as [q|k i|o l IHl r IHr]; intros [q'|k' i'|o' l' r'] H; cbn in *; try discriminate; try reflexivity.
  - apply andb_true_iff in H. destruct H as [H _]. destruct k, k'; try discriminate; reflexivity.
  - apply andb_true_iff in H. destruct H as [H Hr]. apply andb_true_iff in H. destruct H as [_ Hl].
    rewrite (IHl _ Hl), (IHr _ Hr). reflexivity.
Qed.
(* different shapes are unequal (never an error) *)
Theorem eqb_shape k i o l r : eqb (Par k i) (Comp o l r) = false /\ eqb (Comp o l r) (Par k i) = false.
Proof. split; reflexivity. Qed.

(* _clear_cache is total and complete: afterwards no parameter of the tree has a dirty cache, and
   nothing else is touched *)
Theorem clear_cache_complete e dirty i :
  In i (clear_cache e dirty) <-> (In i dirty /\ ~ In i (ids e)).
Proof.
  unfold clear_cache. rewrite filter_In. split; intros [A B]; split; auto.
  - intros Hin. apply negb_true_iff in B.
    assert (E : existsb (Nat.eqb i) (ids e) = true) by (apply existsb_exists; exists i; split; [exact Hin|apply Nat.eqb_refl]).
    congruence.
  - apply negb_true_iff. destruct (existsb (Nat.eqb i) (ids e)) eqn:E; [|reflexivity].
    apply existsb_exists in E. destruct E as [j [Hj Ej]]. apply Nat.eqb_eq in Ej. subst. contradiction.
Qed.

(* as found: a numeric right operand raised, and the right operand's cache was never cleared *)
Theorem clear_cache_as_found_refuted :
  clear_cache_as_found (Comp Mul (Par K3 1) (Num 2)) [1%nat] = Raise TypeErr /\
  clear_cache_as_found (Comp Add (Par K2 0) (Par K3 1)) [0%nat; 1%nat] = Val [1%nat].
Proof. split; reflexivity. Qed.
