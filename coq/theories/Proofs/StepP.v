(* Theorems about one solve step: charge conservation (C01), pinned terminals (C06),
   the uniform state (C17). *)
From Coq Require Import Reals Lra List Arith Lia Bool.
From PyTdgl Require Import Base.Ops Base.Cplx Base.Sums Model.FV Model.Euler Model.Step
     Proofs.EulerR Proofs.FVR Proofs.FVC.
Import ListNotations.
Open Scope R_scope.

Lemma applyR_add m f g r : applyR m (fun k => f k + g k) r = applyR m f r + applyR m g r.
Proof.
  induction m as [|[[r' c] x] tl IH]; [rewrite !applyR_nil; lra|].
  rewrite !applyR_cons, IH. destruct (Nat.eqb r' r); lra.
Qed.
Lemma applyR_opp m f r : applyR m (fun k => - f k) r = - applyR m f r.
Proof.
  induction m as [|[[r' c] x] tl IH]; [rewrite !applyR_nil; lra|].
  rewrite !applyR_cons, IH. destruct (Nat.eqb r' r); lra.
Qed.
Lemma applyR_ext m f g r : (forall k, f k = g k) -> applyR m f r = applyR m g r.
Proof.
  intros H. induction m as [|[[r' c] x] tl IH]; [reflexivity|].
  rewrite !applyR_cons, IH, H. reflexivity.
Qed.
Lemma applyR_zero m f r : (forall k, f k = 0) -> applyR m f r = 0.
Proof.
  intros H. induction m as [|[[r' c] x] tl IH]; [reflexivity|].
  rewrite applyR_cons, IH, H. destruct (Nat.eqb r' r); lra.
Qed.

Section StepR.
  Variable a : nat -> R.
  Variable n : nat.
  Variable es : list edgeR.
  Variable fixed : list nat.
  Variable solve : (nat -> R) -> (nat -> R).
  Variable tlink : nat -> RC.

  (* C01: whatever the supercurrent, if the linear solve returned a solution of L mu = rhs then the
     total current has divergence equal to the boundary injection at EVERY site (0 where no terminal
     edge touches the cell, since (B muB)_r sums over the boundary edges of cell r only) *)
  Theorem continuity U psi muB dAdt :
    let ob := solve_for_observables OpsR a es solve U psi muB dAdt in
    (forall r, (r < n)%nat -> applyR (lap_coo OpsR a es) (ob_mu _ ob) r = ob_rhs _ ob r) ->
    forall r, (r < n)%nat ->
      applyR (div_coo OpsR a 0 es) (fun k => ob_Js _ ob k + ob_Jn _ ob k) r
      = applyR (bflux_coo OpsR a 0 es) muB r.
  Proof.
    intros ob Hsolve r Hr. specialize (Hsolve r Hr).
    unfold ob, solve_for_observables in *. cbn [ob_mu ob_Js ob_Jn ob_rhs] in *. ops.
    set (Js := nthT OpsR (supercurrent OpsR es U psi)) in *.
    set (rhs := fun r0 => applyR (div_coo OpsR a 0 es) (fun k => Js k - dAdt k) r0
                          - applyR (bflux_coo OpsR a 0 es) muB r0) in *.
    set (mu := solve rhs) in *.
    rewrite (applyR_ext _ _ (fun k => (Js k - dAdt k) + - applyR (grad_coo OpsR 0 es) mu k))
      by (intros k; lra).
    rewrite applyR_add, applyR_opp, <- lap_div_grad, Hsolve. unfold rhs. lra.
  Qed.

  (* C06: a pinned site holding psi = 0 still holds 0 after the Euler update *)
  Theorem terminal_zero_site U psi eps gamma u dt f :
    NoDup fixed -> In f fixed -> psi f = (0, 0) ->
    euler_site OpsR a es fixed tlink U psi eps gamma u dt f = Some (0, (0, 0)).
  Proof.
    intros Hnd Hin Hz. unfold euler_site.
    rewrite (pinned_row_identity a fixed es U psi f Hnd Hin), Hz.
    apply pinned_zero_stays. unfold cabs2. cbn. ring.
  Qed.

  Theorem terminal_zero_step U psi eps gamma u dt muB dAdt out f :
    NoDup fixed -> In f fixed -> psi f = (0, 0) ->
    step OpsR a n es fixed solve tlink None U psi eps gamma u dt muB dAdt = Some out ->
    so_psi _ out f = (0, 0).
  Proof.
    intros Hnd Hin Hz. unfold step, euler_all.
    destruct (forallb _ (seq 0 n)); [|discriminate].
    intros H. inversion H; subst; clear H. cbn [so_psi].
    rewrite (terminal_zero_site U psi eps gamma u dt f Hnd Hin Hz). reflexivity.
  Qed.

  (* a non-zero terminal value is re-imposed after the Euler update, so it is held exactly *)
  Theorem pinned_value_held v U psi eps gamma u dt muB dAdt out f :
    In f fixed ->
    step OpsR a n es fixed solve tlink (Some v) U psi eps gamma u dt muB dAdt = Some out ->
    so_psi _ out f = v.
  Proof.
    intros Hin. unfold step. destruct (euler_all _ _ _ _ _ _ _ _ _ _ _ _) as [p|]; [|discriminate].
    intros H. inversion H; subst; clear H. cbn [so_psi].
    rewrite (is_fixed_in fixed f Hin). reflexivity.
  Qed.

  (* the identity row feeds a NON-zero pinned value into the update: it is not held (defect F8;
     repaired in the solver by re-imposing the terminal value after the Euler update) *)
  Theorem pinned_nonzero_refuted :
    exists U v abs2 eps gamma u dt x p,
      site_update OpsR U v abs2 eps gamma u dt v = Some (x, p) /\ p <> v.
  Proof.
    exists (1, 0), (1, 0), 1, 1, 0, 1, 1.
    assert (Ez : z_code OpsR (1,0) (1,0) 0 = (0, 0)).
    { unfold z_code, cmul, cdivr, cscale. cbn. f_equal; field. }
    assert (Ew : w_code OpsR (1,0) (1,0) 1 1 0 1 1 (1,0) = (2, 0)).
    { unfold w_code. rewrite Ez. unfold cadd, cmul, cscale. cbn.
      replace (1 + 0 * 0 * 1) with 1 by ring. rewrite sqrt_1. f_equal; field. }
    unfold site_update. rewrite Ez, Ew.
    assert (ED : Dzw (0,0) (2,0) = 1) by (unfold Dzw; cbn; ring).
    destruct (finish_cases (0,0) (2,0)) as [[HD _]|[_ E]]; [rewrite ED in HD; lra|].
    rewrite E, ED, sqrt_1. eexists. eexists. split; [reflexivity|].
    unfold csub, cscale, cx_abs2, cabs2. cbn. intros H. inversion H as [[H1 H2]]. lra.
  Qed.
End StepR.

Lemma forallb_ext_seq (f g : nat -> bool) (l : list nat) : (forall r, f r = g r) -> forallb f l = forallb g l.
Proof. intros H. induction l as [|x tl IH]; [reflexivity|]. cbn [forallb]. rewrite IH, H. reflexivity. Qed.

Lemma capplyR_ext m (f g : nat -> RC) r : (forall k, f k = g k) -> capplyR m f r = capplyR m g r.
Proof.
  intros H. induction m as [|[[r' c] x] tl IH]; [reflexivity|].
  rewrite !capplyR_cons, IH, H. reflexivity.
Qed.

Lemma supercurrent_ext (es : list edgeR) U (psi psi' : nat -> RC) :
  (forall r, psi r = psi' r) -> supercurrent OpsR es U psi = supercurrent OpsR es U psi'.
Proof.
  intros H. unfold supercurrent, matvec_c, supercurrent_of.
  rewrite (map_ext (capplyR (cgrad_coo OpsR 0 es U) psi) (capplyR (cgrad_coo OpsR 0 es U) psi'))
    by (intros r; apply capplyR_ext; exact H).
  apply map_ext. intros [e x]. rewrite H. reflexivity.
Qed.

(* ---------------- the uniform superconducting state (C17) ---------------- *)
Section Uniform.
  Variable a : nat -> R.
  Variable n : nat.
  Variable es : list edgeR.
  Variable solve : (nat -> R) -> (nat -> R).
  Variable tlink : nat -> RC.
  Hypothesis solve_zero : forall f, (forall r, f r = 0) -> forall r, solve f r = 0.
  Hypothesis tlink_zero : forall r, tlink r = (1, 0).

  Definition ones := repeat ((1, 0) : RC) (length es).
  Definition psi1 : nat -> RC := fun _ => (1, 0).

  Lemma Kedge_const_one e (k : RC) r : Kedge a e (1, 0) (fun _ => k) r = cx0.
  Proof.
    unfold Kedge. destruct k as [kr ki].
    destruct (Nat.eqb (e_i _ e) r), (Nat.eqb (e_j _ e) r); cx_unfold; f_equal; ring.
  Qed.

  Lemma clap_const_zero (k : RC) r : forall (l : list edgeR),
    capplyR (clap_free OpsR a [] l (repeat ((1, 0) : RC) (length l))) (fun _ => k) r = cx0.
  Proof.
    induction l as [|e tl IH]; [reflexivity|].
    cbn [length repeat]. rewrite clap_free_nil_cons, Kedge_const_one, IH. apply cxadd_0_l.
  Qed.

  Lemma cgrad_const_zero (k : RC) : forall (l : list edgeR),
    Forall (fun x => x = cx0) (cgrad_list OpsR l (repeat ((1, 0) : RC) (length l)) (fun _ => k)).
  Proof.
    induction l as [|e tl IH]; [constructor|].
    cbn [length repeat]. unfold cgrad_list in *. cbn [combine map]. constructor; [|exact IH].
    destruct k as [kr ki]. cx_unfold. f_equal; ring.
  Qed.

  Lemma supercurrent_uniform k : nthT OpsR (supercurrent OpsR es ones psi1) k = 0.
  Proof.
    unfold supercurrent, matvec_c, ones. rewrite cgrad_coo_rows by apply repeat_length.
    pose proof (cgrad_const_zero (1, 0) es) as H. fold psi1 in H.
    revert k H. generalize (cgrad_list OpsR es (repeat ((1, 0) : RC) (length es)) psi1) as X.
    generalize es as l. unfold nthT, supercurrent_of.
    induction l as [|e tl IH]; intros X k H; [destruct k; reflexivity|].
    destruct X as [|x xs]; [destruct k; reflexivity|].
    inversion H as [|? ? Hx Hxs]; subst. cbn [combine map]. destruct k as [|k].
    - cbn. unfold psi1. cx_unfold. ring.
    - cbn [nth]. apply IH. exact Hxs.
  Qed.

  (* one full step maps (psi = 1, mu = 0) with eps = 1, A = 0, no bias to itself, for every mesh,
     every gamma, u <> 0 and dt: no current, no potential, no amplitude change *)
  Theorem uniform_stationary gamma u dt :
    u <> 0 ->
    exists out,
      step OpsR a n es [] solve tlink None ones psi1 (fun _ => 1) gamma u dt (fun _ => 0) (fun _ => 0)
      = Some out /\
      (forall r, so_psi _ out r = (1, 0)) /\
      (forall r, ob_mu _ (so_obs _ out) r = 0) /\
      (forall k, ob_Js _ (so_obs _ out) k = 0) /\
      (forall k, ob_Jn _ (so_obs _ out) k = 0).
  Proof.
    intros Hu.
    assert (Es : forall r, euler_site OpsR a es [] tlink ones psi1 (fun _ => 1) gamma u dt r
                           = Some (1, (1, 0))).
    { intros r. unfold euler_site, clap_coo. cbn [map]. rewrite capplyR_app, capplyR_nil.
      unfold ones, psi1. rewrite clap_const_zero, tlink_zero, cxadd_0_l.
      replace (cabs2 OpsR (1, 0)) with 1 by (unfold cabs2; cbn; ring).
      apply euler_fixed_point. exact Hu. }
    unfold step, euler_all.
    rewrite (proj2 (forallb_forall _ _)) by (intros r _; rewrite Es; reflexivity).
    eexists. split; [reflexivity|]. cbn [so_psi so_obs].
    split; [intros r; rewrite Es; reflexivity|].
    assert (Epsi : (fun r => match euler_site OpsR a es [] tlink ones psi1 (fun _ => 1) gamma u dt r
                             with Some (_, p) => p | None => psi1 r end) = psi1 \/ True) by (right; exact I).
    clear Epsi.
    set (psi' := fun r => match euler_site OpsR a es [] tlink ones psi1 (fun _ : nat => 1) gamma u dt r
                          with Some (_, p) => p | None => psi1 r end).
    assert (Js0 : forall k, nthT OpsR (supercurrent OpsR es ones psi') k = 0).
    { intros k.
      assert (E : supercurrent OpsR es ones psi' = supercurrent OpsR es ones psi1)
        by (apply supercurrent_ext; intros r; unfold psi'; rewrite Es; reflexivity).
      rewrite E. apply supercurrent_uniform. }
    unfold solve_for_observables. cbn [ob_mu ob_Js ob_Jn]. ops.
    assert (Rhs0 : forall r, applyR (div_coo OpsR a 0 es) (fun k => nthT OpsR (supercurrent OpsR es ones psi') k - 0) r
                             - applyR (bflux_coo OpsR a 0 es) (fun _ => 0) r = 0).
    { intros r. rewrite !applyR_zero; [lra|reflexivity|]. intros k. rewrite Js0. lra. }
    split; [intros r; apply solve_zero; exact Rhs0|]. split; [exact Js0|].
    intros k. rewrite applyR_zero; [lra|]. intros j. apply solve_zero. exact Rhs0.
  Qed.
End Uniform.

(* ---------------- terminal current densities (C01) ---------------- *)
Lemma sum_others_acc_spec (I : list R) : forall acc k skip,
  sum_others_acc OpsR acc k skip I =
  acc + Rsum (fun x => x) I
  - (if (Nat.leb k skip && Nat.ltb skip (k + length I))%bool then nth (skip - k) I 0 else 0).
Proof.
  induction I as [|x tl IH]; intros acc k skip.
  - cbn [sum_others_acc Rsum length]. destruct (Nat.leb k skip && Nat.ltb skip (k + 0))%bool;
      [destruct (skip - k)%nat|]; cbn [nth]; lra.
  - cbn [sum_others_acc Rsum length]. rewrite IH. ops.
    destruct (Nat.eqb_spec k skip) as [->|Hne].
    + replace (Nat.leb (S skip) skip) with false by (symmetry; apply Nat.leb_gt; lia).
      rewrite Nat.leb_refl, Nat.sub_diag. cbn [andb nth].
      replace (Nat.ltb skip (skip + S (length tl))) with true by (symmetry; apply Nat.ltb_lt; lia). lra.
    + destruct (Nat.leb_spec (S k) skip), (Nat.leb_spec k skip); try lia; cbn [andb]; try lra.
      replace (Nat.ltb skip (k + S (length tl))) with (Nat.ltb skip (S k + length tl))
        by (f_equal; lia).
      destruct (Nat.ltb skip (S k + length tl)); [|lra].
      replace (skip - k)%nat with (S (skip - S k)) by lia. cbn [nth]. lra.
Qed.

(* over the reals the compensated (Neumaier) sum CPython >= 3.12 uses for exact floats is the plain sum *)
Definition nsum_val (st : option (R * R)) : R := match st with None => 0 | Some (s, c) => s + c end.
Lemma nsum_others_spec (I : list R) : forall st k skip,
  nsum_others OpsR st k skip I = sum_others_acc OpsR (nsum_val st) k skip I.
Proof.
  induction I as [|x tl IH]; intros st k skip.
  - cbn [nsum_others sum_others_acc]. destruct st as [[s c]|]; cbn [nsum_val]; [|reflexivity].
    ops. change (o_eqb OpsR c 0) with (Reqb c 0). change (o_isfin OpsR c) with true.
    destruct (Reqb c 0) eqn:E; cbn [negb andb].
    + apply Reqb_true in E. subst c. lra.
    + reflexivity.
  - cbn [nsum_others sum_others_acc]. destruct (Nat.eqb k skip); [apply IH|].
    destruct st as [[s c]|].
    + cbv zeta. rewrite IH. f_equal. cbn [nsum_val]. ops.
      destruct (o_leb OpsR (o_abs OpsR x) (o_abs OpsR s)); lra.
    + rewrite IH. f_equal. cbn [nsum_val]. ops. lra.
Qed.
Lemma sum_others_comp_irrelevant comp k skip (I : list R) :
  sum_others OpsR comp k skip I = sum_others_acc OpsR 0 k skip I.
Proof. unfold sum_others. destruct comp; [apply nsum_others_spec|reflexivity]. Qed.

(* the current entering through a terminal is the requested current whenever the assignment is balanced *)
Theorem density_balanced comp (ts : list (terminal OpsR)) (I : list R) (t : nat) tm :
  Rsum (fun x => x) I = 0 -> nth_error ts t = Some tm -> t_len _ tm <> 0 -> (t < length I)%nat ->
  t_len _ tm * density OpsR comp ts I t = nth t I 0.
Proof.
  intros Hbal Ht Hl Hlt. unfold density. rewrite Ht. rewrite sum_others_comp_irrelevant, sum_others_acc_spec, Hbal.
  cbn [Nat.leb andb]. replace (Nat.ltb t (0 + length I)) with true by (symmetry; apply Nat.ltb_lt; lia).
  rewrite Nat.sub_0_r. ops. field. exact Hl.
Qed.

(* ---------------- gauge covariance of a whole step and of a run (C04) ---------------- *)
Section StepCov.
  Variable a : nat -> R.
  Variable n : nat.
  Variable es : list edgeR.
  Variable fixed : list nat.
  Variable solve : (nat -> R) -> (nat -> R).
  Variable tlink : nat -> RC.
  Variable gz : nat -> RC.
  Hypothesis gz_unit : forall i, cabs2 OpsR (gz i) = 1.
  Hypothesis fixed_nodup : NoDup fixed.
  Hypothesis solve_ext : forall f g, (forall r, f r = g r) -> forall r, solve f r = solve g r.

  Lemma clap_coo_covariant U psi r :
    capplyR (clap_coo OpsR a fixed es (gauge_links gz es U)) (gauge_psi gz psi) r
    = cxmul (gz r) (capplyR (clap_coo OpsR a fixed es U) psi r).
  Proof.
    destruct (in_dec Nat.eq_dec r fixed) as [Hin|Hout].
    - rewrite !pinned_row_identity by assumption. reflexivity.
    - rewrite (free_rows_unpinned a fixed es U psi r Hout),
        (free_rows_unpinned a fixed es (gauge_links gz es U) (gauge_psi gz psi) r Hout).
      unfold clap_coo. cbn [map].
      rewrite !capplyR_app, !capplyR_nil, !cxadd_0_r. apply cov_lap_covariant. exact gz_unit.
  Qed.

  Lemma cabs2_gauge g p : cabs2 OpsR g = 1 -> cabs2 OpsR (cxmul g p) = cabs2 OpsR p.
  Proof.
    destruct g as [gr gi], p as [pr pi_]. cx_unfold. intros H.
    transitivity ((gr*gr+gi*gi)*(pr*pr+pi_*pi_)); [ring|rewrite H; ring].
  Qed.

  Lemma euler_site_covariant U psi eps gamma u dt r :
    euler_site OpsR a es fixed tlink (gauge_links gz es U) (gauge_psi gz psi) eps gamma u dt r
    = match euler_site OpsR a es fixed tlink U psi eps gamma u dt r with
      | Some (x, p) => Some (x, cxmul (gz r) p) | None => None end.
  Proof.
    unfold euler_site. rewrite clap_coo_covariant. unfold gauge_psi at 1 2.
    rewrite cabs2_gauge by apply gz_unit. apply euler_covariant. apply gz_unit.
  Qed.

  Theorem step_covariant U psi eps gamma u dt muB dAdt :
    length U = length es ->
    match step OpsR a n es fixed solve tlink None U psi eps gamma u dt muB dAdt,
          step OpsR a n es fixed solve tlink None (gauge_links gz es U) (gauge_psi gz psi) eps gamma u dt muB dAdt with
    | None, None => True
    | Some o, Some o' =>
        (forall r, so_psi _ o' r = cxmul (gz r) (so_psi _ o r)) /\
        (forall r, ob_mu _ (so_obs _ o') r = ob_mu _ (so_obs _ o) r) /\
        (forall k, ob_Js _ (so_obs _ o') k = ob_Js _ (so_obs _ o) k) /\
        (forall k, ob_Jn _ (so_obs _ o') k = ob_Jn _ (so_obs _ o) k)
    | _, _ => False
    end.
  Proof.
    intros HL. unfold step, euler_all.
    assert (Hb : forallb (fun r => match euler_site OpsR a es fixed tlink (gauge_links gz es U) (gauge_psi gz psi) eps gamma u dt r
                                   with Some _ => true | None => false end) (seq 0 n)
               = forallb (fun r => match euler_site OpsR a es fixed tlink U psi eps gamma u dt r
                                   with Some _ => true | None => false end) (seq 0 n)).
    { induction (seq 0 n) as [|r tl IHl]; [reflexivity|]. cbn [forallb]. rewrite IHl, euler_site_covariant.
      destruct (euler_site OpsR a es fixed tlink U psi eps gamma u dt r) as [[x p]|]; reflexivity. }
    rewrite Hb. clear Hb.
    destruct (forallb _ (seq 0 n)); cbv beta iota; [|exact I].
    set (psi' := fun r => match euler_site OpsR a es fixed tlink U psi eps gamma u dt r
                          with Some (_, p) => p | None => psi r end).
    set (psiG := fun r => match euler_site OpsR a es fixed tlink (gauge_links gz es U) (gauge_psi gz psi) eps gamma u dt r
                          with Some (_, p) => p | None => gauge_psi gz psi r end).
    assert (Ep : forall r, psiG r = gauge_psi gz psi' r).
    { intros r. unfold psiG, psi'. rewrite euler_site_covariant. unfold gauge_psi.
      destruct (euler_site OpsR a es fixed tlink U psi eps gamma u dt r) as [[x p]|]; reflexivity. }
    cbn [so_psi so_obs]. split; [exact Ep|].
    assert (EJ : supercurrent OpsR es (gauge_links gz es U) psiG = supercurrent OpsR es U psi').
    { rewrite (supercurrent_ext es _ psiG (gauge_psi gz psi') Ep).
      apply supercurrent_invariant; assumption. }
    unfold solve_for_observables. cbn [ob_mu ob_Js ob_Jn]. rewrite EJ.
    split; [intros r; reflexivity|]. split; intros k; reflexivity.
  Qed.
End StepCov.

(* ---------------- runs: every step of a run (C04, C17) ---------------- *)
Section Runs.
  Variable a : nat -> R.
  Variable n : nat.
  Variable es : list edgeR.
  Variable fixed : list nat.
  Variable solve : (nat -> R) -> (nat -> R).
  Variable tlink tlink2 : nat -> RC.
  Variable repin : option RC.
  Hypothesis tlink_same : forall r, tlink r = tlink2 r.

  (* observable content of two step results agrees *)
  Definition out_same (o o' : step_out OpsR) : Prop :=
    (forall r, so_psi _ o' r = so_psi _ o r) /\
    (forall r, ob_mu _ (so_obs _ o') r = ob_mu _ (so_obs _ o) r) /\
    (forall k, ob_Js _ (so_obs _ o') k = ob_Js _ (so_obs _ o) k) /\
    (forall k, ob_Jn _ (so_obs _ o') k = ob_Jn _ (so_obs _ o) k).

  Lemma euler_site_ext U (psi psi2 : nat -> RC) eps gamma u dt r :
    (forall k, psi k = psi2 k) ->
    euler_site OpsR a es fixed tlink U psi eps gamma u dt r = euler_site OpsR a es fixed tlink2 U psi2 eps gamma u dt r.
  Proof.
    intros H. unfold euler_site. rewrite (capplyR_ext _ psi psi2 r H), (H r), (tlink_same r). reflexivity.
  Qed.

  Lemma observables_ext U (p p2 : nat -> RC) muB dAdt :
    (forall r, p r = p2 r) ->
    let o := solve_for_observables OpsR a es solve U p muB dAdt in
    let o2 := solve_for_observables OpsR a es solve U p2 muB dAdt in
    (forall r, ob_mu _ o2 r = ob_mu _ o r) /\ (forall k, ob_Js _ o2 k = ob_Js _ o k) /\ (forall k, ob_Jn _ o2 k = ob_Jn _ o k).
  Proof.
    intros H o o2. unfold o, o2, solve_for_observables. cbn [ob_mu ob_Js ob_Jn].
    rewrite (supercurrent_ext es U p p2 H). repeat split; intros; reflexivity.
  Qed.

  (* the step only looks at the values of psi and of the phase factors: pointwise equal inputs give pointwise equal
     results *)
  Lemma step_ext U (psi psi2 : nat -> RC) eps gamma u dt muB dAdt :
    (forall r, psi r = psi2 r) ->
    match step OpsR a n es fixed solve tlink repin U psi eps gamma u dt muB dAdt,
          step OpsR a n es fixed solve tlink2 repin U psi2 eps gamma u dt muB dAdt with
    | None, None => True
    | Some o, Some o2 => out_same o o2
    | _, _ => False
    end.
  Proof.
    intros H. unfold step, euler_all.
    assert (Hb : forallb (fun r => match euler_site OpsR a es fixed tlink2 U psi2 eps gamma u dt r
                                   with Some _ => true | None => false end) (seq 0 n)
               = forallb (fun r => match euler_site OpsR a es fixed tlink U psi eps gamma u dt r
                                   with Some _ => true | None => false end) (seq 0 n)).
    { apply forallb_ext_seq. intros r. rewrite (euler_site_ext U psi psi2 eps gamma u dt r H). reflexivity. }
    rewrite Hb. clear Hb. destruct (forallb _ (seq 0 n)); cbv beta iota; [|exact I].
    set (p := fun r => match euler_site OpsR a es fixed tlink U psi eps gamma u dt r with Some (_, q) => q | None => psi r end).
    set (p2 := fun r => match euler_site OpsR a es fixed tlink2 U psi2 eps gamma u dt r with Some (_, q) => q | None => psi2 r end).
    assert (Ep : forall r, p2 r = p r).
    { intros r. unfold p, p2. rewrite <- (euler_site_ext U psi psi2 eps gamma u dt r H).
      destruct (euler_site OpsR a es fixed tlink U psi eps gamma u dt r) as [[x q]|]; [reflexivity|symmetry; apply H]. }
    set (q := match repin with Some v => fun r => if is_fixed fixed r then v else p r | None => p end).
    set (q2 := match repin with Some v => fun r => if is_fixed fixed r then v else p2 r | None => p2 end).
    assert (Eq : forall r, q2 r = q r).
    { intros r. unfold q, q2. destruct repin as [v|]; [destruct (is_fixed fixed r); [reflexivity|apply Ep]|apply Ep]. }
    unfold out_same. cbn [so_psi so_obs]. split; [exact Eq|].
    apply (observables_ext U q q2 muB dAdt). intros r. symmetry. apply Eq.
  Qed.
End Runs.

Section RunCov.
  Variable a : nat -> R.
  Variable n : nat.
  Variable es : list edgeR.
  Variable fixed : list nat.
  Variable solve : (nat -> R) -> (nat -> R).
  Variable expi : R -> RC.
  Variable gz : nat -> RC.
  Hypothesis gz_unit : forall i, cabs2 OpsR (gz i) = 1.
  Hypothesis fixed_nodup : NoDup fixed.

  Definition gauge_in (i : step_in OpsR) : step_in OpsR :=
    {| si_U := gauge_links gz es (si_U _ i); si_eps := si_eps _ i; si_dt := si_dt _ i;
       si_muB := si_muB _ i; si_dAdt := si_dAdt _ i |}.
  Definition out_gauged (o o' : step_out OpsR) : Prop :=
    (forall r, so_psi _ o' r = cxmul (gz r) (so_psi _ o r)) /\
    (forall r, ob_mu _ (so_obs _ o') r = ob_mu _ (so_obs _ o) r) /\
    (forall k, ob_Js _ (so_obs _ o') k = ob_Js _ (so_obs _ o) k) /\
    (forall k, ob_Jn _ (so_obs _ o') k = ob_Jn _ (so_obs _ o) k).
  Definition entry_gauged (x x' : option (step_out OpsR)) : Prop :=
    match x, x' with
    | None, None => True
    | Some o, Some o' => out_gauged o o'
    | _, _ => False
    end.

  (* C04, every step of a run: two runs whose link variables are related by the gauge function at every step
     (time-dependent potentials included), whose initial order parameters are related by it and whose initial
     potentials agree refuse the same steps and produce, step by step, the same potential and currents and
     gauge-related order parameters.  The phase factor exp(-i mu dt) of each step is computed from the previous
     step's potential in both runs. *)
  Theorem run_covariant gamma u : forall l psi psiG mu muG,
    Forall (fun i => length (si_U _ i) = length es) l ->
    (forall r, psiG r = cxmul (gz r) (psi r)) -> (forall r, muG r = mu r) ->
    Forall2 entry_gauged
      (run_steps OpsR a n es fixed solve None expi gamma u psi mu l)
      (run_steps OpsR a n es fixed solve None expi gamma u psiG muG (map gauge_in l)).
  Proof.
    induction l as [|i tl IH]; intros psi psiG mu muG HL Hpsi Hmu; [constructor|].
    inversion HL as [|? ? HLi HLtl]; subst.
    cbn [map run_steps gauge_in si_U si_eps si_dt si_muB si_dAdt].
    set (tl1 := fun r => expi (o_mul OpsR (mu r) (si_dt _ i))).
    set (tl2 := fun r => expi (o_mul OpsR (muG r) (si_dt _ i))).
    assert (Et : forall r, tl1 r = tl2 r) by (intros r; unfold tl1, tl2; rewrite Hmu; reflexivity).
    pose proof (step_covariant a n es fixed solve tl1 gz gz_unit fixed_nodup
                  (si_U _ i) psi (si_eps _ i) gamma u (si_dt _ i) (si_muB _ i) (si_dAdt _ i) HLi) as C.
    pose proof (step_ext a n es fixed solve tl1 tl2 None Et (gauge_links gz es (si_U _ i))
                  (gauge_psi gz psi) psiG (si_eps _ i) gamma u (si_dt _ i) (si_muB _ i) (si_dAdt _ i)) as E.
    specialize (E ltac:(intros r; unfold gauge_psi; symmetry; apply Hpsi)).
    destruct (step OpsR a n es fixed solve tl1 None (si_U _ i) psi (si_eps _ i) gamma u (si_dt _ i) (si_muB _ i) (si_dAdt _ i))
      as [o|];
    destruct (step OpsR a n es fixed solve tl1 None (gauge_links gz es (si_U _ i)) (gauge_psi gz psi) (si_eps _ i) gamma u
                   (si_dt _ i) (si_muB _ i) (si_dAdt _ i)) as [oG|];
    destruct (step OpsR a n es fixed solve tl2 None (gauge_links gz es (si_U _ i)) psiG (si_eps _ i) gamma u
                   (si_dt _ i) (si_muB _ i) (si_dAdt _ i)) as [o2|]; try contradiction.
    - destruct C as (C1 & C2 & C3 & C4). destruct E as (E1 & E2 & E3 & E4).
      assert (G : out_gauged o o2).
      { unfold out_gauged. repeat split; intros.
        - rewrite E1. apply C1.
        - rewrite E2. apply C2.
        - rewrite E3. apply C3.
        - rewrite E4. apply C4. }
      constructor; [exact G|]. destruct G as (G1 & G2 & _). apply IH; [exact HLtl|exact G1|exact G2].
    - constructor; [exact I|constructor].
  Qed.
End RunCov.

Section Forever.
  Variable a : nat -> R.
  Variable n : nat.
  Variable es : list edgeR.
  Variable solve : (nat -> R) -> (nat -> R).
  Variable expi : R -> RC.
  Hypothesis solve_zero : forall f, (forall r, f r = 0) -> forall r, solve f r = 0.
  Hypothesis expi_zero : expi 0 = (1, 0).

  Definition stat_in (dt : R) : step_in OpsR :=
    {| si_U := ones es; si_eps := fun _ => 1; si_dt := dt; si_muB := fun _ => 0; si_dAdt := fun _ => 0 |}.
  Definition entry_stationary (x : option (step_out OpsR)) : Prop :=
    exists o, x = Some o /\ (forall r, so_psi _ o r = (1, 0)) /\ (forall r, ob_mu _ (so_obs _ o) r = 0) /\
              (forall k, ob_Js _ (so_obs _ o) k = 0) /\ (forall k, ob_Jn _ (so_obs _ o) k = 0).

  (* C17, every step of a run: with zero field, no bias and eps = 1 the uniform state (psi = 1, mu = 0) is reproduced
     by every step of a run with an arbitrary sequence of time steps: no step is refused, no current, no potential *)
  Theorem stationary_forever gamma u : u <> 0 -> forall dts psi mu,
    (forall r, psi r = (1, 0)) -> (forall r, mu r = 0) ->
    Forall entry_stationary (run_steps OpsR a n es [] solve None expi gamma u psi mu (map stat_in dts)).
  Proof.
    intros Hu. induction dts as [|dt tl IH]; intros psi mu Hpsi Hmu; [constructor|].
    cbn [map run_steps stat_in si_U si_eps si_dt si_muB si_dAdt].
    set (tlk := fun r => expi (o_mul OpsR (mu r) dt)).
    assert (Tz : forall r, tlk r = (1, 0)).
    { intros r. unfold tlk. rewrite Hmu. cbn [o_mul OpsR]. rewrite Rmult_0_l. exact expi_zero. }
    destruct (uniform_stationary a n es solve tlk solve_zero Tz gamma u dt Hu) as (o & Eo & P1 & P2 & P3 & P4).
    pose proof (step_ext a n es [] solve tlk tlk None (fun r => eq_refl) (ones es) (psi1) psi (fun _ => 1) gamma u dt
                  (fun _ => 0) (fun _ => 0)) as E.
    specialize (E ltac:(intros r; unfold psi1; symmetry; apply Hpsi)).
    rewrite Eo in E.
    destruct (step OpsR a n es [] solve tlk None (ones es) psi (fun _ => 1) gamma u dt (fun _ => 0) (fun _ => 0))
      as [o2|]; [|contradiction].
    destruct E as (E1 & E2 & E3 & E4).
    constructor.
    - exists o2. split; [reflexivity|]. repeat split; intros.
      + rewrite E1. apply P1.
      + rewrite E2. apply P2.
      + rewrite E3. apply P3.
      + rewrite E4. apply P4.
    - apply IH; intros r; [rewrite E1; apply P1|rewrite E2; apply P2].
  Qed.
End Forever.

(* ---------------- every step of a run: conservation and pinning (C01, C06) ---------------- *)
Section RunInv.
  Variable a : nat -> R.
  Variable n : nat.
  Variable es : list edgeR.
  Variable fixed : list nat.
  Variable solve : (nat -> R) -> (nat -> R).
  Variable expi : R -> RC.

  (* the k-th entry of a run is one [step] applied to the k-th input and to the state the previous entries produced *)
  Lemma run_steps_nth repin gamma u : forall l psi mu k o,
    nth_error (run_steps OpsR a n es fixed solve repin expi gamma u psi mu l) k = Some (Some o) ->
    exists i psik muk,
      nth_error l k = Some i /\
      step OpsR a n es fixed solve (fun r => expi (o_mul OpsR (muk r) (si_dt _ i))) repin
           (si_U _ i) psik (si_eps _ i) gamma u (si_dt _ i) (si_muB _ i) (si_dAdt _ i) = Some o.
  Proof.
    induction l as [|i tl IH]; intros psi mu k o H; [destruct k; discriminate|].
    cbn [run_steps] in H.
    destruct (step OpsR a n es fixed solve (fun r => expi (o_mul OpsR (mu r) (si_dt _ i))) repin
                   (si_U _ i) psi (si_eps _ i) gamma u (si_dt _ i) (si_muB _ i) (si_dAdt _ i)) as [o1|] eqn:E.
    - destruct k as [|k].
      + cbn [nth_error] in H. inversion H; subst. exists i, psi, mu. split; [reflexivity|exact E].
      + cbn [nth_error] in H. destruct (IH _ _ _ _ H) as (i' & pk & mk & A & B). exists i', pk, mk. split; assumption.
    - destruct k as [|[|k]]; cbn [nth_error] in H; discriminate.
  Qed.

  (* C01 at every step of a run: whenever the linear solver returns solutions, the total current leaving every cell
     equals the boundary injection of that step's boundary data *)
  Theorem run_continuity repin gamma u :
    (forall rhs r, (r < n)%nat -> applyR (lap_coo OpsR a es) (solve rhs) r = rhs r) ->
    forall l psi mu k o i,
      nth_error (run_steps OpsR a n es fixed solve repin expi gamma u psi mu l) k = Some (Some o) ->
      nth_error l k = Some i ->
      forall r, (r < n)%nat ->
        applyR (div_coo OpsR a 0 es) (fun e => ob_Js _ (so_obs _ o) e + ob_Jn _ (so_obs _ o) e) r
        = applyR (bflux_coo OpsR a 0 es) (si_muB _ i) r.
  Proof.
    intros Hsolve l psi mu k o i H Hi r Hr.
    destruct (run_steps_nth repin gamma u l psi mu k o H) as (i' & pk & mk & A & B).
    rewrite Hi in A. inversion A; subst i'. clear A.
    unfold step in B. destruct (euler_all _ _ _ _ _ _ _ _ _ _ _ _) as [p|]; [|discriminate].
    inversion B; subst o; clear B. cbn [so_obs].
    apply (continuity a n es solve); [|exact Hr].
    intros r0 Hr0. unfold solve_for_observables. cbn [ob_mu ob_rhs]. apply Hsolve. exact Hr0.
  Qed.

  (* C06 at every step of a run, default contact (terminal value 0): zero on the terminals initially, zero for ever *)
  Theorem run_terminal_zero gamma u : NoDup fixed -> forall l psi mu,
    (forall f, In f fixed -> psi f = (0, 0)) ->
    Forall (fun x : option (step_out OpsR) => match x with Some o => forall f, In f fixed -> so_psi _ o f = (0, 0) | None => True end)
           (run_steps OpsR a n es fixed solve None expi gamma u psi mu l).
  Proof.
    intros Hnd. induction l as [|i tl IH]; intros psi mu Hz; [constructor|].
    cbn [run_steps].
    destruct (step OpsR a n es fixed solve (fun r => expi (o_mul OpsR (mu r) (si_dt _ i))) None
                   (si_U _ i) psi (si_eps _ i) gamma u (si_dt _ i) (si_muB _ i) (si_dAdt _ i)) as [o|] eqn:E.
    - assert (Z : forall f, In f fixed -> so_psi _ o f = (0, 0)).
      { intros f Hf. eapply terminal_zero_step; [exact Hnd|exact Hf|apply Hz; exact Hf|exact E]. }
      constructor; [exact Z|apply IH; exact Z].
    - constructor; [exact I|constructor].
  Qed.

  (* C06 at every step of a run, configured terminal value v: held exactly at every step, whatever the initial state *)
  Theorem run_pinned_value_held v gamma u : forall l psi mu,
    Forall (fun x : option (step_out OpsR) => match x with Some o => forall f, In f fixed -> so_psi _ o f = v | None => True end)
           (run_steps OpsR a n es fixed solve (Some v) expi gamma u psi mu l).
  Proof.
    induction l as [|i tl IH]; intros psi mu; [constructor|].
    cbn [run_steps].
    destruct (step OpsR a n es fixed solve (fun r => expi (o_mul OpsR (mu r) (si_dt _ i))) (Some v)
                   (si_U _ i) psi (si_eps _ i) gamma u (si_dt _ i) (si_muB _ i) (si_dAdt _ i)) as [o|] eqn:E.
    - constructor; [|apply IH]. intros f Hf. eapply pinned_value_held; [exact Hf|exact E].
    - constructor; [exact I|constructor].
  Qed.

  (* the state a SEEDED run starts from (fix ba0ecc8): the seed's order parameter with the configured terminal value imposed on the
     terminal sites.  Whatever the seed holds there, the terminals of a default (zero) contact are zero at every step, and the
     initial state itself holds the configured value on them. *)
  Definition impose (v : RC) (psi : nat -> RC) : nat -> RC := fun r => if is_fixed fixed r then v else psi r.

  Lemma impose_fixed v psi f : In f fixed -> impose v psi f = v.
  Proof. intros H. unfold impose. rewrite (is_fixed_in fixed f H). reflexivity. Qed.

  Lemma impose_free v psi r : ~ In r fixed -> impose v psi r = psi r.
  Proof. intros H. unfold impose. rewrite (is_fixed_notin fixed r H). reflexivity. Qed.

  Theorem run_terminal_zero_seeded gamma u : NoDup fixed -> forall l seed mu,
    Forall (fun x : option (step_out OpsR) => match x with Some o => forall f, In f fixed -> so_psi _ o f = (0, 0) | None => True end)
           (run_steps OpsR a n es fixed solve None expi gamma u (impose (0, 0) seed) mu l).
  Proof.
    intros Hnd l seed mu. apply run_terminal_zero; [exact Hnd|]. intros f Hf. apply impose_fixed. exact Hf.
  Qed.
End RunInv.

(* ---------------- update_mu_boundary: the change-only cache is coherent (C01) ---------------- *)
Section Cache.
  Notation termR := (terminal OpsR).
  Variable comp : bool.
  Variable all : list termR.

  Lemma write_edges_in (muB : nat -> R) edges v b : In b edges -> write_edges OpsR muB edges v b = v.
  Proof.
    intros H. unfold write_edges. replace (existsb (Nat.eqb b) edges) with true; [reflexivity|].
    symmetry. apply existsb_exists. exists b. split; [exact H|apply Nat.eqb_refl].
  Qed.
  Lemma write_edges_notin (muB : nat -> R) edges v b : ~ In b edges -> write_edges OpsR muB edges v b = muB b.
  Proof.
    intros H. unfold write_edges. destruct (existsb (Nat.eqb b) edges) eqn:E; [|reflexivity].
    apply existsb_exists in E. destruct E as [x [Hx Ex]]. apply Nat.eqb_eq in Ex. subst. contradiction.
  Qed.

  Lemma update_terms_spec I : forall suf k cache (muB : nat -> T OpsR),
    length cache = length suf ->
    let r := update_terms OpsR comp k suf all I cache muB in
    length (fst r) = length suf /\
    (forall j, (j < length suf)%nat -> nth j (fst r) 0 = density OpsR comp all I (k + j)) /\
    (forall b, (forall j tm, nth_error suf j = Some tm -> ~ In b (t_edges _ tm)) -> snd r b = muB b) /\
    (forall j tm b, nth_error suf j = Some tm -> In b (t_edges _ tm) -> muB b = nth j cache 0 ->
       (forall j' tm', j' <> j -> nth_error suf j' = Some tm' -> ~ In b (t_edges _ tm')) ->
       snd r b = density OpsR comp all I (k + j)).
  Proof.
    induction suf as [|tm tl IH]; intros k cache muB HL r.
    - destruct cache; [|discriminate]. cbn in r. unfold r. cbn.
      split; [reflexivity|]. split; [intros j Hj; lia|]. split; [auto|]. intros j tm b H; destruct j; discriminate.
    - destruct cache as [|c cs]; [discriminate|]. injection HL as HL.
      unfold r. cbn [update_terms]. cbv zeta.
      set (d := density OpsR comp all I k).
      set (muB1 := if o_eqb OpsR d c then muB else write_edges OpsR muB (t_edges _ tm) d).
      destruct (update_terms OpsR comp (S k) tl all I cs muB1) as [cs' muB'] eqn:E.
      pose proof (IH (S k) cs muB1 HL) as H. rewrite E in H. cbn [fst snd] in H.
      destruct H as (H1 & H2 & H3 & H4).
      cbn [fst snd].
      split; [cbn [length]; rewrite H1; reflexivity|]. split; [|split].
      + intros j Hj. destruct j as [|j].
        * cbn [nth]. rewrite Nat.add_0_r. fold d. cbn [o_eqb OpsR]. destruct (Reqb d c) eqn:Eq; [|reflexivity].
          apply Reqb_true in Eq. symmetry; exact Eq.
        * cbn [nth]. rewrite H2 by (cbn in Hj; lia). f_equal. lia.
      + intros b Hb. rewrite H3.
        * unfold muB1. destruct (o_eqb OpsR d c); [reflexivity|].
          apply write_edges_notin. apply (Hb 0%nat tm). reflexivity.
        * intros j tm' Hn. apply (Hb (S j) tm'). exact Hn.
      + intros j tm0 b Hn Hin Hmu Hdisj. destruct j as [|j].
        * cbn in Hn. inversion Hn; subst tm0. rewrite Nat.add_0_r. fold d.
          rewrite H3.
          -- unfold muB1. cbn [o_eqb OpsR]. destruct (Reqb d c) eqn:Eq.
             ++ apply Reqb_true in Eq. cbn [nth] in Hmu. rewrite Hmu. symmetry; exact Eq.
             ++ apply write_edges_in. exact Hin.
          -- intros j' tm' Hn'. apply (Hdisj (S j') tm'); [discriminate|exact Hn'].
        * cbn in Hn. replace (k + S j)%nat with (S k + j)%nat by lia.
          apply (H4 j tm0 b Hn Hin).
          -- unfold muB1. cbn [nth] in Hmu. destruct (o_eqb OpsR d c); [exact Hmu|].
             rewrite write_edges_notin; [exact Hmu|]. apply (Hdisj 0%nat tm); [discriminate|reflexivity].
          -- intros j' tm' Hne Hn'. apply (Hdisj (S j') tm'); [lia|exact Hn'].
  Qed.

  (* terminals cover pairwise disjoint sets of boundary edges *)
  Definition disjoint_terminals : Prop :=
    forall j j' tm tm' b, j <> j' -> nth_error all j = Some tm -> nth_error all j' = Some tm' ->
      In b (t_edges _ tm) -> ~ In b (t_edges _ tm').

  (* the state invariant: the cache has one entry per terminal, every terminal edge carries its terminal's cached
     density, every other boundary edge carries 0 *)
  Definition coherent (st : list R * (nat -> R)) : Prop :=
    length (fst st) = length all /\
    (forall j tm b, nth_error all j = Some tm -> In b (t_edges _ tm) -> snd st b = nth j (fst st) 0) /\
    (forall b, (forall j tm, nth_error all j = Some tm -> ~ In b (t_edges _ tm)) -> snd st b = 0).

  Theorem update_mu_boundary_coherent I st :
    disjoint_terminals -> coherent st ->
    let st' := update_mu_boundary OpsR comp all I st in
    coherent st' /\
    (forall j tm b, nth_error all j = Some tm -> In b (t_edges _ tm) -> snd st' b = density OpsR comp all I j).
  Proof.
    intros Hd (C1 & C2 & C3) st'. unfold st', update_mu_boundary.
    pose proof (update_terms_spec I all 0 (fst st) (snd st) C1) as H. cbv zeta in H.
    destruct H as (H1 & H2 & H3 & H4).
    assert (K : forall j tm b, nth_error all j = Some tm -> In b (t_edges _ tm) ->
                snd (update_terms OpsR comp 0 all all I (fst st) (snd st)) b = density OpsR comp all I j).
    { intros j tm b Hn Hin. change j with (0 + j)%nat. apply (H4 j tm b Hn Hin).
      - apply (C2 j tm b Hn Hin).
      - intros j' tm' Hne Hn'. apply (Hd j j' tm tm' b); auto. }
    split; [|exact K].
    split; [exact H1|]. split.
    - intros j tm b Hn Hin. transitivity (density OpsR comp all I j); [apply (K j tm b Hn Hin)|].
      symmetry. apply (H2 j). apply nth_error_Some. rewrite Hn. discriminate.
    - intros b Hb. transitivity (snd st b); [apply H3; exact Hb|apply C3; exact Hb].
  Qed.

  (* any sequence of calls (any time-dependent currents, repeats, switching off and on again): the boundary
     vector equals the one computed from scratch for the LAST currents *)
  Theorem cache_coherent Is I_last :
    disjoint_terminals ->
    let st0 := (repeat 0 (length all), fun _ : nat => 0) in
    let st := fold_left (fun s I => update_mu_boundary OpsR comp all I s) (Is ++ [I_last]) st0 in
    (forall j tm b, nth_error all j = Some tm -> In b (t_edges _ tm) -> snd st b = density OpsR comp all I_last j) /\
    (forall b, (forall j tm, nth_error all j = Some tm -> ~ In b (t_edges _ tm)) -> snd st b = 0).
  Proof.
    intros Hd st0 st.
    assert (C0 : coherent st0).
    { unfold coherent, st0. cbn [fst snd]. split; [apply repeat_length|]. split; [|reflexivity].
      intros j tm b Hn _. symmetry. apply nth_repeat. }
    assert (G : forall l s, coherent s -> coherent (fold_left (fun s I => update_mu_boundary OpsR comp all I s) l s)).
    { induction l as [|I tl IHl]; intros s Hs; [exact Hs|]. cbn [fold_left]. apply IHl.
      apply (update_mu_boundary_coherent I s Hd Hs). }
    unfold st. rewrite fold_left_app. cbn [fold_left].
    destruct (update_mu_boundary_coherent I_last _ Hd (G Is st0 C0)) as [(_ & _ & Z) K].
    split; [exact K|exact Z].
  Qed.
End Cache.
