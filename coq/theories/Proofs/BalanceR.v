(* The balance test of validate_terminal_currents in the standard (1+delta) rounding model (no underflow):
   currents that are EXACTLY balanced in the user's units are accepted after the conversion to dimensionless units
   (one rounding per value) and a floating-point summation (accumulated relative error per term), for every number of
   terminals, as long as the accumulated error bounds stay below the 1e-9 the test allows. *)
From Coq Require Import Reals Lra List.
From PyTdgl Require Import Base.Sums.
Import ListNotations.
Open Scope R_scope.

Lemma Rsum_abs_le {A} (f : A -> R) l : Rabs (Rsum f l) <= Rsum (fun x => Rabs (f x)) l.
Proof.
  induction l as [|x tl IH]; cbn [Rsum].
  - rewrite Rabs_R0. lra.
  - eapply Rle_trans; [apply Rabs_triang|]. lra.
Qed.

Lemma Rsum_le {A} (f g : A -> R) l : (forall x, In x l -> f x <= g x) -> Rsum f l <= Rsum g l.
Proof.
  induction l as [|x tl IH]; intros H; cbn [Rsum]; [lra|].
  assert (f x <= g x) by (apply H; left; reflexivity).
  assert (Rsum f tl <= Rsum g tl) by (apply IH; intros y Hy; apply H; right; exact Hy).
  lra.
Qed.

(* one terminal: the user's current, the relative rounding error of its conversion, the relative error the floating-point
   summation accumulates on it *)
Record term := { tI : R; td : R; tth : R }.
Definition val (s : R) (t : term) : R := tI t * s * (1 + td t).

Section Balance.
  Variables (s u g g' : R) (l : list term).
  Hypothesis Hu : 0 <= u < 1.
  Hypothesis Hg : 0 <= g.
  Hypothesis Hg' : 0 <= g' < 1.
  Hypothesis Herr : forall t, In t l -> Rabs (td t) <= u /\ Rabs (tth t) <= g.
  Hypothesis Hbal : Rsum tI l = 0.
  Hypothesis Hroom : u / (1 - u) + g <= 1e-9 * (1 - g').

  Let S := Rsum (fun t => Rabs (val s t)) l.

  Lemma S_nonneg : 0 <= S.
  Proof. apply Rsum_nonneg. intros t _. apply Rabs_pos. Qed.

  Lemma raw_le_val t : In t l -> Rabs (tI t * s) * (1 - u) <= Rabs (val s t).
  Proof.
    intros Ht. destruct (Herr t Ht) as [Hd _]. unfold val.
    replace (Rabs (tI t * s * (1 + td t))) with (Rabs (tI t * s) * Rabs (1 + td t)) by (symmetry; apply Rabs_mult).
    apply Rmult_le_compat_l; [apply Rabs_pos|].
    unfold Rabs in *. destruct (Rcase_abs (1 + td t)); destruct (Rcase_abs (td t)); lra.
  Qed.

  Lemma exact_part : Rabs (Rsum (val s) l) <= u / (1 - u) * S.
  Proof.
    assert (E : Rsum (val s) l = Rsum (fun t => tI t * s * td t) l).
    { replace (Rsum (val s) l) with (Rsum (fun t => s * tI t + tI t * s * td t) l)
        by (apply Rsum_ext; intros t _; unfold val; ring).
      rewrite Rsum_plus, Rsum_scal, Hbal. ring. }
    rewrite E. eapply Rle_trans; [apply Rsum_abs_le|].
    replace (u / (1 - u) * S) with (Rsum (fun t => u / (1 - u) * Rabs (val s t)) l) by (unfold S; apply Rsum_scal).
    apply Rsum_le. intros t Ht. destruct (Herr t Ht) as [Hd _].
    pose proof (raw_le_val t Ht) as R1. pose proof (Rabs_pos (tI t * s)) as P.
    rewrite Rabs_mult.
    assert (Rabs (tI t * s) * Rabs (td t) <= Rabs (tI t * s) * u) by (apply Rmult_le_compat_l; assumption).
    assert (Rabs (tI t * s) <= Rabs (val s t) / (1 - u)).
    { apply Rmult_le_reg_r with (1 - u); [lra|]. unfold Rdiv. rewrite Rmult_assoc, Rinv_l by lra. lra. }
    assert (Rabs (tI t * s) * u <= Rabs (val s t) / (1 - u) * u) by (apply Rmult_le_compat_r; lra).
    unfold Rdiv in *. lra.
  Qed.

  Lemma summation_part : Rabs (Rsum (fun t => val s t * tth t) l) <= g * S.
  Proof.
    eapply Rle_trans; [apply Rsum_abs_le|].
    replace (g * S) with (Rsum (fun t => g * Rabs (val s t)) l) by (unfold S; apply Rsum_scal).
    apply Rsum_le. intros t Ht. destruct (Herr t Ht) as [_ Hth].
    rewrite Rabs_mult. pose proof (Rabs_pos (val s t)).
    assert (Rabs (val s t) * Rabs (tth t) <= Rabs (val s t) * g) by (apply Rmult_le_compat_l; assumption). lra.
  Qed.

  (* computed total <= computed allowance: the ValueError is not raised *)
  Theorem balanced_accepted_rounded eta : Rabs eta <= g' ->
    Rabs (Rsum (fun t => val s t * (1 + tth t)) l) <= 1e-9 * (S * (1 + eta)).
  Proof.
    intros He.
    replace (Rsum (fun t => val s t * (1 + tth t)) l) with (Rsum (val s) l + Rsum (fun t => val s t * tth t) l)
      by (rewrite <- Rsum_plus; apply Rsum_ext; intros t _; ring).
    eapply Rle_trans; [apply Rabs_triang|].
    pose proof exact_part. pose proof summation_part. pose proof S_nonneg.
    assert (1 - g' <= 1 + eta) by (unfold Rabs in He; destruct (Rcase_abs eta); lra).
    assert ((u / (1 - u) + g) * S <= 1e-9 * (1 - g') * S) by (apply Rmult_le_compat_r; assumption).
    assert (1e-9 * (1 - g') * S <= 1e-9 * (1 + eta) * S).
    { apply Rmult_le_compat_r; [assumption|]. lra. }
    lra.
  Qed.
End Balance.

(* binary64 numbers: u = 2^-53; a summation of n <= 1000 terms accumulates at most (n-1) u / (1 - (n-1) u) <= 1.2e-13 per
   term, the allowance 1e-9 * sum|v| is itself computed with a relative error below 1.2e-13: there is room *)
Example room_binary64 :
  let u := / 2 ^ 53 in let g := 12 / 10 ^ 14 in
  0 <= u < 1 /\ 0 <= g /\ 0 <= g < 1 /\ u / (1 - u) + g <= 1e-9 * (1 - g).
Proof.
  cbv zeta.
  assert (P : 0 < / 2 ^ 53 < / 10 ^ 15).
  { split; [apply Rinv_0_lt_compat; apply pow_lt; lra|].
    apply Rinv_lt_contravar; [apply Rmult_lt_0_compat; apply pow_lt; lra|].
    replace (2 ^ 53) with (9007199254740992) by (simpl; ring).
    replace (10 ^ 15) with (1000000000000000) by (simpl; ring). lra. }
  assert (Q : / 10 ^ 15 = 1e-15) by (simpl; lra).
  rewrite Q in P.
  assert (G : 12 / 10 ^ 14 = 1.2e-13) by (simpl; lra).
  rewrite G.
  assert (D : / 2 ^ 53 / (1 - / 2 ^ 53) <= 2e-15).
  { apply Rmult_le_reg_r with (1 - / 2 ^ 53); [lra|].
    unfold Rdiv. rewrite Rmult_assoc, Rinv_l by lra. lra. }
  repeat split; lra.
Qed.
