(* The quadratic form  psi' + z |psi'|^2 = w  (docs/background.rst eq. quad-1, with the documented z and w) is
   equivalent to the discretised TDGL equation itself (eq. tdgl-num), for every unimodular temporal link.
   U is the factor e^{-i mu dt} used by the code; tdgl-num is written with e^{+i mu dt} = conj U. *)
From Coq Require Import Reals Lra ZArith List.
From PyTdgl Require Import Base.Ops Base.Cplx Model.Euler Proofs.EulerR.
Open Scope R_scope.

Local Notation RC := (C OpsR).

(* left- and right-hand side of eq. tdgl-num at one site; x stands for |psi'|^2 *)
Definition tdgl_num_lhs (U psi p : RC) (x abs2 gamma u dt : R) : RC :=
  cscale OpsR (u / (dt * sqrt (1 + gamma * gamma * abs2)))
    (cadd OpsR (csub OpsR (cmul OpsR p (cconj OpsR U)) psi)
               (cscale OpsR ((gamma * gamma) / 2 * (x - abs2)) psi)).
Definition tdgl_num_rhs (psi lap : RC) (abs2 eps : R) : RC :=
  cadd OpsR (cscale OpsR (eps - abs2) psi) lap.

Lemma unimodular_move (a b qr qi vr vi : R) :
  a * a + b * b = 1 ->
  (qr = a * vr - b * vi /\ qi = a * vi + b * vr) <->
  (qr * a + qi * b = vr /\ qi * a - qr * b = vi).
Proof.
  intros H. split; intros [E1 E2].
  - subst qr qi. split.
    + replace ((a * vr - b * vi) * a + (a * vi + b * vr) * b) with ((a * a + b * b) * vr) by ring.
      rewrite H. ring.
    + replace ((a * vi + b * vr) * a - (a * vr - b * vi) * b) with ((a * a + b * b) * vi) by ring.
      rewrite H. ring.
  - subst vr vi. split.
    + replace (a * (qr * a + qi * b) - b * (qi * a - qr * b)) with ((a * a + b * b) * qr) by ring.
      rewrite H. ring.
    + replace (a * (qi * a - qr * b) + b * (qr * a + qi * b)) with ((a * a + b * b) * qi) by ring.
      rewrite H. ring.
Qed.

Theorem update_tdgl_num (U psi lap p : RC) (x abs2 eps gamma u dt : R) :
  cabs2 OpsR U = 1 -> 0 <= abs2 -> 0 < u -> 0 < dt ->
  (cadd OpsR p (cscale OpsR x (z_doc OpsR U psi gamma)) = w_doc OpsR U psi abs2 eps gamma u dt lap
   <-> tdgl_num_lhs U psi p x abs2 gamma u dt = tdgl_num_rhs psi lap abs2 eps).
Proof.
  intros HU Habs Hu Hdt.
  unfold tdgl_num_lhs, tdgl_num_rhs, w_doc, z_doc.
  assert (Hk : 0 < sqrt (1 + gamma * gamma * abs2)).
  { apply sqrt_lt_R0. assert (0 <= gamma * gamma) by apply Rle_0_sqr. 
    assert (0 <= gamma * gamma * abs2) by (apply Rmult_le_pos; assumption). lra. }
  change (o_sqrt OpsR (o_add OpsR (o_of_Z OpsR 1) (o_mul OpsR (o_mul OpsR gamma gamma) abs2)))
    with (sqrt (1 + gamma * gamma * abs2)).
  set (k := sqrt (1 + gamma * gamma * abs2)) in *. clearbody k.
  destruct U as [a b], psi as [pr pi_], lap as [lr li], p as [qr qi].
  unfold cabs2 in HU. cbn in HU.
  (* v = psi + (dt k / u) R + (gamma^2/2)(abs2 - x) psi *)
  set (Rr := (eps - abs2) * pr + lr). set (Ri := (eps - abs2) * pi_ + li).
  set (vr := pr + dt / u * k * Rr + gamma * gamma / 2 * (abs2 - x) * pr).
  set (vi := pi_ + dt / u * k * Ri + gamma * gamma / 2 * (abs2 - x) * pi_).
  pose proof (unimodular_move a b qr qi vr vi HU) as M.
  unfold cadd, csub, cmul, cscale, cconj, re, im. cbn.
  split.
  - intros E. assert (E1 := f_equal fst E). assert (E2 := f_equal snd E). cbn in E1, E2. clear E.
    assert (Q : qr = a * vr - b * vi /\ qi = a * vi + b * vr).
    { split; unfold vr, vi, Rr, Ri.
      + apply Rplus_eq_reg_r with (x * (gamma * gamma / 2 * (a * pr - b * pi_))). rewrite E1. field. lra.
      + apply Rplus_eq_reg_r with (x * (gamma * gamma / 2 * (a * pi_ + b * pr))). rewrite E2. field. lra. }
    apply M in Q. destruct Q as [Q1 Q2].
    f_equal.
    + replace (qr * a - qi * - b) with (qr * a + qi * b) by ring. rewrite Q1. unfold vr, Rr. field. lra.
    + replace (qr * - b + qi * a) with (qi * a - qr * b) by ring. rewrite Q2. unfold vi, Ri. field. lra.
  - intros E. assert (E1 := f_equal fst E). assert (E2 := f_equal snd E). cbn in E1, E2. clear E.
    assert (Q : qr * a + qi * b = vr /\ qi * a - qr * b = vi).
    { split; unfold vr, vi, Rr, Ri.
      + rewrite <- E1. field. lra.
      + rewrite <- E2. field. lra. }
    apply M in Q. destruct Q as [Q1 Q2]. rewrite Q1, Q2. unfold vr, vi, Rr, Ri.
    f_equal; field; lra.
Qed.

(* what the code answers solves the discretised TDGL equation itself *)
Theorem answered_solves_tdgl_num (U psi lap p : RC) (x abs2 eps gamma u dt : R) :
  cabs2 OpsR U = 1 -> 0 <= abs2 -> 0 < u -> 0 < dt ->
  site_update OpsR U psi abs2 eps gamma u dt lap = Some (x, p) ->
  tdgl_num_lhs U psi p (cabs2 OpsR p) abs2 gamma u dt = tdgl_num_rhs psi lap abs2 eps.
Proof.
  intros HU Habs Hu Hdt H.
  destruct (root_sound U psi lap abs2 eps gamma u dt x p H) as [E [Ex _]].
  destruct (zw_as_documented U psi lap abs2 eps gamma u dt) as [Ez Ew].
  unfold cx_add, cx_scale, cx_abs2 in *. rewrite Ez, Ew in E.
  apply (update_tdgl_num U psi lap p (cabs2 OpsR p) abs2 eps gamma u dt HU Habs Hu Hdt).
  rewrite Ex. exact E.
Qed.
