(* C20: fields and potentials computed from currents are linear and correct (over R). *)
From Coq Require Import Reals Lra List Arith Lia Bool.
From PyTdgl Require Import Base.Ops Base.Sums Model.Kernels.
Import ListNotations.
Open Scope R_scope.

Notation cellR := (cell OpsR).
Notation curR := (cur OpsR).
Ltac opsk := cbn [o_add o_sub o_mul o_div o_opp o_of_Z o_sqrt OpsR T] in *.

Section K.
  Variable c0 : R.
  Variables ex ey ez : R.
  Notation P g := (pref OpsR c0 g ex ey ez).

  (* the fold is the direct sum over source cells *)
  Lemma bs_fold_sum (srcs : list (cellR * curR)) : forall a0 : acc4 OpsR,
    fold_left (fun (a : acc4 OpsR) (s : cellR * curR) =>
                 let g := fst s in let j := snd s in let p := P g in
                 Build_acc4 OpsR (a_xdy _ a + p * fst j * (ey - c_y _ g)) (a_ydx _ a + p * snd j * (ex - c_x _ g))
                                 (a_xdz _ a + p * fst j * (ez - c_z _ g)) (a_ydz _ a + p * snd j * (ez - c_z _ g)))
              srcs a0
    = Build_acc4 OpsR
        (a_xdy _ a0 + Rsum (fun s : cellR * curR => P (fst s) * fst (snd s) * (ey - c_y _ (fst s))) srcs)
        (a_ydx _ a0 + Rsum (fun s : cellR * curR => P (fst s) * snd (snd s) * (ex - c_x _ (fst s))) srcs)
        (a_xdz _ a0 + Rsum (fun s : cellR * curR => P (fst s) * fst (snd s) * (ez - c_z _ (fst s))) srcs)
        (a_ydz _ a0 + Rsum (fun s : cellR * curR => P (fst s) * snd (snd s) * (ez - c_z _ (fst s))) srcs).
  Proof.
    induction srcs as [|s tl IH]; intros [a b c d]; cbn [fold_left Rsum a_xdy a_ydx a_xdz a_ydz].
    - f_equal; lra.
    - rewrite IH. cbn [a_xdy a_ydx a_xdz a_ydz]. f_equal; lra.
  Qed.

  (* C20: the kernel in SI form: B = mu0/4pi sum_k a_k (K_k x r) / |r|^3, K_k = (Jx, Jy, 0) *)
  Theorem bs_vector_si_form (srcs : list (cellR * curR)) :
    bs_vector OpsR c0 srcs ex ey ez =
    (Rsum (fun s : cellR * curR => P (fst s) * snd (snd s) * (ez - c_z _ (fst s))) srcs,
     - Rsum (fun s : cellR * curR => P (fst s) * fst (snd s) * (ez - c_z _ (fst s))) srcs,
     Rsum (fun s : cellR * curR => P (fst s) * fst (snd s) * (ey - c_y _ (fst s))) srcs
     - Rsum (fun s : cellR * curR => P (fst s) * snd (snd s) * (ex - c_x _ (fst s))) srcs).
  Proof.
    unfold bs_vector, bs_fold. opsk. rewrite bs_fold_sum. cbn [a_xdy a_ydx a_xdz a_ydz].
    rewrite !Rplus_0_l. reflexivity.
  Qed.

  (* C20: scalar mode is the z component of vector mode *)
  Theorem scalar_is_z_of_vector (srcs : list (cellR * curR)) :
    bs_z OpsR c0 srcs ex ey ez = snd (bs_vector OpsR c0 srcs ex ey ez).
  Proof. reflexivity. Qed.

  (* currents on the same cells *)
  Fixpoint with_currents (gs : list cellR) (js : list curR) : list (cellR * curR) :=
    match gs, js with g :: tg, j :: tj => (g, j) :: with_currents tg tj | _, _ => [] end.
  Fixpoint lincomb (a b : R) (j1 j2 : list curR) : list curR :=
    match j1, j2 with
    | p :: t1, q :: t2 => (a * fst p + b * fst q, a * snd p + b * snd q) :: lincomb a b t1 t2
    | _, _ => []
    end.

  Lemma rsum_lincomb (w : cellR -> R) (sel : curR -> R) (a b : R) :
    (forall p q, sel (a * fst p + b * fst q, a * snd p + b * snd q) = a * sel p + b * sel q) ->
    forall gs j1 j2, length j1 = length gs -> length j2 = length gs ->
    Rsum (fun s : cellR * curR => w (fst s) * sel (snd s)) (with_currents gs (lincomb a b j1 j2))
    = a * Rsum (fun s : cellR * curR => w (fst s) * sel (snd s)) (with_currents gs j1)
      + b * Rsum (fun s : cellR * curR => w (fst s) * sel (snd s)) (with_currents gs j2).
  Proof.
    intros Hsel. induction gs as [|g tg IH]; intros [|p t1] [|q t2] H1 H2; try discriminate; cbn [with_currents lincomb Rsum].
    - lra.
    - cbn [fst snd]. rewrite IH by (cbn in *; lia). rewrite Hsel. ring.
  Qed.

  (* C20: the magnetic field is linear in the sheet currents (superposition), all three components *)
  Theorem bs_vector_linear (gs : list cellR) (a b : R) (j1 j2 : list curR) :
    length j1 = length gs -> length j2 = length gs ->
    let B := fun js => bs_vector OpsR c0 (with_currents gs js) ex ey ez in
    fst (fst (B (lincomb a b j1 j2))) = a * fst (fst (B j1)) + b * fst (fst (B j2)) /\
    snd (fst (B (lincomb a b j1 j2))) = a * snd (fst (B j1)) + b * snd (fst (B j2)) /\
    snd (B (lincomb a b j1 j2)) = a * snd (B j1) + b * snd (B j2).
  Proof.
    intros H1 H2 B. unfold B. rewrite !bs_vector_si_form. cbn [fst snd].
    pose proof (rsum_lincomb (fun g => P g * (ez - c_z _ g)) snd a b ltac:(intros; cbn; ring) gs j1 j2 H1 H2) as Lyz.
    pose proof (rsum_lincomb (fun g => P g * (ez - c_z _ g)) fst a b ltac:(intros; cbn; ring) gs j1 j2 H1 H2) as Lxz.
    pose proof (rsum_lincomb (fun g => P g * (ey - c_y _ g)) fst a b ltac:(intros; cbn; ring) gs j1 j2 H1 H2) as Lxy.
    pose proof (rsum_lincomb (fun g => P g * (ex - c_x _ g)) snd a b ltac:(intros; cbn; ring) gs j1 j2 H1 H2) as Lyx.
    assert (R1 : forall (w : cellR -> R) (sel : curR -> R) l,
               Rsum (fun s : cellR * curR => P (fst s) * sel (snd s) * w (fst s)) l
               = Rsum (fun s : cellR * curR => (P (fst s) * w (fst s)) * sel (snd s)) l)
      by (intros; apply Rsum_ext; intros; ring).
    rewrite !(R1 (fun g => ez - c_z _ g) snd), !(R1 (fun g => ez - c_z _ g) fst),
            !(R1 (fun g => ey - c_y _ g) fst), !(R1 (fun g => ex - c_x _ g) snd).
    rewrite Lyz, Lxz, Lxy, Lyx. repeat split; change (@eq (T OpsR)) with (@eq R); ring.
  Qed.
End K.

(* C20: the total field is the sum of the supercurrent and normal-current parts (a = b = 1) *)
Corollary total_is_sum_of_parts c0 ex ey ez (gs : list cellR) (js jn : list curR) :
  length js = length gs -> length jn = length gs ->
  snd (bs_vector OpsR c0 (with_currents gs (lincomb 1 1 js jn)) ex ey ez)
  = snd (bs_vector OpsR c0 (with_currents gs js) ex ey ez) + snd (bs_vector OpsR c0 (with_currents gs jn) ex ey ez).
Proof.
  intros H1 H2. destruct (bs_vector_linear c0 ex ey ez gs 1 1 js jn H1 H2) as (_ & _ & H). cbv zeta in H. rewrite H. change (@eq (T OpsR)) with (@eq R). ring.
Qed.

(* C20: field-unit conversions between H and B round-trip *)
Theorem convert_roundtrip mu0 x : mu0 <> 0 ->
  B_to_H OpsR mu0 (H_to_B OpsR mu0 x) = x /\ H_to_B OpsR mu0 (B_to_H OpsR mu0 x) = x.
Proof. intros H. unfold B_to_H, H_to_B. opsk. split; field; exact H. Qed.

(* distance kernels are what their names say *)
Theorem distance_kernels_spec (a b : R * R) :
  sqdist2 OpsR a b = (fst a - fst b) * (fst a - fst b) + (snd a - snd b) * (snd a - snd b) /\
  dist2 OpsR a b = sqrt (sqdist2 OpsR a b) /\ dist2 OpsR a b * dist2 OpsR a b = sqdist2 OpsR a b /\
  dist2 OpsR a b = dist2 OpsR b a.
Proof.
  unfold dist2, sqdist2. opsk. split; [reflexivity|]. split; [reflexivity|]. split.
  - apply sqrt_sqrt. pose proof (Rle_0_sqr (fst a - fst b)). pose proof (Rle_0_sqr (snd a - snd b)). unfold Rsqr in *. lra.
  - f_equal. ring.
Qed.
