(* pause_on_interrupt = True, answer "y" (resume): the repaired loop with any pattern of pauses ends exactly like the loop
   without pauses - same end, same state, same frames and buffers.  (Fix 3cd4ac2; as found, refuted below.) *)
From Coq Require Import List Arith Bool Lia ZArith.
From PyTdgl Require Import Model.Runner.
Import ListNotations.

Section Pause.
  Variable Tm : Type.
  Variable tadd : Tm -> Tm -> Tm.
  Variable tleb : Tm -> Tm -> bool.
  Variable St Rec : Type.
  Variable upd : nat -> Tm -> Tm -> St -> outcome Tm St Rec.
  Variable k : nat.
  Variable stop_first : bool.
  Variable paused : nat -> nat -> bool.

  Notation stageN := (stage Tm tadd tleb St Rec upd k stop_first).
  Notation stageP := (stage_p Tm tadd tleb St Rec upd k stop_first paused true).

  (* the state after the "save and clear" part of iteration i *)
  Definition norm (save : bool) (i : nat) (s : rstate Tm St Rec) : rstate Tm St Rec :=
    if Nat.eqb (i mod k) 0
    then mkR Tm St Rec (r_time _ _ _ s) (r_dt _ _ _ s) (r_vals _ _ _ s) []
             (save_frame Tm St Rec save i s (r_buf _ _ _ s) (r_vals _ _ _ s))
    else s.

  (* what the paused loop holds at (i, saved) compared with the state s0 the plain loop holds at i *)
  Definition inv (save : bool) (i : nat) (saved : bool) (s s0 : rstate Tm St Rec) : Prop :=
    (saved = false /\ s = s0) \/ (saved = true /\ Nat.eqb (i mod k) 0 = true /\ s = norm save i s0).

  Lemma s1_same save i saved s s0 : inv save i saved s s0 ->
    (if Nat.eqb (i mod k) 0
     then mkR Tm St Rec (r_time _ _ _ s) (r_dt _ _ _ s) (r_vals _ _ _ s) []
              (if saved then r_frames _ _ _ s else save_frame Tm St Rec save i s (r_buf _ _ _ s) (r_vals _ _ _ s))
     else s) = norm save i s0.
  Proof.
    intros [[-> ->]|[-> [E ->]]]; unfold norm.
    - reflexivity.
    - rewrite E. cbn. reflexivity.
  Qed.

  Lemma stage_unfold fuel save e i s0 :
    stageN (S fuel) save e i s0 =
    let s1 := norm save i s0 in
    if (stop_first && tleb e (r_time _ _ _ s1))%bool then (Finished, final_save Tm St Rec k save i s1)
    else match upd i (r_time _ _ _ s1) (r_dt _ _ _ s1) (r_vals _ _ _ s1) with
         | Err _ _ _ => (Raised, s1)
         | Kbd _ _ _ => (Cancelled, final_save Tm St Rec k save i s1)
         | Ok _ _ _ ndt v rc =>
             let s2 := mkR Tm St Rec (r_time _ _ _ s1) (r_dt _ _ _ s1) v (r_buf _ _ _ s1 ++ [rc]) (r_frames _ _ _ s1) in
             if (negb stop_first && tleb e (r_time _ _ _ s1))%bool then (Finished, final_save Tm St Rec k save i s2)
             else stageN fuel save e (S i)
                    (mkR Tm St Rec (tadd (r_time _ _ _ s1) ndt) ndt v (r_buf _ _ _ s1 ++ [rc]) (r_frames _ _ _ s1))
         end.
  Proof. unfold norm. cbn [stage]. destruct (Nat.eqb (i mod k) 0); reflexivity. Qed.

  Theorem pause_resume_transparent save e : forall fuel i att saved s s0 r s',
    inv save i saved s s0 ->
    stageP fuel save e i att saved s = (r, s') -> r <> OutOfFuel ->
    exists fuel', stageN fuel' save e i s0 = (r, s').
  Proof.
    induction fuel as [|fuel IH]; intros i att saved s s0 r s' Hinv H Hr.
    - cbn in H. inversion H; subst. contradiction.
    - cbn [stage_p] in H. rewrite (s1_same save i saved s s0 Hinv) in H.
      set (s1 := norm save i s0) in *.
      destruct (stop_first && tleb e (r_time _ _ _ s1))%bool eqn:Estop.
      + exists 1. rewrite stage_unfold. cbv zeta. fold s1. rewrite Estop. exact H.
      + destruct (paused i att) eqn:Ep.
        * (* paused and resumed: same index again *)
          apply (IH i (S att) (saved || Nat.eqb (i mod k) 0)%bool s1 s0 r s'); [|exact H|exact Hr].
          unfold inv. destruct (Nat.eqb (i mod k) 0) eqn:Ek.
          -- right. rewrite orb_true_r. repeat split. 
          -- rewrite orb_false_r. destruct Hinv as [[-> ->]|[-> [E _]]].
             ++ left. split; [reflexivity|]. unfold s1, norm. rewrite Ek. reflexivity.
             ++ rewrite Ek in E. discriminate.
        * destruct (upd i (r_time _ _ _ s1) (r_dt _ _ _ s1) (r_vals _ _ _ s1)) as [ndt v rc| |] eqn:Eu.
          -- destruct (negb stop_first && tleb e (r_time _ _ _ s1))%bool eqn:E2.
             ++ exists 1. rewrite stage_unfold. cbv zeta. fold s1. rewrite Estop, Eu, E2. exact H.
             ++ destruct (IH (S i) 0 false _ _ r s' (or_introl (conj eq_refl eq_refl)) H Hr) as [f' Hf'].
                exists (S f'). rewrite stage_unfold. cbv zeta. fold s1. rewrite Estop, Eu, E2. exact Hf'.
          -- exists 1. rewrite stage_unfold. cbv zeta. fold s1. rewrite Estop, Eu. exact H.
          -- exists 1. rewrite stage_unfold. cbv zeta. fold s1. rewrite Estop, Eu. exact H.
  Qed.

  (* from the very start of a stage *)
  Corollary pause_resume_run save e fuel s0 r s' :
    stageP fuel save e 0 0 false s0 = (r, s') -> r <> OutOfFuel -> exists fuel', stageN fuel' save e 0 s0 = (r, s').
  Proof. apply pause_resume_transparent. left. split; reflexivity. Qed.
End Pause.

(* as found (the loop went on to the next index after a resume): one pause at step 1 shifts every later label -
   the frame labelled 2 then holds the value after ONE update (counting updates: value = number of updates so far) *)
Definition cnt_ok : nat -> Z -> Z -> nat -> outcome Z nat Z := fun i t d v => Ok Z nat Z 1%Z (S v) 1%Z.
Definition pause_at_1 : nat -> nat -> bool := fun i a => (Nat.eqb i 1 && Nat.eqb a 0)%bool.
Definition labels_vals (r : stage_end * rstate Z nat Z) : list (nat * nat) :=
  map (fun f => (f_step _ _ _ f, f_vals _ _ _ f)) (r_frames _ _ _ (snd r)).

Example pause_as_found_refuted :
  labels_vals (stage_p Z Z.add Z.leb nat Z cnt_ok 2 true pause_at_1 false 20 true 4%Z 0 0 false (mkR Z nat Z 0%Z 1%Z 0 [] []))
  <> labels_vals (stage Z Z.add Z.leb nat Z cnt_ok 2 true 20 true 4%Z 0 (mkR Z nat Z 0%Z 1%Z 0 [] [])).
Proof. vm_compute. discriminate. Qed.

Example pause_repaired_example :
  labels_vals (stage_p Z Z.add Z.leb nat Z cnt_ok 2 true pause_at_1 true 20 true 4%Z 0 0 false (mkR Z nat Z 0%Z 1%Z 0 [] []))
  = [(0, 0); (2, 2); (4, 4)].
Proof. vm_compute. reflexivity. Qed.
