(* C07: the geometry the dual (Voronoi) construction rests on (over R). *)
From Coq Require Import Reals Lra.
From PyTdgl Require Import Base.Ops Model.MeshGeom.
Open Scope R_scope.

Notation ptM := (MeshGeom.pt OpsR).
Ltac opsm := cbn [o_add o_sub o_mul o_div o_opp o_of_Z o_sqrt OpsR T] in *.

Definition nondegenerate (A B C : ptM) : Prop :=
  2 * (fst B - fst A) * (snd C - snd A) - 2 * (snd B - snd A) * (fst C - fst A) <> 0.

(* the point computed by generate_voronoi_vertices is equidistant from the three vertices *)
Theorem circumcentre_equidistant (A B C : ptM) :
  nondegenerate A B C ->
  let U := circumcentre OpsR A B C in
  sqdist OpsR U A = sqdist OpsR U B /\ sqdist OpsR U A = sqdist OpsR U C.
Proof.
  intros H U. unfold U, circumcentre, sqdist, nondegenerate in *. destruct A as [ax ay], B as [bx by_], C as [cx cy].
  opsm. cbn [fst snd] in *. split; field; exact H.
Qed.

(* hence it lies on the perpendicular bisector of every side: the segment joining the circumcentres of the two
   triangles adjacent to an edge (or a circumcentre and the edge midpoint) is a piece of the Voronoi face *)
Theorem dual_edge_on_bisector (A B C : ptM) :
  nondegenerate A B C ->
  let U := circumcentre OpsR A B C in
  (fst U - fst (mid OpsR A B)) * (fst B - fst A) + (snd U - snd (mid OpsR A B)) * (snd B - snd A) = 0 /\
  (fst U - fst (mid OpsR B C)) * (fst C - fst B) + (snd U - snd (mid OpsR B C)) * (snd C - snd B) = 0 /\
  (fst U - fst (mid OpsR C A)) * (fst A - fst C) + (snd U - snd (mid OpsR C A)) * (snd A - snd C) = 0.
Proof.
  intros H U. unfold U, circumcentre, mid, nondegenerate in *. destruct A as [ax ay], B as [bx by_], C as [cx cy].
  opsm. cbn [fst snd] in *. repeat split; field; exact H.
Qed.

(* the three kites around ANY point U tile the triangle (signed areas): no acuteness assumption *)
Theorem kites_partition_triangle (A B C U : ptM) :
  kite2 OpsR A B C U + kite2 OpsR B C A U + kite2 OpsR C A B U = tri2 OpsR A B C.
Proof.
  unfold kite2, quad2, tri2, cross, mid. destruct A as [ax ay], B as [bx by_], C as [cx cy], U as [ux uy].
  opsm. cbn [fst snd]. field.
Qed.

(* edge vectors, lengths and centres are those of the site pairs *)
Theorem edge_geometry (P Q : ptM) :
  edge_dir OpsR P Q = (fst Q - fst P, snd Q - snd P) /\
  edge_len OpsR P Q * edge_len OpsR P Q = sqdist OpsR P Q /\
  mid OpsR P Q = ((fst P + fst Q) / 2, (snd P + snd Q) / 2).
Proof.
  unfold edge_dir, edge_len, mid, sqdist. opsm. split; [reflexivity|]. split; [|reflexivity].
  apply sqrt_sqrt. apply Rplus_le_le_0_compat; [exact (Rle_0_sqr (fst P - fst Q))|exact (Rle_0_sqr (snd P - snd Q))].
Qed.

(* orientation: swapping two vertices flips the sign of the area *)
Theorem tri_orientation (A B C : ptM) : tri2 OpsR A C B = - tri2 OpsR A B C.
Proof. unfold tri2, cross. destruct A, B, C. opsm. cbn [fst snd]. ring. Qed.
