From Coq Require Import List QArith Qabs Bool Lia Lqa.
From PyTdgl Require Import Model.Validate.
Import ListNotations.

Lemma Qltb_true a b : Qltb a b = true <-> a < b.
Proof.
  unfold Qltb. rewrite negb_true_iff. split.
  - intros H. destruct (Qlt_le_dec a b) as [L|L]; [exact L|]. apply Qle_bool_iff in L. congruence.
  - intros H. destruct (Qle_bool b a) eqn:E; [|reflexivity]. apply Qle_bool_iff in E. exfalso. apply (Qlt_not_le _ _ H E).
Qed.

Lemma Qle_bool_false a b : b < a -> Qle_bool a b = false.
Proof.
  intros H. destruct (Qle_bool a b) eqn:E; [|reflexivity]. apply Qle_bool_iff in E. exfalso. apply (Qlt_not_le _ _ H E).
Qed.
Lemma Qltb_false a b : b <= a -> Qltb a b = false.
Proof. intros H. unfold Qltb. apply Qle_bool_iff in H. rewrite H. reflexivity. Qed.

Ltac kill := repeat rewrite ?andb_false_r, ?andb_false_l; reflexivity.

(* a consistent option set is accepted *)
Theorem validate_accepts o :
  0 < v_dt_init o -> 1 <= v_save_every o ->
  v_dt_init o <= v_dt_max o ->
  (forall p, v_terminal_psi o = Some p -> Qabs p <= 1) ->
  0 < v_mult o -> v_mult o < 1 -> 0 < v_drag o -> v_drag o <= 1 -> 0 < v_size o -> 0 < v_tol o ->
  validate_ok o = true.
Proof.
  intros P0 S1 A B C1 C2 D1 D2 E F. unfold validate_ok.
  apply Qle_bool_iff in A. apply Qltb_true in P0, C1, C2, D1, E, F. apply Qle_bool_iff in D2, S1.
  rewrite P0, S1, A, C1, C2, D1, D2, E, F.
  destruct (v_terminal_psi o) as [p|]; [|reflexivity].
  specialize (B p eq_refl). apply Qle_bool_iff in B. rewrite B.
  pose proof (Qabs_nonneg p) as N. apply Qle_bool_iff in N. rewrite N. reflexivity.
Qed.

(* each class of inconsistent option is rejected *)
Theorem reject_dt_nonpositive o : v_dt_init o <= 0 -> validate_ok o = false.
Proof. intros H. unfold validate_ok. rewrite (Qltb_false _ _ H). kill. Qed.
Theorem reject_save_every o : v_save_every o < 1 -> validate_ok o = false.
Proof. intros H. unfold validate_ok. rewrite (Qle_bool_false _ _ H). kill. Qed.
Theorem reject_dt o : v_dt_max o < v_dt_init o -> validate_ok o = false.
Proof. intros H. unfold validate_ok. rewrite (Qle_bool_false _ _ H). kill. Qed.
Theorem reject_terminal_psi o p : v_terminal_psi o = Some p -> 1 < Qabs p -> validate_ok o = false.
Proof. intros Hp H. unfold validate_ok. rewrite Hp, (Qle_bool_false _ _ H). kill. Qed.
Theorem reject_mult o : (v_mult o <= 0 \/ 1 <= v_mult o) -> validate_ok o = false.
Proof. intros [H|H]; unfold validate_ok; rewrite (Qltb_false _ _ H); kill. Qed.
Theorem reject_drag o : (v_drag o <= 0 \/ 1 < v_drag o) -> validate_ok o = false.
Proof.
  intros [H|H]; unfold validate_ok; [rewrite (Qltb_false _ _ H)|rewrite (Qle_bool_false _ _ H)]; kill.
Qed.
Theorem reject_size o : v_size o <= 0 -> validate_ok o = false.
Proof. intros H. unfold validate_ok. rewrite (Qltb_false _ _ H). kill. Qed.
Theorem reject_tol o : v_tol o <= 0 -> validate_ok o = false.
Proof. intros H. unfold validate_ok. rewrite (Qltb_false _ _ H). kill. Qed.

(* currents *)
Lemma qabssum_nonneg_acc l : forall a, 0 <= a -> 0 <= fold_left (fun a x => a + Qabs x) l a.
Proof.
  induction l as [|x tl IH]; intros a Ha; [exact Ha|]. cbn. apply IH.
  pose proof (Qabs_nonneg x). lra.
Qed.
Lemma qabssum_nonneg l : 0 <= qabssum l.
Proof. apply qabssum_nonneg_acc. lra. Qed.

(* every balanced assignment is accepted *)
Theorem balanced_accepted I : qsum I == 0 -> accepts_currents I = true.
Proof.
  intros H. unfold accepts_currents. apply Qle_bool_iff. rewrite H. cbn [Qabs].
  change (Z.abs 0 # 1) with 0. pose proof (qabssum_nonneg I). lra.
Qed.

(* a relative imbalance of one part in 1e6 (or more) is rejected *)
Theorem unbalanced_rejected I :
  0 < qabssum I -> (1 # 1000000) * qabssum I <= Qabs (qsum I) -> accepts_currents I = false.
Proof.
  intros Hp H. unfold accepts_currents. destruct (Qle_bool _ _) eqn:E; [|reflexivity].
  apply Qle_bool_iff in E. exfalso.
  assert ((1 # 1000000) * qabssum I <= (1 # 1000000000) * qabssum I) by (eapply Qle_trans; eassumption).
  lra.
Qed.

(* time-dependent currents that are unbalanced at ALL times are rejected whatever the (non-empty) sample *)
Theorem td_unbalanced_always_rejected f samples :
  samples <> [] -> (forall t, accepts_currents (f t) = false) -> accepts_td f samples = false.
Proof.
  intros Hne H. destruct samples as [|t tl]; [contradiction|]. cbn. rewrite H. reflexivity.
Qed.

(* ... but a defect confined to times that are not sampled is accepted (sampling cannot see it) *)
Theorem td_unbalanced_window_refuted :
  exists f samples bad, accepts_currents (f bad) = false /\ samples <> [] /\ accepts_td f samples = true.
Proof.
  exists (fun t => if Qeq_bool t (1#2) then [1; 1] else [1; -1]), [0; 1#4; 3#4; 1], (1#2).
  repeat split; try reflexivity. discriminate.
Qed.

(* the sampled range is exactly the range of times at which the run uses the currents *)
Lemma qmax_spec a b : a <= qmax a b /\ b <= qmax a b /\ (qmax a b == a \/ qmax a b == b).
Proof.
  unfold qmax. destruct (Qle_bool a b) eqn:E.
  - apply Qle_bool_iff in E. repeat split; [exact E|apply Qle_refl|right; reflexivity].
  - assert (b < a) by (apply Qnot_le_lt; intros C; apply Qle_bool_iff in C; congruence).
    repeat split; [apply Qle_refl|apply Qlt_le_weak; assumption|left; reflexivity].
Qed.

Theorem used_times_in_sampled_range solve skip t :
  used_time solve skip t -> 0 <= t /\ t <= sample_tmax true solve skip.
Proof.
  intros [H0 H]. split; [exact H0|]. cbn [sample_tmax].
  destruct (qmax_spec solve skip) as (A & B & _). destruct H as [H|H]; eapply Qle_trans; eassumption.
Qed.

Theorem sampled_times_are_used solve skip u :
  0 <= u -> u <= 1 -> 0 <= solve -> 0 <= skip -> used_time solve skip (u * sample_tmax true solve skip).
Proof.
  intros Hu0 Hu1 Hs Hk. cbn [sample_tmax].
  destruct (qmax_spec solve skip) as (A & B & C).
  assert (M0 : 0 <= qmax solve skip) by (eapply Qle_trans; eassumption).
  split; [apply Qmult_le_0_compat; assumption|].
  assert (L : u * qmax solve skip <= qmax solve skip).
  { setoid_replace (qmax solve skip) with (1 * qmax solve skip) at 2 by ring. apply Qmult_le_compat_r; assumption. }
  destruct C as [C|C]; [right|left]; (eapply Qle_trans; [exact L|]); apply Qle_lteq; right; exact C.
Qed.

(* an imbalance that some sample time hits is rejected *)
Theorem td_sampled_imbalance_rejected repaired f solve skip us u :
  In u us -> accepts_currents (f (u * sample_tmax repaired solve skip)) = false ->
  accepts_td f (sample_times repaired solve skip us) = false.
Proof.
  intros Hin Hbad. unfold accepts_td, sample_times.
  destruct (forallb _ _) eqn:E; [|reflexivity].
  rewrite forallb_forall in E. specialize (E (u * sample_tmax repaired solve skip)).
  rewrite Hbad in E. symmetry. apply E. apply in_or_app. right. apply in_map_iff. exists u. split; [reflexivity|exact Hin].
Qed.

(* an imbalance at the start of a stage (t = 0, always evaluated by the solver) or at the end of the range is rejected *)
Theorem td_start_imbalance_rejected f solve skip us :
  accepts_currents (f 0) = false -> accepts_td f (sample_times true solve skip us) = false.
Proof. intros Hbad. unfold accepts_td, sample_times. cbn [app forallb]. rewrite Hbad. reflexivity. Qed.
Theorem td_end_imbalance_rejected f solve skip us :
  accepts_currents (f (sample_tmax true solve skip)) = false -> accepts_td f (sample_times true solve skip us) = false.
Proof. intros Hbad. unfold accepts_td, sample_times. cbn [app forallb]. rewrite Hbad. apply andb_false_r. Qed.

(* as found (samples in [0, solve_time] only): a time the thermalisation stage uses lies outside the sampled range *)
Theorem sampled_range_as_found_refuted :
  exists solve skip t, used_time solve skip t /\ ~ t <= sample_tmax false solve skip.
Proof.
  exists (1#5), 1, (1#2). split; [split; [discriminate|left; discriminate]|].
  cbn [sample_tmax]. intros C. apply Qle_bool_iff in C. discriminate.
Qed.

(* order of events: if any check fails nothing is created *)
Lemma run_checks_events cs : forall ev ok, run_checks cs = (ev, ok) ->
  ~ In CreateFile ev /\ ~ In MkTempDir ev /\ ~ In Run ev /\ (ok = true -> forall c, In c cs -> snd c = true).
Proof.
  induction cs as [|[n b] tl IH]; intros ev ok H; cbn in H.
  - inversion H; subst. split; [intros []|]. split; [intros []|]. split; [intros []|]. intros _ c [].
  - destruct b.
    + destruct (run_checks tl) as [ev' r] eqn:E. inversion H; subst. destruct (IH ev' ok eq_refl) as (A & B & C & D).
      split; [intros [X|X]; [discriminate|auto]|]. split; [intros [X|X]; [discriminate|auto]|].
      split; [intros [X|X]; [discriminate|auto]|].
      intros Hok c [<-|Hc]; [reflexivity|apply D; assumption].
    + inversion H; subst.
      split; [intros [X|[]]; discriminate|]. split; [intros [X|[]]; discriminate|]. split; [intros [X|[]]; discriminate|].
      discriminate.
Qed.

Theorem rejected_before_create cs explicit :
  (exists c, In c cs /\ snd c = false) ->
  ~ In CreateFile (solve_events cs explicit) /\ ~ In MkTempDir (solve_events cs explicit) /\ ~ In Run (solve_events cs explicit).
Proof.
  intros [c [Hc Hf]]. unfold solve_events. destruct (run_checks cs) as [ev ok] eqn:E.
  destruct (run_checks_events cs ev ok E) as (A & B & C & D).
  destruct ok.
  - exfalso. assert (snd c = true) by (apply (D eq_refl); exact Hc). congruence.
  - auto.
Qed.
