(* C08: results do not depend on the unit system; flux per triangle. *)
From Coq Require Import Reals Lra List.
From PyTdgl Require Import Base.Ops Model.Units.
Open Scope R_scope.

Ltac opsu := cbn [o_add o_sub o_mul o_div o_opp o_of_Z OpsR T] in *.

Section U.
  Variables Phi0 mu0 twopi fourpi : R.
  Hypothesis HPhi : Phi0 <> 0.
  Hypothesis Hmu : mu0 <> 0.
  Hypothesis H2pi : twopi <> 0.
  Hypothesis H4pi : fourpi <> 0.

  Notation usysR := (usys OpsR).
  Notation devR := (devnum OpsR).

  (* two descriptions of the same physical device *)
  Definition same_device (u1 u2 : usysR) (v1 v2 : devR) : Prop :=
    xi_n _ v1 * lu _ u1 = xi_n _ v2 * lu _ u2 /\ lambda_n _ v1 * lu _ u1 = lambda_n _ v2 * lu _ u2 /\
    d_n _ v1 * lu _ u1 = d_n _ v2 * lu _ u2.
  Definition positive (u : usysR) (v : devR) : Prop :=
    0 < lu _ u /\ 0 < fu _ u /\ 0 < cu _ u /\ 0 < xi_n _ v /\ 0 < lambda_n _ v /\ 0 < d_n _ v.

  (* the same physical vector potential (A_num * fu * lu equal) gives the same dimensionless link exponent *)
  Theorem link_exponent_invariant u1 u2 v1 v2 Ax1 Ay1 Ax2 Ay2 dx dy :
    same_device u1 u2 v1 v2 -> positive u1 v1 -> positive u2 v2 ->
    Ax1 * (fu _ u1 * lu _ u1) = Ax2 * (fu _ u2 * lu _ u2) -> Ay1 * (fu _ u1 * lu _ u1) = Ay2 * (fu _ u2 * lu _ u2) ->
    link_exponent OpsR Phi0 twopi u1 v1 Ax1 Ay1 dx dy = link_exponent OpsR Phi0 twopi u2 v2 Ax2 Ay2 dx dy.
  Proof.
    intros (Hx & _ & _) (P1 & P2 & P3 & P4 & _) (Q1 & Q2 & Q3 & Q4 & _) HA HB.
    unfold link_exponent, A_scale, Bc2, xi_si. opsu.
    set (s1 := xi_n _ v1 * lu _ u1) in *. set (s2 := xi_n _ v2 * lu _ u2) in *.
    assert (S1 : s1 <> 0) by (unfold s1; apply Rgt_not_eq, Rmult_lt_0_compat; assumption).
    assert (S2 : s2 <> 0) by (unfold s2; apply Rgt_not_eq, Rmult_lt_0_compat; assumption).
    assert (E1 : fu _ u1 * lu _ u1 / (Phi0 / (twopi * (s1 * s1)) * s1) * Ax1
               = fu _ u2 * lu _ u2 / (Phi0 / (twopi * (s2 * s2)) * s2) * Ax2).
    { rewrite <- Hx. fold s1.
      replace (fu _ u1 * lu _ u1 / (Phi0 / (twopi * (s1 * s1)) * s1) * Ax1)
        with ((Ax1 * (fu _ u1 * lu _ u1)) / (Phi0 / (twopi * (s1 * s1)) * s1)) by (field; repeat split; assumption).
      replace (fu _ u2 * lu _ u2 / (Phi0 / (twopi * (s1 * s1)) * s1) * Ax2)
        with ((Ax2 * (fu _ u2 * lu _ u2)) / (Phi0 / (twopi * (s1 * s1)) * s1)) by (field; repeat split; assumption).
      rewrite HA. reflexivity. }
    assert (E2 : fu _ u1 * lu _ u1 / (Phi0 / (twopi * (s1 * s1)) * s1) * Ay1
               = fu _ u2 * lu _ u2 / (Phi0 / (twopi * (s2 * s2)) * s2) * Ay2).
    { rewrite <- Hx. fold s1.
      replace (fu _ u1 * lu _ u1 / (Phi0 / (twopi * (s1 * s1)) * s1) * Ay1)
        with ((Ay1 * (fu _ u1 * lu _ u1)) / (Phi0 / (twopi * (s1 * s1)) * s1)) by (field; repeat split; assumption).
      replace (fu _ u2 * lu _ u2 / (Phi0 / (twopi * (s1 * s1)) * s1) * Ay2)
        with ((Ay2 * (fu _ u2 * lu _ u2)) / (Phi0 / (twopi * (s1 * s1)) * s1)) by (field; repeat split; assumption).
      rewrite HB. reflexivity. }
    rewrite E1, E2. reflexivity.
  Qed.

  (* K0 is a physical quantity: same value in both descriptions *)
  Lemma K0_invariant u1 u2 v1 v2 : same_device u1 u2 v1 v2 -> K0 OpsR Phi0 mu0 twopi u1 v1 = K0 OpsR Phi0 mu0 twopi u2 v2.
  Proof.
    intros (Hx & Hl & Hd). unfold K0, Bc2, Lambda, xi_si. opsu. rewrite Hx, Hl, Hd. reflexivity.
  Qed.
  Lemma A0_invariant u1 u2 v1 v2 : same_device u1 u2 v1 v2 -> A0 OpsR Phi0 twopi u1 v1 = A0 OpsR Phi0 twopi u2 v2.
  Proof. intros (Hx & _). unfold A0, Bc2, xi_si. opsu. rewrite Hx. reflexivity. Qed.

  (* the same physical currents and terminal length give the same dimensionless boundary density *)
  Theorem terminal_density_invariant u1 u2 v1 v2 I1 I2 L1 L2 :
    same_device u1 u2 v1 v2 -> positive u1 v1 -> positive u2 v2 ->
    I1 * cu _ u1 = I2 * cu _ u2 -> L1 * lu _ u1 = L2 * lu _ u2 -> L1 <> 0 -> L2 <> 0 ->
    K0 OpsR Phi0 mu0 twopi u1 v1 <> 0 ->
    terminal_density OpsR Phi0 mu0 twopi u1 v1 I1 L1 = terminal_density OpsR Phi0 mu0 twopi u2 v2 I2 L2.
  Proof.
    intros Hs (P1 & _ & P3 & _) (Q1 & _ & Q3 & _) HI HL N1 N2 HK.
    unfold terminal_density, J_scale. rewrite <- (K0_invariant u1 u2 v1 v2 Hs). opsu.
    set (K := K0 OpsR Phi0 mu0 twopi u1 v1) in *.
    assert (E : I1 * cu _ u1 / (L1 * lu _ u1) = I2 * cu _ u2 / (L2 * lu _ u2)) by (rewrite HI, HL; reflexivity).
    replace (-(1) / L1 * (4 * (cu _ u1 / lu _ u1) / K * I1)) with (-4 / K * (I1 * cu _ u1 / (L1 * lu _ u1)))
      by (field; repeat split; try assumption; apply Rgt_not_eq; assumption).
    replace (-(1) / L2 * (4 * (cu _ u2 / lu _ u2) / K * I2)) with (-4 / K * (I2 * cu _ u2 / (L2 * lu _ u2)))
      by (field; repeat split; try assumption; apply Rgt_not_eq; assumption).
    rewrite E. reflexivity.
  Qed.

  (* the screening kernel weight (areas / distance in the solver's units) is unit independent *)
  Theorem screening_weight_invariant u1 u2 v1 v2 a rho :
    same_device u1 u2 v1 v2 -> positive u1 v1 -> positive u2 v2 -> rho <> 0 ->
    A0 OpsR Phi0 twopi u1 v1 <> 0 ->
    scr_weight OpsR Phi0 mu0 twopi fourpi u1 v1 a rho = scr_weight OpsR Phi0 mu0 twopi fourpi u2 v2 a rho.
  Proof.
    intros Hs (P1 & _ & _ & P4 & _) (Q1 & _ & _ & Q4 & _) Hr HA.
    unfold scr_weight, scr_area, scr_scale.
    rewrite <- (K0_invariant u1 u2 v1 v2 Hs), <- (A0_invariant u1 u2 v1 v2 Hs). opsu.
    destruct Hs as (Hx & _).
    set (K := K0 OpsR Phi0 mu0 twopi u1 v1). set (A := A0 OpsR Phi0 twopi u1 v1) in *.
    assert (X1 : xi_n _ v1 <> 0) by (apply Rgt_not_eq; assumption).
    assert (X2 : xi_n _ v2 <> 0) by (apply Rgt_not_eq; assumption).
    transitivity (mu0 / fourpi * K / A * a / rho * (xi_n _ v1 * lu _ u1)); [field; repeat split; assumption|].
    rewrite Hx. field; repeat split; assumption.
  Qed.

  (* physical output: current density = K0 * dimensionless value, K0 unit independent *)
  Theorem output_current_invariant u1 u2 v1 v2 j :
    same_device u1 u2 v1 v2 -> K0 OpsR Phi0 mu0 twopi u1 v1 * j = K0 OpsR Phi0 mu0 twopi u2 v2 * j.
  Proof. intros Hs. rewrite (K0_invariant u1 u2 v1 v2 Hs). reflexivity. Qed.
End U.

(* the gauge phase around a triangle in a uniform field: midpoint rule on the three edges is exact *)
Theorem triangle_flux B xc yc x1 y1 x2 y2 x3 y3 :
  let A := fun x y => A_uniform OpsR B xc yc x y in
  let edge := fun xa ya xb yb => fst (A ((xa + xb) / 2) ((ya + yb) / 2)) * (xb - xa)
                                 + snd (A ((xa + xb) / 2) ((ya + yb) / 2)) * (yb - ya) in
  edge x1 y1 x2 y2 + edge x2 y2 x3 y3 + edge x3 y3 x1 y1
  = B * (((x2 - x1) * (y3 - y1) - (x3 - x1) * (y2 - y1)) / 2).
Proof. intros A edge. unfold edge, A, A_uniform. opsu. cbn [fst snd]. field. Qed.

(* in the solver's dimensionless units (lengths / xi, A / A0 with A0 = Bc2 xi, Bc2 = Phi0 / (2 pi xi^2)) the
   phase around the triangle is 2 pi * flux / Phi0 *)
Theorem triangle_flux_quanta Phi0 twopi xi B area :
  Phi0 <> 0 -> twopi <> 0 -> xi <> 0 ->
  (B * area) / ((Phi0 / (twopi * (xi * xi))) * xi * xi) = twopi * (B * area) / Phi0.
Proof. intros. field. repeat split; assumption. Qed.
