From Coq Require Import List QArith Bool Arith Lia.
From PyTdgl Require Import Model.Serial.
Import ListNotations.

Definition rest_ok (o : sopts) : Prop := Forall (fun kv => fst kv <> K_PSI /\ fst kv <> K_FILE) (o_rest o).

Lemma rest_roundtrip (r : list (nat * Q)) :
  Forall (fun kv => fst kv <> K_PSI /\ fst kv <> K_FILE) r ->
  flat_map (fun kv : nat * attr => match snd kv with
            | AVal v => if (Nat.eqb (fst kv) K_PSI || Nat.eqb (fst kv) K_FILE)%bool then [] else [(fst kv, v)]
            | _ => [] end) (map (fun kv : nat * Q => (fst kv, AVal (snd kv))) r) = r.
Proof.
  induction r as [|[k v] tl IH]; intros H; [reflexivity|]. inversion H as [|? ? [A B] H']; subst. cbn in *.
  apply Nat.eqb_neq in A. apply Nat.eqb_neq in B. rewrite A, B. cbn. f_equal. apply IH. exact H'.
Qed.

Lemma lookup_rest k (r : list (nat * Q)) :
  Forall (fun kv => fst kv <> k) r -> lookup k (map (fun kv : nat * Q => (fst kv, AVal (snd kv))) r) = None.
Proof.
  induction r as [|[k' v] tl IH]; intros H; [reflexivity|]. inversion H as [|? ? A H']; subst. cbn in *.
  replace (Nat.eqb k k') with false by (symmetry; apply Nat.eqb_neq; congruence). apply IH. exact H'.
Qed.

(* C14: with the explicit None marker every option set loads back unchanged, unset ones included *)
Theorem options_roundtrip (o : sopts) : rest_ok o -> load (save true o) = o.
Proof.
  intros H. destruct o as [psi file rest]. unfold rest_ok in H. cbn [o_rest] in H.
  assert (H1 : Forall (fun kv : nat * Q => fst kv <> K_PSI) rest) by (eapply Forall_impl; [|exact H]; intros a [A _]; exact A).
  assert (H2 : Forall (fun kv : nat * Q => fst kv <> K_FILE) rest) by (eapply Forall_impl; [|exact H]; intros a [_ B]; exact B).
  unfold load, save. cbn [o_terminal_psi o_output_file o_rest].
  destruct psi as [v|], file as [f|]; cbn [app lookup Nat.eqb K_PSI K_FILE flat_map snd fst orb];
    rewrite ?Nat.eqb_refl; cbn [app flat_map snd fst orb];
    repeat (rewrite ?(lookup_rest K_PSI rest H1), ?(lookup_rest K_FILE rest H2));
    try (f_equal; apply rest_roundtrip; exact H).
Qed.

(* as found: an unset terminal_psi comes back as 0.0 *)
Theorem options_roundtrip_as_found_refuted :
  exists o, rest_ok o /\ load (save false o) <> o.
Proof.
  exists {| o_terminal_psi := None; o_output_file := None; o_rest := [] |}. split; [constructor|].
  cbn. intros H. inversion H.
Qed.
