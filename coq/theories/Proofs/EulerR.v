(* Real-arithmetic theorems about the per-site Euler update. *)
From Coq Require Import Reals Lra ZArith List.
From PyTdgl Require Import Base.Ops Base.Cplx Model.Euler.
Open Scope R_scope.

Local Notation RC := (C OpsR).
Definition cx_add (a b : RC) : RC := cadd OpsR a b.
Definition cx_scale (k : R) (a : RC) : RC := cscale OpsR k a.
Definition cx_mul (a b : RC) : RC := cmul OpsR a b.
Definition cx_abs2 (a : RC) : R := cabs2 OpsR a.

Lemma s_ge_half (zr zi wr wi : R) :
  0 <= (2*(wr*zr + wi*zi)+1)*(2*(wr*zr + wi*zi)+1) - (4*(zr*zr+zi*zi))*(wr*wr+wi*wi) ->
  1/2 <= 2*(wr*zr + wi*zi)+1.
Proof.
  intros H. pose proof (Rle_0_sqr (wr*zi - wi*zr)) as Hsq. unfold Rsqr in Hsq. lra.
Qed.

Lemma quad_root (zr zi wr wi : R) :
  let a := zr*zr+zi*zi in let b := wr*wr+wi*wi in
  let c := wr*zr + wi*zi in let s := 2*c+1 in
  let D := s*s - (4*a)*b in
  0 <= D ->
  let x := (2*b)/(s + sqrt D) in
  0 <= x /\ x <= 4*b /\ (wr - x*zr)*(wr - x*zr) + (wi - x*zi)*(wi - x*zi) = x.
Proof.
  intros a b c s D HD x.
  assert (Hs : 1/2 <= s) by (apply s_ge_half; exact HD).
  set (q := sqrt D) in *.
  assert (Hq : q*q = D) by (apply sqrt_sqrt; exact HD).
  assert (Hq0 : 0 <= q) by apply sqrt_pos.
  assert (Hdenpos : 0 < s + q) by lra.
  assert (Hb : 0 <= b).
  { unfold b. pose proof (Rle_0_sqr wr). pose proof (Rle_0_sqr wi). unfold Rsqr in *. lra. }
  assert (Hinv : 0 < / (s+q)) by (apply Rinv_0_lt_compat; exact Hdenpos).
  assert (Hx0 : 0 <= x).
  { unfold x, Rdiv. apply Rmult_le_pos; lra. }
  assert (Hxe : x * (s+q) = 2*b).
  { unfold x. field. lra. }
  assert (Hquad : a*x*x - s*x + b = 0).
  { assert (E: (a*x*x - s*x + b) * ((s+q)*(s+q)) = 0).
    { replace ((a*x*x - s*x + b) * ((s+q)*(s+q)))
        with (a*(x*(s+q))*(x*(s+q)) - s*(x*(s+q))*(s+q) + b*(s+q)*(s+q)) by ring.
      rewrite Hxe.
      replace (a*(2*b)*(2*b) - s*(2*b)*(s+q) + b*(s+q)*(s+q)) with (b*(4*a*b - s*s + q*q)) by ring.
      rewrite Hq. unfold D. ring. }
    apply Rmult_integral in E. destruct E as [E|E]; [exact E|].
    apply Rmult_integral in E. lra. }
  split; [exact Hx0|]. split.
  - assert (0 <= b * (s + q - 1/2)) by (apply Rmult_le_pos; lra).
    assert (x * (s+q) <= 4*b*(s+q)) by lra.
    apply Rmult_le_reg_r with (s+q); lra.
  - replace ((wr - x*zr)*(wr - x*zr) + (wi - x*zi)*(wi - x*zi))
      with (b - 2*c*x + a*x*x) by (unfold a, b, c; ring).
    unfold s in Hquad. lra.
Qed.

(* Every real root y of the quadratic forces D >= 0:  (2 a y - s)^2 = D. *)
Lemma root_forces_disc (zr zi wr wi pr pi_ : R) :
  let y := pr*pr + pi_*pi_ in
  pr + zr*y = wr -> pi_ + zi*y = wi ->
  let a := zr*zr+zi*zi in let b := wr*wr+wi*wi in
  let c := wr*zr + wi*zi in let s := 2*c+1 in
  0 <= s*s - (4*a)*b.
Proof.
  intros y H1 H2 a b c s.
  assert (E : s*s - (4*a)*b = (2*a*y - s)*(2*a*y - s)).
  { unfold s, c, a, b. rewrite <- H1, <- H2. unfold y. ring. }
  rewrite E. pose proof (Rle_0_sqr (2*a*y - s)) as H. unfold Rsqr in H. exact H.
Qed.

Definition Dzw (z w : RC) : R :=
  (2*(re w*re z + im w*im z)+1)*(2*(re w*re z + im w*im z)+1)
  - (4*(re z*re z+im z*im z))*(re w*re w+im w*im w).

(* the discriminant as the code evaluates it (1 + 4c - 4t^2, t = Im(w conj z)) is the documented one *)
Lemma m_D_is_Dzw (z w : RC) : m_D OpsR (site_mid_of OpsR z w) = Dzw z w.
Proof. unfold site_mid_of, Dzw. cbn. ring. Qed.

Lemma finish_cases (z w : RC) :
  (Dzw z w < 0 /\ site_finish OpsR z w = None) \/
  (0 <= Dzw z w /\ site_finish OpsR z w =
      Some ((2 * cx_abs2 w) / ((2*(re w*re z + im w*im z)+1) + sqrt (Dzw z w)),
            csub OpsR w (cscale OpsR ((2 * cx_abs2 w) / ((2*(re w*re z + im w*im z)+1) + sqrt (Dzw z w))) z))).
Proof.
  unfold site_finish. cbn [negb mid_finite o_isfin OpsR andb].
  rewrite m_D_is_Dzw.
  destruct (o_ltb OpsR (Dzw z w) (o_of_Z OpsR 0)) eqn:E; cbn in E.
  - apply Rltb_true in E. left; split; [exact E|reflexivity].
  - apply Rltb_false in E. right; split; [exact E|reflexivity].
Qed.

Theorem finish_sound (z w : RC) x p :
  site_finish OpsR z w = Some (x, p) ->
  cx_add p (cx_scale x z) = w /\ cx_abs2 p = x /\ 0 <= x /\ x <= 4 * cx_abs2 w.
Proof.
  intros H. destruct (finish_cases z w) as [[_ E]|[HD E]]; rewrite E in H; [discriminate|].
  inversion H as [[Hx Hp]]; clear H E.
  destruct z as [zr zi]; destruct w as [wr wi].
  unfold Dzw in *. cbn [re im fst snd] in *.
  pose proof (quad_root zr zi wr wi) as Q. cbv zeta in Q. specialize (Q HD).
  destruct Q as (Q1 & Q2 & Q3).
  unfold cx_abs2, cabs2 in *. cbn [re im fst snd o_add o_mul OpsR] in *.
  split; [|split; [|split]].
  - unfold cx_add, cx_scale, cadd, csub, cscale. cbn. f_equal; ring.
  - unfold csub, cscale. cbn. exact Q3.
  - exact Q1.
  - exact Q2.
Qed.

Theorem finish_refuses (z w : RC) : Dzw z w < 0 -> site_finish OpsR z w = None.
Proof. intros H. destruct (finish_cases z w) as [[_ E]|[HD _]]; [exact E|lra]. Qed.

Theorem finish_complete (z w p : RC) :
  cx_add p (cx_scale (cx_abs2 p) z) = w ->
  exists x p', site_finish OpsR z w = Some (x, p').
Proof.
  intros H. destruct (finish_cases z w) as [[HD _]|[_ E]].
  - exfalso. destruct z as [zr zi]; destruct w as [wr wi]; destruct p as [pr pi_].
    unfold Dzw in HD. cbn [re im fst snd] in HD.
    unfold cx_add, cx_scale, cx_abs2, cadd, cscale, cabs2 in H. cbn in H.
    inversion H as [[H1 H2]].
    pose proof (root_forces_disc zr zi wr wi pr pi_) as Q. cbv zeta in Q.
    assert (A1 : pr + zr * (pr*pr + pi_*pi_) = wr) by (rewrite <- H1; ring).
    assert (A2 : pi_ + zi * (pr*pr + pi_*pi_) = wi) by (rewrite <- H2; ring).
    specialize (Q A1 A2). rewrite H1, H2 in *. lra.
  - rewrite E. eauto.
Qed.

Section Site.
  Variables (U psi lap : RC) (abs2 eps gamma u dt : R).
  Definition zc := z_code OpsR U psi gamma.
  Definition wc := w_code OpsR U psi abs2 eps gamma u dt lap.

  Theorem root_sound x p :
    site_update OpsR U psi abs2 eps gamma u dt lap = Some (x, p) ->
    cx_add p (cx_scale x zc) = wc /\ cx_abs2 p = x /\ 0 <= x /\ x <= 4 * cx_abs2 wc.
  Proof. apply finish_sound. Qed.

  Theorem root_refuses : Dzw zc wc < 0 -> site_update OpsR U psi abs2 eps gamma u dt lap = None.
  Proof. apply finish_refuses. Qed.

  (* refused only if no solution exists *)
  Theorem root_complete (p : RC) :
    cx_add p (cx_scale (cx_abs2 p) zc) = wc ->
    exists x p', site_update OpsR U psi abs2 eps gamma u dt lap = Some (x, p').
  Proof. apply finish_complete. Qed.

  (* the code's z, w are the documented z, w *)
  Theorem zw_as_documented :
    zc = z_doc OpsR U psi gamma /\ wc = w_doc OpsR U psi abs2 eps gamma u dt lap.
  Proof.
    assert (Ez : zc = z_doc OpsR U psi gamma).
    { unfold zc, z_code, z_doc, cmul, cdivr, cscale. destruct U as [ur ui], psi as [pr pi_].
      cbn. f_equal; field. }
    split; [exact Ez|].
    unfold wc, w_code, w_doc. fold zc. rewrite Ez. reflexivity.
  Qed.
End Site.

(* psi = 0 on a pinned site stays 0 whatever mu, eps, dt: lap of an identity row is psi itself *)
Theorem pinned_zero_stays (U : RC) (abs2 eps gamma u dt : R) :
  abs2 = 0 ->
  site_update OpsR U (0,0) abs2 eps gamma u dt (0,0) = Some (0, (0,0)).
Proof.
  intros ->. destruct U as [ur ui]. unfold site_update.
  assert (Ez : z_code OpsR (ur,ui) (0,0) gamma = (0,0)).
  { unfold z_code, cmul, cdivr, cscale. cbn. f_equal; field. }
  assert (Ew : w_code OpsR (ur,ui) (0,0) 0 eps gamma u dt (0,0) = (0,0)).
  { unfold w_code. rewrite Ez. unfold cadd, cmul, cscale. cbn. f_equal; ring. }
  rewrite Ez, Ew.
  destruct (finish_cases (0,0) (0,0)) as [[HD _]|[_ E]].
  { unfold Dzw in HD. cbn in HD. lra. }
  rewrite E. unfold Dzw, cx_abs2, cabs2, csub, cscale. cbn.
  replace ((2 * (0 * 0 + 0 * 0) + 1) * (2 * (0 * 0 + 0 * 0) + 1) -
           4 * (0 * 0 + 0 * 0) * (0 * 0 + 0 * 0)) with 1 by ring.
  rewrite sqrt_1.
  replace (2 * (0 * 0 + 0 * 0) / (2 * (0 * 0 + 0 * 0) + 1 + 1)) with 0 by field.
  f_equal. f_equal. f_equal; ring.
Qed.

(* psi = 1, eps = 1, lap = 0, mu = 0 (U = 1) is a fixed point for every gamma, u<>0, dt *)
Theorem euler_fixed_point (gamma u dt : R) :
  u <> 0 ->
  site_update OpsR (1,0) (1,0) 1 1 gamma u dt (0,0) = Some (1, (1,0)).
Proof.
  intros Hu. unfold site_update.
  set (g := gamma*gamma).
  assert (Hg : 0 <= g) by (unfold g; pose proof (Rle_0_sqr gamma) as H; exact H).
  assert (Ez : z_code OpsR (1,0) (1,0) gamma = (g/2, 0)).
  { unfold z_code, cmul, cdivr, cscale. cbn. fold g. f_equal; field. }
  assert (Ew : w_code OpsR (1,0) (1,0) 1 1 gamma u dt (0,0) = (g/2 + 1, 0)).
  { unfold w_code. rewrite Ez. unfold cadd, cmul, cscale. cbn. fold g. f_equal; field; exact Hu. }
  rewrite Ez, Ew.
  assert (ED : Dzw (g/2,0) (g/2+1,0) = (g+1)*(g+1)) by (unfold Dzw; cbn; field).
  destruct (finish_cases (g/2,0) (g/2+1,0)) as [[HD _]|[_ E]].
  { rewrite ED in HD. pose proof (Rle_0_sqr (g+1)) as H. unfold Rsqr in H. lra. }
  rewrite E, ED. unfold cx_abs2, cabs2, csub, cscale. cbn [re im fst snd o_add o_mul o_sub OpsR].
  rewrite sqrt_square by lra.
  assert (Ex : 2 * ((g/2+1) * (g/2+1) + 0 * 0) / (2 * ((g/2+1) * (g/2) + 0 * 0) + 1 + (g+1)) = 1).
  { field. nra. }
  rewrite Ex. f_equal. f_equal. f_equal; ring.
Qed.

(* all sites or refuse *)
Lemma sites_update_spec (gamma u dt : R) (l : list (site_in OpsR)) :
  (exists rs, sites_update OpsR gamma u dt l = Some rs /\
     Forall2 (fun s r => site_update OpsR (i_U _ s) (i_psi _ s) (i_abs2 _ s) (i_eps _ s) gamma u dt (i_lap _ s) = Some r) l rs)
  \/ (sites_update OpsR gamma u dt l = None /\
      Exists (fun s => site_update OpsR (i_U _ s) (i_psi _ s) (i_abs2 _ s) (i_eps _ s) gamma u dt (i_lap _ s) = None) l).
Proof.
  induction l as [|s tl IH]; cbn [sites_update].
  - left. exists nil. split; [reflexivity|constructor].
  - destruct (site_update OpsR (i_U _ s) (i_psi _ s) (i_abs2 _ s) (i_eps _ s) gamma u dt (i_lap _ s)) as [r|] eqn:E.
    + destruct IH as [[rs [E2 F]]|[E2 Ex]].
      * rewrite E2. left. exists (r :: rs). split; [reflexivity|]. constructor; assumption.
      * rewrite E2. right. split; [reflexivity|]. apply Exists_cons_tl. exact Ex.
    + right. split; [reflexivity|]. apply Exists_cons_hd. exact E.
Qed.

(* ---------------- gauge covariance of the per-site update (C04) ---------------- *)
Lemma z_code_cov (U g psi : RC) gamma :
  z_code OpsR U (cmul OpsR g psi) gamma = cmul OpsR g (z_code OpsR U psi gamma).
Proof.
  destruct U as [ur ui], g as [gr gi], psi as [pr pi_].
  unfold z_code, cmul, cdivr, cscale. cbn. f_equal; field.
Qed.

Lemma w_code_cov (U g psi lap : RC) abs2 eps gamma u dt :
  w_code OpsR U (cmul OpsR g psi) abs2 eps gamma u dt (cmul OpsR g lap)
  = cmul OpsR g (w_code OpsR U psi abs2 eps gamma u dt lap).
Proof.
  unfold w_code. rewrite z_code_cov.
  destruct (z_code OpsR U psi gamma) as [zr zi].
  destruct U as [ur ui], g as [gr gi], psi as [pr pi_], lap as [lr li].
  unfold cmul, cadd, cscale. cbn. f_equal; ring.
Qed.

Lemma finish_cov (g z w : RC) :
  cabs2 OpsR g = 1 ->
  site_finish OpsR (cmul OpsR g z) (cmul OpsR g w)
  = match site_finish OpsR z w with Some (x, p) => Some (x, cmul OpsR g p) | None => None end.
Proof.
  intros Hg. destruct g as [gr gi], z as [zr zi], w as [wr wi].
  unfold cabs2 in Hg. cbn in Hg.
  assert (Ec : re (cmul OpsR (gr,gi) (wr,wi)) * re (cmul OpsR (gr,gi) (zr,zi))
             + im (cmul OpsR (gr,gi) (wr,wi)) * im (cmul OpsR (gr,gi) (zr,zi)) = wr*zr + wi*zi).
  { unfold cmul. cbn. transitivity ((gr*gr+gi*gi)*(wr*zr+wi*zi)); [ring|rewrite Hg; ring]. }
  assert (Ez : cx_abs2 (cmul OpsR (gr,gi) (zr,zi)) = zr*zr+zi*zi).
  { unfold cx_abs2, cabs2, cmul. cbn. transitivity ((gr*gr+gi*gi)*(zr*zr+zi*zi)); [ring|rewrite Hg; ring]. }
  assert (Ew : cx_abs2 (cmul OpsR (gr,gi) (wr,wi)) = wr*wr+wi*wi).
  { unfold cx_abs2, cabs2, cmul. cbn. transitivity ((gr*gr+gi*gi)*(wr*wr+wi*wi)); [ring|rewrite Hg; ring]. }
  assert (ED : Dzw (cmul OpsR (gr,gi) (zr,zi)) (cmul OpsR (gr,gi) (wr,wi)) = Dzw (zr,zi) (wr,wi)).
  { unfold Dzw. rewrite Ec. unfold cx_abs2, cabs2 in Ez, Ew. cbn [o_add o_mul OpsR] in Ez, Ew.
    rewrite Ez, Ew. cbn. reflexivity. }
  destruct (finish_cases (cmul OpsR (gr,gi) (zr,zi)) (cmul OpsR (gr,gi) (wr,wi))) as [[HD E]|[HD E]];
  destruct (finish_cases (zr,zi) (wr,wi)) as [[HD' E']|[HD' E']]; rewrite E, E'; rewrite ED in *; try lra.
  - reflexivity.
  - rewrite Ec, Ew. cbn [re im fst snd]. unfold cx_abs2, cabs2. cbn [re im fst snd o_add o_mul OpsR].
    set (x := 2 * (wr * wr + wi * wi) / (2 * (wr * zr + wi * zi) + 1 + sqrt (Dzw (zr, zi) (wr, wi)))).
    apply f_equal. apply f_equal2; [reflexivity|].
    unfold csub, cscale, cmul. cbn [re im fst snd o_add o_sub o_mul OpsR]. f_equal; ring.
Qed.

Theorem euler_covariant (U g psi lap : RC) abs2 eps gamma u dt :
  cabs2 OpsR g = 1 ->
  site_update OpsR U (cmul OpsR g psi) abs2 eps gamma u dt (cmul OpsR g lap)
  = match site_update OpsR U psi abs2 eps gamma u dt lap with
    | Some (x, p) => Some (x, cmul OpsR g p) | None => None end.
Proof.
  intros Hg. unfold site_update. rewrite z_code_cov, w_code_cov. apply finish_cov. exact Hg.
Qed.
