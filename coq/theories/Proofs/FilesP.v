From Coq Require Import List Arith Bool Lia.
From PyTdgl Require Import Model.Files.
Import ListNotations.

Lemma path_eqb_eq a b : path_eqb a b = true <-> a = b.
Proof.
  destruct a, b; cbn; rewrite ?Nat.eqb_eq; split; intros H; try discriminate; try congruence;
    inversion H; reflexivity.
Qed.
Lemma mem_In x f : mem x f = true <-> In x f.
Proof.
  unfold mem. rewrite existsb_exists. split.
  - intros [y [Hy E]]. apply path_eqb_eq in E. subst. exact Hy.
  - intros H. exists x. split; [exact H|apply path_eqb_eq; reflexivity].
Qed.
Lemma mem_false x f : mem x f = false <-> ~ In x f.
Proof. rewrite <- mem_In. destruct (mem x f); split; intros; try discriminate; try reflexivity; congruence. Qed.

(* C15: the name chosen is fresh (neither it nor its .tmp companion existed) and every pre-existing
   path is still there: an existing file is never opened for writing *)
Theorem create_fresh cm : forall fuel n f m f',
  create cm fuel n f = Some (m, f') ->
  ~ In (Main m) f /\ ~ In (Tmp m) f /\ (forall x, In x f -> In x f') /\ In (Main m) f' /\ In (Tmp m) f'.
Proof.
  induction fuel as [|fuel IH]; intros n f m f' H; [discriminate|].
  cbn [create] in H.
  destruct (mem (Main n) f) eqn:E1.
  - apply IH in H. exact H.
  - destruct (mem (Tmp n) (Main n :: f)) eqn:E2.
    + destruct cm.
      * apply IH in H. exact H.
      * apply IH in H. destruct H as (A & B & C & D1 & D2).
        repeat split; try assumption.
        -- intros Hin. apply A. right; exact Hin.
        -- intros Hin. apply B. right; exact Hin.
        -- intros x Hx. apply C. right; exact Hx.
    + inversion H; subst; clear H. apply mem_false in E1. apply mem_false in E2.
      repeat split.
      * exact E1.
      * intros Hin. apply E2. right; exact Hin.
      * intros x Hx. right; right; exact Hx.
      * right; left; reflexivity.
      * left; reflexivity.
Qed.

(* with the clean-up, nothing but the chosen pair is added *)
Theorem create_adds_only_chosen : forall fuel n f m f',
  create true fuel n f = Some (m, f') -> f' = Tmp m :: Main m :: f.
Proof.
  induction fuel as [|fuel IH]; intros n f m f' H; [discriminate|].
  cbn [create] in H.
  destruct (mem (Main n) f); [apply IH in H; exact H|].
  destruct (mem (Tmp n) (Main n :: f)); [apply IH in H; exact H|].
  inversion H; reflexivity.
Qed.

(* after close() the temporary companion is gone and every pre-existing path is still present *)
Theorem close_clean cm fuel n f m f' :
  create cm fuel n f = Some (m, f') ->
  ~ In (Tmp m) (close m f') /\ (forall x, In x f -> In x (close m f')) /\ In (Main m) (close m f').
Proof.
  intros H. destruct (create_fresh cm fuel n f m f' H) as (A & B & C & D1 & D2).
  unfold close, remove. repeat split.
  - intros Hin. apply filter_In in Hin. destruct Hin as [_ Hn].
    assert (E : path_eqb (Tmp m) (Tmp m) = true) by (apply path_eqb_eq; reflexivity).
    rewrite E in Hn. discriminate.
  - intros x Hx. apply filter_In. split; [apply C; exact Hx|].
    destruct (path_eqb (Tmp m) x) eqn:E; [|reflexivity].
    apply path_eqb_eq in E. subst. contradiction.
  - apply filter_In. split; [exact D1|reflexivity].
Qed.

(* as found: when only the .tmp name is taken a stray empty main file is left behind *)
Theorem stray_file_as_found_refuted :
  exists f m f', create false 5 0 f = Some (m, f') /\ In (Main 0) f' /\ ~ In (Main 0) f /\ m <> 0.
Proof.
  exists [Tmp 0], 1, [Tmp 1; Main 1; Main 0; Tmp 0]. repeat split.
  - right; right; left; reflexivity.
  - intros [H|[]]; discriminate.
  - discriminate.
Qed.
