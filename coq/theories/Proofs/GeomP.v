(* C18 / C14: polygon vertex lists - closed and counter-clockwise storage, areas under affine maps. *)
From Coq Require Import Reals Lra List Arith Lia Bool.
From PyTdgl Require Import Base.Ops Model.Geom.
Import ListNotations.
Open Scope R_scope.

Notation ptR := (pt OpsR).
Ltac opsg := cbn [o_add o_sub o_mul o_div o_opp o_of_Z o_ltb o_eqb OpsR T] in *.

Definition term (p q : ptR) : R := fst p * snd q - fst q * snd p.

Lemma chain2_cons2 (p q : ptR) tl : chain2 OpsR (p :: q :: tl) = term p q + chain2 OpsR (q :: tl).
Proof. reflexivity. Qed.
Lemma chain2_single (p : ptR) : chain2 OpsR [p] = 0. Proof. reflexivity. Qed.

Lemma last_cons2 {A} (p q : A) tl d : last (p :: q :: tl) d = last (q :: tl) d.
Proof. reflexivity. Qed.

Definition closed (l : list ptR) : Prop := first_pt OpsR l = last_pt OpsR l.

(* ---- translation ---- *)
Lemma chain2_translate dx dy : forall (l : list ptR), l <> [] ->
  chain2 OpsR (translate OpsR dx dy l)
  = chain2 OpsR l + dx * (snd (last_pt OpsR l) - snd (first_pt OpsR l)) - dy * (fst (last_pt OpsR l) - fst (first_pt OpsR l)).
Proof.
  induction l as [|p tl IH]; intros Hne; [contradiction|].
  destruct tl as [|q tl'].
  - cbn. lra.
  - unfold translate in *. cbn [map]. rewrite !chain2_cons2.
    specialize (IH ltac:(discriminate)). cbn [map] in IH.
    etransitivity; [apply f_equal2; [reflexivity|exact IH]|].
    unfold last_pt, first_pt. rewrite last_cons2. cbn [hd]. unfold term. opsg. cbn [fst snd].
    change (@eq (T OpsR)) with (@eq R). ring.
Qed.

Lemma last_map (f : ptR -> ptR) : forall (l : list ptR) d, l <> [] -> last (map f l) (0, 0) = f (last l d).
Proof.
  induction l as [|a t IHt]; intros d Hn; [contradiction|]. destruct t as [|b t']; [reflexivity|].
  cbn [map]. rewrite !last_cons2. apply (IHt d). discriminate.
Qed.

Lemma closed_map (f : ptR -> ptR) l : closed l -> closed (map f l).
Proof.
  unfold closed, first_pt, last_pt. destruct l as [|p tl]; [intros _; reflexivity|].
  cbn [hd]. intros H. opsg.
  change (map f (p :: tl)) with (f p :: map f tl). cbn [hd].
  change (f p :: map f tl) with (map f (p :: tl)). rewrite (last_map f (p :: tl) (0, 0)) by discriminate.
  f_equal. exact H.
Qed.

(* C18: translation preserves the (signed) area of a closed ring *)
Theorem area_translate dx dy l : closed l -> area2_closed OpsR (translate OpsR dx dy l) = area2_closed OpsR l.
Proof.
  intros H. unfold area2_closed. destruct l as [|p tl]; [reflexivity|].
  rewrite chain2_translate by discriminate. unfold closed in H. rewrite H. lra.
Qed.

(* ---- scaling (fx, fy may be negative: reflection) ---- *)
Lemma chain2_scale0 fx fy : forall (l : list ptR),
  chain2 OpsR (map (fun p : ptR => (fx * fst p, fy * snd p)) l) = fx * fy * chain2 OpsR l.
Proof.
  induction l as [|p tl IH]; [cbn; lra|]. destruct tl as [|q tl'].
  - cbn. lra.
  - cbn [map] in *. rewrite !chain2_cons2. etransitivity; [apply f_equal2; [reflexivity|exact IH]|].
    unfold term. cbn [fst snd]. change (@eq (T OpsR)) with (@eq R). ring.
Qed.

(* C18: scaling about any origin multiplies the signed area by fx*fy (so the area by |fx*fy|) *)
Theorem area_scale ox oy fx fy l :
  closed l -> area2_closed OpsR (scale_about OpsR ox oy fx fy l) = fx * fy * area2_closed OpsR l.
Proof.
  intros H. unfold area2_closed.
  assert (E : scale_about OpsR ox oy fx fy l
              = translate OpsR (ox - fx * ox) (oy - fy * oy) (map (fun p : ptR => (fx * fst p, fy * snd p)) l)).
  { unfold scale_about, translate. rewrite map_map. apply map_ext. intros [x y]. opsg. cbn [fst snd]. f_equal; ring. }
  rewrite E. fold (area2_closed OpsR (translate OpsR (ox - fx * ox) (oy - fy * oy) (map (fun p : ptR => (fx * fst p, fy * snd p)) l))).
  rewrite area_translate by (apply closed_map; exact H). unfold area2_closed. apply chain2_scale0.
Qed.

(* ---- rotation ---- *)
Lemma chain2_rot0 c s : forall (l : list ptR),
  chain2 OpsR (map (fun p : ptR => (c * fst p - s * snd p, s * fst p + c * snd p)) l) = (c * c + s * s) * chain2 OpsR l.
Proof.
  induction l as [|p tl IH]; [cbn; lra|]. destruct tl as [|q tl'].
  - cbn. lra.
  - cbn [map] in *. rewrite !chain2_cons2. etransitivity; [apply f_equal2; [reflexivity|exact IH]|].
    unfold term. cbn [fst snd]. change (@eq (T OpsR)) with (@eq R). ring.
Qed.

(* C18: rotation about any origin preserves the area *)
Theorem area_rotate ox oy c s l :
  c * c + s * s = 1 -> closed l -> area2_closed OpsR (rotate_about OpsR ox oy c s l) = area2_closed OpsR l.
Proof.
  intros Hcs H. unfold area2_closed.
  assert (E : rotate_about OpsR ox oy c s l
              = translate OpsR (ox - (c * ox - s * oy)) (oy - (s * ox + c * oy))
                  (map (fun p : ptR => (c * fst p - s * snd p, s * fst p + c * snd p)) l)).
  { unfold rotate_about, translate. rewrite map_map. apply map_ext. intros [x y]. opsg. cbn [fst snd]. f_equal; ring. }
  rewrite E.
  fold (area2_closed OpsR (translate OpsR (ox - (c * ox - s * oy)) (oy - (s * ox + c * oy))
          (map (fun p : ptR => (c * fst p - s * snd p, s * fst p + c * snd p)) l))).
  rewrite area_translate by (apply closed_map; exact H). unfold area2_closed. rewrite chain2_rot0, Hcs. lra.
Qed.

(* ---- reversal ---- *)
Lemma chain2_snoc : forall (l : list ptR) p, l <> [] -> chain2 OpsR (l ++ [p]) = chain2 OpsR l + term (last_pt OpsR l) p.
Proof.
  induction l as [|a tl IH]; intros p Hne; [contradiction|]. destruct tl as [|b tl'].
  - cbn. unfold term, last_pt. cbn. lra.
  - cbn [app]. rewrite !chain2_cons2. change (b :: tl' ++ [p]) with ((b :: tl') ++ [p]).
    rewrite IH by discriminate. unfold last_pt. rewrite last_cons2. lra.
Qed.

Lemma last_rev (l : list ptR) : last_pt OpsR (rev l) = first_pt OpsR l.
Proof.
  unfold last_pt, first_pt. destruct l as [|p tl]; [reflexivity|]. cbn [rev hd]. apply last_last.
Qed.
Lemma first_rev (l : list ptR) : first_pt OpsR (rev l) = last_pt OpsR l.
Proof. rewrite <- (rev_involutive l) at 2. rewrite last_rev. reflexivity. Qed.

Theorem chain2_rev : forall (l : list ptR), chain2 OpsR (rev l) = - chain2 OpsR l.
Proof.
  induction l as [|p tl IH]; [cbn; lra|]. destruct tl as [|q tl'].
  - cbn. lra.
  - cbn [rev] in *. rewrite chain2_snoc.
    + rewrite IH, chain2_cons2.
      change (rev tl' ++ [q]) with (rev (q :: tl')). rewrite last_rev. unfold first_pt. cbn [hd]. unfold term. lra.
    + intros E. apply (f_equal (@length ptR)) in E. rewrite app_length in E. cbn in E. lia.
Qed.

(* ---- the points setter: stored closed and counter-clockwise; idempotent ---- *)
Lemma pt_eqb_true (p q : ptR) : pt_eqb OpsR p q = true <-> p = q.
Proof.
  unfold pt_eqb. opsg. rewrite andb_true_iff, !Reqb_true. destruct p, q; cbn. split; [intros [-> ->]; reflexivity|intros H; inversion H; auto].
Qed.

Lemma close_closed (l : list ptR) : closed (close_curve OpsR l).
Proof.
  unfold close_curve. destruct l as [|p tl]; [reflexivity|].
  destruct (pt_eqb OpsR p (last_pt OpsR (p :: tl))) eqn:E.
  - apply pt_eqb_true in E. exact E.
  - unfold closed, first_pt, last_pt. cbn [hd app]. change (p :: tl ++ [p]) with ((p :: tl) ++ [p]). rewrite last_last. reflexivity.
Qed.
Lemma close_id (l : list ptR) : closed l -> close_curve OpsR l = l.
Proof.
  unfold close_curve, closed. destruct l as [|p tl]; [reflexivity|]. intros H.
  cbn [first_pt hd] in H. replace (pt_eqb OpsR p (last_pt OpsR (p :: tl))) with true; [reflexivity|].
  symmetry. apply pt_eqb_true. exact H.
Qed.
Lemma closed_rev (l : list ptR) : closed l -> closed (rev l).
Proof. unfold closed. rewrite last_rev, first_rev. auto. Qed.
Lemma orient_closed (l : list ptR) : closed l -> closed (orient OpsR l).
Proof. unfold orient. destruct (o_ltb OpsR _ _); [apply closed_rev|auto]. Qed.
Lemma orient_ccw (l : list ptR) : 0 <= area2_closed OpsR (orient OpsR l).
Proof.
  unfold orient, area2_closed. opsg. destruct (Rltb (chain2 OpsR l) 0) eqn:E.
  - apply Rltb_true in E. rewrite chain2_rev. lra.
  - apply Rltb_false in E. exact E.
Qed.
Lemma orient_id (l : list ptR) : 0 <= area2_closed OpsR l -> orient OpsR l = l.
Proof.
  unfold orient, area2_closed. opsg. intros H. destruct (Rltb (chain2 OpsR l) 0) eqn:E; [|reflexivity].
  apply Rltb_true in E. lra.
Qed.

(* C18: polygon vertices are always stored closed and counter-clockwise *)
Theorem stored_closed_ccw (l : list ptR) :
  closed (normalise OpsR l) /\ 0 <= area2_closed OpsR (normalise OpsR l).
Proof.
  unfold normalise. split; [apply close_closed|].
  rewrite close_id by (apply orient_closed, close_closed). apply orient_ccw.
Qed.

(* C14: storing the stored points again changes nothing (so a reloaded polygon equals the original) *)
Theorem normalise_idempotent (l : list ptR) : normalise OpsR (normalise OpsR l) = normalise OpsR l.
Proof.
  destruct (stored_closed_ccw l) as [Hc Ha]. set (n := normalise OpsR l) in *.
  unfold normalise at 1. rewrite (close_id n Hc), (orient_id n Ha), (close_id n Hc). reflexivity.
Qed.

(* ---- membership (crossing-number test) under the maps ---- *)
Lemma Rltb_shift x y d : Rltb (x + d) (y + d) = Rltb x y.
Proof.
  destruct (Rltb x y) eqn:E.
  - apply Rltb_true in E. apply Rltb_true. lra.
  - apply Rltb_false in E. apply Rltb_false. lra.
Qed.
Lemma Rltb_scale x y f : 0 < f -> Rltb (f * x) (f * y) = Rltb x y.
Proof.
  intros Hf. destruct (Rltb x y) eqn:E.
  - apply Rltb_true in E. apply Rltb_true. apply Rmult_lt_compat_l; assumption.
  - apply Rltb_false in E. apply Rltb_false. apply Rmult_le_compat_l; lra.
Qed.

Definition hit (a b p : ptR) : bool :=
  if negb (Bool.eqb (Rltb (snd p) (snd a)) (Rltb (snd p) (snd b)))
  then Rltb (fst p) (fst a + (fst b - fst a) * (snd p - snd a) / (snd b - snd a)) else false.
Lemma crossings_cons2 (a b : ptR) tl p :
  crossings OpsR (a :: b :: tl) p = xorb (hit a b p) (crossings OpsR (b :: tl) p).
Proof. reflexivity. Qed.

Lemma Rltb_iff x y x' y' : (x < y <-> x' < y') -> Rltb x y = Rltb x' y'.
Proof.
  intros H. destruct (Rltb x' y') eqn:E.
  - apply Rltb_true in E. apply Rltb_true. tauto.
  - apply Rltb_false in E. apply Rltb_false. destruct (Rle_or_lt y x) as [L|L]; [exact L|]. apply H in L. lra.
Qed.

(* C18: a point moved with the shape stays on the same side: translation *)
Theorem mem_translate dx dy : forall (l : list ptR) (p : ptR),
  inside OpsR (translate OpsR dx dy l) (fst p + dx, snd p + dy) = inside OpsR l p.
Proof.
  unfold inside, translate. induction l as [|a tl IH]; intros p; [reflexivity|].
  destruct tl as [|b tl']; [reflexivity|].
  cbn [map] in *. rewrite !crossings_cons2. f_equal; [clear IH|apply IH].
  unfold hit. opsg. cbn [fst snd]. rewrite !Rltb_shift.
  match goal with |- (if ?c then _ else _) = _ => destruct c eqn:S end; [|reflexivity].
  assert (Hne : snd b - snd a <> 0).
  { intros H0. assert (E : snd b = snd a) by lra. apply negb_true_iff, Bool.eqb_false_iff in S. apply S.
    f_equal. symmetry. exact E. }
  apply Rltb_iff.
  match goal with |- (_ < ?Y) <-> (_ < ?y) => assert (EY : Y = y + dx) by (field; exact Hne) end.
  split; intros L; lra.
Qed.

Lemma scale_x_lemma ox oy fx fy ax ay bx by_ py : by_ - ay <> 0 -> fy <> 0 ->
  (ox + fx*(ax-ox)) + ((ox+fx*(bx-ox)) - (ox+fx*(ax-ox))) * ((oy+fy*(py-oy)) - (oy+fy*(ay-oy))) / ((oy+fy*(by_-oy)) - (oy+fy*(ay-oy)))
  = fx * (ax + (bx-ax)*(py-ay)/(by_-ay)) + (ox - fx*ox).
Proof.
  intros H1 H2. field. split; [exact H1|].
  replace (oy + fy * (by_ - oy) - (oy + fy * (ay - oy))) with (fy * (by_ - ay)) by ring.
  apply Rmult_integral_contrapositive_currified; assumption.
Qed.

(* ... and scaling about any origin with positive factors *)
Theorem mem_scale ox oy fx fy : 0 < fx -> 0 < fy -> forall (l : list ptR) (p : ptR),
  inside OpsR (scale_about OpsR ox oy fx fy l) (ox + fx * (fst p - ox), oy + fy * (snd p - oy)) = inside OpsR l p.
Proof.
  intros Hx Hy. unfold inside, scale_about. induction l as [|a tl IH]; intros p; [reflexivity|].
  destruct tl as [|b tl']; [reflexivity|].
  cbn [map] in *. rewrite !crossings_cons2. f_equal; [clear IH|apply IH].
  unfold hit. opsg. cbn [fst snd].
  assert (Ey : forall s t, Rltb (oy + fy * (s - oy)) (oy + fy * (t - oy)) = Rltb s t).
  { intros s t. replace (oy + fy * (s - oy)) with (fy * s + (oy - fy * oy)) by ring.
    replace (oy + fy * (t - oy)) with (fy * t + (oy - fy * oy)) by ring.
    rewrite Rltb_shift. apply Rltb_scale. exact Hy. }
  rewrite !Ey.
  match goal with |- (if ?c then _ else _) = _ => destruct c eqn:S end; [|reflexivity].
  assert (Hne : snd b - snd a <> 0).
  { intros H0. assert (E : snd b = snd a) by lra. apply negb_true_iff, Bool.eqb_false_iff in S. apply S.
    f_equal. symmetry. exact E. }
  apply Rltb_iff.
  match goal with |- (_ < ?Y) <-> (_ < ?y) => assert (EY : Y = fx * y + (ox - fx * ox)) by (apply scale_x_lemma; [exact Hne|lra]) end.
  rewrite EY. clear EY.
  match goal with |- (_ + _ * (?x - _) < _ * ?y + _) <-> _ => generalize y; generalize x end. intros x y.
  replace (ox + fx * (x - ox)) with (fx * x + (ox - fx * ox)) by ring.
  split; intros L; [|assert (fx * x < fx * y) by (apply Rmult_lt_compat_l; assumption); lra].
  apply (Rmult_lt_reg_l fx); lra.
Qed.

(* C18: a point is inside a device exactly when it is inside the film and outside every hole (the device test as a
   definition over the crossing test), and this is preserved when device and point are translated together *)
Definition in_device (film : list ptR) (holes : list (list ptR)) (p : ptR) : bool :=
  inside OpsR film p && forallb (fun h => negb (inside OpsR h p)) holes.
Theorem in_device_translate dx dy film holes p :
  in_device (translate OpsR dx dy film) (map (translate OpsR dx dy) holes) (fst p + dx, snd p + dy)
  = in_device film holes p.
Proof.
  unfold in_device. rewrite mem_translate. f_equal.
  induction holes as [|h tl IH]; [reflexivity|]. cbn [map forallb]. rewrite mem_translate, IH. reflexivity.
Qed.
