(* C09: what a theorem can carry about reproducibility. *)
From Coq Require Import List Arith Bool Lia Permutation QArith.
From PyTdgl Require Import Model.Sched Model.Validate.
Import ListNotations.
Close Scope Q_scope.

Section PrangeP.
  Variable Row : Type.
  Variable body : nat -> Row.

  Lemma run_not_in order : forall (b0 : buffer Row) j, ~ In j order -> run_schedule Row body order b0 j = b0 j.
  Proof.
    induction order as [|i tl IH]; intros b0 j H; [reflexivity|]. cbn [run_schedule fold_left].
    change (fold_left (write Row body) tl (write Row body b0 i) j) with (run_schedule Row body tl (write Row body b0 i) j).
    rewrite IH by (intros Hin; apply H; right; exact Hin).
    unfold write. destruct (Nat.eqb_spec j i) as [->|]; [exfalso; apply H; left; reflexivity|reflexivity].
  Qed.

  Lemma run_in order : forall (b0 : buffer Row) j, In j order -> run_schedule Row body order b0 j = body j.
  Proof.
    induction order as [|i tl IH]; intros b0 j H; [destruct H|]. cbn [run_schedule fold_left].
    change (fold_left (write Row body) tl (write Row body b0 i) j) with (run_schedule Row body tl (write Row body b0 i) j).
    destruct (in_dec Nat.eq_dec j tl) as [Hin|Hout]; [apply IH; exact Hin|].
    rewrite run_not_in by exact Hout. destruct H as [->|H]; [|contradiction].
    unfold write. rewrite Nat.eqb_refl. reflexivity.
  Qed.

  (* every cell of the np.empty buffer is overwritten, whatever garbage it held and whatever the schedule *)
  Theorem buffer_fully_written n order b0 :
    (forall i, i < n -> In i order) -> forall i, i < n -> run_schedule Row body order b0 i = body i.
  Proof. intros H i Hi. apply run_in. apply H. exact Hi. Qed.

  (* any schedule (permutation of the iterations, even with repeated iterations) and any two initial
     buffers give the sequential result on all n rows *)
  Theorem prange_schedule_independent n order b0 b1 :
    (forall i, i < n -> In i order) ->
    forall i, i < n -> run_schedule Row body order b0 i = sequential Row body n b1 i.
  Proof.
    intros H i Hi. unfold sequential. rewrite !run_in; [reflexivity| |apply H; exact Hi].
    apply in_seq. lia.
  Qed.

  Corollary prange_permutation n order b0 :
    Permutation order (seq 0 n) -> forall i, i < n -> run_schedule Row body order b0 i = sequential Row body n b0 i.
  Proof.
    intros P. apply prange_schedule_independent. intros i Hi.
    apply (Permutation_in i (Permutation_sym P)). apply in_seq. lia.
  Qed.
End PrangeP.

(* the random sample times of validate_terminal_currents influence only accept/reject, and for a constant
   current function not even that *)
Theorem validation_rng_isolated (I : list Q) samples :
  samples <> [] -> accepts_td (fun _ => I) samples = accepts_currents I.
Proof.
  intros H. unfold accepts_td. induction samples as [|t tl IH]; [contradiction|].
  cbn [forallb]. destruct tl as [|t' tl'].
  - cbn. apply andb_true_r.
  - rewrite IH by discriminate. destruct (accepts_currents I); reflexivity.
Qed.

(* get_edges depends only on the multiset of triangle edges: reordering the triangles, or listing a
   triangle's vertices in another rotation / orientation, changes nothing *)
Lemma count_edge_perm p l1 l2 : Permutation l1 l2 -> count_edge p l1 = count_edge p l2.
Proof.
  intros P. unfold count_edge. induction P; cbn; auto.
  - destruct (pair_eqb p x); cbn; lia.
  - destruct (pair_eqb p x), (pair_eqb p y); cbn; lia.
  - lia.
Qed.

Theorem edges_canonical n ts1 ts2 :
  Permutation (raw_edges ts1) (raw_edges ts2) -> get_edges n ts1 = get_edges n ts2.
Proof.
  intros P. unfold get_edges. apply flat_map_ext. intros p.
  rewrite (count_edge_perm p _ _ P). reflexivity.
Qed.

Lemma raw_edges_perm ts1 ts2 : Permutation ts1 ts2 -> Permutation (raw_edges ts1) (raw_edges ts2).
Proof.
  intros P. unfold raw_edges. induction P; cbn.
  - constructor.
  - apply Permutation_app_head. exact IHP.
  - rewrite !app_assoc. apply Permutation_app_tail. apply Permutation_app_comm.
  - eapply Permutation_trans; eassumption.
Qed.

Lemma norm_edge_sym a b : norm_edge a b = norm_edge b a.
Proof.
  unfold norm_edge. destruct (Nat.leb_spec a b), (Nat.leb_spec b a); try reflexivity; try lia.
  assert (a = b) by lia. subst. reflexivity.
Qed.

Theorem edges_triangle_order n ts1 ts2 : Permutation ts1 ts2 -> get_edges n ts1 = get_edges n ts2.
Proof. intros P. apply edges_canonical. apply raw_edges_perm. exact P. Qed.

Theorem edges_vertex_rotation n a b c ts :
  get_edges n ((a, b, c) :: ts) = get_edges n ((b, c, a) :: ts) /\
  get_edges n ((a, b, c) :: ts) = get_edges n ((a, c, b) :: ts).
Proof.
  split; apply edges_canonical; unfold raw_edges; cbn [flat_map tri_edges]; apply Permutation_app_tail.
  - apply (Permutation_cons_append [norm_edge b c; norm_edge c a] (norm_edge a b)).
  - rewrite (norm_edge_sym a c), (norm_edge_sym c b), (norm_edge_sym b a).
    apply (Permutation_rev [norm_edge a b; norm_edge b c; norm_edge c a]).
Qed.
