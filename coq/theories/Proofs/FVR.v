(* Discrete calculus identities for the finite-volume operators (over R). *)
From Coq Require Import Reals Lra List Arith Lia Bool.
From PyTdgl Require Import Base.Ops Base.Cplx Base.Sums Model.FV.
Import ListNotations.
Open Scope R_scope.

Notation edgeR := (edge OpsR).
Notation applyR := (apply_coo OpsR).

Definition wf_edges (n : nat) (es : list edgeR) : Prop :=
  Forall (fun e => (e_i _ e < n)%nat /\ (e_j _ e < n)%nat) es.
Definition areas_nz (n : nat) (a : nat -> R) : Prop := forall i, (i < n)%nat -> a i <> 0.

Ltac ops := cbn [o_add o_sub o_mul o_div o_opp o_of_Z o_sqrt OpsR T] in *.

Lemma applyR_cons r' c x m v r :
  applyR ((r', c, x) :: m) v r = (if Nat.eqb r' r then x * v c else 0) + applyR m v r.
Proof. unfold apply_coo. cbn [fold_right]. ops. destruct (Nat.eqb r' r); lra. Qed.

Lemma applyR_nil v r : applyR [] v r = 0.
Proof. reflexivity. Qed.

Lemma applyR_app m1 m2 v r : applyR (m1 ++ m2) v r = applyR m1 v r + applyR m2 v r.
Proof.
  induction m1 as [|[[r' c] x] tl IH]; [rewrite applyR_nil; cbn [app]; lra|].
  cbn [app]. rewrite !applyR_cons, IH. lra.
Qed.

Section Ops.
  Variable a : nat -> R.

  (* -------- COO forms equal the per-edge (semantic) forms -------- *)
  Lemma div_coo_sem es : forall k F r,
    applyR (div_coo OpsR a k es) F r = div_sem OpsR a es (map F (seq k (length es))) r.
  Proof.
    induction es as [|e tl IH]; intros k F r; [reflexivity|].
    cbn [div_coo length seq map div_sem]. rewrite !applyR_cons, IH. ops.
    destruct (Nat.eqb (e_i _ e) r), (Nat.eqb (e_j _ e) r); lra.
  Qed.

  Lemma grad_coo_low es : forall k g q, (q < k)%nat -> applyR (grad_coo OpsR k es) g q = 0.
  Proof.
    induction es as [|e tl IH]; intros k g q H; [reflexivity|].
    cbn [grad_coo]. rewrite !applyR_cons, IH by lia.
    destruct (Nat.eqb_spec k q); [lia|]. lra.
  Qed.

  Lemma grad_list_cons e tl g :
    grad_list OpsR (e :: tl) g =
    ((1 / e_len _ e) * g (e_j _ e) + (- (1 / e_len _ e)) * g (e_i _ e)) :: grad_list OpsR tl g.
  Proof. reflexivity. Qed.

  Lemma grad_coo_rows es : forall k g,
    map (applyR (grad_coo OpsR k es) g) (seq k (length es)) = grad_list OpsR es g.
  Proof.
    induction es as [|e tl IH]; intros k g; [reflexivity|].
    rewrite grad_list_cons. cbn [grad_coo length seq map]. f_equal.
    - rewrite !applyR_cons, grad_coo_low by lia. rewrite Nat.eqb_refl. ops. lra.
    - rewrite <- (IH (S k) g). apply map_ext_in. intros q Hq. apply in_seq in Hq.
      rewrite !applyR_cons. destruct (Nat.eqb_spec k q); [lia|]. lra.
  Qed.

  Lemma lap_cons e tl g r :
    applyR (lap_coo OpsR a (e :: tl)) g r =
      (if Nat.eqb (e_i _ e) r then (lap_w OpsR e / a (e_i _ e)) * (g (e_j _ e) - g (e_i _ e)) else 0)
    + ((if Nat.eqb (e_j _ e) r then (lap_w OpsR e / a (e_j _ e)) * (g (e_i _ e) - g (e_j _ e)) else 0)
    + applyR (lap_coo OpsR a tl) g r).
  Proof.
    cbn [lap_coo]. rewrite !applyR_cons. ops.
    destruct (Nat.eqb (e_i _ e) r), (Nat.eqb (e_j _ e) r); unfold Rdiv; ring.
  Qed.

  (* C03 (1): Laplacian = divergence of gradient, entry by entry of the action *)
  Theorem lap_div_grad es g r :
    applyR (lap_coo OpsR a es) g r =
    applyR (div_coo OpsR a 0 es) (applyR (grad_coo OpsR 0 es) g) r.
  Proof.
    rewrite div_coo_sem, grad_coo_rows.
    induction es as [|e tl IH]; [reflexivity|].
    rewrite lap_cons, IH, grad_list_cons. cbn [div_sem]. unfold lap_w. ops.
    destruct (Nat.eqb (e_i _ e) r), (Nat.eqb (e_j _ e) r); unfold Rdiv; ring.
  Qed.

  (* -------- area-weighted sums -------- *)
  Lemma wsum_indicator n (i : nat) (h : nat -> R) (X : R) :
    (i < n)%nat ->
    Rsum (fun r => a r * h r * (if Nat.eqb i r then X else 0)) (seq 0 n) = a i * h i * X.
  Proof.
    intros Hi.
    rewrite (Rsum_ext _ (fun r => if Nat.eqb i r then a i * h i * X else 0)).
    - apply Rsum_indicator; [apply seq_NoDup|apply in_seq0; exact Hi].
    - intros r _. destruct (Nat.eqb_spec i r) as [->|]; lra.
  Qed.

  (* C03 (2): the area-weighted sum of the divergence of any edge field vanishes *)
  Theorem div_sum_zero n es F :
    wf_edges n es -> areas_nz n a ->
    Rsum (fun r => a r * applyR (div_coo OpsR a 0 es) F r) (seq 0 n) = 0.
  Proof.
    intros Hwf Ha.
    rewrite (Rsum_ext _ (fun r => a r * div_sem OpsR a es (map F (seq 0 (length es))) r))
      by (intros; rewrite div_coo_sem; reflexivity).
    generalize (map F (seq 0 (length es))) as Fs.
    induction es as [|e tl IH]; intros Fs.
    - cbn [div_sem]. ops. rewrite (Rsum_ext _ (fun _ => 0)) by (intros; lra). apply Rsum_zero.
    - destruct Fs as [|f fs].
      + cbn [div_sem]. ops. rewrite (Rsum_ext _ (fun _ => 0)) by (intros; lra). apply Rsum_zero.
      + inversion Hwf as [|? ? [Hi Hj] Hwf']; subst.
        cbn [div_sem]. ops.
        rewrite (Rsum_ext _ (fun r =>
           (a r * 1 * (if Nat.eqb (e_i _ e) r then e_dual _ e / a (e_i _ e) * f else 0)
          + a r * 1 * (if Nat.eqb (e_j _ e) r then - e_dual _ e / a (e_j _ e) * f else 0))
          + a r * div_sem OpsR a tl fs r)) by (intros; lra).
        rewrite !Rsum_plus, !wsum_indicator, IH by assumption.
        pose proof (Ha _ Hi). pose proof (Ha _ Hj). field. split; assumption.
  Qed.

  (* total flux of a boundary-edge field through the boundary-flux operator *)
  Fixpoint bflux_total (b : nat) (es : list edgeR) (f : nat -> R) : R :=
    match es with
    | [] => 0
    | e :: tl => if e_bdry _ e then e_len _ e * f b + bflux_total (S b) tl f else bflux_total b tl f
    end.

  (* C03 (3): the boundary-flux operator integrates to sum of edge length x flux *)
  Theorem boundary_flux_integral n es f :
    wf_edges n es -> areas_nz n a -> forall b,
    Rsum (fun r => a r * applyR (bflux_coo OpsR a b es) f r) (seq 0 n) = bflux_total b es f.
  Proof.
    intros Hwf Ha. induction es as [|e tl IH]; intros b.
    - cbn. rewrite (Rsum_ext _ (fun _ => 0)) by (intros; cbn; lra). apply Rsum_zero.
    - inversion Hwf as [|? ? [Hi Hj] Hwf']; subst.
      cbn [bflux_coo bflux_total]. destruct (e_bdry _ e); [|apply IH; assumption].
      rewrite (Rsum_ext _ (fun r =>
           (a r * 1 * (if Nat.eqb (e_i _ e) r then e_len _ e / (2 * a (e_i _ e)) * f b else 0)
          + a r * 1 * (if Nat.eqb (e_j _ e) r then e_len _ e / (2 * a (e_j _ e)) * f b else 0))
          + a r * applyR (bflux_coo OpsR a (S b) tl) f r)).
      + rewrite !Rsum_plus, !wsum_indicator, IH by assumption.
        pose proof (Ha _ Hi). pose proof (Ha _ Hj). field. split; assumption.
      + intros r _. rewrite !applyR_cons. ops. lra.
  Qed.

  (* discrete Green identity *)
  Theorem green n es f g :
    wf_edges n es -> areas_nz n a ->
    Rsum (fun r => a r * f r * applyR (lap_coo OpsR a es) g r) (seq 0 n)
    = - Rsum (fun e : edgeR => lap_w OpsR e * (f (e_j _ e) - f (e_i _ e)) * (g (e_j _ e) - g (e_i _ e))) es.
  Proof.
    intros Hwf Ha. induction es as [|e tl IH].
    - cbn. rewrite (Rsum_ext _ (fun _ => 0)) by (intros; cbn; lra). rewrite Rsum_zero. lra.
    - inversion Hwf as [|? ? [Hi Hj] Hwf']; subst.
      rewrite (Rsum_ext _ (fun r =>
          (a r * f r * (if Nat.eqb (e_i _ e) r then (lap_w OpsR e / a (e_i _ e)) * (g (e_j _ e) - g (e_i _ e)) else 0)
         + a r * f r * (if Nat.eqb (e_j _ e) r then (lap_w OpsR e / a (e_j _ e)) * (g (e_i _ e) - g (e_j _ e)) else 0))
         + a r * f r * applyR (lap_coo OpsR a tl) g r)) by (intros; rewrite lap_cons; lra).
      rewrite !Rsum_plus, !wsum_indicator, IH by assumption. cbn [Rsum].
      pose proof (Ha _ Hi). pose proof (Ha _ Hj). field. split; assumption.
  Qed.

  (* C03 (4a): the area-weighted scalar Laplacian is symmetric *)
  Theorem lap_symmetric n es f g :
    wf_edges n es -> areas_nz n a ->
    Rsum (fun r => a r * f r * applyR (lap_coo OpsR a es) g r) (seq 0 n)
    = Rsum (fun r => a r * g r * applyR (lap_coo OpsR a es) f r) (seq 0 n).
  Proof.
    intros Hwf Ha. rewrite !green by assumption. f_equal. apply Rsum_ext. intros; ring.
  Qed.

  (* C03 (4b): negative semi-definite *)
  Theorem lap_nsd n es g :
    wf_edges n es -> areas_nz n a -> (forall e, In e es -> 0 <= lap_w OpsR e) ->
    Rsum (fun r => a r * g r * applyR (lap_coo OpsR a es) g r) (seq 0 n) <= 0.
  Proof.
    intros Hwf Ha Hw. rewrite green by assumption.
    assert (0 <= Rsum (fun e : edgeR => lap_w OpsR e * (g (e_j _ e) - g (e_i _ e)) * (g (e_j _ e) - g (e_i _ e))) es).
    { apply Rsum_nonneg. intros e He. specialize (Hw e He).
      pose proof (Rle_0_sqr (g (e_j _ e) - g (e_i _ e))) as Hs. unfold Rsqr in Hs.
      rewrite Rmult_assoc. apply Rmult_le_pos; assumption. }
    lra.
  Qed.

  (* C03 (4c), C17: constants are annihilated (no hypothesis on the mesh at all) *)
  Theorem lap_const_zero es g r :
    (forall e, In e es -> g (e_i _ e) = g (e_j _ e)) -> applyR (lap_coo OpsR a es) g r = 0.
  Proof.
    induction es as [|e tl IH]; intros H; [reflexivity|].
    rewrite lap_cons, IH by (intros e' He'; apply H; right; exact He').
    rewrite (H e) by (left; reflexivity).
    destruct (Nat.eqb (e_i _ e) r), (Nat.eqb (e_j _ e) r); lra.
  Qed.

  (* connectivity through edges of positive weight *)
  Inductive conn (es : list edgeR) : nat -> nat -> Prop :=
  | conn_refl i : conn es i i
  | conn_edge e : In e es -> 0 < lap_w OpsR e -> conn es (e_i _ e) (e_j _ e)
  | conn_sym i j : conn es i j -> conn es j i
  | conn_trans i j k : conn es i j -> conn es j k -> conn es i k.

  (* C03 (4d): on a connected mesh the kernel is exactly the constants *)
  Theorem lap_kernel n es g :
    wf_edges n es -> areas_nz n a -> (forall e, In e es -> 0 <= lap_w OpsR e) ->
    (forall r, (r < n)%nat -> applyR (lap_coo OpsR a es) g r = 0) ->
    forall i j, conn es i j -> g i = g j.
  Proof.
    intros Hwf Ha Hw Hz.
    assert (Hsum : Rsum (fun e : edgeR => lap_w OpsR e * (g (e_j _ e) - g (e_i _ e)) * (g (e_j _ e) - g (e_i _ e))) es = 0).
    { pose proof (green n es g g Hwf Ha) as G.
      rewrite (Rsum_ext _ (fun _ => 0)) in G.
      - rewrite Rsum_zero in G. lra.
      - intros r Hr. apply in_seq in Hr. rewrite Hz by lia. lra. }
    assert (Hedge : forall e, In e es -> 0 < lap_w OpsR e -> g (e_i _ e) = g (e_j _ e)).
    { intros e He Hpos.
      assert (Hnn : forall e' : edgeR, In e' es ->
                0 <= lap_w OpsR e' * (g (e_j _ e') - g (e_i _ e')) * (g (e_j _ e') - g (e_i _ e'))).
      { intros e' He'. specialize (Hw e' He').
        pose proof (Rle_0_sqr (g (e_j _ e') - g (e_i _ e'))) as Hs. unfold Rsqr in Hs.
        rewrite Rmult_assoc. apply Rmult_le_pos; assumption. }
      pose proof (Rsum_nonneg_zero _ es Hnn Hsum e He) as Z.
      cbv beta in Z. rewrite Rmult_assoc in Z.
      apply Rmult_integral in Z. destruct Z as [Z|Z]; [lra|].
      apply Rmult_integral in Z. lra. }
    intros i j Hc. induction Hc as [i|e He Hp|i j _ IH|i j k _ IH1 _ IH2];
      [reflexivity|apply Hedge; assumption|symmetry; exact IH|rewrite IH1; exact IH2].
  Qed.

  (* C03 (6): the gradient is exact on linear functions *)
  Theorem grad_exact_linear (es : list edgeR) (x y : nat -> R) (ax ay b : R) :
    (forall e : edgeR, In e es -> e_dx _ e = x (e_j _ e) - x (e_i _ e) /\ e_dy _ e = y (e_j _ e) - y (e_i _ e)) ->
    grad_list OpsR es (fun i => ax * x i + ay * y i + b)
    = map (fun e : edgeR => (ax * e_dx _ e + ay * e_dy _ e) / e_len _ e) es.
  Proof.
    intros H. unfold grad_list. apply map_ext_in. intros e He. destruct (H e He) as [-> ->]. ops.
    unfold Rdiv. ring.
  Qed.
End Ops.
