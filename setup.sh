#!/bin/bash
# Build the Coq development from files on disk only (full .vo build), then audit it.
set -e
cd "$(dirname "$0")/coq"
coq_makefile -f _CoqProject -o Makefile > /dev/null
timeout 3000 make -j16 2>&1 | grep -v "^COQ\|^Axioms:\|^  \|^[A-Za-z.]*sig_\|functional_extensionality\|^Closed under\|: forall\|^    " | tail -20 || true
test -f theories/Props/C02.vo
# no Admitted / axioms of ours / disabled checks
cd .. && /venv/bin/python -c "
from harness import common
bad = common.forbidden_scan()
print('forbidden scan:', bad or 'clean')
raise SystemExit(1 if bad else 0)
"
