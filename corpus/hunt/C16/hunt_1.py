"""C16 candidate 1: the cache key of a time-dependent operand collides.

Putting a time-dependent Parameter into a CompositeParameter switches on its
value cache (CompositeParameter.__init__ sets operand._use_cache = True).
The key built by Parameter._hash_args uses hash(t) and the raw bytes of
x, y, z, so distinct arguments can share a key and the composite returns the
value computed for *other* arguments.
"""
import sys

import numpy as np

import tdgl
from tdgl import Parameter


def ft(x, y, *, t, a=1.0):
    return a * (x + 2 * y) * (1 + t)


def f2(x, y):
    return x - y


violations = []

# (a) hash(-1) == hash(-2) in CPython: t = -1 and t = -2 share a cache entry.
pt = Parameter(ft, time_dependent=True)
comp = pt * 2
got_m1 = comp(1.0, 1.0, t=-1.0)
got_m2 = comp(1.0, 1.0, t=-2.0)
want_m2 = ft(np.array([1.0]), np.array([1.0]), t=-2.0).item() * 2
print(f"(a) (pt*2)(1, 1, t=-1) = {got_m1}")
print(f"    (pt*2)(1, 1, t=-2) = {got_m2}   operands combined: {want_m2}")
if got_m2 != want_m2:
    violations.append("value at t=-2 is the cached value of t=-1")

# (b) the key ignores the shape of the points: the same points raveled and
#     as a grid share an entry, so the grid evaluation comes back flat and
#     can no longer be combined with the other operand.
pt = Parameter(ft, time_dependent=True)
p2 = Parameter(f2)
comp = pt + p2
X, Y = np.meshgrid(np.linspace(0, 1, 3), np.linspace(0, 1, 4))
flat = comp(X.ravel(), Y.ravel(), t=0.5)
want = ft(X, Y, t=0.5) + f2(X, Y)
try:
    grid = comp(X, Y, t=0.5)
    print(f"(b) grid evaluation shape {np.shape(grid)}, expected {want.shape}")
    if np.shape(grid) != want.shape or not np.allclose(grid, want):
        violations.append("grid evaluation differs from operands combined")
except ValueError as e:
    print(f"(b) (pt + p2)(X, Y, t=0.5) raised ValueError: {e}")
    violations.append("grid evaluation raises after a raveled evaluation")
# A fresh composite of the same operands gives the right answer:
fresh = Parameter(ft, time_dependent=True) + Parameter(f2)
print("    fresh composite, same call:", np.allclose(fresh(X, Y, t=0.5), want))

# (c) a list of strings among the keyword arguments sends the key
#     computation into infinite recursion: the operand evaluates, the
#     composite does not.
def fs(x, y, *, t, labels=None):
    return x * (1 + t)


ps = Parameter(fs, time_dependent=True, labels=["left", "right"])
print("(c) operand alone:", ps(2.0, 0.0, t=1.0))
try:
    print("    composite:", (Parameter(fs, time_dependent=True, labels=["left", "right"]) * 2)(2.0, 0.0, t=1.0))
except RecursionError:
    print("    composite: RecursionError")
    violations.append("composite with list-of-str kwarg cannot be evaluated")

print("VIOLATIONS:", violations)
sys.exit(1 if violations else 0)
