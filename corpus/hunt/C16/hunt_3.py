"""C16 candidate 3: equality ignores time dependence.

Parameter.__eq__ compares the function code and the keyword arguments only,
not `time_dependent`.  Two composites that differ in time dependence (and in
their values at t != 0) therefore compare equal.
"""
import sys

import tdgl
from tdgl import Parameter


def g(x, y, *, t=0.0):
    return x * (1 + t)


static = Parameter(g)  # always evaluated at the default t = 0
dynamic = Parameter(g, time_dependent=True)

A = static * 2
B = dynamic * 2
print("A.time_dependent, B.time_dependent:", A.time_dependent, B.time_dependent)
print("A(1, 1, t=3), B(1, 1, t=3):", A(1.0, 1.0, t=3.0), B(1.0, 1.0, t=3.0))
print("static == dynamic:", static == dynamic)
print("A == B:", A == B)

bad = (A == B) and (A.time_dependent != B.time_dependent)
print("VIOLATION" if bad else "ok")
sys.exit(1 if bad else 0)
