"""C16 candidate 2: equality between a Constant and a composite raises.

Parameter.__eq__(self, other) accepts any Parameter instance as `other` and
reads other.func, but a CompositeParameter never sets the `func` slot.
For a plain Parameter on the left Python tries CompositeParameter.__eq__
first (subclass priority) and the problem is hidden; with a tdgl.Constant
on the left (a sibling subclass) Parameter.__eq__ runs and raises.  The same
happens inside structural comparison of two composites.
"""
import sys

import tdgl
from tdgl import Constant, Parameter


def f2(x, y, a=1.0):
    return a * (x + 2 * y)


p = Parameter(f2)
inner = p * 2
violations = []

print("inner == Constant(2):", inner == Constant(2))
try:
    r = Constant(2) == inner
    print("Constant(2) == inner:", r)
    if r is not False:
        violations.append("wrong result")
except AttributeError as e:
    print("Constant(2) == inner raised AttributeError:", e)
    violations.append("Constant == CompositeParameter raises")

A = Constant(2) * p
B = inner * p
print("B == A:", B == A)
try:
    r = A == B
    print("A == B:", r)
    if r is not False:
        violations.append("wrong result")
except AttributeError as e:
    print("A == B raised AttributeError:", e)
    violations.append("composite == composite raises")

print("VIOLATIONS:", violations)
sys.exit(1 if violations else 0)
