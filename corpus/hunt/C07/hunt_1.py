"""C07 hunt, candidate 1.

Device.make_mesh() / Mesh.from_triangulation() refuse a perfectly valid
Delaunay triangulation whenever an *interior* site has two coincident Voronoi
vertices (four co-circular neighbouring sites, i.e. a dual edge of length 0).
This happens for plain documented primitives (a square box, a circle) with the
default settings, so no mesh - and hence no cell area / dual edge length at all
- is produced for these films.

Exit status 1 if the defect is present, 0 otherwise.
"""
import logging
import sys

import numpy as np
from scipy.spatial import Voronoi
from shapely.geometry import Polygon as ShapelyPolygon

import tdgl
from tdgl.finite_volume import Mesh
from tdgl.geometry import box, circle

logging.disable(logging.CRITICAL)


def is_delaunay_and_positive(points, triangles):
    """True if all triangles are CCW/non-degenerate and every interior edge is
    locally Delaunay (sum of the two opposite angles <= 180 degrees)."""
    p = points[triangles]
    a = 0.5 * (
        (p[:, 1, 0] - p[:, 0, 0]) * (p[:, 2, 1] - p[:, 0, 1])
        - (p[:, 1, 1] - p[:, 0, 1]) * (p[:, 2, 0] - p[:, 0, 0])
    )
    if (a <= 0).any():
        return False, a.sum()
    opp = {}
    for t in triangles:
        for k in range(3):
            i, j, o = t[k], t[(k + 1) % 3], t[(k + 2) % 3]
            opp.setdefault((min(i, j), max(i, j)), []).append(o)

    def angle(o, i, j):
        u, v = points[i] - points[o], points[j] - points[o]
        return np.arctan2(abs(u[0] * v[1] - u[1] * v[0]), u @ v)

    for (i, j), os_ in opp.items():
        if len(os_) == 2:
            if angle(os_[0], i, j) + angle(os_[1], i, j) > np.pi + 1e-9:
                return False, a.sum()
    return True, a.sum()


violations = 0
layer = tdgl.Layer(coherence_length=0.5, london_lambda=2, thickness=0.1)

cases = [
    ("box(4, 4, points=16), make_mesh() with defaults", box(4, 4, points=16), {}),
    ("box(4, 4, points=40), max_edge_length=0.35", box(4, 4, points=40), dict(max_edge_length=0.35)),
    ("circle(3, points=40), max_edge_length=1.0", circle(3, points=40), dict(max_edge_length=1.0)),
]
for label, pts, kwargs in cases:
    film = tdgl.Polygon("film", points=pts)
    device = tdgl.Device("dev", layer=layer, film=film)
    try:
        device.make_mesh(**kwargs)
    except ValueError as e:
        violations += 1
        print(f"[VIOLATION] {label}: make_mesh raised ValueError: {str(e)[:60]}...")
        # Show that the triangulation itself is a fine Delaunay mesh of the film.
        mel = kwargs.get("max_edge_length", 1.0 * layer.coherence_length)
        points, triangles = tdgl.generate_mesh(
            film.points, max_edge_length=mel, boundary=film.points
        )
        ok, area = is_delaunay_and_positive(points, triangles)
        print(
            f"    triangulation: {len(points)} sites, {len(triangles)} triangles, "
            f"positively oriented & locally Delaunay: {ok}, "
            f"sum of triangle areas {area:.12g} vs film area {film.area:.12g}"
        )
        # Find the interior site(s) with coincident circumcentres and show that
        # the true Voronoi cell is a perfectly ordinary convex polygon.
        m = Mesh.from_triangulation(points, triangles, create_submesh=False)
        cc = tdgl.finite_volume.util.generate_voronoi_vertices(points, triangles)
        vor = Voronoi(points)
        shown = 0
        for s in range(len(points)):
            if s in set(m.boundary_indices.tolist()):
                continue
            c = cc[[k for k, t in enumerate(triangles) if s in t]]
            uniq = np.unique(np.round(c, 12), axis=0)
            if len(uniq) < len(c) and shown < 1:
                region = vor.regions[vor.point_region[s]]
                ref = ShapelyPolygon(vor.vertices[region]).area
                hull_area, _ = tdgl.finite_volume.get_convex_polygon_area(uniq)
                print(
                    f"    interior site {s}: {len(c)} adjacent triangles, only "
                    f"{len(uniq)} distinct circumcentres; true Voronoi cell area "
                    f"{ref:.12g}, area of distinct circumcentres' polygon {hull_area:.12g}"
                )
                shown += 1
    else:
        print(f"[ok] {label}: mesh with {len(device.points)} sites")

# The same thing through Mesh.from_triangulation with the most ordinary Delaunay
# triangulation there is: a 3 x 3 array of unit squares, each cut along a diagonal.
n = 4
xs, ys = np.meshgrid(np.arange(n, dtype=float), np.arange(n, dtype=float))
sites = np.c_[xs.ravel(), ys.ravel()]
elements = []
for j in range(n - 1):
    for i in range(n - 1):
        a = j * n + i
        elements += [[a, a + 1, a + n + 1], [a, a + n + 1, a + n]]
elements = np.array(elements)
ok, area = is_delaunay_and_positive(sites, elements)
try:
    mesh = Mesh.from_triangulation(sites, elements)
    print("[ok] regular grid: areas", mesh.areas)
except ValueError as e:
    violations += 1
    print(
        f"[VIOLATION] regular 4x4 grid (Delaunay: {ok}, area {area}): "
        f"Mesh.from_triangulation raised ValueError: {str(e)[:50]}..."
    )
    print("    every interior site's Voronoi cell is simply the unit square (area 1).")

print(f"{violations} violation(s)")
sys.exit(1 if violations else 0)
