"""C07 hunt, candidate 2.

The mesh is stored in units of the coherence length, and Device.points /
edge_lengths / areas / terminal_info() multiply it back by the *current*
``device.layer.coherence_length``.  ``Layer.coherence_length`` is a plain public
attribute, so after ``device.layer.coherence_length = new_xi`` (the natural way
to study another coherence length on the same device) the mesh silently shrinks
or grows by new_xi/old_xi about the origin: it no longer tiles the film, its
boundary sites are no longer on the film outline, and the terminals lose their
sites (or, worse, pick up the wrong ones).  Nothing warns and nothing is rebuilt.

Exit status 1 if the defect is present, 0 otherwise.
"""
import logging
import sys

import numpy as np
from shapely.geometry import Point

import tdgl
from tdgl.geometry import box

logging.disable(logging.CRITICAL)


def report(device, label):
    pts, tri = device.points, device.triangles
    p = pts[tri]
    tri_area = 0.5 * (
        (p[:, 1, 0] - p[:, 0, 0]) * (p[:, 2, 1] - p[:, 0, 1])
        - (p[:, 1, 1] - p[:, 0, 1]) * (p[:, 2, 0] - p[:, 0, 0])
    ).sum()
    outline = device.film.polygon.exterior
    dist = max(outline.distance(Point(xy)) for xy in pts[device.mesh.boundary_indices])
    terms = {t.name: (len(t.site_indices), float(t.length)) for t in device.terminal_info()}
    print(
        f"{label}: xi={device.layer.coherence_length}: film area {device.film.area:.6g}, "
        f"sum of triangle areas {tri_area:.6g}, sum of cell areas {device.areas.sum():.6g}, "
        f"max distance of a mesh boundary site from the film outline {dist:.3g}, "
        f"terminals (sites, length): {terms}"
    )
    return tri_area, dist, terms


layer = tdgl.Layer(coherence_length=0.5, london_lambda=2, thickness=0.1)
film = tdgl.Polygon("film", points=box(10, 4, points=60))
source = tdgl.Polygon("source", points=box(0.2, 2, center=(-5, 0)))
drain = tdgl.Polygon("drain", points=box(0.2, 2, center=(5, 0)))
device = tdgl.Device("strip", layer=layer, film=film, terminals=[source, drain])
device.make_mesh(max_edge_length=0.7)

a0, d0, t0 = report(device, "as meshed      ")
assert abs(a0 - film.area) < 1e-9 and d0 < 1e-9

# Same device, another coherence length (all of this is public API).
device.layer.coherence_length = 0.25
a1, d1, t1 = report(device, "after xi change")

bad = abs(a1 - film.area) > 1e-6 * film.area or d1 > 1e-6
if bad:
    print(
        "[VIOLATION] after changing the coherence length the mesh no longer tiles "
        f"the film (area {a1:.6g} instead of {film.area:.6g}); its boundary sites are "
        f"up to {d1:.3g} away from the film outline; terminal sites: {t1}"
    )
sys.exit(1 if bad else 0)
