"""C07 hunt, candidate 3.

Device.boundary_sites() - the package's own statement of which mesh sites lie on
the film outline and on each hole outline - decides "on the outline" with a
hard-coded absolute tolerance radius=1e-6 *in length_units*.  For a device whose
coordinates are small numbers (a micron-sized film described in metres, a legal
``length_units``) that tolerance is as large as the
device, every boundary edge is "on" every outline, and the method dies with a
bare AssertionError (Solution.boundary_phases() uses it and dies too).  The very
same device described in microns works.  The mesh itself is fine in both cases.

Exit status 1 if the defect is present, 0 otherwise.
"""
import logging
import sys

import numpy as np
from shapely.geometry import Point

import tdgl
from tdgl.geometry import box, circle

logging.disable(logging.CRITICAL)


def build(units, s):
    """A 1 um x 0.6 um film with a 0.1 um-radius hole, coordinates in `units`."""
    layer = tdgl.Layer(coherence_length=0.05 * s, london_lambda=0.2 * s, thickness=0.01 * s)
    film = tdgl.Polygon("film", points=box(1.0 * s, 0.6 * s, points=40))
    hole = tdgl.Polygon("hole", points=circle(0.1 * s, points=12, center=(0.2 * s, 0)))
    device = tdgl.Device("dev", layer=layer, film=film, holes=[hole], length_units=units)
    device.make_mesh(max_edge_length=0.08 * s)
    return device


def expected(device, s):
    """Boundary sites per outline, by distance with a tolerance relative to the size."""
    pts = device.points
    out = {}
    for poly in [device.film] + device.holes:
        ring = poly.polygon.exterior
        out[poly.name] = sorted(
            int(i) for i in device.mesh.boundary_indices if ring.distance(Point(pts[i])) < 1e-9 * s
        )
    return out


violations = 0
for units, s in [("um", 1.0), ("mm", 1e-3), ("m", 1e-6)]:
    device = build(units, s)
    exp = expected(device, s)
    n_exp = {k: len(v) for k, v in exp.items()}
    assert sum(n_exp.values()) == len(device.mesh.boundary_indices)
    try:
        got = device.boundary_sites()
    except AssertionError as e:
        violations += 1
        print(
            f"[VIOLATION] length_units={units!r}: {len(device.points)} sites, mesh boundary "
            f"sites per outline should be {n_exp}, but Device.boundary_sites() raised "
            f"AssertionError({e})"
        )
        continue
    same = all(sorted(int(i) for i in got[k]) == exp[k] for k in exp)
    print(
        f"[{'ok' if same else 'VIOLATION'}] length_units={units!r}: boundary_sites() -> "
        f"{ {k: len(v) for k, v in got.items()} }, expected {n_exp}"
    )
    violations += not same

print(f"{violations} violation(s)")
sys.exit(1 if violations else 0)
