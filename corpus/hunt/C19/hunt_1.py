"""C19 hunt 1: time-dependent terminal currents that are unbalanced at some times
are accepted, simulated and written to disk.

The property requires unbalanced terminal currents to be rejected "at any time for
time-dependent ones".  validate_terminal_currents() only evaluates a callable at 100
random times drawn from (0, max(solve_time, skip_time)); it never evaluates t = 0
(which the solver itself always evaluates, at step 0 of every stage) and it misses
any short interval with high probability.  update_mu_boundary(), which consumes the
currents during the run, performs no check at all.

Exit status 1 if the violation is present, 0 otherwise.
"""
import logging
import os
import sys
import tempfile

import numpy as np

import tdgl
from tdgl.geometry import box

logging.disable(logging.WARNING)


def make_device():
    layer = tdgl.Layer(london_lambda=2, coherence_length=0.5, thickness=0.1, gamma=1)
    film = tdgl.Polygon("film", points=box(6, 4))
    source = tdgl.Polygon("source", points=box(0.1, 4)).translate(-3, 0)
    drain = tdgl.Polygon("drain", points=box(0.1, 4)).translate(3, 0)
    device = tdgl.Device(
        "dev",
        layer=layer,
        film=film,
        terminals=[source, drain],
        probe_points=[(-2, 0), (2, 0)],
    )
    device.make_mesh(max_edge_length=0.5)
    return device


def attempt(device, label, currents, outdir, with_path, **opt_kw):
    """Returns True if the ill-posed problem was accepted (violation)."""
    calls = []

    def recorded(t):
        value = currents(t)
        calls.append((float(t), sum(value.values())))
        return value

    path = os.path.join(outdir, f"{label}.h5") if with_path else None
    options = tdgl.SolverOptions(
        solve_time=2.0, output_file=path, progress_interval=10**9, **opt_kw
    )
    try:
        solution = tdgl.solve(device, options, terminal_currents=recorded)
        error = None
    except ValueError as e:
        solution = None
        error = e
    unbalanced = [(t, s) for t, s in calls if s != 0]
    files = sorted(os.listdir(outdir))
    print(f"[{label}] with_path={with_path}")
    print(f"    error raised        : {error!r}")
    print(f"    solution returned   : {solution is not None}")
    print(f"    evaluations         : {len(calls)}, of which unbalanced: {len(unbalanced)}")
    if unbalanced:
        print(f"    unbalanced evals    : {unbalanced[:3]}")
    print(f"    files in output dir : {files}")
    return error is None and solution is not None and len(unbalanced) > 0


def main():
    device = make_device()
    print(f"mesh sites: {len(device.mesh.sites)}")
    violations = 0

    # (a) Gross imbalance (the drain carries nothing at all) at the instant t = 0 only,
    #     e.g. a drain that is switched on "after" t = 0 while the source is on "from" t = 0.
    def at_zero(t):
        return {"source": 1.0, "drain": -1.0 if t > 0 else 0.0}

    # (b) Gross imbalance during a short start-up transient 0 <= t < 1e-4 (5e-5 of the
    #     simulated interval): the solver is certain to evaluate it (t = 0), the validation
    #     sees it with probability 1 - (1 - 5e-5)**100 = 0.5 %.
    def transient(t):
        return {"source": 1.0, "drain": -1.0 if t >= 1e-4 else -0.5}

    # (c) One part in 1e6, same transient.
    def transient_small(t):
        return {"source": 1.0, "drain": -1.0 if t >= 1e-4 else -1.0 + 1e-6}

    # (d) With thermalisation (skip_time): t = 0 is evaluated twice.
    for label, func, kw in [
        ("a_t_equals_0", at_zero, {}),
        ("b_transient", transient, {}),
        ("c_transient_1e-6", transient_small, {}),
        ("d_skip_time", at_zero, {"skip_time": 1.0}),
    ]:
        for with_path in (True, False):
            with tempfile.TemporaryDirectory() as outdir:
                if attempt(device, label, func, outdir, with_path, **kw):
                    violations += 1

    # Control: the same imbalance, constant in time, is rejected.
    with tempfile.TemporaryDirectory() as outdir:
        try:
            tdgl.solve(
                device,
                tdgl.SolverOptions(solve_time=2.0, output_file=os.path.join(outdir, "c.h5")),
                terminal_currents={"source": 1.0, "drain": 0.0},
            )
            print("control (constant imbalance): accepted ?!")
        except ValueError as e:
            print(f"control (constant imbalance): rejected with {e!r}, files={os.listdir(outdir)}")

    print(f"violations: {violations}")
    return 1 if violations else 0


if __name__ == "__main__":
    sys.exit(main())
