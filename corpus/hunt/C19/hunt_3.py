"""C19 hunt 3: unusable solver options are not caught by SolverOptions.validate();
the problem is rejected only after the output file has been created, and the file
(holding the mesh and the device, but no solve step) is left behind.

The property says that inconsistent solver options are rejected before any output is
produced and that a rejected problem leaves no output or temporary file behind.
SolverOptions.validate() checks dt_init/dt_max, terminal_psi, the screening parameters
and the sparse solver *name*, but not save_every, and it lets a sparse_solver that is
neither a string nor a SparseSolver through.  The resulting errors are raised inside
`with DataHandler(...)` in TDGLSolver.solve(), and DataHandler.__exit__ closes the
output file without removing it.

Exit status 1 if the violation is present, 0 otherwise.
"""
import logging
import os
import sys
import tempfile

import h5py

import tdgl
from tdgl.geometry import box

logging.disable(logging.CRITICAL)


def make_device():
    layer = tdgl.Layer(london_lambda=2, coherence_length=0.5, thickness=0.1, gamma=1)
    film = tdgl.Polygon("film", points=box(6, 4))
    source = tdgl.Polygon("source", points=box(0.1, 4)).translate(-3, 0)
    drain = tdgl.Polygon("drain", points=box(0.1, 4)).translate(3, 0)
    device = tdgl.Device(
        "dev",
        layer=layer,
        film=film,
        terminals=[source, drain],
        probe_points=[(-2, 0), (2, 0)],
    )
    device.make_mesh(max_edge_length=0.5)
    return device


def main():
    device = make_device()
    violations = 0
    cases = [
        ("save_every=0", dict(save_every=0)),
        ("save_every=-1", dict(save_every=-1)),
        ("sparse_solver=None", dict(sparse_solver=None)),
        # control: an inconsistency that validate() does know about
        ("control dt_init>dt_max", dict(dt_init=1e-2, dt_max=1e-3)),
    ]
    for label, kw in cases:
        with tempfile.TemporaryDirectory() as outdir:
            path = os.path.join(outdir, "out.h5")
            options = tdgl.SolverOptions(
                solve_time=1.0, output_file=path, progress_interval=10**9, **kw
            )
            try:
                tdgl.solve(
                    device, options, terminal_currents=dict(source=1.0, drain=-1.0)
                )
                error = None
            except Exception as e:
                error = e
            files = sorted(os.listdir(outdir))
            content = None
            if os.path.exists(path):
                with h5py.File(path, "r") as f:
                    content = {k: (list(f[k].keys()) if isinstance(f[k], h5py.Group) else f[k].shape) for k in f.keys()}
            print(f"[{label}]")
            print(f"    rejected with : {error!r}")
            print(f"    files left    : {files}")
            print(f"    file content  : {content}")
            if error is not None and files and not label.startswith("control"):
                violations += 1
    print(f"violations: {violations}")
    return 1 if violations else 0


if __name__ == "__main__":
    sys.exit(main())
