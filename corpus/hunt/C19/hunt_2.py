"""C19 hunt 2: a time-dependent disorder_epsilon that rises above 1 is accepted,
simulated and written to disk.

TDGLSolver.__init__ checks `epsilon > 1` only for the values at t = 0.  For a
time-dependent epsilon (documented: "a function that returns epsilon <= 1 as a function
of position r=(x, y) or position and time (x, y, *, t)") update_epsilon() re-evaluates
the function at every step and never checks the bound again, so epsilon above 1 -- gross
or by one part in 1e6 -- is simulated and saved.  The same function frozen at its later
value is rejected, so the package itself regards the problem as ill-posed.

Exit status 1 if the violation is present, 0 otherwise.
"""
import logging
import os
import sys
import tempfile

import numpy as np

import tdgl
from tdgl.geometry import box, circle

logging.disable(logging.WARNING)


def make_device(hole):
    layer = tdgl.Layer(london_lambda=2, coherence_length=0.5, thickness=0.1, gamma=1)
    film = tdgl.Polygon("film", points=box(6, 4))
    holes = [tdgl.Polygon("hole", points=circle(0.7, points=20))] if hole else []
    device = tdgl.Device("dev", layer=layer, film=film, holes=holes)
    device.make_mesh(max_edge_length=0.5)
    return device


def main():
    violations = 0
    for hole in (False, True):
        device = make_device(hole)
        for excess in (1.0, 1e-6):

            def epsilon(r, *, t, excess=excess):
                # fine at t = 0, above 1 for t >= 0.25
                return 1.0 if t < 0.25 else 1.0 + excess

            def epsilon_frozen(r, excess=excess):
                return 1.0 + excess

            for with_path in (True, False):
                with tempfile.TemporaryDirectory() as outdir:
                    path = os.path.join(outdir, "out.h5") if with_path else None
                    options = tdgl.SolverOptions(
                        solve_time=1.0,
                        output_file=path,
                        save_every=20,
                        progress_interval=10**9,
                    )
                    try:
                        solution = tdgl.solve(device, options, disorder_epsilon=epsilon)
                        error = None
                    except ValueError as e:
                        solution, error = None, e
                    max_eps = None
                    if solution is not None:
                        # epsilon stored with the final saved step
                        max_eps = float(np.max(solution.tdgl_data.epsilon))
                    files = sorted(os.listdir(outdir))
                    # control: the time-independent version of the same epsilon
                    try:
                        tdgl.solve(device, options, disorder_epsilon=epsilon_frozen)
                        control = "accepted"
                    except ValueError as e:
                        control = f"rejected ({e})"
                    print(
                        f"hole={hole} excess={excess:g} with_path={with_path}: "
                        f"error={error!r}, solution={solution is not None}, "
                        f"final saved epsilon - 1 = {(np.nan if max_eps is None else max_eps - 1):.3g}, "
                        f"files={files}; constant control: {control}"
                    )
                    if error is None and solution is not None:
                        violations += 1
    print(f"violations: {violations}")
    return 1 if violations else 0


if __name__ == "__main__":
    sys.exit(main())
