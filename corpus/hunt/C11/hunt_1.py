"""C11, resume clause: a run driven by a time-dependent applied vector potential
cannot be resumed bit for bit (or even approximately) from its saved final state.

The drive A(t) is exactly periodic with period 1 (t % 1.0 with dt = 2**-6, so all
times are exact binary fractions and A(t + 1) == A(t) bit for bit).  The run is
split after exactly one period, T1 = 1, so "the same drive" restarted at t = 0 is
literally the same function of time as the drive of the uninterrupted run at t >= 1.

Uninterrupted: solve_time = 1.25 (80 steps).
Split:         solve_time = 1.0 (64 steps), then seed_solution=<that>, solve_time=0.25.
Frame k of the resumed run must equal frame 64 + k of the uninterrupted run.

A control with a static field of the same size (and the same harness) passes.
"""
import logging
import os
import sys
import tempfile

import h5py
import numpy as np

import tdgl
from tdgl.geometry import box, circle

logging.disable(logging.CRITICAL)

DT = 2.0**-6
FIELDS = ("psi", "mu", "supercurrent", "normal_current", "induced_vector_potential")


def make_device():
    layer = tdgl.Layer(coherence_length=0.5, london_lambda=2, thickness=0.1, gamma=1)
    film = tdgl.Polygon("film", points=box(6, 4))
    hole = tdgl.Polygon("hole", points=circle(0.6, points=20))
    device = tdgl.Device("dev", layer=layer, film=film, holes=[hole], length_units="um")
    device.make_mesh(max_edge_length=0.45, smooth=10)
    return device


def A_ac(x, y, z, *, t):
    # uniform AC field, period exactly 1 (dimensionless time)
    B = 0.5 * np.sin(2 * np.pi * (t % 1.0) + 0.3)
    return np.stack([-B * y / 2, B * x / 2, 0 * x], axis=1)


def frames(path):
    out = {}
    with h5py.File(path, "r") as f:
        for key in f["data"]:
            grp = f["data"][key]
            out[int(grp.attrs["step"])] = {n: np.array(grp[n]) for n in FIELDS}
    return out


def experiment(device, drive, tmp, tag):
    def run(T, name, seed=None):
        options = tdgl.SolverOptions(
            solve_time=T,
            dt_init=DT,
            adaptive=False,
            save_every=1,
            output_file=os.path.join(tmp, f"{tag}-{name}.h5"),
        )
        return tdgl.solve(
            device, options, applied_vector_potential=drive, seed_solution=seed
        )

    full = run(1.25, "full")
    first = run(1.0, "first")
    n1 = int(first.tdgl_data.state["step"])
    resumed = run(0.25, "resumed", seed=first)
    f_full, f_res = frames(full.path), frames(resumed.path)
    worst = {}
    nbad = 0
    for k, frame in sorted(f_res.items()):
        ref = f_full[n1 + k]
        for name in FIELDS:
            if not np.array_equal(ref[name], frame[name]):
                nbad += 1
                err = float(np.max(np.abs(ref[name] - frame[name])))
                worst[name] = max(worst.get(name, 0.0), err)
    print(
        f"[{tag}] first part ended at step {n1}; compared {len(f_res)} resumed frames"
        f" with frames {n1}..{n1 + max(f_res)} of the uninterrupted run:"
        f" {nbad} (frame, field) pairs differ"
    )
    for name, err in worst.items():
        print(f"[{tag}]    max |difference| in {name}: {err:.3e}")
    return nbad


def main():
    device = make_device()
    print("mesh sites:", len(device.mesh.sites))
    with tempfile.TemporaryDirectory() as tmp:
        control = experiment(device, 0.5, tmp, "static-field control")
        drive = tdgl.Parameter(A_ac, time_dependent=True)
        bad = experiment(device, drive, tmp, "periodic A(t)")
    if control:
        print("control failed - harness problem")
        return 2
    if bad:
        print(
            "VIOLATION: resuming from the saved final state with the same (periodic)"
            " drive does not reproduce the uninterrupted run."
        )
        return 1
    print("no violation")
    return 0


if __name__ == "__main__":
    sys.exit(main())
