"""C11, recording-configuration clause (output destination): the same physics input
run with output_file=None finishes immediately, but with an output path that has no
file extension and lies in a sub-directory (e.g. "results/run1") tdgl.solve() never
starts the simulation: DataHandler._create_output_file() spins forever.

The child process below uses only the public API.  The parent only acts as a watchdog.
"""
import os
import subprocess
import sys
import tempfile

CHILD = r"""
import logging, sys
import tdgl
from tdgl.geometry import box
logging.disable(logging.CRITICAL)
layer = tdgl.Layer(coherence_length=0.5, london_lambda=2, thickness=0.1, gamma=1)
device = tdgl.Device("dev", layer=layer, film=tdgl.Polygon("film", points=box(4, 3)))
device.make_mesh(max_edge_length=0.5, smooth=5)
output_file = sys.argv[1] if sys.argv[1] != "None" else None
options = tdgl.SolverOptions(solve_time=0.1, dt_init=0.01, adaptive=False,
                             save_every=5, output_file=output_file)
solution = tdgl.solve(device, options, applied_vector_potential=0.2)
print("finished:", output_file, "->", solution.path, "final step", solution.tdgl_data.state["step"])
"""


def run(workdir, output_file, timeout):
    env = dict(os.environ)
    here = os.path.dirname(os.path.abspath(__file__))
    env["PYTHONPATH"] = here + os.pathsep + env.get("PYTHONPATH", "")
    try:
        proc = subprocess.run(
            [sys.executable, "-c", CHILD, str(output_file)],
            cwd=workdir, env=env, timeout=timeout,
            stdout=subprocess.PIPE, stderr=subprocess.DEVNULL, text=True,
        )
    except subprocess.TimeoutExpired:
        return None
    return proc.stdout.strip().splitlines()[-1] if proc.stdout.strip() else f"rc={proc.returncode}"


def main():
    hung = []
    with tempfile.TemporaryDirectory() as workdir:
        for output_file in [None, "results/run1.h5", "results/run1"]:
            result = run(workdir, output_file, timeout=90)
            if result is None:
                print(f"output_file={output_file!r}: NO RESULT after 90 s (hangs; killed)")
                hung.append(output_file)
            else:
                print(f"output_file={output_file!r}: {result}")
        print("files created:", sorted(
            os.path.relpath(os.path.join(r, f), workdir)
            for r, _, fs in os.walk(workdir) for f in fs))
    if hung:
        print("VIOLATION: the simulation never runs for output destination(s)", hung)
        return 1
    print("no violation")
    return 0


if __name__ == "__main__":
    sys.exit(main())
