"""C11 ("the trajectory depends only on the physics"), weakest candidate:
calling solve() a second time on the same public tdgl.TDGLSolver object - same device,
same drive, same options, only the output destination differs - produces a different
trajectory, because the adaptive-step history (d_psi_sq_vals, tentative_dt) and, for a
time-dependent vector potential, current_A_applied survive from the first call.

Frames carrying the same step label differ between the two calls, and the second call
even takes a different number of steps.  A fresh solver reproduces the first call.
"""
import logging
import os
import sys
import tempfile

import h5py
import numpy as np

import tdgl
from tdgl.geometry import box

logging.disable(logging.CRITICAL)
FIELDS = ("psi", "mu", "supercurrent", "normal_current")


def frames(path):
    out = {}
    with h5py.File(path, "r") as f:
        for key in f["data"]:
            grp = f["data"][key]
            out[int(grp.attrs["step"])] = {n: np.array(grp[n]) for n in FIELDS}
            out[int(grp.attrs["step"])]["time"] = float(grp.attrs["time"])
    return out


def differing(fa, fb):
    bad = []
    for step in sorted(set(fa) & set(fb)):
        if any(not np.array_equal(fa[step][n], fb[step][n]) for n in FIELDS):
            bad.append(step)
    return bad


def main():
    layer = tdgl.Layer(coherence_length=0.5, london_lambda=2, thickness=0.1, gamma=1)
    film = tdgl.Polygon("film", points=box(6, 4))
    terminals = [
        tdgl.Polygon("source", points=box(0.1, 3)).translate(dx=-3),
        tdgl.Polygon("drain", points=box(0.1, 3)).translate(dx=3),
    ]
    device = tdgl.Device(
        "dev", layer=layer, film=film, terminals=terminals,
        probe_points=[(-2, 0), (2, 0)],
    )
    device.make_mesh(max_edge_length=0.45, smooth=10)
    kwargs = dict(applied_vector_potential=0.3, terminal_currents=dict(source=5, drain=-5))

    with tempfile.TemporaryDirectory() as tmp:
        def options(name):
            # default adaptive stepping
            return tdgl.SolverOptions(
                solve_time=0.5, dt_init=1e-3, save_every=5,
                output_file=os.path.join(tmp, name),
            )

        solver = tdgl.TDGLSolver(device, options("first.h5"), **kwargs)
        first = solver.solve()
        solver.options.output_file = os.path.join(tmp, "second.h5")
        second = solver.solve()
        fresh = tdgl.TDGLSolver(device, options("fresh.h5"), **kwargs).solve()
        f1, f2, f3 = frames(first.path), frames(second.path), frames(fresh.path)

    print("first call : last step", max(f1), "final time", f1[max(f1)]["time"])
    print("second call: last step", max(f2), "final time", f2[max(f2)]["time"])
    print("fresh      : last step", max(f3), "final time", f3[max(f3)]["time"])
    bad_fresh = differing(f1, f3)
    bad_second = differing(f1, f2)
    print("step labels whose frames differ, first vs fresh solver:", bad_fresh)
    print("step labels whose frames differ, first vs second call :", bad_second)
    if bad_fresh:
        print("harness problem: a fresh solver does not reproduce the first call")
        return 2
    if bad_second or max(f1) != max(f2):
        print("VIOLATION: the second solve() of the same solver follows a different trajectory")
        return 1
    print("no violation")
    return 0


if __name__ == "__main__":
    sys.exit(main())
