"""hunt_1: Polygon.buffer(distance > 0) does not inflate the polygon.

Docstring of Polygon.buffer: "If ``distance > 0`` this "inflates" the polygon, and
if ``distance < 0`` this shrinks the polygon."

With the default arguments (single_sided=True) a positive distance either returns
the polygon unchanged or raises "Expected a simply-connected polygon".
A consequence: tdgl.make_fluxoid_polygons() (documented as "polygons enclosing the
given holes") returns a loop that coincides with the hole boundary.

Exit status 1 if the violation is present, 0 otherwise.
"""
import sys

import numpy as np

import tdgl
from tdgl.geometry import box, circle

violations = []

# --- 1. small positive distance: silently a no-op -------------------------------
unit = tdgl.Polygon("unit", points=circle(1.0, points=100))
d = 0.05
grown = unit.buffer(d)
expected_area = np.pi * (1 + d) ** 2
print(f"circle r=1: area={unit.area:.4f}; buffer(+{d}).area={grown.area:.4f}; "
      f"expected about {expected_area:.4f}")
print(f"  bbox before {unit.bbox}\n  bbox after  {grown.bbox}")
probe = np.array([[1.0 + d / 2, 0.0]])  # within d of the boundary, outside the original
print(f"  probe {probe[0]} in original: {unit.contains_points(probe)[0]}, "
      f"in buffered: {grown.contains_points(probe)[0]} (expected True)")
if not grown.area > unit.area * (1 + d):
    violations.append("buffer(+0.05) of the unit circle did not increase the area")
if not grown.contains_points(probe)[0]:
    violations.append("buffer(+0.05) does not contain a point 0.025 outside the original")

rect = tdgl.Polygon("rect", points=box(4, 2))
grown = rect.buffer(0.5)
print(f"box 4x2: area={rect.area:.4f}; buffer(+0.5).area={grown.area:.4f}; expected 15; "
      f"bbox after {grown.bbox}")
if not grown.area > rect.area:
    violations.append("buffer(+0.5) of a 4x2 box did not increase the area")

# --- 2. larger positive distance: raises ---------------------------------------
try:
    g = unit.buffer(0.5)
    print(f"circle r=1: buffer(+0.5).area={g.area:.4f} (expected about {np.pi*1.5**2:.4f})")
    if not g.area > 6.5:
        violations.append("buffer(+0.5) of the unit circle did not inflate it")
except ValueError as e:
    print(f"circle r=1: buffer(+0.5) raised ValueError: {e}")
    violations.append("buffer(+0.5) of the unit circle raises ValueError")

# negative distances do work, and so does single_sided=False
print(f"circle r=1: buffer(-0.05).area={unit.buffer(-0.05).area:.4f} "
      f"(expected about {np.pi*0.95**2:.4f})")
print(f"circle r=1: buffer(+0.05, single_sided=False).area="
      f"{unit.buffer(0.05, single_sided=False).area:.4f}")

# --- 3. consequence: fluxoid polygons do not enclose the hole -------------------
layer = tdgl.Layer(london_lambda=1, coherence_length=1, thickness=0.1)
film = tdgl.Polygon("film", points=box(10, 10, points=40))
hole = tdgl.Polygon("hole", points=circle(1.0, points=40))
device = tdgl.Device("ring", layer=layer, film=film, holes=[hole])
# The loop should lie half way between the hole (r=1) and the film edge (|x|=5), i.e. r~3.
try:
    loop = tdgl.Polygon("loop", points=tdgl.make_fluxoid_polygons(device)["hole"])
    r = np.linalg.norm(loop.points, axis=1)
    print(f"fluxoid loop for a r=1 hole in a 10x10 film: radius range "
          f"[{r.min():.3f}, {r.max():.3f}] (expected about 3), "
          f"area {loop.area:.3f} vs hole {hole.area:.3f}")
    if not r.min() > 1.5:
        violations.append("make_fluxoid_polygons loop coincides with the hole boundary")
except ValueError as e:
    print(f"make_fluxoid_polygons(device) for a r=1 hole in a 10x10 film raised ValueError: {e}")
    violations.append("make_fluxoid_polygons raises because hole.buffer(+2) raises")
# A hole close to the film edge (small delta) gives the silent variant.
hole2 = tdgl.Polygon("hole", points=circle(1.0, points=40, center=(3.8, 0)))
device2 = tdgl.Device("ring2", layer=layer, film=film, holes=[hole2])
loop = tdgl.Polygon("loop", points=tdgl.make_fluxoid_polygons(device2)["hole"])
r = np.linalg.norm(loop.points - np.array([[3.8, 0]]), axis=1)
print(f"fluxoid loop for a r=1 hole 0.2 from the film edge: radius range "
      f"[{r.min():.3f}, {r.max():.3f}] (expected about 1.1)")
if not r.min() > 1.05:
    violations.append("make_fluxoid_polygons loop coincides with the hole boundary")

print()
if violations:
    print("VIOLATION:")
    for v in violations:
        print("  -", v)
    sys.exit(1)
print("no violation")
sys.exit(0)
