"""hunt_3: chained union / difference fail for operands whose overall result is a
perfectly good simply-connected polygon, depending only on the operand order.

Clause: "union, intersection and difference agree with point-wise membership of
their operands ... for all pairs and short chains of set operations".

Polygon.union(*others) / difference(*others) / from_union(items) / from_difference(items)
fold the operands one at a time and validate every *intermediate* result as a
simply-connected tdgl.Polygon.  If an intermediate result is disconnected (union)
or has a hole (difference) a ValueError is raised, although the result of the
whole chain is a valid simple polygon.  The same operands in another order work.

Exit status 1 if the violation is present, 0 otherwise.
"""
import sys

import numpy as np

import tdgl
from tdgl.geometry import box

rng = np.random.default_rng(0)
violations = []

# ---- union: two pads joined by a bridge -----------------------------------------
left = tdgl.Polygon("left", points=box(2, 2, points=8, center=(-2, 0)))
right = tdgl.Polygon("right", points=box(2, 2, points=8, center=(2, 0)))
bridge = tdgl.Polygon("bridge", points=box(3, 0.5, points=8, center=(0, 0)))

q = rng.uniform(-4, 4, size=(4000, 2))
expected = left.contains_points(q) | right.contains_points(q) | bridge.contains_points(q)

ok = left.union(bridge, right)
print("left.union(bridge, right): area", round(ok.area, 6),
      "membership agrees:", np.array_equal(ok.contains_points(q), expected))
for label, call in [
    ("left.union(right, bridge)", lambda: left.union(right, bridge)),
    ("Polygon.from_union([left, right, bridge])",
     lambda: tdgl.Polygon.from_union([left, right, bridge], name="dumbbell")),
]:
    try:
        res = call()
        agrees = np.array_equal(res.contains_points(q), expected)
        print(f"{label}: area {res.area:.6f}, membership agrees: {agrees}")
        if not agrees:
            violations.append(label + " disagrees with point-wise membership")
    except ValueError as e:
        print(f"{label}: ValueError: {e}")
        violations.append(label + " raises although the union is a simple polygon")

# ---- difference: a slot cut in two steps ----------------------------------------
plate = tdgl.Polygon("plate", points=box(6, 6, points=8))
window = tdgl.Polygon("window", points=box(2, 2, points=8))               # strictly inside
slot = tdgl.Polygon("slot", points=box(1, 4, points=8, center=(0, 2)))    # opens the window
expected = plate.contains_points(q) & ~window.contains_points(q) & ~slot.contains_points(q)
ok = plate.difference(slot, window)
print("plate.difference(slot, window): area", round(ok.area, 6),
      "membership agrees:", np.array_equal(ok.contains_points(q), expected))
try:
    res = plate.difference(window, slot)
    agrees = np.array_equal(res.contains_points(q), expected)
    print(f"plate.difference(window, slot): area {res.area:.6f}, membership agrees: {agrees}")
    if not agrees:
        violations.append("plate.difference(window, slot) disagrees with membership")
except ValueError as e:
    print(f"plate.difference(window, slot): ValueError: {e}")
    violations.append("plate.difference(window, slot) raises although the result is simple")

print()
if violations:
    print("VIOLATION:")
    for v in violations:
        print("  -", v)
    sys.exit(1)
print("no violation")
sys.exit(0)
