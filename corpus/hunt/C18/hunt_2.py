"""hunt_2: constructing a Device mutates the caller's terminal Polygons.

Clause: "Non-in-place operations and copies never alias or mutate the original".

Device.__init__ is not documented as modifying its arguments, but it overwrites the
``mesh`` attribute of every Polygon passed in ``terminals`` (``terminal.mesh = False``).
Building a Device therefore changes objects owned by the caller; the change is
visible on the original Polygon, on everything later derived from it
(copy/union/rotate/... all propagate ``self.mesh``), and in what to_hdf5 writes.

Exit status 1 if the violation is present, 0 otherwise.
"""
import sys

import numpy as np

import tdgl
from tdgl.geometry import box

layer = tdgl.Layer(london_lambda=1, coherence_length=1, thickness=0.1)
film = tdgl.Polygon("film", points=box(10, 4, points=40))
source = tdgl.Polygon("source", points=box(0.2, 4, center=(-5, 0)), mesh=True)
drain = source.scale(xfact=-1).set_name("drain")

before = dict(
    source_mesh=source.mesh,
    drain_mesh=drain.mesh,
    source_points=source.points.copy(),
    source_name=source.name,
)
print("before Device(...): source.mesh =", source.mesh, " drain.mesh =", drain.mesh)

device = tdgl.Device("bar", layer=layer, film=film, terminals=[source, drain])

print("after  Device(...): source.mesh =", source.mesh, " drain.mesh =", drain.mesh)
print("device.terminals[0] is source:", device.terminals[0] is source)
derived = source.translate(dx=1.0)  # a non-in-place operation on the caller's polygon
print("source.translate(1).mesh =", derived.mesh, "(was constructed with mesh=True)")

mutated = (source.mesh != before["source_mesh"]) or (drain.mesh != before["drain_mesh"])
assert np.array_equal(source.points, before["source_points"])
if mutated:
    print("\nVIOLATION: Device.__init__ changed the mesh attribute of the caller's "
          "terminal polygons")
    sys.exit(1)
print("\nno violation")
sys.exit(0)
