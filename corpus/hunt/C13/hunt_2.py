"""C13 hunt, candidate 2.

The convergence test of the screening loop divides the Biot-Savart mismatch
``dA = A_BS[J(A_s)] - A_s`` by the norm of the *updated* iterate
``A_{s+1} = A_s + v_{s+1}`` (which already contains ``step_size * dA``).  For a
step size alpha > 1 / tolerance the ratio |dA| / |A_s + alpha * dA| is about
1 / alpha < tolerance whatever the mismatch is, so every step is "accepted"
after a single iteration.  docs/background.rst documents alpha in (0, inf) and
SolverOptions.validate() accepts any alpha > 0.  Instead of raising
"Screening calculation failed to converge", solve() returns steps whose induced
vector potential is ~100 % away from the Biot-Savart sum of the stored currents
and grows by a factor ~alpha per time step.

drag = 1 is used (no momentum) so that this is independent of candidate 1.

Exit status 1 if the violation is present, 0 otherwise.
"""

import atexit
import os
import shutil
import sys
import tempfile
import warnings

import numpy as np

import tdgl
from tdgl.geometry import box

TOL = 1e-2
ALPHA = 150.0
MODEST_MULTIPLE = 10


def main():
    warnings.filterwarnings("ignore")
    layer = tdgl.Layer(london_lambda=2.0, coherence_length=0.5, thickness=0.1)
    film = tdgl.Polygon("film", points=box(4, 4))
    device = tdgl.Device("square", layer=layer, film=film, length_units="um")
    device.make_mesh(max_edge_length=0.5, smooth=10)
    print(f"mesh: {len(device.mesh.sites)} sites")

    tmpdir = tempfile.mkdtemp()
    atexit.register(shutil.rmtree, tmpdir, ignore_errors=True)
    options = tdgl.SolverOptions(
        solve_time=0.004,
        dt_init=1e-3,
        save_every=1,
        include_screening=True,
        screening_tolerance=TOL,
        screening_step_size=ALPHA,
        screening_step_drag=1.0,
        output_file=os.path.join(tmpdir, "out.h5"),
        progress_interval=10**9,
    )
    options.validate()  # alpha = 150 is an accepted setting
    try:
        solution = tdgl.solve(device, options, applied_vector_potential=0.5)
    except RuntimeError as exc:
        print("solve() raised:", exc)
        print("no violation (failure was reported)")
        return 0
    print("solve() returned normally (no convergence error was raised)")

    xi = device.coherence_length.magnitude
    centers = xi * device.mesh.edge_mesh.centers
    A0 = device.A0.to("T * m").magnitude
    first, last = solution.data_range
    worst = 0.0
    for step in range(first + 1, last + 1):
        solution.solve_step = step
        stored = np.asarray(solution.tdgl_data.induced_vector_potential)
        vp = solution.vector_potential_at_position(
            centers, zs=0.0, units="T * m", with_units=False, return_sum=False
        )
        ref = (vp["supercurrent_density"] + vp["normal_current_density"])[:, :2] / A0
        err = np.linalg.norm(stored - ref) / np.linalg.norm(stored)
        worst = max(worst, err)
        print(
            f"step {step}: |A_induced stored| = {np.linalg.norm(stored):.3e},"
            f" |Biot-Savart sum of stored currents| = {np.linalg.norm(ref):.3e},"
            f" relative mismatch = {err:.3f} = {err / TOL:.0f} x tolerance"
        )
    its = np.asarray(solution.dynamics.screening_iterations).astype(int).tolist()
    print("screening iterations per step:", its)
    if worst > MODEST_MULTIPLE * TOL:
        print(
            "VIOLATION: unconverged steps were returned instead of raising;"
            f" worst stored mismatch {worst:.3f} for tolerance {TOL:g}."
        )
        return 1
    print("no violation")
    return 0


if __name__ == "__main__":
    sys.exit(main())
