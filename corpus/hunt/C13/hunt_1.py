"""C13 hunt, candidate 1.

With screening enabled, a step is accepted as soon as the Biot-Savart mismatch
``dA = A_BS[J(A_s)] - A_s`` of the *previous* iterate A_s is below the tolerance,
but what is stored is the *next* heavy-ball iterate
``A_{s+1} = A_s + (1 - drag) * v_s + step_size * dA``.  The momentum term
``(1 - drag) * v_s`` is not part of the convergence test, so the stored induced
vector potential can be far away from (mu_0 / 4 pi) * sum_cells K * area / r
evaluated from the stored currents.

Only the public API is used.  The reference value of the induced potential is
computed twice: with ``Solution.vector_potential_at_position`` and with a plain
numpy double sum.

Exit status 1 if the violation is present, 0 otherwise.
"""

import atexit
import os
import shutil
import sys
import tempfile

import numpy as np

import tdgl
from tdgl.geometry import box

TOL = 1e-3  # requested screening tolerance (inside the range [1e-4, 1e-2])
MODEST_MULTIPLE = 10  # a stored mismatch above 10 x TOL counts as a violation


def make_device():
    # Weakly screening film: Lambda = lambda^2 / d = 500 um >> film size.
    layer = tdgl.Layer(london_lambda=5.0, coherence_length=0.5, thickness=0.05)
    film = tdgl.Polygon("film", points=box(4, 4))
    device = tdgl.Device("square", layer=layer, film=film, length_units="um")
    device.make_mesh(max_edge_length=0.5, smooth=10)
    return device


def numpy_double_sum(device, tdgl_data):
    """(mu_0/4pi) sum_cells K * area / r on the edge centers, in units of A0."""
    mesh = device.mesh
    ureg = device.ureg
    xi = device.coherence_length.magnitude
    scale = (
        (ureg("mu_0") / (4 * np.pi) * device.K0 / device.A0)
        .to(f"1 / {device.length_units}")
        .magnitude
    )
    K_site = mesh.get_quantity_on_site(
        tdgl_data.supercurrent + tdgl_data.normal_current
    )
    sites = xi * mesh.sites
    centers = xi * mesh.edge_mesh.centers
    areas = xi**2 * mesh.areas
    r = np.linalg.norm(centers[:, None, :] - sites[None, :, :], axis=2)
    return scale * np.einsum("jk,j,ij->ik", K_site, areas, 1 / r)


def rel_err(A, ref):
    per_edge = np.linalg.norm(A - ref, axis=1) / np.maximum(
        np.linalg.norm(A, axis=1), 1e-300
    )
    overall = np.linalg.norm(A - ref) / np.linalg.norm(A)
    return float(per_edge.max()), float(overall)


def main():
    device = make_device()
    print(f"mesh: {len(device.mesh.sites)} sites, {len(device.mesh.edge_mesh.edges)} edges")
    tmpdir = tempfile.mkdtemp()
    atexit.register(shutil.rmtree, tmpdir, ignore_errors=True)
    options = tdgl.SolverOptions(
        solve_time=0.01,
        dt_init=1e-3,
        save_every=1,
        include_screening=True,
        screening_tolerance=TOL,
        screening_step_size=1.0,
        screening_step_drag=0.5,
        max_iterations_per_step=1000,
        output_file=os.path.join(tmpdir, "out.h5"),
        field_units="mT",
        current_units="uA",
        progress_interval=10**9,
    )
    solution = tdgl.solve(device, options, applied_vector_potential=0.5)
    print("solve() returned normally (no convergence error was raised)")

    xi = device.coherence_length.magnitude
    centers = xi * device.mesh.edge_mesh.centers
    A0 = device.A0.to("T * m").magnitude
    first, last = solution.data_range
    worst = 0.0
    for step in range(first + 1, last + 1):  # step 0 is the initial state
        solution.solve_step = step
        data = solution.tdgl_data
        stored = np.asarray(data.induced_vector_potential)
        # Reference 1: public post-processing method, physical units -> units of A0
        vp = solution.vector_potential_at_position(
            centers, zs=0.0, units="T * m", with_units=False, return_sum=False
        )
        ref1 = (vp["supercurrent_density"] + vp["normal_current_density"])[:, :2] / A0
        # Reference 2: plain numpy double sum
        ref2 = numpy_double_sum(device, data)
        e1 = rel_err(stored, ref1)
        e2 = rel_err(stored, ref2)
        worst = max(worst, e1[1], e2[1])
        print(
            f"step {step}: |stored - BiotSavart(stored currents)| / |stored| ="
            f" {e1[1]:.3e} (vector_potential_at_position), {e2[1]:.3e} (numpy sum);"
            f" per-edge max {e2[0]:.3e};  = {e2[1] / TOL:.1f} x tolerance"
        )
    try:
        its = solution.dynamics.screening_iterations
        print("screening iterations per step:", np.asarray(its).astype(int).tolist())
    except Exception as exc:  # pragma: no cover
        print("(could not read screening_iterations:", exc, ")")

    print(f"requested tolerance: {TOL:g}; worst stored mismatch: {worst:.3e}")
    if worst > MODEST_MULTIPLE * TOL:
        print(
            "VIOLATION: an accepted step stores an induced vector potential that"
            f" differs from the Biot-Savart sum of the stored currents by"
            f" {worst / TOL:.0f} x the tolerance."
        )
        return 1
    print("no violation")
    return 0


if __name__ == "__main__":
    sys.exit(main())
