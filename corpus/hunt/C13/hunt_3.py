"""C13 hunt, candidate 3 (low severity).

The relative screening error is computed as |dA| / max(|A_induced|, 1e-20) per
edge.  The floor 1e-20 is an *absolute* number in units of A0 = xi * Bc2.  When
the induced potential is smaller than tolerance * 1e-20 on every edge (very weak
applied field), the test passes after one iteration with the default options,
although the stored potential is only step_size = 10 % of the Biot-Savart sum
of the stored currents, i.e. the relative mismatch is 900 %, not < 1e-3.

Exit status 1 if the violation is present, 0 otherwise.
"""

import atexit
import os
import shutil
import sys
import tempfile

import numpy as np

import tdgl
from tdgl.geometry import box

MODEST_MULTIPLE = 10


def main():
    layer = tdgl.Layer(london_lambda=2.0, coherence_length=0.5, thickness=0.1)
    film = tdgl.Polygon("film", points=box(4, 4))
    device = tdgl.Device("square", layer=layer, film=film, length_units="um")
    device.make_mesh(max_edge_length=0.5, smooth=10)
    print(f"mesh: {len(device.mesh.sites)} sites")

    tmpdir = tempfile.mkdtemp()
    atexit.register(shutil.rmtree, tmpdir, ignore_errors=True)
    # All screening options are the defaults (tolerance 1e-3, step 0.1, drag 0.5).
    options = tdgl.SolverOptions(
        solve_time=0.004,
        dt_init=1e-3,
        save_every=1,
        include_screening=True,
        output_file=os.path.join(tmpdir, "out.h5"),
        field_units="mT",
        progress_interval=10**9,
    )
    tol = options.screening_tolerance
    solution = tdgl.solve(device, options, applied_vector_potential=1e-22)
    print("solve() returned normally")

    # Reference: plain numpy double sum (mu_0/4pi) sum_cells K * area / r in units
    # of A0.  (Solution.vector_potential_at_position is not used here because
    # Solution.supercurrent_density loses the magnitude of currents below 1e-12 J0.)
    mesh = device.mesh
    ureg = device.ureg
    xi = device.coherence_length.magnitude
    scale = (
        (ureg("mu_0") / (4 * np.pi) * device.K0 / device.A0)
        .to(f"1 / {device.length_units}")
        .magnitude
    )
    sites = xi * mesh.sites
    centers = xi * mesh.edge_mesh.centers
    areas = xi**2 * mesh.areas
    r = np.linalg.norm(centers[:, None, :] - sites[None, :, :], axis=2)
    first, last = solution.data_range
    worst = 0.0
    for step in range(first + 1, last + 1):
        solution.solve_step = step
        data = solution.tdgl_data
        stored = np.asarray(data.induced_vector_potential)
        K_site = mesh.get_quantity_on_site(data.supercurrent + data.normal_current)
        ref = scale * np.einsum("jk,j,ij->ik", K_site, areas, 1 / r)
        err = np.linalg.norm(stored - ref) / np.linalg.norm(stored)
        worst = max(worst, err)
        print(
            f"step {step}: |stored| = {np.linalg.norm(stored):.3e} A0,"
            f" |Biot-Savart sum| = {np.linalg.norm(ref):.3e} A0,"
            f" relative mismatch = {err:.3f} = {err / tol:.0f} x tolerance"
        )
    its = np.asarray(solution.dynamics.screening_iterations).astype(int).tolist()
    print("screening iterations per step:", its)
    if worst > MODEST_MULTIPLE * tol:
        print(
            f"VIOLATION: relative mismatch {worst:.2f} with tolerance {tol:g}"
            " on an accepted step."
        )
        return 1
    print("no violation")
    return 0


if __name__ == "__main__":
    sys.exit(main())
