"""C06 regression sweep (public API only). Exits 1 if any clause of C06 is violated, else 0.

Clauses checked on every saved frame (save_every=1):
  (a) terminal_psi = v (0 or nonzero): psi == v exactly on every terminal site, all frames;
  (b) non-terminal sites are not frozen (their psi changes between frames);
  (c) terminal_psi = None: terminal sites are not frozen, and with zero terminal currents the
      run is bit-identical to the same mesh without any terminals.
"""
import logging, os, sys, tempfile, itertools
import h5py
import numpy as np
import tdgl
from tdgl.geometry import box
from tdgl.sources import ConstantField, LinearRamp

logging.disable(logging.CRITICAL)
tmpd = tempfile.TemporaryDirectory()
cnt = itertools.count()


def opts(**kw):
    kw.setdefault("output_file", os.path.join(tmpd.name, f"o{next(cnt)}.h5"))
    kw.setdefault("progress_interval", 10**9)
    kw.setdefault("save_every", 1)
    return tdgl.SolverOptions(**kw)


def frames(sol):
    with h5py.File(sol.path, "r") as f:
        return np.array([np.array(f["data"][k]["psi"]) for k in sorted(f["data"], key=int)])


xi = 0.5
layer = tdgl.Layer(coherence_length=xi, london_lambda=2, thickness=0.1, gamma=1)
film = tdgl.Polygon("film", points=box(4, 6))
hole = tdgl.Polygon("hole", points=box(1, 1))
terms = [
    tdgl.Polygon("source", points=box(4.4, 0.12)).translate(0, 3),
    tdgl.Polygon("drain", points=box(4.4, 0.12)).translate(0, -3),
    tdgl.Polygon("inner", points=box(0.4, 0.4)).translate(0.5, 0),  # on the hole boundary
]
dev = tdgl.Device("d", layer=layer, film=film, holes=[hole], terminals=terms)
dev.make_mesh(max_edge_length=xi, smooth=10)
dev0 = tdgl.Device("d", layer=layer, film=film, holes=[hole])
dev0.mesh = dev.mesh
idx = np.unique(np.concatenate([t.site_indices for t in dev.terminal_info()]))
other = np.setdiff1d(np.arange(len(dev.mesh.sites)), idx)
cur = dict(source=5.0, drain=-3.0, inner=-2.0)
bad = 0


def report(label, P, tp):
    global bad
    frozen_other = int(np.all(P[2:, other] == P[1:2, other], axis=0).sum())
    if tp is None:
        frozen_t = int(np.all(P[2:, idx] == P[1:2, idx], axis=0).sum())
        v = frozen_t > 0 or frozen_other > 0
        print(f"{label}: frozen terminal sites={frozen_t} frozen other={frozen_other}", "VIOLATION" if v else "ok")
    else:
        d = np.abs(P[:, idx] - tp).max()
        v = not (d == 0) or frozen_other > 0
        print(f"{label}: max|psi-v| on terminals={d} frozen other={frozen_other}", "VIOLATION" if v else "ok")
    bad += bool(v)


seed = tdgl.solve(dev, opts(solve_time=0.5, terminal_psi=None), applied_vector_potential=0.4, terminal_currents=cur)
for tp in [0.0, None, 0.5, -0.3j, 1]:
    for scr in [False, True]:
        st = 0.5 if not scr else 0.2
        A = LinearRamp(tmin=0, tmax=0.3) * ConstantField(0.5, field_units="mT", length_units="um")
        for label, kw, okw in [
            ("static", dict(applied_vector_potential=0.4, terminal_currents=cur), {}),
            ("dynamic A + I(t)", dict(applied_vector_potential=A, terminal_currents=lambda t: {k: v * np.cos(t) for k, v in cur.items()}), {}),
            ("seeded + skip_time", dict(applied_vector_potential=0.4, terminal_currents=cur, seed_solution=seed), dict(skip_time=0.1)),
        ]:
            try:
                sol = tdgl.solve(dev, opts(solve_time=st, terminal_psi=tp, include_screening=scr, **okw), **kw)
            except RuntimeError as e:
                print(f"tp={tp} scr={scr} {label}: solver raised ({str(e)[:60]}...) - skipped")
                continue
            report(f"tp={tp} scr={scr} {label}", frames(sol), tp)
    # (c) free evolution identical to the terminal-less device
for scr in [False, True]:
    s1 = tdgl.solve(dev, opts(solve_time=0.3, terminal_psi=None, include_screening=scr), applied_vector_potential=0.5)
    s0 = tdgl.solve(dev0, opts(solve_time=0.3, terminal_psi=None, include_screening=scr), applied_vector_potential=0.5)
    P1, P0 = frames(s1), frames(s0)
    same = P1.shape == P0.shape and np.array_equal(P1, P0)
    print(f"terminal_psi=None, zero currents, scr={scr}: identical to terminal-less run: {same}", "ok" if same else "VIOLATION")
    bad += not same
print("violations:", bad)
tmpd.cleanup()
sys.exit(1 if bad else 0)
