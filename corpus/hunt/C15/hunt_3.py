"""C15 candidate 3: choosing a fresh output name never terminates for valid
output paths whose last '.' is not in the file name.

DataHandler._create_output_file splits the *whole path* at the last '.', inserts
the serial number there, and retries on *any* OSError.  Hence

 (a) a file already exists at the requested path 'data/v1.0/sim'
     -> next candidate is 'data/v1-1.0/sim' (a directory that does not exist)
     -> OSError -> 'data/v1-2.0/sim' -> ... forever: no fresh name is chosen.
 (b) output_file='runs/sim1' (no '.' at all): name='' and suffix='runs/sim1', the
     first candidate is '<cwd>/.runs/sim1' -> OSError -> forever, even though
     nothing exists at the requested path.

The solver is run in a child process with a timeout; the child is killed on
timeout.  Exit status 1 = violation present (hang), 0 = not present.
"""
import logging
import os
import subprocess
import sys
import tempfile

TIMEOUT = 25  # seconds; the control run below needs about 3 s


def child(output_file, preexisting):
    import tdgl
    from tdgl.geometry import box

    logging.disable(logging.CRITICAL)
    layer = tdgl.Layer(coherence_length=1.0, london_lambda=2.0, thickness=0.1)
    film = tdgl.Polygon("film", points=box(4, 4))
    dev = tdgl.Device("square", layer=layer, film=film)
    dev.make_mesh(max_edge_length=0.6, smooth=10)
    if preexisting:
        os.makedirs(os.path.dirname(output_file) or ".", exist_ok=True)
        with open(output_file, "wb") as f:
            f.write(b"precious data")
    options = tdgl.SolverOptions(
        solve_time=0.05,
        dt_init=1e-2,
        dt_max=1e-2,
        adaptive=False,
        save_every=2,
        output_file=output_file,
    )
    solution = tdgl.solve(dev, options)
    print("solution written to", os.path.relpath(solution.path))
    if preexisting:
        with open(output_file, "rb") as f:
            print("pre-existing file intact:", f.read() == b"precious data")


def run_case(label, output_file, preexisting):
    with tempfile.TemporaryDirectory() as cwd:
        cmd = [sys.executable, os.path.abspath(__file__), "child", output_file,
               "1" if preexisting else "0"]
        try:
            proc = subprocess.run(
                cmd, cwd=cwd, timeout=TIMEOUT, capture_output=True, text=True,
                env=dict(os.environ),
            )
        except subprocess.TimeoutExpired:
            # subprocess.run() has killed the child.
            files = [os.path.relpath(os.path.join(r, f), cwd)
                     for r, _, fs in os.walk(cwd) for f in fs]
            print(f"[{label}] output_file={output_file!r} preexisting={preexisting}:"
                  f" NO RESULT after {TIMEOUT} s (killed). Files present: {files}")
            return True
        out = [l for l in proc.stdout.splitlines() if l.strip()]
        print(f"[{label}] output_file={output_file!r} preexisting={preexisting}:"
              f" exit {proc.returncode}; {out}")
        if proc.returncode != 0:
            print(proc.stderr[-2000:])
        return False


def main():
    control = run_case("control", "data/v1.0/sim.h5", True)
    hang_a = run_case("a", "data/v1.0/sim", True)
    hang_b = run_case("b", "runs/sim1", False)
    if hang_a:
        print("VIOLATION (a): a file exists at the requested output path and the"
              " solver never chooses a fresh name (it loops forever).")
    if hang_b:
        print("VIOLATION (b): a valid output path without a '.' makes the solver"
              " loop forever while looking for a file name.")
    if control:
        print("control case unexpectedly timed out - result unreliable")
    return 1 if (hang_a or hang_b) else 0


if __name__ == "__main__":
    if len(sys.argv) > 1 and sys.argv[1] == "child":
        child(sys.argv[2], sys.argv[3] == "1")
        sys.exit(0)
    sys.exit(main())
