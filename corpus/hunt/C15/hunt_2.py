"""C15 candidate 2: with the default options (pause_on_interrupt=True) a user
cancellation does not return a partial solution when the pause prompt cannot be
answered: (a) stdin is not interactive (batch job, nohup, stdin=/dev/null):
input() raises EOFError; (b) the user presses Ctrl-C a second time at the
prompt: input() raises KeyboardInterrupt.  In both cases the exception escapes
from the `except KeyboardInterrupt:` handler in Runner._run_stage, solve() raises
instead of returning the partial Solution, the last state is not recorded and
the output file has no 'solution' group, so Solution.from_hdf5 cannot load it.

Exit status 1 = violation present, 0 = not present.
"""
import io
import logging
import os
import sys
import tempfile

import h5py

import tdgl
from tdgl.geometry import box

logging.disable(logging.CRITICAL)

DT = 1e-2
STOP_STEP = 7


def make_device():
    layer = tdgl.Layer(coherence_length=1.0, london_lambda=2.0, thickness=0.1)
    film = tdgl.Polygon("film", points=box(6, 4))
    source = tdgl.Polygon("source", points=box(0.1, 4)).translate(dx=-3)
    drain = tdgl.Polygon("drain", points=box(0.1, 4)).translate(dx=3)
    dev = tdgl.Device(
        "bar",
        layer=layer,
        film=film,
        terminals=[source, drain],
        probe_points=[(-2, 0), (2, 0)],
    )
    dev.make_mesh(max_edge_length=0.6, smooth=10)
    return dev


class SecondCtrlC:
    """stdin on which the user answers the prompt with another Ctrl-C."""

    def readline(self, *args):
        raise KeyboardInterrupt

    read = readline


def attempt(dev, tmp, label, stdin):
    path = os.path.join(tmp, f"{label}.h5")
    armed = {"on": False, "calls": 0}

    def terminal_currents(t):
        # The user presses Ctrl-C while step STOP_STEP is being computed.
        if armed["on"]:
            armed["calls"] += 1
            if armed["calls"] - 1 == STOP_STEP:
                raise KeyboardInterrupt
        return {"source": 1.0, "drain": -1.0}

    options = tdgl.SolverOptions(
        solve_time=0.2,
        dt_init=DT,
        dt_max=DT,
        adaptive=False,
        save_every=5,
        output_file=path,
        # pause_on_interrupt=True is the default
    )
    solver = tdgl.TDGLSolver(dev, options, terminal_currents=terminal_currents)
    armed["on"] = True
    old_stdin = sys.stdin
    sys.stdin = stdin
    solution = None
    raised = None
    try:
        solution = solver.solve()
    except BaseException as e:  # noqa
        raised = e
    finally:
        sys.stdin = old_stdin
    with h5py.File(path, "r") as f:
        groups = sorted(f)
        frames = [(int(n), int(f["data"][n].attrs["step"])) for n in f["data"]]
    loadable = True
    try:
        tdgl.Solution.from_hdf5(path)
    except Exception as e:
        loadable = False
        load_error = repr(e)
    print(f"[{label}] solve() returned {solution!r}, raised {raised!r}")
    print(f"[{label}] groups in output file: {groups}; frames (index, step): {frames}")
    print(f"[{label}] Solution.from_hdf5 works: {loadable}" + ("" if loadable else f" ({load_error})"))
    bad = solution is None or raised is not None or not loadable
    if bad:
        print(f"[{label}] VIOLATION: the cancellation at step {STOP_STEP} of the"
              " 'Simulating' stage did not return a usable partial solution.")
    return bad


def main():
    dev = make_device()
    with tempfile.TemporaryDirectory() as tmp:
        bad_a = attempt(dev, tmp, "stdin-at-EOF", io.StringIO(""))
        bad_b = attempt(dev, tmp, "second-ctrl-c", SecondCtrlC())
        # Control: answering "n" returns a partial solution.
        ok = attempt(dev, tmp, "control-answer-n", io.StringIO("n\n"))
        print("control (answer 'n') violates:", ok)
    return 1 if (bad_a or bad_b) else 0


if __name__ == "__main__":
    sys.exit(main())
