"""C15 candidate 1: a KeyboardInterrupt that lands late in TDGLSolver.update()
(after the step's scalar diagnostics were appended to the running-state buffer,
before update() returns) leaves a phantom entry in the buffer.  When the user
cancels, Runner writes the final frame with that buffer, so the output file /
returned partial Solution records one more solve step (dt, voltage, phase) than
was actually taken, and Solution.times disagrees with the frame's own 'time'.

Exit status 1 = violation present, 0 = not present.
"""
import inspect
import io
import logging
import os
import sys
import tempfile

import h5py
import numpy as np

import tdgl
from tdgl.geometry import box

logging.disable(logging.CRITICAL)

DT = 1e-2
SAVE_EVERY = 4
STOP_STEP = 6  # any step with STOP_STEP % SAVE_EVERY != 0


def make_device():
    layer = tdgl.Layer(coherence_length=1.0, london_lambda=2.0, thickness=0.1)
    film = tdgl.Polygon("film", points=box(6, 4))
    source = tdgl.Polygon("source", points=box(0.1, 4)).translate(dx=-3)
    drain = tdgl.Polygon("drain", points=box(0.1, 4)).translate(dx=3)
    dev = tdgl.Device(
        "bar",
        layer=layer,
        film=film,
        terminals=[source, drain],
        probe_points=[(-2, 0), (2, 0)],
    )
    dev.make_mesh(max_edge_length=0.6, smooth=10)
    return dev


class LateInterruptSolver(tdgl.TDGLSolver):
    """Ctrl-C arrives during update(), just before it returns (step STOP_STEP)."""

    def update(self, state, running_state, dt, **kwargs):
        result = super().update(state, running_state, dt, **kwargs)
        if state["step"] == STOP_STEP:
            raise KeyboardInterrupt
        return result


def options(path):
    return tdgl.SolverOptions(
        solve_time=0.2,
        dt_init=DT,
        dt_max=DT,
        adaptive=False,
        save_every=SAVE_EVERY,
        output_file=path,
        pause_on_interrupt=False,
    )


def inspect_output(label, solution, path):
    bad = False
    with h5py.File(path, "r") as f:
        frames = [
            (int(n), int(f["data"][n].attrs["step"]), float(f["data"][n].attrs["time"]))
            for n in f["data"]
        ]
        n_dt_in_file = 0
        for n in f["data"]:
            if "running_state" in f["data"][n]:
                dts = np.array(f["data"][n]["running_state"]["dt"])
                n_dt_in_file += int((dts > 0).sum())
    last_step, last_time = frames[-1][1], frames[-1][2]
    print(f"[{label}] frames (index, step, time): {frames}")
    print(f"[{label}] solve steps recorded in the file's running state: {n_dt_in_file}")
    print(f"[{label}] partial solution: state={solution.tdgl_data.state['step']},"
          f" len(dynamics.dt)={len(solution.dynamics.dt)},"
          f" dynamics.mu.shape={solution.dynamics.mu.shape},"
          f" times={solution.times}")
    if n_dt_in_file != last_step or len(solution.dynamics.dt) != last_step:
        print(f"[{label}] VIOLATION: the last frame is step {last_step} (i.e. {last_step}"
              f" updates were applied) but {n_dt_in_file} solve steps are recorded.")
        bad = True
    if not np.isclose(solution.times[-1], last_time):
        print(f"[{label}] VIOLATION: Solution.times[-1]={solution.times[-1]:.4f} but the"
              f" last frame was recorded at time {last_time:.4f}.")
        bad = True
    return bad


def run_subclass(dev, tmp):
    path = os.path.join(tmp, "subclass.h5")
    solver = LateInterruptSolver(
        dev, options(path), terminal_currents={"source": 1.0, "drain": -1.0}
    )
    solution = solver.solve()
    return inspect_output("subclass", solution, path)


def run_trace(dev, tmp):
    """Same thing with an unmodified TDGLSolver: emulate an asynchronous Ctrl-C
    that is delivered while update() executes the statement following the
    running-state appends."""
    code = tdgl.TDGLSolver.update.__code__
    src, start = inspect.getsourcelines(tdgl.TDGLSolver.update)
    target = [start + j for j, line in enumerate(src) if "if options.adaptive:" in line][0]
    fired = {"done": False}

    def tracer(frame, event, arg):
        if frame.f_code is not code:
            return None
        if event == "call":
            step = frame.f_locals["state"]["step"]
            return tracer if (step == STOP_STEP and not fired["done"]) else None
        if event == "line" and frame.f_lineno == target:
            fired["done"] = True
            raise KeyboardInterrupt
        return tracer

    path = os.path.join(tmp, "trace.h5")
    sys.settrace(tracer)
    try:
        solution = tdgl.solve(
            dev, options(path), terminal_currents={"source": 1.0, "drain": -1.0}
        )
    finally:
        sys.settrace(None)
    return inspect_output("ctrl-c emulation", solution, path)


def main():
    dev = make_device()
    print("mesh sites:", len(dev.mesh.sites))
    with tempfile.TemporaryDirectory() as tmp:
        bad1 = run_subclass(dev, tmp)
        bad2 = run_trace(dev, tmp)
    return 1 if (bad1 or bad2) else 0


if __name__ == "__main__":
    sys.exit(main())
