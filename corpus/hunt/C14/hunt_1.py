"""C14 candidate 1: a Solution saved with the documented option save_mesh=False
cannot be read back (Solution.from_hdf5 raises), so it certainly does not
compare equal to the original."""
import logging
import os
import sys
import tempfile

import numpy as np

import tdgl
from tdgl.geometry import box

logging.disable(logging.WARNING)

tmp = tempfile.mkdtemp()
layer = tdgl.Layer(london_lambda=2, coherence_length=0.5, thickness=0.1, gamma=1)
film = tdgl.Polygon("film", points=box(4, 3))
device = tdgl.Device("dev", layer=layer, film=film)
device.make_mesh(max_edge_length=0.6)
print("mesh sites:", len(device.mesh.sites))

options = tdgl.SolverOptions(
    solve_time=0.5, save_every=10, output_file=os.path.join(tmp, "run.h5")
)
solution = tdgl.solve(device, options, applied_vector_potential=0.2)

# Control: the default (save_mesh=True) round trip works.
full = os.path.join(tmp, "full.h5")
solution.to_hdf5(full)
print("save_mesh=True : loaded == original:", tdgl.Solution.from_hdf5(full) == solution)

# Documented option save_mesh=False.
slim = os.path.join(tmp, "slim.h5")
solution.to_hdf5(slim, save_mesh=False)
violation = False
try:
    loaded = tdgl.Solution.from_hdf5(slim)
except Exception as exc:  # noqa: BLE001
    print(f"save_mesh=False: Solution.from_hdf5 raised {type(exc).__name__}: {exc}")
    violation = True
else:
    same = loaded == solution
    same_mesh = loaded.device.mesh is not None and np.array_equal(
        loaded.device.mesh.sites, solution.device.mesh.sites
    )
    print("save_mesh=False: loaded == original:", same, "| same mesh sites:", same_mesh)
    violation = not (same and same_mesh)

print("VIOLATION" if violation else "ok")
sys.exit(1 if violation else 0)
