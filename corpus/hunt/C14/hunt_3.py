"""C14 candidate 3: a Device whose hole (or terminal) name contains "/" is saved
without complaint by Device.to_hdf5 / Solution.to_hdf5, but the file cannot be
read back: Device.from_hdf5 and Solution.from_hdf5 raise KeyError."""
import logging
import os
import sys
import tempfile

import tdgl
from tdgl.geometry import box, circle

logging.disable(logging.WARNING)

tmp = tempfile.mkdtemp()
layer = tdgl.Layer(london_lambda=2, coherence_length=0.5, thickness=0.1, gamma=1)


def make_device(hole_name, terminal_name):
    film = tdgl.Polygon("film", points=box(5, 3))
    hole = tdgl.Polygon(hole_name, points=circle(0.4, points=12))
    source = tdgl.Polygon(terminal_name, points=box(0.1, 3, center=(-2.5, 0)))
    drain = tdgl.Polygon("drain", points=box(0.1, 3, center=(2.5, 0)))
    device = tdgl.Device(
        "dev",
        layer=layer,
        film=film,
        holes=[hole],
        terminals=[source, drain],
        probe_points=[(-1.5, 1.0), (1.5, 1.0)],
    )
    device.make_mesh(max_edge_length=0.6)
    return device


violation = False
for k, (hole_name, terminal_name) in enumerate(
    [("hole", "source"), ("hole/1", "source"), ("hole", "in/out")]
):
    device = make_device(hole_name, terminal_name)
    path = os.path.join(tmp, f"device{k}.h5")
    device.to_hdf5(path)  # succeeds silently in all cases
    try:
        loaded = tdgl.Device.from_hdf5(path)
        ok = loaded == device
        print(f"hole={hole_name!r} terminal={terminal_name!r}: loaded == original: {ok}")
        violation |= not ok
    except Exception as exc:  # noqa: BLE001
        print(
            f"hole={hole_name!r} terminal={terminal_name!r}: "
            f"Device.from_hdf5 raised {type(exc).__name__}: {exc}"
        )
        violation = True

# The same device solves fine; the Solution file written by tdgl.solve is unreadable.
device = make_device("hole/1", "source")
options = tdgl.SolverOptions(
    solve_time=0.5, save_every=10, output_file=os.path.join(tmp, "run.h5")
)
solution = tdgl.solve(
    device, options, applied_vector_potential=0.1,
    terminal_currents=dict(source=1.0, drain=-1.0),
)
print("solve() finished, steps saved:", solution.data_range)
try:
    loaded = tdgl.Solution.from_hdf5(solution.path)
    ok = loaded == solution
    print("Solution loaded == original:", ok)
    violation |= not ok
except Exception as exc:  # noqa: BLE001
    print(f"Solution.from_hdf5 raised {type(exc).__name__}: {exc}")
    violation = True

print("VIOLATION" if violation else "ok")
sys.exit(1 if violation else 0)
