"""C14 candidate 2: DynamicsData written with DynamicsData.to_hdf5 cannot be read
back with DynamicsData.from_hdf5 when the device has no probe points
(mu and theta are None): from_hdf5 raises KeyError."""
import logging
import os
import sys
import tempfile

import h5py
import numpy as np

import tdgl
from tdgl.geometry import box
from tdgl.solution.data import DynamicsData

logging.disable(logging.WARNING)

tmp = tempfile.mkdtemp()
layer = tdgl.Layer(london_lambda=2, coherence_length=0.5, thickness=0.1, gamma=1)
film = tdgl.Polygon("film", points=box(4, 3))


def run(probe_points, name):
    device = tdgl.Device("dev", layer=layer, film=film, probe_points=probe_points)
    device.make_mesh(max_edge_length=0.6)
    options = tdgl.SolverOptions(
        solve_time=0.5, save_every=10, output_file=os.path.join(tmp, name)
    )
    return tdgl.solve(device, options, applied_vector_potential=0.2)


def round_trip(dynamics, name):
    path = os.path.join(tmp, name)
    with h5py.File(path, "x") as f:
        dynamics.to_hdf5(f.create_group("dynamics"))
    with h5py.File(path, "r") as f:
        return DynamicsData.from_hdf5(f["dynamics"])


# Control: with probe points the round trip works.
with_probes = run([(-1.0, 0.0), (1.0, 0.0)], "probes.h5").dynamics
print("with probe points   : loaded == original:", round_trip(with_probes, "d1.h5") == with_probes)

# No probe points: dynamics.mu and dynamics.theta are None, dt is recorded.
dynamics = run(None, "noprobes.h5").dynamics
print("without probe points: steps recorded:", len(dynamics.dt), "mu:", dynamics.mu, "theta:", dynamics.theta)
violation = False
try:
    loaded = round_trip(dynamics, "d2.h5")
except Exception as exc:  # noqa: BLE001
    print(f"without probe points: DynamicsData.from_hdf5 raised {type(exc).__name__}: {exc}")
    violation = True
else:
    same = (loaded == dynamics) and np.array_equal(loaded.dt, dynamics.dt)
    print("without probe points: loaded == original:", same)
    violation = not same

print("VIOLATION" if violation else "ok")
sys.exit(1 if violation else 0)
