"""C04 candidate 1: a non-zero SolverOptions.terminal_psi makes the results depend
on the gauge of the applied vector potential.

Two runs are started from gauge-equivalent states:
  run 1:  A            , psi_0
  run 2:  A + a (const), psi_0 * exp(i chi),  chi = a . r   (dimensionless units)
All observables (|psi|, supercurrent, normal current, potential differences) must
coincide at every recorded step.  With terminal_psi = 0 or None they do (to 1e-13);
with terminal_psi = 1 they do not: the solver pins psi = terminal_psi (a fixed
complex number, i.e. a fixed phase) on the terminal sites in every gauge.

Exit status 1 if the violation is present, 0 otherwise.
"""
import copy
import logging
import os
import sys
import tempfile

os.environ["TQDM_DISABLE"] = "1"
import numpy as np

import tdgl
from tdgl.geometry import box

logging.disable(logging.WARNING)

TOL = 1e-6


def make_device():
    layer = tdgl.Layer(coherence_length=0.5, london_lambda=2, thickness=0.1, gamma=1)
    film = tdgl.Polygon("film", points=box(6, 4))
    source = tdgl.Polygon("source", points=box(0.2, 3, center=(-3, 0)))
    drain = tdgl.Polygon("drain", points=box(0.2, 3, center=(3, 0)))
    device = tdgl.Device(
        "bar",
        layer=layer,
        film=film,
        terminals=[source, drain],
        probe_points=[(-2, 0), (2, 0)],
        length_units="um",
    )
    device.make_mesh(max_edge_length=0.6, smooth=10)
    return device


def uniform_shift(ax, ay):
    def shift(x, y, z):
        out = np.zeros((len(np.atleast_1d(x)), 3))
        out[:, 0] = ax
        out[:, 1] = ay
        return out

    return tdgl.Parameter(shift)


def frames(solution):
    out = []
    lo, hi = solution.data_range
    for step in range(lo, hi + 1):
        solution.solve_step = step
        d = solution.tdgl_data
        out.append((d.psi.copy(), d.mu.copy(), d.supercurrent.copy(), d.normal_current.copy()))
    return out


def gauge_pair(device, terminal_psi, field, shift, currents):
    tmp = tempfile.mkdtemp()
    kw = dict(terminal_psi=terminal_psi, field_units="mT", current_units="uA")
    A = tdgl.sources.ConstantField(field, field_units="mT", length_units="um")
    A_shifted = A + uniform_shift(*shift)
    # A common starting state, computed in the first gauge.
    seed = tdgl.solve(
        device,
        tdgl.SolverOptions(solve_time=1.0, output_file=os.path.join(tmp, "seed.h5"), **kw),
        applied_vector_potential=A,
        terminal_currents=currents,
    )
    # The same state in the second gauge: psi -> psi exp(i chi), chi = a . r.
    xi = device.coherence_length.magnitude
    r = device.points  # length_units
    Bc2 = device.Bc2.to("mT").magnitude
    A_scale = 1.0 / (Bc2 * xi)  # (mT um) -> dimensionless A, as in TDGLSolver.A_scale
    chi = A_scale * (shift[0] * r[:, 0] + shift[1] * r[:, 1]) / xi
    seed_shifted = copy.copy(seed)
    seed_shifted.tdgl_data = copy.copy(seed.tdgl_data)
    seed_shifted.tdgl_data.psi = seed.tdgl_data.psi * np.exp(1j * chi)

    sols = []
    for name, pot, sd in (("a", A, seed), ("b", A_shifted, seed_shifted)):
        opts = tdgl.SolverOptions(
            solve_time=5.0, save_every=25, output_file=os.path.join(tmp, f"{name}.h5"), **kw
        )
        sols.append(
            tdgl.solve(device, opts, applied_vector_potential=pot,
                       terminal_currents=currents, seed_solution=sd)
        )
    f1, f2 = frames(sols[0]), frames(sols[1])
    v1 = sols[0].dynamics.voltage()
    v2 = sols[1].dynamics.voltage()
    if len(f1) != len(f2) or len(v1) != len(v2):
        print(f"    different number of recorded steps: {len(f1)} vs {len(f2)},"
              f" solve steps {len(v1)} vs {len(v2)}")
    n = min(len(f1), len(f2))
    worst = dict(abs_psi=0.0, supercurrent=0.0, normal_current=0.0, mu_differences=0.0)
    for (p1, m1, s1, n1), (p2, m2, s2, n2) in zip(f1[:n], f2[:n]):
        worst["abs_psi"] = max(worst["abs_psi"], np.abs(np.abs(p1) - np.abs(p2)).max())
        worst["supercurrent"] = max(worst["supercurrent"], np.abs(s1 - s2).max())
        worst["normal_current"] = max(worst["normal_current"], np.abs(n1 - n2).max())
        worst["mu_differences"] = max(
            worst["mu_differences"], np.abs((m1 - m1[0]) - (m2 - m2[0])).max()
        )
    worst["n_recorded"] = (len(f1), len(f2))
    return worst


def main():
    device = make_device()
    print("mesh sites:", len(device.mesh.sites))
    violated = False
    cases = [
        ("no field, no bias, pure-gauge shift", 0.0, (0.2, 0.1), None),
        ("B = 0.4 mT, bias 5 uA", 0.4, (0.2, 0.1), dict(source=5.0, drain=-5.0)),
    ]
    for label, field, shift, currents in cases:
        print(label)
        for terminal_psi in (0.0, None, 1.0):
            w = gauge_pair(device, terminal_psi, field, shift, currents)
            diffs = {k: v for k, v in w.items() if k != "n_recorded"}
            bad = max(diffs.values()) > TOL or w["n_recorded"][0] != w["n_recorded"][1]
            print(f"  terminal_psi={terminal_psi!r}: recorded steps {w['n_recorded']}, max differences "
                  + ", ".join(f"{k}={v:.2e}" for k, v in diffs.items())
                  + ("   <-- gauge dependent" if bad else "   ok"))
            if terminal_psi in (0.0, None) and bad:
                print("  (unexpected: control case differs as well)")
            if terminal_psi == 1.0 and bad:
                violated = True
    if violated:
        print("VIOLATION: with terminal_psi = 1 the observables depend on the gauge of A.")
        return 1
    print("no violation observed")
    return 0


if __name__ == "__main__":
    sys.exit(main())
