"""C03 hunt 3: a triangulation whose triangles are not all listed with the same
orientation is accepted by Mesh.from_triangulation but the directed adjacency
matrix then sums the (triangle index + 1) of both triangles sharing an edge.
Result: IndexError, a bogus 'Malformed Voronoi cell' error, or silently wrong
Voronoi areas / dual edge lengths (and hence wrong operators)."""
import logging
import sys

import numpy as np
from scipy.spatial import Delaunay

from tdgl.finite_volume import Mesh

logging.getLogger("tdgl.finite_volume").setLevel(logging.ERROR)
violations = 0

# A square fan around its centre: 4 triangles.
sites = np.array([[0.0, 0.0], [2.0, 0.0], [2.0, 2.0], [0.0, 2.0], [1.0, 1.0]])
ccw = np.array([[0, 1, 4], [1, 2, 4], [2, 3, 4], [3, 0, 4]])
ref = Mesh.from_triangulation(sites, ccw)
cw = Mesh.from_triangulation(sites, ccw[:, ::-1])
print("all CCW areas:", ref.areas, " all CW areas:", cw.areas)
mixed = ccw.copy()
mixed[1] = mixed[1][::-1]  # same triangle, listed clockwise
print("one triangle listed clockwise:")
try:
    m = Mesh.from_triangulation(sites, mixed)
    same = np.allclose(m.areas, ref.areas) and np.allclose(
        m.edge_mesh.dual_edge_lengths, ref.edge_mesh.dual_edge_lengths
    )
    print("  built; areas", m.areas, "same as reference:", same)
    if not same:
        violations += 1
except Exception as e:
    violations += 1
    print(f"  {type(e).__name__}: {str(e)[:80]}")

# Silent variant: random Delaunay meshes with one triangle re-listed clockwise.
rng = np.random.default_rng(11)
outcome = {}
example = None
for _ in range(200):
    pts = rng.random((int(rng.integers(6, 30)), 2))
    tri = Delaunay(pts).simplices
    try:
        m0 = Mesh.from_triangulation(pts, tri)
    except ValueError:
        continue
    tri2 = tri.copy()
    j = int(rng.integers(len(tri)))
    tri2[j] = tri2[j][::-1]
    try:
        m2 = Mesh.from_triangulation(pts, tri2)
    except Exception as e:
        outcome[type(e).__name__] = outcome.get(type(e).__name__, 0) + 1
        continue
    same = np.allclose(m0.areas, m2.areas) and np.allclose(
        m0.edge_mesh.dual_edge_lengths, m2.edge_mesh.dual_edge_lengths
    )
    key = "built, same geometry" if same else "built, SILENTLY different areas/dual lengths"
    outcome[key] = outcome.get(key, 0) + 1
    if not same and example is None:
        example = (m0.areas.sum(), m2.areas.sum())
print("200 random Delaunay meshes, one triangle re-listed clockwise:", outcome)
if example:
    print("  e.g. total cell area %.4f (consistent) vs %.4f (mixed)" % example)
if any(k != "built, same geometry" for k in outcome):
    violations += 1

print("violations:", violations)
sys.exit(1 if violations else 0)
