"""C03 hunt 2: the smallest triangulation (a single triangle) cannot be turned into
a Mesh: Mesh.from_triangulation squeezes the (1, 3) element array to shape (3,) and
then rejects it.  Reachable from Device.make_mesh for a triangular film."""
import logging
import sys

import numpy as np

import tdgl
from tdgl.finite_volume import Mesh

logging.getLogger("tdgl.finite_volume").setLevel(logging.ERROR)
violations = 0

sites = np.array([[0.0, 0.0], [1.0, 0.0], [0.3, 0.8]])
elements = np.array([[0, 1, 2]])
print("Mesh.from_triangulation(sites (3,2), elements", elements.shape, ")")
try:
    mesh = Mesh.from_triangulation(sites, elements)
    print("  ok: areas", mesh.areas, "sum", mesh.areas.sum())
except ValueError as e:
    violations += 1
    print("  ValueError:", e)

# The same two triangles work, so it is only the one-element case.
mesh2 = Mesh.from_triangulation(
    np.array([[0.0, 0.0], [1.0, 0.0], [0.3, 0.8], [0.6, -0.7]]),
    np.array([[0, 1, 2], [0, 3, 1]]),
)
print("two triangles: ok,", len(mesh2.sites), "sites")

layer = tdgl.Layer(coherence_length=1, london_lambda=2, thickness=0.1)
device = tdgl.Device(
    "tri", layer=layer, film=tdgl.Polygon("film", points=[(0, 0), (1, 0), (0.5, 0.9)])
)
print("Device with a triangular film, make_mesh(max_edge_length=0)")
try:
    device.make_mesh(max_edge_length=0)
    print("  ok:", len(device.mesh.sites), "sites")
except ValueError as e:
    violations += 1
    print("  ValueError:", e)

print("violations:", violations)
sys.exit(1 if violations else 0)
