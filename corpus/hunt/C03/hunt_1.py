"""C03 hunt 1: valid (Delaunay) triangulations whose interior Voronoi cells have
coincident circumcentres are rejected, so no operator can be built on them.

Co-circular neighbouring triangles (every structured right-triangle grid, and many
meshes that Device.make_mesh itself generates for boxes and circles) give repeated
Voronoi vertices for an INTERIOR site.  compute_voronoi_polygon_areas() treats
"number of hull vertices != number of polygon vertices" as non-convexity and raises
ValueError("Malformed Voronoi cell surrounding boundary site ...").
"""
import logging
import sys

import numpy as np

import tdgl
from tdgl.finite_volume import (
    Mesh,
    generate_voronoi_vertices,
    get_voronoi_polygon_indices,
)
from tdgl.geometry import box, circle

logging.getLogger("tdgl.finite_volume").setLevel(logging.ERROR)
violations = 0


def describe(points, triangles):
    """Show that the offending cells belong to interior sites with repeated vertices."""
    boundary = set(Mesh.find_boundary_indices(triangles))
    dual = generate_voronoi_vertices(points, triangles)
    for site, poly in enumerate(get_voronoi_polygon_indices(triangles, len(points))):
        if site in boundary:
            continue
        verts = dual[poly]
        d = np.linalg.norm(verts[:, None] - verts[None], axis=2)
        d[np.diag_indices(len(d))] = np.inf
        if d.min() < 1e-12 * np.abs(verts).max():
            print(
                f"    interior site {site}: {len(verts)} Voronoi vertices, "
                f"closest pair {d.min():.1e} apart (coincident circumcentres)"
            )


# (a) structured 2x2 grid of right triangles (exactly representable coordinates).
xs = np.arange(3.0)
X, Y = np.meshgrid(xs, xs, indexing="ij")
sites = np.column_stack([X.ravel(), Y.ravel()])
idx = lambda i, j: 3 * i + j  # noqa: E731
elements = []
for i in range(2):
    for j in range(2):
        a, b, c, d = idx(i, j), idx(i + 1, j), idx(i + 1, j + 1), idx(i, j + 1)
        elements += [[a, b, c], [a, c, d]]
elements = np.array(elements)
print("(a) structured 2x2 grid, 9 sites, 8 counterclockwise right triangles")
try:
    mesh = Mesh.from_triangulation(sites, elements)
    print("    mesh built, min area", mesh.areas.min())
except ValueError as e:
    violations += 1
    print("    ValueError:", str(e)[:75], "...")
    describe(sites, elements)

# (b) the high-level API with default arguments.
layer = tdgl.Layer(coherence_length=1, london_lambda=2, thickness=0.1)
cases = [
    ("box(4, 4, points=8),  make_mesh()", box(4, 4, points=8), {}),
    ("box(4, 4, points=16), make_mesh(max_edge_length=0.5)", box(4, 4, points=16),
     dict(max_edge_length=0.5)),
    ("circle(2, points=32), make_mesh()", circle(2, points=32), {}),
]
for label, pts, kw in cases:
    device = tdgl.Device("d", layer=layer, film=tdgl.Polygon("film", points=pts))
    print("(b)", label)
    try:
        device.make_mesh(**kw)
        print("    mesh built with", len(device.mesh.sites), "sites")
    except ValueError as e:
        violations += 1
        print("    ValueError:", str(e)[:75], "...")

print("violations:", violations)
sys.exit(1 if violations else 0)
