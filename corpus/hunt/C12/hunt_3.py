"""C12 candidate 3: with screening the retry budget restarts in every screening
iteration, so one solve step can reduce dt any number of times.

TDGLSolver.update calls adaptive_euler_step once per screening iteration, and
the retry counter lives inside adaptive_euler_step.  The reduced dt is carried
over to the next screening iteration, where it can be reduced again with a
fresh budget.  A single solve step therefore ends with dt = proposed * M**k
with k larger than max_solve_retries (+1 for the off-by-one of candidate 1),
and no error is raised.
"""
import sys

from hunt_common import make_device, outfile, reductions, tdgl

device = make_device()
mult = 0.5
max_retries = 0
dt_init = 0.5
options = tdgl.SolverOptions(
    solve_time=0.05,  # one solve step
    dt_init=dt_init,
    dt_max=1.0,
    max_solve_retries=max_retries,
    adaptive_time_step_multiplier=mult,
    include_screening=True,
    screening_tolerance=1e-2,
    save_every=1,
    output_file=outfile(),
)
try:
    solution = tdgl.solve(
        device,
        options,
        applied_vector_potential=1.0,
        terminal_currents=dict(source=20, drain=-20),
    )
except RuntimeError as e:
    print("raised:", e)
    sys.exit(0)
dyn = solution.dynamics
dt0 = dyn.dt[0]
k = reductions(dt0, dt_init, mult)
print(f"steps taken: {len(dyn.dt)}, screening iterations in step 0: {dyn.screening_iterations[0]}")
print(
    f"max_solve_retries={max_retries}: step 0 proposed dt={dt_init}, accepted dt={dt0}"
    f" = proposed * {mult}**{k:.3f}  ({round(k)} reductions in one solve step)"
)
if round(k) > max_retries + 1:
    print("-> more reductions in one solve step than max_solve_retries (+1), no error raised")
    sys.exit(1)
sys.exit(0)
