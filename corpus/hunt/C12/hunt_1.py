"""C12 candidate 1: max_solve_retries is off by one.

SolverOptions.max_solve_retries is documented as "the maximum number of times
to reduce the time step in a given solve iteration before giving up".  The
retry loop in TDGLSolver.adaptive_euler_step reduces the step
max_solve_retries + 1 times before raising, so e.g. max_solve_retries=0 still
retries once and the run continues with the reduced step instead of raising.
"""
import sys

from hunt_common import make_device, outfile, reductions, tdgl

device = make_device()
mult = 0.5
violations = 0
# (max_solve_retries, dt_init): with this drive dt=0.25 is refused and 0.125 accepted
for max_retries, dt_init in [(0, 0.25), (1, 0.5), (0, 0.5)]:
    options = tdgl.SolverOptions(
        solve_time=0.05,  # one solve step
        dt_init=dt_init,
        dt_max=dt_init,
        adaptive=True,
        max_solve_retries=max_retries,
        adaptive_time_step_multiplier=mult,
        save_every=1,
        output_file=outfile(),
    )
    try:
        solution = tdgl.solve(
            device,
            options,
            applied_vector_potential=2.0,
            terminal_currents=dict(source=50, drain=-50),
        )
    except RuntimeError as e:
        print(f"max_solve_retries={max_retries} dt_init={dt_init}: raised: {e}")
        continue
    dt0 = solution.dynamics.dt[0]
    k = reductions(dt0, dt_init, mult)
    print(
        f"max_solve_retries={max_retries} dt_init={dt_init}: first step accepted with"
        f" dt={dt0} = dt_init * {mult}**{k:.3f}  ({round(k)} reductions)"
    )
    if round(k) > max_retries:
        print("   -> more reductions than max_solve_retries, and no error was raised")
        violations += 1

print("violations:", violations)
sys.exit(1 if violations else 0)
