"""Shared helpers for the C12 hunt programs (public tdgl API only)."""
import os

os.environ.setdefault("TQDM_DISABLE", "1")
import logging
import tempfile

import numpy as np

import tdgl
from tdgl.geometry import box

logging.disable(logging.CRITICAL)
_tmp = tempfile.mkdtemp(prefix="hunt_C12_")
_count = [0]


def outfile():
    _count[0] += 1
    return os.path.join(_tmp, f"out{_count[0]}.h5")


def make_device():
    """4 um x 4 um film, two terminals, about 300 mesh sites."""
    layer = tdgl.Layer(coherence_length=0.5, london_lambda=2, thickness=0.1, gamma=1)
    film = tdgl.Polygon("film", points=box(4, 4))
    source = tdgl.Polygon("source", points=box(0.1, 4)).translate(dx=-2)
    drain = tdgl.Polygon("drain", points=box(0.1, 4)).translate(dx=2)
    device = tdgl.Device(
        "dev",
        layer=layer,
        film=film,
        terminals=[source, drain],
        probe_points=[(-1, 0), (1, 0)],
        length_units="um",
    )
    device.make_mesh(max_edge_length=0.6, smooth=10)
    return device


def reductions(dt_used, dt_proposed, multiplier):
    """Number k such that dt_used = dt_proposed * multiplier**k."""
    return float(np.log(dt_used / dt_proposed) / np.log(multiplier))
