"""C12 candidate 2: resuming after pause_on_interrupt corrupts the adaptive
time-step history.

With pause_on_interrupt=True (the default) a Ctrl-C pauses the run and, when the
user answers "y", the interrupted solve step is repeated.  TDGLSolver.update has
by then possibly already (a) appended the max change of |psi|^2 of the aborted
attempt to the window list d_psi_sq_vals and (b) replaced tentative_dt by the
proposal meant for the *next* step.  Neither is rolled back, so

  * the repeated step n does not use the step proposed after step n-1, and
  * the window used for later proposals contains a phantom entry, so later
    steps are not min(1/2 (dt + dt_init/delta), dt_max) with delta the mean
    over the last `adaptive_window` steps that were actually taken.

The Ctrl-C is simulated deterministically with a subclass of the public
tdgl.TDGLSolver whose update() raises KeyboardInterrupt once, right after the
parent update() has finished (i.e. the signal arrives at the last instruction of
update()).  The answer "y" is fed through stdin.
"""
import io
import sys

import numpy as np

from hunt_common import make_device, outfile, tdgl

K = 20  # solve step during which Ctrl-C arrives
W = 3  # adaptive_window


class InterruptedSolver(tdgl.TDGLSolver):
    fire_at = None

    def update(self, state, running_state, dt, **kwargs):
        result = super().update(state, running_state, dt, **kwargs)
        if self.fire_at is not None and state["step"] == self.fire_at:
            self.fire_at = None
            raise KeyboardInterrupt  # the user presses Ctrl-C now
        return result


def run(fire_at):
    options = tdgl.SolverOptions(
        solve_time=3,
        dt_init=1e-3,
        dt_max=0.05,
        adaptive_window=W,
        pause_on_interrupt=True,
        save_every=1,
        output_file=outfile(),
    )
    solver = InterruptedSolver(
        device,
        options,
        applied_vector_potential=1.5,
        terminal_currents=dict(source=20, drain=-20),
    )
    solver.fire_at = fire_at
    return options, solver.solve()


def check_rule(options, solution):
    """Recompute the documented proposal from the saved frames and compare."""
    dts = solution.dynamics.dt
    first, last = solution.data_range
    sq = []
    for i in range(first, last + 1):
        solution.solve_step = i
        sq.append(np.abs(solution.tdgl_data.psi) ** 2)
    changes = [np.abs(sq[i + 1] - sq[i]).max() for i in range(len(sq) - 1)]
    assert len(changes) == len(dts)
    proposed = options.dt_init
    bad = []
    for n, dt in enumerate(dts):
        k = np.log(dt / proposed) / np.log(options.adaptive_time_step_multiplier)
        if abs(k - round(k)) > 1e-6 or round(k) < 0:
            bad.append((n, proposed, dt))
        if n > W:
            delta = np.mean(changes[n - W + 1 : n + 1])
            proposed = min(0.5 * (dt + options.dt_init / delta), options.dt_max)
    return bad


device = make_device()
sys.stdin = io.StringIO("y\n" * 5)

opts_ref, ref = run(None)
opts_int, interrupted = run(K)
bad_ref = check_rule(opts_ref, ref)
bad_int = check_rule(opts_int, interrupted)
d_ref, d_int = ref.dynamics.dt, interrupted.dynamics.dt
print("uninterrupted run : steps", len(d_ref), " steps not following the rule:", len(bad_ref))
print("paused+resumed run: steps", len(d_int), " steps not following the rule:", len(bad_int))
for n, proposed, dt in bad_int[:5]:
    print(f"   step {n}: documented proposal {proposed:.10f}, step used {dt:.10f}")
same = len(d_ref) == len(d_int) and np.array_equal(d_ref, d_int)
print("dt sequences identical:", same)
if not same:
    n = min(len(d_ref), len(d_int))
    i = int(np.argmax(d_ref[:n] != d_int[:n]))
    print(f"   first difference at step {i}: {d_ref[i]!r} vs {d_int[i]!r}")
sys.exit(1 if (bad_int and not bad_ref) else 0)
