"""C10 candidate 1: MeshOperators first initialised with "no vector potential" (None)
keeps real-valued psi operators; every later in-place refresh silently drops the
imaginary part of the link variables, so the operators in use differ from the ones
built from scratch for the latest vector potential.  Resetting to None raises instead.

Exit status 1 if the violation is present, 0 otherwise.
"""
import sys
import warnings

import numpy as np

import tdgl
from tdgl.finite_volume import MeshOperators
from tdgl.geometry import box
from tdgl.solver.options import SparseSolver

layer = tdgl.Layer(coherence_length=1, london_lambda=2, thickness=0.1)
film = tdgl.Polygon("film", points=box(4, 3))
source = tdgl.Polygon("source", points=box(0.2, 2, center=(-2, 0)))
drain = tdgl.Polygon("drain", points=box(0.2, 2, center=(2, 0)))
device = tdgl.Device("bar", layer=layer, film=film, terminals=[source, drain])
device.make_mesh(max_edge_length=0.8, smooth=5)
mesh = device.mesh
num_edges = len(mesh.edge_mesh.edges)
fixed = np.concatenate([t.site_indices for t in device.terminal_info()])
print(f"mesh: {len(mesh.sites)} sites, {num_edges} edges, {len(fixed)} pinned sites")


def from_scratch(A, fixed_sites, fix_psi):
    ops = MeshOperators(
        mesh, SparseSolver.SUPERLU, fixed_sites=fixed_sites, fix_psi=fix_psi
    )
    ops.set_link_exponents(A)
    return ops


rng = np.random.default_rng(0)
A1 = 0.3 * rng.normal(size=(num_edges, 2))
violation = False
for label, fixed_sites, fix_psi in [
    ("no pinned sites", None, True),
    ("terminals pinned", fixed, True),
    ("pinning disabled", fixed, False),
]:
    # Sequence of vector potentials: [None (i.e. no vector potential), A1]
    ops = MeshOperators(
        mesh, SparseSolver.SUPERLU, fixed_sites=fixed_sites, fix_psi=fix_psi
    )
    with warnings.catch_warnings():
        warnings.simplefilter("ignore")
        ops.set_link_exponents(None)  # accepted: builds the A = 0 operators
        ops.set_link_exponents(A1)  # in-place refresh
    ref = from_scratch(A1, fixed_sites, fix_psi)
    dg = abs(ops.psi_gradient - ref.psi_gradient).max()
    dl = abs(ops.psi_laplacian - ref.psi_laplacian).max()
    print(
        f"[{label}] after [None, A1]: dtype in use = {ops.psi_gradient.dtype}/"
        f"{ops.psi_laplacian.dtype}, from scratch = {ref.psi_gradient.dtype}; "
        f"max|grad diff| = {dg:.3g}, max|lap diff| = {dl:.3g}"
    )
    if dg > 0 or dl > 0:
        violation = True

    # Same sequence with an explicit zero array instead of None is fine:
    ops0 = MeshOperators(
        mesh, SparseSolver.SUPERLU, fixed_sites=fixed_sites, fix_psi=fix_psi
    )
    ops0.set_link_exponents(np.zeros((num_edges, 2)))
    ops0.set_link_exponents(A1)
    print(
        f"[{label}] after [zeros, A1]: max|grad diff| = "
        f"{abs(ops0.psi_gradient - ref.psi_gradient).max():.3g}, max|lap diff| = "
        f"{abs(ops0.psi_laplacian - ref.psi_laplacian).max():.3g}"
    )

# Sequence [A1, None]: the refresh path has an explicit `link_exponents is None`
# branch, but it can never be taken; the call raises after link_exponents was
# already overwritten, leaving operators for A1 with link_exponents == array(None).
ops = from_scratch(A1, fixed, True)
try:
    ops.set_link_exponents(None)
    ref = from_scratch(np.zeros((num_edges, 2)), fixed, True)
    d = abs(ops.psi_laplacian - ref.psi_laplacian).max()
    print(f"[A1, None]: refreshed, max|lap diff| = {d:.3g}")
    if d > 0:
        violation = True
except Exception as exc:
    print(f"[A1, None]: raised {type(exc).__name__}: {exc}")
    print(f"    ops.link_exponents is now {ops.link_exponents!r}, operators still for A1")
    violation = True

print("VIOLATION" if violation else "ok")
sys.exit(1 if violation else 0)
