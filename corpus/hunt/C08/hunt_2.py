"""C08 hunt 2: with completely default options the recorded dimensionless solution
(mu on every site, psi on every site, the probe potentials Solution.dynamics.mu) is not
the same "to rounding" in two unit systems - it differs by O(0.1 - 1).

Only differences of mu (voltages), |psi| and the currents agree.  The additive constant of
mu (and with it the global phase of psi) is rounding noise of order 1: the Poisson problem
for mu is pure Neumann (singular) and is handed to a sparse LU as is.

Exit status 1 = violation present, 0 = not present.
"""
import logging
import os
import shutil
import sys
import tempfile

import h5py
import numpy as np

import tdgl
from tdgl.geometry import box

logging.disable(logging.WARNING)

SYSTEMS = [("um", 1.0, "mT", 1.0, "uA", 1.0), ("mm", 1e-3, "T", 1e-3, "mA", 1e-3)]


def make_device(length_units, s):
    layer = tdgl.Layer(london_lambda=2 * s, coherence_length=0.5 * s, thickness=0.1 * s)
    film = tdgl.Polygon("film", points=box(5 * s, 4 * s, points=41))
    source = tdgl.Polygon("source", points=box(0.2 * s, 4 * s, points=11, center=(-2.5 * s, 0)))
    drain = tdgl.Polygon("drain", points=box(0.2 * s, 4 * s, points=11, center=(2.5 * s, 0)))
    return tdgl.Device(
        "dev",
        layer=layer,
        film=film,
        terminals=[source, drain],
        probe_points=[(-1.8 * s, 0), (1.8 * s, 0)],
        length_units=length_units,
    )


def main():
    tmp = tempfile.mkdtemp()
    solutions = []
    mesh = None
    for lu, s, fu, fs, cu, cs in SYSTEMS:
        device = make_device(lu, s)
        if mesh is None:
            device.make_mesh(max_edge_length=0.7 * s, smooth=10)
            mesh = device.mesh
        else:
            device.mesh = mesh  # the dimensionless mesh is the same physical mesh
        options = tdgl.SolverOptions(
            solve_time=1.0,
            field_units=fu,
            current_units=cu,
            save_every=1,
            dt_init=1e-3,
            dt_max=1e-3,
            output_file=os.path.join(tmp, f"{lu}.h5"),
        )
        solutions.append(
            tdgl.solve(
                device,
                options,
                applied_vector_potential=0.3 * fs,
                terminal_currents=dict(source=2 * cs, drain=-2 * cs),
            )
        )
    a, b = solutions
    weights = mesh.areas / mesh.areas.sum()

    def all_mu(sol):
        lo, hi = sol.data_range
        with h5py.File(sol.path, "r") as f:
            return np.array([np.array(f[f"data/{i}/mu"]) for i in range(lo + 1, hi + 1)])

    mu_a, mu_b = all_mu(a), all_mu(b)
    shutil.rmtree(tmp, ignore_errors=True)
    n = min(len(mu_a), len(mu_b))
    mu_a, mu_b = mu_a[:n], mu_b[:n]
    mean_a, mean_b = mu_a @ weights, mu_b @ weights
    print(f"mesh sites: {len(mesh.sites)}; recorded steps compared: {n}")
    print("area-weighted mean of the recorded mu, first 6 recorded steps")
    print("   um/mT/uA:", np.round(mean_a[:6], 3))
    print("   mm/T/mA :", np.round(mean_b[:6], 3))
    print(f"   range over the run: [{mean_a.min():.2f}, {mean_a.max():.2f}] vs [{mean_b.min():.2f}, {mean_b.max():.2f}]")

    d_mu = np.abs(mu_a - mu_b).max()
    d_mu_gauge_fixed = np.abs((mu_a - mean_a[:, None]) - (mu_b - mean_b[:, None])).max()
    d_psi = np.abs(a.tdgl_data.psi - b.tdgl_data.psi).max()
    d_abs_psi = np.abs(np.abs(a.tdgl_data.psi) - np.abs(b.tdgl_data.psi)).max()
    m = min(a.dynamics.mu.shape[1], b.dynamics.mu.shape[1])
    d_probe = np.abs(a.dynamics.mu[:, :m] - b.dynamics.mu[:, :m]).max()
    d_volt = np.abs(a.dynamics.voltage()[:m] - b.dynamics.voltage()[:m]).max()
    print("max abs difference between the two unit systems (dimensionless solver units)")
    print(f"   mu, all sites, all recorded steps          : {d_mu:.3e}")
    print(f"   mu minus its mean (gauge fixed)            : {d_mu_gauge_fixed:.3e}")
    print(f"   psi, all sites, last step                  : {d_psi:.3e}")
    print(f"   |psi|, all sites, last step                : {d_abs_psi:.3e}")
    print(f"   probe potentials Solution.dynamics.mu      : {d_probe:.3e}")
    print(f"   probe voltage dynamics.voltage()           : {d_volt:.3e}")
    tol = 1e-6
    violated = d_mu > tol or d_psi > tol or d_probe > tol
    print("recorded dimensionless solution depends on the unit system:", violated)
    return 1 if violated else 0


if __name__ == "__main__":
    sys.exit(main())
