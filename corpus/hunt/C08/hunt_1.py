"""C08 hunt 1: with a non-zero SolverOptions.terminal_psi the physical outputs depend on
the unit system in which the (identical) problem is stated.

Root cause: the scalar potential mu is obtained from a pure-Neumann (singular) Poisson
problem, so its additive constant is rounding noise of order 1 that changes from step to
step and from unit system to unit system.  When psi is pinned to a non-zero value on the
terminals, that constant is no longer a gauge freedom: it rotates the bulk phase relative
to the pinned terminals and changes |psi|, the currents and the probe voltage.

Exit status 1 = violation present, 0 = not present.
"""
import logging
import sys

import numpy as np

import tdgl
from tdgl.geometry import box, circle

logging.disable(logging.WARNING)

# (length unit, number of that unit per um, field unit, per mT, current unit, per uA)
SYSTEMS = [("um", 1.0, "mT", 1.0, "uA", 1.0), ("nm", 1e3, "uT", 1e3, "nA", 1e3)]


def make_device(length_units, s):
    """The same physical device (5 um x 4 um film, one hole, two terminals)."""
    layer = tdgl.Layer(london_lambda=2 * s, coherence_length=0.5 * s, thickness=0.1 * s)
    film = tdgl.Polygon("film", points=box(5 * s, 4 * s, points=41))
    hole = tdgl.Polygon("hole", points=circle(0.8 * s, points=17, center=(0.3 * s, 0)))
    source = tdgl.Polygon("source", points=box(0.2 * s, 4 * s, points=11, center=(-2.5 * s, 0)))
    drain = tdgl.Polygon("drain", points=box(0.2 * s, 4 * s, points=11, center=(2.5 * s, 0)))
    return tdgl.Device(
        "dev",
        layer=layer,
        film=film,
        holes=[hole],
        terminals=[source, drain],
        probe_points=[(-1.8 * s, 0), (1.8 * s, 0)],
        length_units=length_units,
    )


def run(terminal_psi):
    solutions = []
    mesh = None
    for lu, s, fu, fs, cu, cs in SYSTEMS:
        device = make_device(lu, s)
        if mesh is None:
            device.make_mesh(max_edge_length=0.7 * s, smooth=10)
            mesh = device.mesh
        else:
            # Device.mesh is the dimensionless mesh (coordinates in units of xi), so the
            # very same mesh describes the same physical device stated in other units.
            device.mesh = mesh
        options = tdgl.SolverOptions(
            solve_time=2.0,
            dt_init=1e-4,
            save_every=20,
            field_units=fu,
            current_units=cu,
            terminal_psi=terminal_psi,
        )
        solutions.append(
            tdgl.solve(
                device,
                options,
                applied_vector_potential=0.5 * fs,  # 0.5 mT
                terminal_currents=dict(source=2 * cs, drain=-2 * cs),  # 2 uA
            )
        )
    a, b = solutions
    # Gauge-invariant, physical quantities only.
    out = {}
    out["|psi| (last frame)"] = np.abs(np.abs(a.tdgl_data.psi) - np.abs(b.tdgl_data.psi)).max()
    Ka = a.current_density.to("uA/um").magnitude
    Kb = b.current_density.to("uA/um").magnitude
    out["sheet current [uA/um] (last frame)"] = np.abs(Ka - Kb).max()
    na, nb = len(a.dynamics.dt), len(b.dynamics.dt)
    out["number of solve steps"] = abs(na - nb)
    n = min(na, nb)
    out["probe voltage V(t) [V0], common steps"] = np.abs(
        a.dynamics.voltage()[:n] - b.dynamics.voltage()[:n]
    ).max()
    out["mean voltage [V0]"] = abs(a.dynamics.mean_voltage() - b.dynamics.mean_voltage())
    return out, len(mesh.sites)


def main():
    tol = 1e-6
    control, nsites = run(terminal_psi=0.0)
    test, _ = run(terminal_psi=0.5)
    print(f"mesh sites: {nsites}; unit systems compared: um/mT/uA  vs  nm/uT/nA")
    print("max abs difference between the two unit systems")
    print(f"{'quantity':45s} {'terminal_psi=0 (control)':>26s} {'terminal_psi=0.5':>20s}")
    for key in control:
        print(f"{key:45s} {control[key]:26.3e} {test[key]:20.3e}")
    control_ok = all(v < tol for v in control.values())
    violated = any(v > tol for v in test.values())
    print("control agrees to rounding:", control_ok)
    print("terminal_psi=0.5 run depends on the unit system:", violated)
    return 1 if violated else 0


if __name__ == "__main__":
    sys.exit(main())
