"""C02 hunt candidate 1: with include_screening=True one solve step applies the
Euler update several times.

Inside TDGLSolver.update() the self-consistent screening loop calls
adaptive_euler_step(step, psi, old_sq_psi, mu, ...) and assigns the result back
to ``psi`` (and ``mu``).  On the 2nd, 3rd, ... screening iteration the update is
therefore started from the *already updated* psi^{n+1,s-1}, mu^{n+1,s-1} (combined
with the stale |psi^n|^2) instead of from psi^n, mu^n as documented in
docs/background.rst ("Solve step, with screening": "Calculate psi^{n+1} ... via
Adaptive Euler update", Data: psi^n).  Time advances by one dt, but psi is
advanced k times.  The answered psi^{n+1} does not satisfy

    psi^{n+1} + z^n |psi^{n+1}|^2 = w^n        (z^n, w^n built from psi^n, mu^n, dt^n)

for ANY value of the induced vector potential used during that step.

Exit status 1 if the violation is present, 0 otherwise.
"""
import os
import sys
import tempfile

import numpy as np

import tdgl
from tdgl.geometry import box
from tdgl.solver.solver import TDGLSolver
from tdgl.solver.runner import RunningState


def make_device():
    layer = tdgl.Layer(coherence_length=0.5, london_lambda=0.5, thickness=0.1, gamma=10)
    film = tdgl.Polygon("film", points=box(4, 4))
    device = tdgl.Device("square", layer=layer, film=film, length_units="um")
    device.make_mesh(max_edge_length=0.5, smooth=10)
    return device


def documented_residual(psi_old, mu_old, psi_new, dt, epsilon, gamma, u, laplacian):
    """max_i | psi' + z |psi'|^2 - w |  with z, w exactly as in docs/background.rst."""
    a = np.abs(psi_old) ** 2
    U = np.exp(-1j * mu_old * dt)
    z = U * gamma**2 / 2 * psi_old
    w = z * a + U * (
        psi_old
        + (dt / u)
        * np.sqrt(1 + gamma**2 * a)
        * ((epsilon - a) * psi_old + laplacian @ psi_old)
    )
    return float(np.abs(psi_new + z * np.abs(psi_new) ** 2 - w).max())


def main():
    device = make_device()
    nsites = len(device.mesh.sites)
    print(f"mesh sites: {nsites}")
    violated = False

    # ------------------------------------------------------------------
    # Part A: top-level API, tdgl.solve(...) with save_every=1.
    # ------------------------------------------------------------------
    with tempfile.TemporaryDirectory() as tmp:
        options = tdgl.SolverOptions(
            solve_time=0.01,
            dt_init=1e-3,
            adaptive=False,
            include_screening=True,
            save_every=1,
            field_units="mT",
            current_units="uA",
            output_file=os.path.join(tmp, "out.h5"),
        )
        field = 0.4  # mT, uniform
        solution = tdgl.solve(device, options, applied_vector_potential=field)
        dts = np.asarray(solution.dynamics.dt)
        n_euler = np.asarray(solution.dynamics.screening_iterations).astype(int)
        print("Euler applications per solve step:", n_euler.tolist())

        # Reference operators (same mesh, same applied field).
        ref = TDGLSolver(device, options, applied_vector_potential=field)
        eps, gamma, u = ref.epsilon, ref.gamma, ref.u

        lo, hi = (int(v) for v in solution.data_range)
        data = {}
        for n in range(lo, hi + 1):
            solution.solve_step = n
            d = solution.tdgl_data
            data[n] = (
                np.array(d.psi),
                np.array(d.mu),
                np.array(d.induced_vector_potential),
            )
        for n in range(lo, hi):
            psi_old, mu_old, A_old = data[n]
            psi_new, _, A_new = data[n + 1]
            dt = float(dts[n])
            change = float(np.abs(psi_new - psi_old).max())
            # The covariant Laplacian of the step uses A_applied + A_induced for some
            # A_induced between the old and the new value: try both ends.
            res = []
            for A in (A_old, A_new):
                ref.operators.set_link_exponents(ref.current_A_applied + A)
                res.append(
                    documented_residual(
                        psi_old, mu_old, psi_new, dt, eps, gamma, u,
                        ref.operators.psi_laplacian,
                    )
                )
            ratio = min(res) / change
            flag = ""
            if ratio > 0.1:
                flag = "   <-- does NOT solve psi' + z|psi'|^2 = w"
                violated = True
            print(
                f"step {n}->{n + 1}: Euler applications={n_euler[n]:2d}  "
                f"max|psi'-psi|={change:.3e}  residual={min(res):.3e}  "
                f"residual/change={ratio:.3f}{flag}"
            )

    # ------------------------------------------------------------------
    # Part B: a single call of the public TDGLSolver.update(); afterwards
    # solver.operators.psi_laplacian is exactly the Laplacian that was used for the
    # last Euler application, so the residual below has no ambiguity at all.
    # ------------------------------------------------------------------
    options = tdgl.SolverOptions(
        solve_time=1,
        dt_init=1e-3,
        adaptive=False,
        include_screening=True,
        field_units="mT",
        current_units="uA",
    )
    solver = TDGLSolver(device, options, applied_vector_potential=0.4)
    ne = solver.num_edges
    psi0 = solver.psi_init.copy()
    mu0 = solver.mu_init.copy()
    running = RunningState({"dt": 1, "screening_iterations": 1}, 4)
    result = solver.update(
        {"step": 0, "time": 0.0, "dt": 1e-3},
        running,
        1e-3,
        psi=psi0.copy(),
        mu=mu0.copy(),
        supercurrent=np.zeros(ne),
        normal_current=np.zeros(ne),
        induced_vector_potential=np.zeros((ne, 2)),
    )
    dt, psi1 = result[0], result[1]
    k = int(running.values["screening_iterations"][0, 0])
    L = solver.operators.psi_laplacian
    res = documented_residual(
        psi0, mu0, psi1, dt, solver.epsilon, solver.gamma, solver.u, L
    )
    single, single_sq = TDGLSolver.solve_for_psi_squared(
        psi=psi0, abs_sq_psi=np.abs(psi0) ** 2, mu=mu0, epsilon=solver.epsilon,
        gamma=solver.gamma, u=solver.u, dt=dt, psi_laplacian=L,
    )
    res_single = documented_residual(
        psi0, mu0, single, dt, solver.epsilon, solver.gamma, solver.u, L
    )
    print(
        f"update(): dt={dt}, Euler applications in this one step={k}\n"
        f"  residual of the answered psi'            : {res:.3e}\n"
        f"  residual of one documented Euler update  : {res_single:.3e}\n"
        f"  max|psi'_answered - psi^n|               : {np.abs(psi1 - psi0).max():.3e}\n"
        f"  max|psi'_documented - psi^n|             : {np.abs(single - psi0).max():.3e}"
    )
    if res > 1e3 * max(res_single, 1e-14):
        violated = True

    if violated:
        print("VIOLATION: the answered psi^{n+1} does not satisfy the discretised TDGL update.")
        return 1
    print("no violation observed")
    return 0


if __name__ == "__main__":
    sys.exit(main())
