"""C02 hunt candidate 2: catastrophic cancellation in solve_for_psi_squared for
large gamma (or large gamma*|psi|).

    discriminant = (2c+1)^2 - 4|z|^2|w|^2          with c ~ |z||w| ~ gamma^4 |psi|^4 / 4
    psi'         = w - z * s                       with |w| ~ |z| s ~ gamma^2 |psi|^3 / 2

Both are differences of huge, nearly equal numbers.  The rounding error of the
discriminant is ~ eps * gamma^8/4, its true value ~ gamma^4; the rounding error of
psi' is ~ eps * gamma^4.  For gamma = 1e3 (a physical value, e.g. aluminium) the
answered psi' is wrong in the 4th digit every step, for gamma = 1e4 the answer is
garbage, |psi'|^2 != reported |psi'|^2, updates are refused although a solution
exists at every site, and updates are answered although no solution exists.

Everything is checked against exact (120-digit decimal) arithmetic applied to the
very same float inputs.   Exit status 1 if a violation is present, 0 otherwise.
"""
import sys
from decimal import Decimal as D, getcontext

import numpy as np
import scipy.sparse as sp

import tdgl
from tdgl.geometry import box
from tdgl.solver.solver import TDGLSolver

getcontext().prec = 120


# ----------------------------------------------------------------------------
# Exact reference for one site (inputs are the float values given to the solver)
# ----------------------------------------------------------------------------
def cossin(x):
    c, s, tc, ts = D(1), x, D(1), x
    for k in range(1, 400):
        tc = -tc * x * x / ((2 * k - 1) * (2 * k))
        ts = -ts * x * x / ((2 * k) * (2 * k + 1))
        c += tc
        s += ts
        if abs(tc) < D(10) ** -115 and abs(ts) < D(10) ** -115:
            break
    return c, s


def cmul(a, b):
    return (a[0] * b[0] - a[1] * b[1], a[0] * b[1] + a[1] * b[0])


def exact_site(psi, abs_sq, mu, eps, gamma, u, dt, lap):
    p = (D(psi.real), D(psi.imag))
    a = D(abs_sq)
    g2 = D(gamma) ** 2
    U = cossin(-D(mu) * D(dt))
    Up = cmul(U, p)
    z = (g2 / 2 * Up[0], g2 / 2 * Up[1])
    f = D(dt) / D(u) * (1 + g2 * a).sqrt()
    v = (
        p[0] + f * ((D(eps) - a) * p[0] + D(lap.real)),
        p[1] + f * ((D(eps) - a) * p[1] + D(lap.imag)),
    )
    Uv = cmul(U, v)
    w = (z[0] * a + Uv[0], z[1] * a + Uv[1])
    c = w[0] * z[0] + w[1] * z[1]
    z2 = z[0] ** 2 + z[1] ** 2
    w2 = w[0] ** 2 + w[1] ** 2
    disc = (2 * c + 1) ** 2 - 4 * z2 * w2
    if disc < 0:
        return dict(disc=disc, s=None, psi=None)
    s = 2 * w2 / ((2 * c + 1) + disc.sqrt())
    return dict(
        disc=disc, s=float(s), psi=complex(float(w[0] - z[0] * s), float(w[1] - z[1] * s))
    )


def one_site(psi, eps, gamma, u, dt, lap, mu=0.0):
    """Call the package for a single site whose covariant Laplacian action is `lap`."""
    p = np.array([psi, 1.0 + 0j])
    L = sp.csr_array(np.array([[0, lap], [0, 0]], dtype=complex))
    return TDGLSolver.solve_for_psi_squared(
        psi=p,
        abs_sq_psi=np.abs(p) ** 2,
        mu=np.array([mu, 0.0]),
        epsilon=np.array([eps, 1.0]),
        gamma=gamma,
        u=u,
        dt=dt,
        psi_laplacian=L,
    )


def main():
    violated = False
    u = 5.79

    # ------------------------------------------------------------------ part A
    print("A. one site, psi=0.8*exp(0.3i), mu=0, epsilon=1, dt=1e-3, Laplacian action 0.3-0.2i")
    psi = complex(0.8 * np.exp(0.3j))
    lap = 0.3 - 0.2j
    for gamma in (10.0, 1e2, 1e3, 1e4, 3e4):
        a = abs(psi) ** 2
        ex = exact_site(psi, np.abs(np.array([psi]))[0] ** 2, 0.0, 1.0, gamma, u, 1e-3, lap)
        res = one_site(psi, 1.0, gamma, u, 1e-3, lap)
        if res is None:
            print(f"  gamma={gamma:g}: refused; exact discriminant {float(ex['disc']):.3e}")
            if ex["s"] is not None:
                violated = True
            continue
        new_psi, new_sq = res[0][0], res[1][0]
        mismatch = abs(abs(new_psi) ** 2 - new_sq) / new_sq
        if ex["s"] is None:
            print(
                f"  gamma={gamma:g}: ANSWERED psi'={new_psi:.6g}, |psi'|^2 reported={new_sq:.6g},"
                f" actual |psi'|^2={abs(new_psi)**2:.6g}; but the exact discriminant is"
                f" {float(ex['disc']):.3e} < 0: NO solution exists  <-- violation"
            )
            violated = True
            continue
        err = abs(new_psi - ex["psi"])
        flag = ""
        if mismatch > 1e-6 or err > 1e-6:
            flag = "  <-- violation"
            violated = True
        print(
            f"  gamma={gamma:g}: reported |psi'|^2={new_sq:.10f}  |reported psi'|^2={abs(new_psi)**2:.10f}"
            f"  rel.mismatch={mismatch:.2e}  |psi'-psi'_exact|={err:.2e}{flag}"
        )

    print("A'. default gamma=10 but |psi| = 300 (|psi|>1 is in the quantified domain)")
    psi = complex(300 * np.exp(0.3j))
    ex = exact_site(psi, np.abs(np.array([psi]))[0] ** 2, 0.0, 1.0, 10.0, u, 1e-9, lap)
    res = one_site(psi, 1.0, 10.0, u, 1e-9, lap)
    if res is None:
        print(f"  refused; exact discriminant {float(ex['disc']):.3e}")
        violated = violated or ex["s"] is not None
    elif ex["s"] is not None:
        new_psi, new_sq = res[0][0], res[1][0]
        mismatch = abs(abs(new_psi) ** 2 - new_sq) / new_sq
        print(
            f"  reported |psi'|^2={new_sq:.6f} |reported psi'|^2={abs(new_psi)**2:.6f}"
            f" rel.mismatch={mismatch:.2e}  |psi'-psi'_exact|/|psi'|={abs(new_psi-ex['psi'])/abs(ex['psi']):.2e}"
        )
        if mismatch > 1e-6:
            violated = True

    # ------------------------------------------------------------------ part B
    print("B. full simulation, 6x6 um film, xi=1um, gamma=1e4, uniform field 0.05 mT (0.15 Bc2)")
    layer = tdgl.Layer(coherence_length=1, london_lambda=2, thickness=0.1, gamma=1e4)
    film = tdgl.Polygon("film", points=box(6, 6))
    device = tdgl.Device("square", layer=layer, film=film, length_units="um")
    device.make_mesh(max_edge_length=0.6, smooth=10)
    options = tdgl.SolverOptions(
        solve_time=1, dt_init=1e-4, dt_max=1e-1, adaptive=True,
        field_units="mT", current_units="uA",
    )
    print(f"  mesh sites: {len(device.mesh.sites)}")
    try:
        tdgl.solve(device, options, applied_vector_potential=0.05)
        print("  tdgl.solve finished")
    except RuntimeError as e:
        print(f"  tdgl.solve raised RuntimeError: {e}")

    # Replay the first two steps with the solver's own public methods and compare
    # each attempt with exact arithmetic at every site.
    solver = TDGLSolver(device, options, applied_vector_potential=0.05)
    L = solver.operators.psi_laplacian
    psi = solver.psi_init.copy()
    mu = solver.mu_init.copy()
    dt = options.dt_init
    for step in range(2):
        a = np.abs(psi) ** 2
        lap_psi = L @ psi
        accepted = None
        for retry in range(options.max_solve_retries + 2):
            res = TDGLSolver.solve_for_psi_squared(
                psi=psi, abs_sq_psi=a, mu=mu, epsilon=solver.epsilon,
                gamma=solver.gamma, u=solver.u, dt=dt, psi_laplacian=L,
            )
            ex = [
                exact_site(complex(psi[i]), a[i], float(mu[i]), float(solver.epsilon[i]),
                           solver.gamma, solver.u, dt, complex(lap_psi[i]))
                for i in range(len(psi))
            ]
            solvable = all(e["s"] is not None for e in ex)
            min_disc = float(min(e["disc"] for e in ex))
            if res is None:
                flag = ""
                if solvable:
                    flag = "  <-- violation: refused although a solution exists at every site"
                    violated = True
                print(f"  step {step} dt={dt:.3e}: REFUSED; exact min discriminant={min_disc:.3e},"
                      f" exact solution exists at every site: {solvable}{flag}")
                dt *= options.adaptive_time_step_multiplier
                continue
            new_psi, new_sq = res
            if not solvable:
                print(f"  step {step} dt={dt:.3e}: ANSWERED although no solution exists  <-- violation")
                violated = True
            else:
                exact_psi = np.array([e["psi"] for e in ex])
                err = float(np.abs(new_psi - exact_psi).max())
                mismatch = float(np.abs(np.abs(new_psi) ** 2 - new_sq).max())
                flag = ""
                if err > 1e-6 or mismatch > 1e-6:
                    flag = "  <-- violation"
                    violated = True
                print(f"  step {step} dt={dt:.3e}: answered; max|psi'-psi'_exact|={err:.3e}"
                      f"  max||psi'|^2-reported|={mismatch:.3e}  max|psi'|={np.abs(new_psi).max():.4f}"
                      f" (exact max|psi'|={np.abs(exact_psi).max():.6f}){flag}")
            accepted = new_psi
            break
        if accepted is None:
            print(f"  step {step}: every retry refused -> the solver raises RuntimeError")
            break
        psi = accepted
        mu, _, _ = solver.solve_for_observables(psi, 0.0)

    if violated:
        print("VIOLATION of C02 observed.")
        return 1
    print("no violation observed")
    return 0


if __name__ == "__main__":
    sys.exit(main())
