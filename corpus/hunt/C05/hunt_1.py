"""C05 candidate 1: Solution.times is computed from the caller's (aliased, mutable)
SolverOptions object, so re-using that options object for a second run with another
save_every silently changes the times reported by the first solution.

Clause violated: "the times reported by the loaded solution are those frame times".
"""
# ---- helper: small two-terminal device (about 300 sites) ----
import logging
import os

os.environ.setdefault("TQDM_DISABLE", "1")
import numpy as np
import tdgl
from tdgl.geometry import box

logging.disable(logging.WARNING)


def make_device(probes=2):
    layer = tdgl.Layer(coherence_length=1.0, london_lambda=2.0, thickness=0.1, gamma=1)
    film = tdgl.Polygon("film", points=box(6, 4))
    terminals = [
        tdgl.Polygon("source", points=box(0.1, 4, center=(-3, 0))),
        tdgl.Polygon("drain", points=box(0.1, 4, center=(3, 0))),
    ]
    probe_points = {0: None, 2: [(-2, 0), (2, 0)], 3: [(-2, 0), (2, 0), (0, 1)]}[probes]
    device = tdgl.Device(
        "d",
        layer=layer,
        film=film,
        terminals=terminals,
        probe_points=probe_points,
        length_units="um",
    )
    device.make_mesh(max_edge_length=1.2, smooth=10)
    return device


def frame_labels(path):
    """(step, time) attributes of every frame stored in the output file, in order."""
    import h5py

    with h5py.File(path, "r") as f:
        keys = sorted(f["data"], key=int)
        steps = [int(f["data"][k].attrs["step"]) for k in keys]
        times = [float(f["data"][k].attrs["time"]) for k in keys]
    return steps, np.array(times)
# ---- end helper ----

import os
import sys
import tempfile

import numpy as np


device = make_device(probes=2)
tmp = tempfile.mkdtemp()
kw = dict(terminal_currents=dict(source=0.5, drain=-0.5), applied_vector_potential=0.05)

options = tdgl.SolverOptions(
    solve_time=0.1,
    dt_init=0.01,
    adaptive=False,
    save_every=3,
    output_file=os.path.join(tmp, "first.h5"),
)
first = tdgl.solve(device, options, **kw)
steps, frame_times = frame_labels(first.path)
times_before = first.times.copy()
print("first run : frame steps", steps)
print("first run : frame times", frame_times)
print("first run : solution.times (before second run)", times_before)

# An ordinary parameter sweep: the same options object is re-used for the next run.
options.save_every = 5
options.output_file = os.path.join(tmp, "second.h5")
second = tdgl.solve(device, options, **kw)

times_after = first.times
print("first run : solution.times (after second run) ", times_after)
print("first run : frames on disk are unchanged      ", frame_labels(first.path)[1])

ok_before = np.array_equal(times_before, frame_times)
ok_after = len(times_after) == len(frame_times) and np.array_equal(
    times_after, frame_times
)
# The solution as re-loaded from its file still reports the right times.
reloaded = tdgl.Solution.from_hdf5(first.path)
print("first run : Solution.from_hdf5(...).times     ", reloaded.times)

if ok_before and not ok_after:
    print(
        "VIOLATION: first.times no longer equals the times of the frames of the first"
        " run (it is now derived from save_every of the second run)."
    )
    sys.exit(1)
print("no violation")
sys.exit(0)
