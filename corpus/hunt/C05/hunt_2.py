"""C05 candidate 2: DynamicsData.from_solution returns n probe records (one per saved
frame, including frame 0) but only n-1 time steps, so record j is paired with the time
of frame j+1, the last record has no time at all, and resample() raises.

Clause violated: per-step records (time step, probe potentials and phases) appear
exactly once per step, in order / reported times are the frame times.
"""
# ---- helper: small two-terminal device (about 300 sites) ----
import logging
import os

os.environ.setdefault("TQDM_DISABLE", "1")
import numpy as np
import tdgl
from tdgl.geometry import box

logging.disable(logging.WARNING)


def make_device(probes=2):
    layer = tdgl.Layer(coherence_length=1.0, london_lambda=2.0, thickness=0.1, gamma=1)
    film = tdgl.Polygon("film", points=box(6, 4))
    terminals = [
        tdgl.Polygon("source", points=box(0.1, 4, center=(-3, 0))),
        tdgl.Polygon("drain", points=box(0.1, 4, center=(3, 0))),
    ]
    probe_points = {0: None, 2: [(-2, 0), (2, 0)], 3: [(-2, 0), (2, 0), (0, 1)]}[probes]
    device = tdgl.Device(
        "d",
        layer=layer,
        film=film,
        terminals=terminals,
        probe_points=probe_points,
        length_units="um",
    )
    device.make_mesh(max_edge_length=1.2, smooth=10)
    return device


def frame_labels(path):
    """(step, time) attributes of every frame stored in the output file, in order."""
    import h5py

    with h5py.File(path, "r") as f:
        keys = sorted(f["data"], key=int)
        steps = [int(f["data"][k].attrs["step"]) for k in keys]
        times = [float(f["data"][k].attrs["time"]) for k in keys]
    return steps, np.array(times)
# ---- end helper ----

import os
import sys
import tempfile

import numpy as np

from tdgl.solution.data import DynamicsData

device = make_device(probes=2)
tmp = tempfile.mkdtemp()
options = tdgl.SolverOptions(
    solve_time=0.1,
    dt_init=0.01,
    adaptive=False,
    save_every=3,
    output_file=os.path.join(tmp, "out.h5"),
)
solution = tdgl.solve(
    device,
    options,
    terminal_currents=dict(source=0.5, drain=-0.5),
    applied_vector_potential=0.05,
)
steps, frame_times = frame_labels(solution.path)
print("frame steps", steps)
print("frame times", frame_times)

dyn = DynamicsData.from_solution(solution.path)
print("from_solution: len(dt) =", len(dyn.dt), " len(time) =", len(dyn.time),
      " mu.shape =", dyn.mu.shape, " theta.shape =", dyn.theta.shape)
print("from_solution: time =", dyn.time)

violations = []
if dyn.mu.shape[1] != len(dyn.time):
    violations.append(
        f"{dyn.mu.shape[1]} potential records but {len(dyn.time)} times / time steps"
    )
# Which frame does record j really come from?  Compare with the frames on disk.
import h5py

probe_idx = device.probe_point_indices
with h5py.File(solution.path, "r") as f:
    frame_mu = np.array(
        [np.array(f[f"data/{k}/mu"])[probe_idx] for k in range(len(steps))]
    ).T
for j in range(len(dyn.time)):
    src = [k for k in range(len(steps)) if np.array_equal(frame_mu[:, k], dyn.mu[:, j])]
    t_true = frame_times[src[0]]
    print(f"record {j}: taken from frame {src[0]} (time {t_true:.3f}),"
          f" reported at time {dyn.time[j]:.3f}")
    if t_true != dyn.time[j]:
        violations.append(f"record {j} is reported at the time of the next frame")
        break
try:
    dyn.resample()
except Exception as exc:  # noqa: BLE001
    print("resample() raised:", repr(exc))
    violations.append("resample() raises on the object returned by from_solution")

if violations:
    print("VIOLATION:", "; ".join(violations))
    sys.exit(1)
print("no violation")
sys.exit(0)
