"""C05 candidate 3: DynamicsData.resample() interpolates the probe records at the
instants ts = linspace(t_first, t_last, n) but labels them with cumsum(dt) = (j+1)*Dt,
i.e. every record is reported Dt - t_first too late and the last reported time lies
beyond the end of the simulation (adaptive runs: t_first = dt_init is tiny, so the
shift is a whole grid spacing).

Clause violated: per-step records are paired with the time equal to the sum of the
time steps up to that record / reported times are the recorded times.
"""
# ---- helper: small two-terminal device (about 300 sites) ----
import logging
import os

os.environ.setdefault("TQDM_DISABLE", "1")
import numpy as np
import tdgl
from tdgl.geometry import box

logging.disable(logging.WARNING)


def make_device(probes=2):
    layer = tdgl.Layer(coherence_length=1.0, london_lambda=2.0, thickness=0.1, gamma=1)
    film = tdgl.Polygon("film", points=box(6, 4))
    terminals = [
        tdgl.Polygon("source", points=box(0.1, 4, center=(-3, 0))),
        tdgl.Polygon("drain", points=box(0.1, 4, center=(3, 0))),
    ]
    probe_points = {0: None, 2: [(-2, 0), (2, 0)], 3: [(-2, 0), (2, 0), (0, 1)]}[probes]
    device = tdgl.Device(
        "d",
        layer=layer,
        film=film,
        terminals=terminals,
        probe_points=probe_points,
        length_units="um",
    )
    device.make_mesh(max_edge_length=1.2, smooth=10)
    return device


def frame_labels(path):
    """(step, time) attributes of every frame stored in the output file, in order."""
    import h5py

    with h5py.File(path, "r") as f:
        keys = sorted(f["data"], key=int)
        steps = [int(f["data"][k].attrs["step"]) for k in keys]
        times = [float(f["data"][k].attrs["time"]) for k in keys]
    return steps, np.array(times)
# ---- end helper ----

import sys

import numpy as np


device = make_device(probes=2)
options = tdgl.SolverOptions(
    solve_time=0.5,
    dt_init=1e-4,
    dt_max=0.02,
    adaptive=True,
    adaptive_window=2,
    save_every=3,
)
solution = tdgl.solve(
    device,
    options,
    terminal_currents=dict(source=0.5, drain=-0.5),
    applied_vector_potential=0.05,
)
dyn = solution.dynamics
n = 11
res = dyn.resample(n)
ts = np.linspace(dyn.time.min(), dyn.time.max(), n)
print("original : first/last time", dyn.time[0], dyn.time[-1], " steps:", len(dyn.dt))
print("resampled: reported times ", res.time)
print("instants actually sampled ", ts)

sampled_at_ts = np.allclose(res.mu[0], np.interp(ts, dyn.time, dyn.mu[0]))
sampled_at_reported = np.allclose(res.mu[0], np.interp(res.time, dyn.time, dyn.mu[0]))
print("records equal mu interpolated at the sampled instants :", sampled_at_ts)
print("records equal mu interpolated at the reported times   :", sampled_at_reported)
shift = res.time - ts
print("reported time - sampled instant:", shift)
beyond = res.time[-1] > dyn.time[-1] * (1 + 1e-9)
print("last reported time exceeds the end of the run:", beyond,
      f"({res.time[-1]:.4f} > {dyn.time[-1]:.4f})")

if sampled_at_ts and (not sampled_at_reported) and np.max(np.abs(shift)) > 1e-6:
    print("VIOLATION: resampled records are reported at times at which they were not"
          " evaluated (shift of one grid spacing).")
    sys.exit(1)
print("no violation")
sys.exit(0)
