"""C17 hunt candidate 3: with a small dt_init the adaptive step never reaches dt_max.

TDGLSolver.update() chooses  new_dt = dt_init / max(1e-10, mean(d|psi|^2))  and then
tentative_dt = clip(0.5 * (new_dt + dt), 0, dt_max).  In the exactly stationary state
d|psi|^2 = 0, so new_dt = 1e10 * dt_init and the step converges to the fixed point
1e10 * dt_init.  Whenever dt_init < 1e-10 * dt_max the step therefore saturates below
dt_max for ever, although nothing changes in the system at all.

Only the public API is used.  Exit status 1 if the violation is present.
"""
import logging
import os
import sys
import tempfile

import numpy as np

import tdgl
from tdgl.geometry import box, circle

logging.disable(logging.WARNING)

layer = tdgl.Layer(coherence_length=0.5, london_lambda=2.0, thickness=0.1, gamma=10, u=5.79)
film = tdgl.Polygon("film", points=box(6, 4))
hole = tdgl.Polygon("hole", points=circle(0.7, points=21)).translate(dx=0.5, dy=0.3)
source = tdgl.Polygon("source", points=box(0.2, 2)).translate(dx=-3)
drain = tdgl.Polygon("drain", points=box(0.2, 2)).translate(dx=3)
device = tdgl.Device("strip", layer=layer, film=film, holes=[hole], terminals=[source, drain])
device.make_mesh(max_edge_length=0.6, smooth=0)

violated = False
for dt_init in (1e-6, 1e-12, 1e-13):
    tmp = tempfile.mkdtemp()
    options = tdgl.SolverOptions(
        solve_time=3.0,
        dt_init=dt_init,  # dt_max keeps its default, 0.1
        terminal_psi=None,
        save_every=50,
        progress_interval=10**9,
        output_file=os.path.join(tmp, "out.h5"),
    )
    solution = tdgl.solve(device, options)
    dt = np.asarray(solution.dynamics.dt)
    psi_dev = float(np.abs(solution.tdgl_data.psi - 1).max())
    print(
        f"dt_init={dt_init:g}, dt_max={options.dt_max}: {len(dt)} steps,"
        f" largest dt = {dt.max():.6g}, last dt = {dt[-1]:.6g},"
        f" final max|psi-1| = {psi_dev:.1e}"
    )
    if dt.max() < options.dt_max:
        violated = True

print("VIOLATION of C17 (time step does not grow to its maximum)" if violated else "no violation")
sys.exit(1 if violated else 0)
