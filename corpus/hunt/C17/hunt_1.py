"""C17 hunt candidate 1: for large gamma the uniform state psi = 1, mu = 0 is not stationary.

TDGLSolver.solve_for_psi_squared() evaluates the discriminant of the quadratic for
|psi|^2 as (2c + 1)**2 - 4 |z|^2 |w|^2 with z ~ gamma^2 / 2.  Both terms are O(gamma^8)
while their difference is O(gamma^4): catastrophic cancellation.  The rounding error
is then amplified once more by gamma^2 / 2 in  psi = w - z * new_sq_psi.  For
gamma >~ 100 the order parameter of the *exactly* uniform state changes in the very
first step, for gamma = 1e4 the superconducting state is destroyed (psi -> 0)
although nothing at all drives the system.

Only the public API is used.  Exit status 1 if the violation is present.
"""
import logging
import os
import sys
import tempfile

import numpy as np
import scipy.sparse as sp

import tdgl
from tdgl.geometry import box, circle
from tdgl.solver.solver import TDGLSolver

logging.disable(logging.WARNING)
TOL = 1e-9  # far above any ulp-level effect
violated = False

# --- (a) a single update of the exactly uniform state, no mesh involved -----------
print("(a) TDGLSolver.solve_for_psi_squared on psi=1, mu=0, epsilon=1, Laplacian=0")
n = 3
zero_laplacian = sp.csr_array((n, n), dtype=complex)
for gamma in (10.0, 100.3, 300.0, 1000.0, 1e4, 1e5):
    out = TDGLSolver.solve_for_psi_squared(
        psi=np.ones(n, dtype=complex),
        abs_sq_psi=np.ones(n),
        mu=np.zeros(n),
        epsilon=np.ones(n),
        gamma=gamma,
        u=5.79,
        dt=1e-6,
        psi_laplacian=zero_laplacian,
    )
    if out is None:
        print(f"    gamma={gamma:g}: update refused (negative discriminant)")
        violated = True
        continue
    psi, sq = out
    err = abs(psi[0] - 1)
    print(f"    gamma={gamma:g}: new psi = {psi[0]!r}, |psi-1| = {err:.3e}")
    if err > TOL:
        violated = True


# --- (b) full simulations through tdgl.solve --------------------------------------
def make_device(gamma):
    layer = tdgl.Layer(
        coherence_length=0.5, london_lambda=2.0, thickness=0.1, gamma=gamma, u=5.79
    )
    film = tdgl.Polygon("film", points=box(6, 4))
    hole = tdgl.Polygon("hole", points=circle(0.7, points=21)).translate(dx=0.5, dy=0.3)
    source = tdgl.Polygon("source", points=box(0.2, 2)).translate(dx=-3)
    drain = tdgl.Polygon("drain", points=box(0.2, 2)).translate(dx=3)
    device = tdgl.Device(
        "strip",
        layer=layer,
        film=film,
        holes=[hole],
        terminals=[source, drain],
        probe_points=[(-2, 0), (2, 0)],
    )
    device.make_mesh(max_edge_length=0.6, smooth=0)
    return device


print("(b) tdgl.solve, no field, no current, epsilon=1, terminals unpinned")
for gamma in (300.0, 1000.0, 1e4):
    device = make_device(gamma)
    tmp = tempfile.mkdtemp()
    options = tdgl.SolverOptions(
        solve_time=5.0,
        terminal_psi=None,  # unbiased terminals are left unpinned
        save_every=1,
        progress_interval=10**9,
        output_file=os.path.join(tmp, "out.h5"),
    )
    solution = tdgl.solve(device, options)
    worst = 0.0
    first, last = solution.data_range
    for step in range(first, last + 1):
        solution.solve_step = step
        worst = max(worst, float(np.abs(solution.tdgl_data.psi - 1).max()))
    final = solution.tdgl_data.psi
    print(
        f"    gamma={gamma:g} ({len(device.mesh.sites)} sites, {last} steps):"
        f" max over steps of |psi-1| = {worst:.3e};"
        f" final |psi| in [{np.abs(final).min():.6g}, {np.abs(final).max():.6g}]"
    )
    if worst > TOL:
        violated = True

print("VIOLATION of C17 (amplitude changes by rounding)" if violated else "no violation")
sys.exit(1 if violated else 0)
