"""C17 hunt candidate 2: the covariant Laplacian does not annihilate a uniform psi.

build_laplacian() stores the diagonal of row i as the (rounded) sum of -w_ij / a_i and
the off-diagonal entries w_ij / a_i separately, so (psi_laplacian @ 1) is rounding
noise of order 1e-15 .. 1e-14 instead of exactly zero (while psi_gradient @ 1 *is*
exactly zero).  That noise is a mesh-dependent force on the uniform state.  The
explicit Euler update of psi amplifies it whenever dt * (lambda_max + 2) / u_eff > 2,
which for the default dt_max = 0.1 already happens for quite ordinary meshes (edge
length ~ 0.15 xi with gamma = 0).  The "stationary" state then develops amplitude
modulations of order one (|psi| far above 1) and the adaptive step is thrown back
from dt_max again and again.

Only the public API is used.  Exit status 1 if the violation is present.
"""
import logging
import os
import sys
import tempfile

import numpy as np

import tdgl
from tdgl.finite_volume.operators import MeshOperators
from tdgl.geometry import box

logging.disable(logging.WARNING)
violated = False

layer = tdgl.Layer(coherence_length=1.0, london_lambda=2.0, thickness=0.1, gamma=0, u=5.79)
device = tdgl.Device("film", layer=layer, film=tdgl.Polygon("film", points=box(1.5, 1.0)))
device.make_mesh(max_edge_length=0.15, smooth=10)
mesh = device.mesh
print(f"mesh: {len(mesh.sites)} sites, gamma = 0, u = 5.79, all solver options default")

# --- (a) the operator itself --------------------------------------------------------
ops = MeshOperators(mesh, tdgl.SolverOptions(solve_time=1).sparse_solver, fix_psi=False)
ops.build_operators()
ops.set_link_exponents(np.zeros((len(mesh.edge_mesh.edges), 2)))
ones = np.ones(len(mesh.sites), dtype=complex)
residual = ops.psi_laplacian @ ones
print(
    f"(a) max |psi_laplacian @ 1| = {np.abs(residual).max():.3e}"
    f" on {np.count_nonzero(residual)} of {len(ones)} sites"
    f" (max |psi_gradient @ 1| = {np.abs(ops.psi_gradient @ ones).max():.1e})"
)
if np.abs(residual).max() != 0:
    violated = True

# --- (b) a full run -----------------------------------------------------------------
tmp = tempfile.mkdtemp()
options = tdgl.SolverOptions(
    solve_time=10.0,
    save_every=10,
    progress_interval=10**9,
    output_file=os.path.join(tmp, "out.h5"),
)
solution = tdgl.solve(device, options)
first, last = solution.data_range
worst = 0.0
worst_mu = 0.0
worst_j = 0.0
first_bad = None
for step in range(first, last + 1):
    solution.solve_step = step
    data = solution.tdgl_data
    dev = float(np.abs(data.psi - 1).max())
    if dev > 0 and first_bad is None:
        first_bad = step
    worst = max(worst, dev)
    worst_mu = max(worst_mu, float(np.abs(data.mu).max()))
    worst_j = max(
        worst_j,
        float(np.abs(data.supercurrent).max()),
        float(np.abs(data.normal_current).max()),
    )
dt = np.asarray(solution.dynamics.dt)
reached = np.flatnonzero(dt >= options.dt_max)
print(f"(b) {len(solution.dynamics.dt)} steps, every 10th saved; psi first differs from 1 at saved step {first_bad}")
print(f"    max over steps and sites of |psi-1| = {worst:.3e}")
print(f"    max |mu| = {worst_mu:.1e}, max |J| = {worst_j:.1e}")
if len(reached):
    after = dt[reached[0] :]
    print(
        f"    dt first reaches dt_max={options.dt_max} at step {reached[0]};"
        f" afterwards min dt = {after.min():.3e},"
        f" {np.count_nonzero(after < options.dt_max)} of {len(after)} steps below dt_max"
    )
    if after.min() < options.dt_max:
        violated = True
else:
    print("    dt never reaches dt_max")
    violated = True
if worst > 1e-9:
    violated = True

print("VIOLATION of C17 (rounding in the Laplacian destroys the uniform state)" if violated else "no violation")
sys.exit(1 if violated else 0)
