"""C01 candidate 3: the Voronoi cell of a film corner gets area exactly 0 (or
-5e-17), the finite-volume operators divide by it (inf / nan entries), and the
device cannot be solved for any terminal currents.

When the two triangles meeting at a 90-degree film corner are right triangles
whose hypotenuses are the two boundary edges, their circumcentres coincide with
the midpoints of those boundary edges.  compute_voronoi_polygon_areas() then
builds the cell from [c1, c2, mid1, mid2, site] with c1 == mid1 and c2 == mid2,
mistakes the duplicated vertices for non-convexity (len(hull.vertices) !=
len(coords)) and subtracts the triangle (mid1, mid2, site) - i.e. the whole cell.

Exit status 1 = defect present, 0 = not present.
"""
import logging
import sys
import warnings

import numpy as np

import tdgl
from tdgl.geometry import box

logging.disable(logging.CRITICAL)
warnings.filterwarnings("ignore", category=RuntimeWarning)

layer = tdgl.Layer(coherence_length=0.5, london_lambda=2.0, thickness=0.1, gamma=1)
film = tdgl.Polygon("film", points=box(6, 3, points=40))
source = tdgl.Polygon("source", points=box(0.2, 2.0, center=(-3, 0)))
drain = tdgl.Polygon("drain", points=box(0.2, 2.0, center=(3, 0)))
device = tdgl.Device(
    "bar",
    layer=layer,
    film=film,
    terminals=[source, drain],
    probe_points=[(-1.5, 0), (1.5, 0)],
    length_units="um",
)
device.make_mesh()  # default max_edge_length = coherence_length
mesh = device.mesh
em = mesh.edge_mesh
print("mesh sites:", len(mesh.sites))

bad = np.where(mesh.areas <= 1e-12)[0]
print("sites with (numerically) zero cell area:", bad.tolist())
bedges = em.edges[em.boundary_edge_indices]
for site in bad:
    nbr = bedges[(bedges == site).any(axis=1)]
    mids = mesh.sites[nbr].mean(axis=1)
    p = mesh.sites[site]
    a, b = mids[0] - p, mids[1] - p
    true_area = 0.5 * abs(a[0] * b[1] - a[1] * b[0])
    print(
        f"  site {site} at {tuple(np.round(p * layer.coherence_length, 3))} um:"
        f" stored area {mesh.areas[site]:.3e}, a lower bound for the true cell area"
        f" (triangle site-mid-mid) is {true_area:.4f}"
    )

options = tdgl.SolverOptions(solve_time=1.0, dt_init=1e-3, save_every=10, progress_interval=0)
refused = False
try:
    solver = tdgl.TDGLSolver(device, options, terminal_currents={"source": 1.0, "drain": -1.0})
    div = solver.operators.divergence
    print("divergence operator finite:", bool(np.isfinite(div.data).all()))
    solution = solver.solve()
    print("solved:", solution.data_range[1] + 1, "saved steps")
except RuntimeError as e:
    refused = True
    print("tdgl.TDGLSolver(...) with balanced currents REFUSED -> RuntimeError:", e)

if len(bad) and refused:
    print("VIOLATION: zero-area corner cells; balanced terminal currents are not accepted.")
    sys.exit(1)
print("no violation")
sys.exit(0)
