"""C01 candidate 1: a plain rectangular device with two terminals cannot be solved
for ANY balanced terminal currents: building the solver raises
"RuntimeError: Factor is exactly singular".

The Poisson operator for the scalar potential mu (MeshOperators.mu_laplacian) is
built with pure Neumann boundary conditions and no gauge fixing, so it is singular
by construction (constant null vector).  It is LU-factorised anyway; this only
works when rounding noise happens to make the last pivot non-zero.  On meshes with
mirror symmetry (a box centred on the origin...) the rounding errors cancel and
SuperLU hits an exact zero pivot.

Exit status 1 = defect present, 0 = not present.
"""
import logging
import sys

import numpy as np

import tdgl
from tdgl.geometry import box

logging.disable(logging.CRITICAL)

layer = tdgl.Layer(coherence_length=0.5, london_lambda=2.0, thickness=0.1, gamma=1)
film = tdgl.Polygon("film", points=box(3, 3, points=40))
source = tdgl.Polygon("source", points=box(0.2, 2.0, center=(-1.5, 0)))
drain = tdgl.Polygon("drain", points=box(0.2, 2.0, center=(1.5, 0)))
device = tdgl.Device(
    "square",
    layer=layer,
    film=film,
    terminals=[source, drain],
    probe_points=[(-0.7, 0), (0.7, 0)],
    length_units="um",
)
device.make_mesh()  # default max_edge_length = coherence_length

mesh = device.mesh
xi = layer.coherence_length
print("mesh sites:", len(mesh.sites))
print("min cell area:", mesh.areas.min(), " min edge length:", mesh.edge_mesh.edge_lengths.min())
print("sum of cell areas:", mesh.areas.sum(), "(film area / xi^2 =", 3 * 3 / xi**2, ")")
print("all mesh data finite:", bool(np.isfinite(mesh.areas).all()
                                    and np.isfinite(mesh.edge_mesh.dual_edge_lengths).all()))
for t in device.terminal_info():
    print(f"terminal {t.name}: {len(t.site_indices)} sites, length {t.length:.3f} um")

options = tdgl.SolverOptions(solve_time=1.0, dt_init=1e-3, save_every=10, progress_interval=0)
failed = False
for currents in ({"source": 1.0, "drain": -1.0}, {"source": 0.1, "drain": -0.1}, None):
    try:
        solution = tdgl.solve(device, options, terminal_currents=currents)
        print(f"terminal_currents={currents}: solved, {solution.data_range[1] + 1} saved steps")
    except RuntimeError as e:
        failed = True
        print(f"terminal_currents={currents}: REFUSED -> RuntimeError: {e}")

# The same device rotated by a few degrees (which only destroys the mirror symmetry
# of the mesh) is accepted, which shows that nothing is wrong with the input.
rotated = device.rotate(7.0)
rotated.make_mesh()
try:
    solution = tdgl.solve(rotated, options, terminal_currents={"source": 1.0, "drain": -1.0})
    print("same device rotated by 7 degrees: solved,", solution.data_range[1] + 1, "saved steps")
except RuntimeError as e:
    print("rotated device also refused:", e)

if failed:
    print("VIOLATION: balanced terminal currents on a valid 2-terminal device are not accepted.")
    sys.exit(1)
print("no violation")
sys.exit(0)
