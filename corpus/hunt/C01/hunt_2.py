"""C01 candidate 2: with time-dependent terminal currents the current that actually
enters through each terminal at a recorded step is NOT the current requested for
the time of that step, but the one requested one time step earlier.

TDGLSolver.update() is called with state["time"] = t_n (the time at the START of
the step).  It sets the terminal boundary condition from I(t_n), advances psi to
t_{n+1} = t_n + dt and then solves the Poisson equation for mu^{n+1} (and hence
J_s^{n+1} + J_n^{n+1}) with the stale boundary condition I(t_n).  The result is
recorded with time t_{n+1}.

Exit status 1 = defect present, 0 = not present.
"""
import logging
import os
import sys
import tempfile

import numpy as np

import tdgl
from tdgl.geometry import box

logging.disable(logging.CRITICAL)

layer = tdgl.Layer(coherence_length=0.5, london_lambda=2.0, thickness=0.1, gamma=1)
film = tdgl.Polygon("film", points=box(4, 3))
source = tdgl.Polygon("source", points=box(0.1, 2.4, center=(-2, 0)))
drain = tdgl.Polygon("drain", points=box(0.1, 1.8, center=(2, 0)))
device = tdgl.Device(
    "bar",
    layer=layer,
    film=film,
    terminals=[source, drain],
    probe_points=[(-1, 0), (1, 0)],
    length_units="um",
)
device.make_mesh(max_edge_length=0.45)
mesh = device.mesh
em = mesh.edge_mesh
print("mesh sites:", len(mesh.sites))


def requested(t):
    """Linear current ramp, 10 uA per unit of dimensionless time (balanced)."""
    return {"source": 10.0 * t, "drain": -10.0 * t}


dt = 0.05
options = tdgl.SolverOptions(
    solve_time=1.0,
    adaptive=False,
    dt_init=dt,
    save_every=4,
    current_units="uA",
    progress_interval=0,
    output_file=os.path.join(tempfile.mkdtemp(), "out.h5"),
)
solution = tdgl.solve(device, options, terminal_currents=requested)

# Dimensionless edge current * dual edge length -> current in uA.
I_scale = (device.K0 / 4 * device.coherence_length).to("uA").magnitude
e0, e1 = em.edges[:, 0], em.edges[:, 1]
terminals = device.terminal_info()

worst_now = 0.0
worst_lag = 0.0
worst_cell = 0.0
for step in range(1, solution.data_range[1] + 1):
    solution.solve_step = step
    data = solution.tdgl_data
    t = float(data.state["time"])
    assert abs(t - solution.times[step]) < 1e-12
    flow = (data.supercurrent + data.normal_current) * em.dual_edge_lengths
    out = np.zeros(len(mesh.sites))
    np.add.at(out, e0, flow)
    np.add.at(out, e1, -flow)
    out *= I_scale  # net current leaving each cell, uA
    line = f"step {step:2d} t={t:.2f}:"
    expected_now = np.zeros(len(mesh.sites))
    for term in terminals:
        bidx = em.boundary_edge_indices[term.boundary_edge_indices]
        cells = np.unique(em.edges[bidx].ravel())
        measured = out[cells].sum()
        want = requested(t)[term.name]
        want_lag = requested(t - dt)[term.name]
        worst_now = max(worst_now, abs(measured - want))
        worst_lag = max(worst_lag, abs(measured - want_lag))
        line += f"  {term.name}: entering {measured:+.4f} uA, requested I(t) {want:+.4f}, I(t-dt) {want_lag:+.4f};"
        L = em.edge_lengths[bidx]
        np.add.at(expected_now, em.edges[bidx, 0], want * L / 2 / L.sum())
        np.add.at(expected_now, em.edges[bidx, 1], want * L / 2 / L.sum())
    worst_cell = max(worst_cell, np.abs(out - expected_now).max())
    print(line)

print(f"max |entering - I(t)|      = {worst_now:.3e} uA")
print(f"max |entering - I(t - dt)| = {worst_lag:.3e} uA")
print(f"max per-cell |outflow - share of I(t)| = {worst_cell:.3e} uA")
if worst_now > 1e-6 and worst_lag < 1e-9:
    print("VIOLATION: the recorded terminal current is the request of the previous step,"
          f" off by dI/dt * dt = {10.0 * dt} uA from the request at the recorded time.")
    sys.exit(1)
print("no violation")
sys.exit(0)
