"""C09 hunt 2: re-running a saved simulation in a fresh process is not bit-identical,
because Device.to_hdf5()/Device.from_hdf5() do not preserve the order of the
terminals (and holes).

Device.to_hdf5() writes the terminals into a plain HDF5 group, which
Device.from_hdf5() iterates alphabetically, and writes the holes sorted by name.
A device that went through HDF5 (on its own, or inside a Solution file) therefore
comes back with its terminals/holes in another order, although it compares equal
(``==``) to the original and (part A) carries the bit-identical mesh.

Part A (decides the exit status): four-terminal device with equally long terminals.
    Device.terminal_info() sorts the terminals by length with ties kept in list
    order, and TDGLSolver.update_mu_boundary() adds up "the currents of all the
    other terminals" in that order.  With the terminals re-ordered, three floats
    are added in a different order, the terminal current densities change in the
    last bit, and every recorded field and the adaptive time steps differ.
    The script runs the simulation, then starts a fresh process that loads the
    Solution file with Solution.from_hdf5() and repeats the simulation with
    exactly what is stored in it (device + mesh, options, field, currents).
    Control: a fresh process that rebuilds the device from the same code is
    bit-identical, so the process / thread pool / output file are not the cause.

Part B (reported only): device with two holes, saved before meshing.
    The re-loaded device meshes to the same set of points but with another site
    and triangle numbering, so mesh arrays and field arrays are not bit-identical.

Exit status 1 if the violation of part A is present, 0 otherwise.
"""
import hashlib
import json
import logging
import os
import shutil
import subprocess
import sys
import tempfile

import numpy as np

import tdgl
from tdgl.geometry import box, circle

logging.disable(logging.WARNING)

CURRENTS = dict(source=7.3, drain=-2.1, vplus=-1.9, vminus=-3.3)  # sums to zero
FIELD = 0.3


def digest(array):
    return hashlib.sha256(np.ascontiguousarray(array).tobytes()).hexdigest()[:16]


def build_device():
    layer = tdgl.Layer(coherence_length=0.5, london_lambda=2.0, thickness=0.1, gamma=1)
    film = tdgl.Polygon("film", points=box(4, 4, points=81))
    terminals = [
        tdgl.Polygon("source", points=box(0.2, 2, center=(-2, 0))),
        tdgl.Polygon("drain", points=box(0.2, 2, center=(2, 0))),
        tdgl.Polygon("vplus", points=box(2, 0.2, center=(0, 2))),
        tdgl.Polygon("vminus", points=box(2, 0.2, center=(0, -2))),
    ]
    device = tdgl.Device(
        "four_terminal",
        layer=layer,
        film=film,
        terminals=terminals,
        probe_points=[(-1.5, 0), (1.5, 0)],
    )
    device.make_mesh(max_edge_length=0.5)
    return device


def summarize(device, solution):
    data = solution.tdgl_data
    return dict(
        terminals=[t.name for t in device.terminals],
        solver_terminal_order=[t.name for t in device.terminal_info()],
        n_sites=int(len(device.mesh.sites)),
        mesh_sites=digest(device.mesh.sites),
        mesh_elements=digest(device.mesh.elements),
        n_steps=int(len(solution.dynamics.dt)),
        dt=digest(solution.dynamics.dt),
        total_time=repr(float(solution.dynamics.dt.sum())),
        voltage=digest(solution.dynamics.mu),
        psi=digest(data.psi),
        mu=digest(data.mu),
        supercurrent=digest(data.supercurrent),
        normal_current=digest(data.normal_current),
    )


def run(device, options, field, currents):
    solution = tdgl.solve(
        device, options, applied_vector_potential=field, terminal_currents=currents
    )
    return solution


def child(mode, arg, workdir):
    out = subprocess.run(
        [sys.executable, os.path.abspath(__file__), mode, arg, workdir],
        capture_output=True,
        text=True,
        env=os.environ.copy(),
    )
    lines = [line for line in out.stdout.splitlines() if line.startswith("RESULT ")]
    if not lines:
        print(out.stdout[-2000:], out.stderr[-2000:])
        raise RuntimeError("child process failed")
    return json.loads(lines[-1][len("RESULT "):])


def child_main(mode, arg, workdir):
    out = os.path.join(workdir, f"child_{os.getpid()}.h5")
    if mode == "--rebuild":
        device = build_device()
        options = tdgl.SolverOptions(solve_time=2.0, save_every=50, output_file=out)
        solution = run(device, options, FIELD, CURRENTS)
    else:
        # Repeat the simulation with exactly what the Solution file contains.
        saved = tdgl.Solution.from_hdf5(arg)
        device = saved.device
        options = saved.options
        options.output_file = out
        solution = run(
            device, options, saved.applied_vector_potential, saved.terminal_currents
        )
    print("RESULT " + json.dumps(summarize(device, solution)))
    return 0


def part_b(workdir):
    layer = tdgl.Layer(coherence_length=0.5, london_lambda=2.0, thickness=0.1, gamma=1)
    film = tdgl.Polygon("film", points=box(6, 4))
    holes = [
        tdgl.Polygon("right_hole", points=circle(0.5, points=15, center=(1.5, 0.0))),
        tdgl.Polygon("left_hole", points=circle(0.6, points=17, center=(-1.5, 0.3))),
    ]
    device = tdgl.Device("two_holes", layer=layer, film=film, holes=holes)
    path = os.path.join(workdir, "two_holes.h5")
    device.to_hdf5(path)
    loaded = tdgl.Device.from_hdf5(path)
    device.make_mesh(max_edge_length=0.5)
    loaded.make_mesh(max_edge_length=0.5)
    s1, s2 = device.mesh.sites, loaded.mesh.sites
    print("part B: holes", [h.name for h in device.holes], "->", [h.name for h in loaded.holes])
    print("part B: loaded == original:", loaded == device)
    print("part B: mesh sites bit-identical:", s1.shape == s2.shape and np.array_equal(s1, s2))
    print(
        "part B: same set of points, other numbering:",
        s1.shape == s2.shape
        and np.array_equal(s1[np.lexsort(s1.T)], s2[np.lexsort(s2.T)]),
    )


def main():
    if len(sys.argv) == 4:
        return child_main(*sys.argv[1:])

    workdir = tempfile.mkdtemp(prefix="hunt_C09_2_")
    device = build_device()
    print(
        "terminal lengths:",
        {t.name: float(t.length) for t in device.terminal_info()},
    )
    options = tdgl.SolverOptions(
        solve_time=2.0, save_every=50, output_file=os.path.join(workdir, "run.h5")
    )
    solution = run(device, options, FIELD, CURRENTS)
    original = summarize(device, solution)

    rebuilt = child("--rebuild", "-", workdir)
    reloaded = child("--reload", solution.path, workdir)

    for label, res in (
        ("original run (this process)", original),
        ("control: device rebuilt from code (fresh process)", rebuilt),
        ("repeat from Solution.from_hdf5 (fresh process)", reloaded),
    ):
        print(f"{label}:")
        for key, value in res.items():
            print(f"    {key:22s} {value}")

    print("control run bit-identical to the original:", rebuilt == original)
    print(
        "reloaded device has the bit-identical mesh:",
        reloaded["mesh_sites"] == original["mesh_sites"]
        and reloaded["mesh_elements"] == original["mesh_elements"],
    )
    keys = ("dt", "voltage", "psi", "mu", "supercurrent", "normal_current")
    differing = [k for k in keys if reloaded[k] != original[k]]
    print("repeat from the Solution file differs from the original in:", differing or "nothing")

    part_b(workdir)
    shutil.rmtree(workdir, ignore_errors=True)

    if differing:
        print(
            "VIOLATION: repeating the saved simulation in a fresh process does not give"
            " bit-identical recorded fields / time steps"
        )
        return 1
    print("no violation observed")
    return 0


if __name__ == "__main__":
    sys.exit(main())
