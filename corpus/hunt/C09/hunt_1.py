"""C09 hunt 1: calling TDGLSolver.solve() twice does not repeat the simulation.

The same TDGLSolver object (same device, same options, same field) is asked to
solve twice.  Nothing in the inputs changes between the two calls, yet the second
call records a different sequence of time steps and different fields, because the
solver keeps run state (adaptive time-step history, tentative dt, last applied
vector potential, ...) from the first call.

A third run with a *fresh* TDGLSolver built from the very same objects reproduces
the first run bit for bit, which shows that the inputs really are identical and
that only the hidden state of the reused solver differs.

Exit status 1 if the violation is present, 0 otherwise.
"""
import logging
import os
import shutil
import sys
import tempfile

import numpy as np

import tdgl
from tdgl.geometry import box
from tdgl.sources import ConstantField, LinearRamp

logging.disable(logging.WARNING)


def compare(a, b):
    """Bitwise comparison of the recorded time steps and final fields."""
    same_dt = a.dynamics.dt.shape == b.dynamics.dt.shape and np.array_equal(
        a.dynamics.dt, b.dynamics.dt
    )
    same_fields = all(
        np.array_equal(getattr(a.tdgl_data, k), getattr(b.tdgl_data, k))
        for k in ("psi", "mu", "supercurrent", "normal_current")
    )
    return same_dt, same_fields


def main():
    tmp = tempfile.mkdtemp(prefix="hunt_C09_1_")
    layer = tdgl.Layer(coherence_length=0.5, london_lambda=2.0, thickness=0.1, gamma=1)
    film = tdgl.Polygon("film", points=box(5, 4))
    device = tdgl.Device("film", layer=layer, film=film)
    device.make_mesh(max_edge_length=0.6)
    print(f"mesh sites: {len(device.mesh.sites)}")

    violated = False
    cases = {
        # all-default solver options (adaptive time step), constant field
        "constant field, default (adaptive) options": (
            dict(solve_time=3.0),
            0.4,
        ),
        # fixed time step, documented time-dependent field (linear ramp)
        "ramped field, fixed time step": (
            dict(solve_time=3.0, adaptive=False, dt_init=1e-2),
            LinearRamp(tmin=0, tmax=2) * ConstantField(0.4),
        ),
    }
    for name, (opt_kwargs, field) in cases.items():
        options = tdgl.SolverOptions(
            output_file=os.path.join(tmp, "out.h5"), save_every=50, **opt_kwargs
        )
        solver = tdgl.TDGLSolver(device, options, applied_vector_potential=field)
        first = solver.solve()
        second = solver.solve()  # identical inputs: literally the same objects
        fresh = tdgl.TDGLSolver(
            device, options, applied_vector_potential=field
        ).solve()

        dt_12, fields_12 = compare(first, second)
        dt_13, fields_13 = compare(first, fresh)
        print(f"[{name}]")
        print(
            f"  solve() #1: {len(first.dynamics.dt)} steps,"
            f" solve() #2: {len(second.dynamics.dt)} steps,"
            f" fresh solver: {len(fresh.dynamics.dt)} steps"
        )
        print(f"  #1 vs #2    : same time steps={dt_12}, same fields={fields_12}")
        print(f"  #1 vs fresh : same time steps={dt_13}, same fields={fields_13}")
        if first.tdgl_data.psi.shape == second.tdgl_data.psi.shape:
            dpsi = np.abs(first.tdgl_data.psi - second.tdgl_data.psi).max()
            print(f"  max |psi#1 - psi#2| at the final step = {dpsi:.3e}")
        if not (dt_12 and fields_12):
            violated = True
        if not (dt_13 and fields_13):
            print("  (unexpected: a fresh solver does not reproduce run #1 either)")

    shutil.rmtree(tmp, ignore_errors=True)
    if violated:
        print("VIOLATION: repeating solve() on the same TDGLSolver is not bit-identical")
        return 1
    print("no violation observed")
    return 0


if __name__ == "__main__":
    sys.exit(main())
