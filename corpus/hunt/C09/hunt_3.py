"""C09 hunt 3: whether a simulation with time-dependent terminal currents runs at all
depends on operating-system entropy.

tdgl.solver.solver.validate_terminal_currents() checks current conservation of a
callable ``terminal_currents(t)`` at 100 times drawn from an *unseeded*
``np.random.default_rng()``.  The outcome of tdgl.solve()/TDGLSolver() for one and
the same input therefore differs from call to call and from process to process:
for a drive whose currents are unbalanced during a short interval (here the drain
current switches on 0.02 tau_0 after the source current, 0.67 % of the run) about
half of the attempts raise ``ValueError("The sum of all terminal currents must be
0")`` and the other half run to completion and record fields.  Nothing but the
random sample times differs between the attempts.

The script builds the solver 40 times with identical inputs and counts the two
outcomes; it also completes two of the accepted runs to show that they produce
data (bit-identical among themselves), i.e. the only non-determinism is the
accept/reject decision.

Exit status 1 if both outcomes occur (violation present), 0 otherwise.
"""
import logging
import sys

import numpy as np

import tdgl
from tdgl.geometry import box

logging.disable(logging.WARNING)

I0 = 5.0
T_ON = 1.0
DELAY = 0.02
SOLVE_TIME = 3.0


def terminal_currents(t):
    """Source switches on at T_ON, the drain follows DELAY later."""
    return dict(
        source=I0 if t >= T_ON else 0.0,
        drain=-I0 if t >= T_ON + DELAY else 0.0,
    )


def main():
    layer = tdgl.Layer(coherence_length=0.5, london_lambda=2.0, thickness=0.1, gamma=1)
    film = tdgl.Polygon("film", points=box(4, 3))
    terminals = [
        tdgl.Polygon("source", points=box(0.1, 3, center=(-2, 0))),
        tdgl.Polygon("drain", points=box(0.1, 3, center=(2, 0))),
    ]
    device = tdgl.Device(
        "strip",
        layer=layer,
        film=film,
        terminals=terminals,
        probe_points=[(-1.5, 0), (1.5, 0)],
    )
    device.make_mesh(max_edge_length=0.6)
    print(f"mesh sites: {len(device.mesh.sites)}")
    options = tdgl.SolverOptions(solve_time=SOLVE_TIME, save_every=100)

    accepted, rejected = [], []
    attempts = 40
    for k in range(attempts):
        try:
            solver = tdgl.TDGLSolver(
                device, options, terminal_currents=terminal_currents
            )
        except ValueError as exc:
            rejected.append(str(exc))
        else:
            accepted.append(solver)
    print(f"{attempts} attempts with identical inputs:")
    print(f"  rejected with ValueError : {len(rejected)}")
    if rejected:
        print(f"    e.g. {rejected[0]!r}")
    print(f"  accepted                 : {len(accepted)}")
    expected = (1 - DELAY / SOLVE_TIME) ** 100
    print(f"  (expected acceptance probability (1 - {DELAY}/{SOLVE_TIME})**100 = {expected:.2f})")

    if len(accepted) >= 2:
        a = accepted[0].solve()
        b = accepted[1].solve()
        same = np.array_equal(a.dynamics.dt, b.dynamics.dt) and np.array_equal(
            a.tdgl_data.psi, b.tdgl_data.psi
        )
        print(
            f"  two accepted runs completed ({len(a.dynamics.dt)} steps each),"
            f" bit-identical to each other: {same}"
        )

    if accepted and rejected:
        print(
            "VIOLATION: identical inputs are sometimes simulated and sometimes"
            " refused, depending on an unseeded random number generator"
        )
        return 1
    print("no violation observed")
    return 0


if __name__ == "__main__":
    sys.exit(main())
