"""C20 hunt 1: Solution.vector_potential_at_position fails when the applied vector
potential was given as a plain function (a documented input type of tdgl.solve), so
the total = supercurrent + normal + applied cannot be evaluated at all."""
import sys
import numpy as np
import tdgl
from tdgl.geometry import box

layer = tdgl.Layer(coherence_length=0.5, london_lambda=2, thickness=0.1, gamma=1)
device = tdgl.Device("d", layer=layer, film=tdgl.Polygon("film", points=box(4, 3)))
device.make_mesh(max_edge_length=0.5, smooth=10)
print("mesh sites:", len(device.mesh.sites))

B = 0.3  # mT, symmetric gauge about the origin, in units of mT * um


def applied(x, y, z):
    return np.stack([-B * y / 2, B * x / 2, np.zeros_like(x)], axis=1)


options = tdgl.SolverOptions(solve_time=2)
# tdgl.solve / TDGLSolver: "applied_vector_potential: A function or tdgl.Parameter ..."
solution = tdgl.solve(device, options, applied_vector_potential=applied)
print("type(solution.applied_vector_potential):", type(solution.applied_vector_potential))

positions = np.array([[0.1, 0.2, 1.0], [1.0, -1.0, 0.5], [3.0, 2.0, -0.7]])
violation = False
try:
    parts = solution.vector_potential_at_position(
        positions, units="mT * um", with_units=False, return_sum=False
    )
    total = solution.vector_potential_at_position(
        positions, units="mT * um", with_units=False
    )
except Exception as e:
    print(f"vector_potential_at_position raised {type(e).__name__}: {e}")
    violation = True
else:
    expected_applied = applied(positions[:, 0], positions[:, 1], positions[:, 2])
    err_applied = np.abs(parts["applied"] - expected_applied).max()
    err_sum = np.abs(total - sum(parts.values())).max()
    print("max |applied - expected|:", err_applied, " max |total - sum(parts)|:", err_sum)
    violation = bool(err_applied > 1e-12 or err_sum > 1e-12)

# The same model wrapped in a Parameter works, which shows the input itself is fine.
solution_p = tdgl.solve(
    device, options, applied_vector_potential=tdgl.Parameter(applied)
)
parts_p = solution_p.vector_potential_at_position(
    positions, units="mT * um", with_units=False, return_sum=False
)
print("with tdgl.Parameter(applied) the applied part is:\n", parts_p["applied"])

print("VIOLATION" if violation else "ok")
sys.exit(1 if violation else 0)
