"""C20 hunt 2: for a uniform applied field (applied_vector_potential=<float>, i.e.
tdgl.sources.ConstantField) the "applied" part returned by
Solution.vector_potential_at_position - and therefore the total - is not a function of
the evaluation point: it depends on which other points are in the same call, and it is
not the applied potential the simulation was run with."""
import sys
import numpy as np
import tdgl
from tdgl.geometry import box

layer = tdgl.Layer(coherence_length=0.5, london_lambda=2, thickness=0.1, gamma=1)
device = tdgl.Device("d", layer=layer, film=tdgl.Polygon("film", points=box(4, 3)))
device.make_mesh(max_edge_length=0.5, smooth=10)
print("mesh sites:", len(device.mesh.sites))

options = tdgl.SolverOptions(solve_time=2, field_units="mT", current_units="uA")
solution = tdgl.solve(device, options, applied_vector_potential=0.3)  # 0.3 mT

kw = dict(units="mT * um", with_units=False)
p = [0.5, 0.25, 1.0]
q = [3.0, 2.0, 1.0]
r = [-3.0, 1.0, 2.0]

A_p_alone = solution.vector_potential_at_position([p], **kw)[0]
A_p_with_q = solution.vector_potential_at_position([p, q], **kw)[0]
A_p_with_r = solution.vector_potential_at_position([p, r], **kw)[0]
print("total A at p, evaluated alone     :", A_p_alone)
print("total A at p, evaluated with q    :", A_p_with_q)
print("total A at p, evaluated with r    :", A_p_with_r)

parts_alone = solution.vector_potential_at_position([p], return_sum=False, **kw)
parts_with_q = solution.vector_potential_at_position([p, q], return_sum=False, **kw)
for name in parts_alone:
    print(f"  {name:24s} alone {parts_alone[name][0]}  with q {parts_with_q[name][0]}")

batch_diff = max(
    np.abs(A_p_alone - A_p_with_q).max(), np.abs(A_p_with_q - A_p_with_r).max()
)
print("max difference of the total at the same point p:", batch_diff, "mT*um")

# Compare with the applied potential that the solver actually used (stored in the
# solution, dimensionless units of xi * Bc2) at the mesh edge centres.
xi = device.coherence_length
scale = (device.ureg("mT * um") / (device.Bc2 * xi)).to_base_units().magnitude
used = solution.tdgl_data.applied_vector_potential / scale  # mT * um, shape (n_edges, 2)
centers = device.mesh.edge_mesh.centers * xi.magnitude
i = int(np.argmax(np.linalg.norm(used, axis=1)))
reported = solution.vector_potential_at_position(
    [centers[i]], zs=1.0, return_sum=False, **kw
)["applied"][0, :2]
print(f"edge centre {centers[i]}: applied A used by the solver {used[i]},")
print(f"   'applied' part reported by vector_potential_at_position {reported}")
used_diff = np.abs(reported - used[i]).max()

# The curl of the reported potential is fine within one call, which is why this is easy
# to miss; the defect is that the gauge origin moves with the set of evaluation points.
violation = bool(batch_diff > 1e-9 or used_diff > 1e-9)
print("VIOLATION" if violation else "ok")
sys.exit(1 if violation else 0)
