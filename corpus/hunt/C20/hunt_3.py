"""C20 hunt 3: tdgl.em.convert_field accepts ``old_units`` / ``new_units`` as
``pint.Unit`` objects (see its signature and docstring), but an H <-> B conversion with
``old_units`` given as a ``pint.Unit`` and the default ``ureg=None`` raises, so the
H -> B -> H round trip cannot be done with unit objects (e.g. ``tdgl.ureg.mT``)."""
import sys
import numpy as np
import tdgl
from tdgl.em import convert_field

U = tdgl.ureg  # the registry used everywhere else in the package
values = np.array([0.5, 1.0, 2.0])
violation = False

# Reference: the same conversions with strings work and round-trip.
H_ref = convert_field(values, "A/m", old_units="mT", with_units=False)
B_ref = convert_field(H_ref, "mT", old_units="A/m", with_units=False)
print("strings : mT -> A/m", H_ref, "-> mT", B_ref)

cases = [
    ("B -> H, old_units=Unit('mT'), new_units='A/m'", values, "A/m", U.Unit("mT")),
    ("H -> B, old_units=Unit('A/m'), new_units='mT'", H_ref, "mT", U.Unit("A/m")),
    ("B -> H, both pint.Unit", values, U.Unit("A/m"), U.Unit("mT")),
    ("H -> B, both pint.Unit", H_ref, U.Unit("mT"), U.Unit("A/m")),
]
for label, val, new, old in cases:
    try:
        out = convert_field(val, new, old_units=old, with_units=False)
    except Exception as e:
        print(f"{label}: raised {type(e).__name__}: {e}")
        violation = True
        continue
    expected = H_ref if "B -> H" in label else values
    err = np.abs(out - expected).max() / np.abs(expected).max()
    print(f"{label}: {out} (relative error {err:.1e})")
    violation = violation or err > 1e-12

# Same-dimension conversions with Unit objects work, as does passing ureg explicitly,
# so Unit objects are an accepted input; only the H <-> B branch is broken.
print("Unit mT -> Unit uT:", convert_field(1.0, U.Unit("uT"), old_units=U.Unit("mT")))
print(
    "with ureg=tdgl.ureg:",
    convert_field(1.0, U.Unit("A/m"), old_units=U.Unit("mT"), ureg=U),
)

print("VIOLATION" if violation else "ok")
sys.exit(1 if violation else 0)
