"""C16 - parameter arithmetic means pointwise arithmetic of its operands.

All expression trees whose operands have depth <= 1 (60,480 composites over five operators and the
leaves {2-D parameter, 3-D parameter, time-dependent parameter, int, float}, both operand orders) are
built with the real CompositeParameter and evaluated; the same enumeration is generated inside Coq
(Model.Param.comps_over) and evaluated with exact rationals.  Compared: value or exception kind at
two argument patterns, the time_dependent flag, == on sampled pairs, construction errors.
Oracle on the real objects: value == operator(value(left), value(right)) recursively, pickling round
trip (value, flag, equality, attributes), _clear_cache totality and completeness, scalar and array
arguments, acceptance by TDGLSolver."""
from __future__ import annotations

import operator
import pickle
import random
import warnings
from fractions import Fraction

import numpy as np

from . import common
from .common import coq_list

X, Y, Z, T = 0.5, 0.25, 1.5, 0.125


def f2(x, y, a=1.0):
    return a * (x + 2 * y) + 1.5


def f3(x, y, z, b=2.0):
    return b * x + y * z + 2.25


def fk(x, y, *, p, q):
    return p * x + q * y + 0.5


def ft(x, y, *, t, c=0.5):
    return c * (x + y) + t + 0.75


def fu(x, y, *, t, c=0.5):
    return c * (x - 2 * y) - 3 * t + 1.25


def gs(x, y, k=2.0):
    return np.sin(k * x) + y


def gc(x, y, k=2.0):
    return np.cos(k * x) + y


def fa(x, y, w=None):
    return w[0] * x + w[1] * y


def fat(x, y, *, t, w=None):
    return w[0] * x + w[1] * y + t


OPS = [operator.add, operator.sub, operator.mul, operator.truediv, operator.pow]
OPN = ["Add", "Sub", "Mul", "Div", "Pow"]


def fopt(x, y, *, t=0.0):
    return (x + y) * (1 + t)


def flab(x, y, *, t, labels=None, tag=""):
    return x * (1 + t) + len(labels or []) + len(tag)


def make_leaves():
    import tdgl
    return [tdgl.Parameter(f2), tdgl.Parameter(f3), tdgl.Parameter(ft, time_dependent=True), 2, 0.5]


def comps_over(pool):
    from tdgl.parameter import CompositeParameter
    out = []
    for o in OPS:
        for l in pool:
            for r in pool:
                try:
                    out.append(CompositeParameter(l, r, o))
                except TypeError:
                    out.append(None)
                except Exception as e:  # noqa: BLE001
                    BUILD_ERRORS.append((repr(l)[:100], repr(r)[:100], o.__name__, f"{type(e).__name__}: {e}"[:120]))
                    out.append(None)
    return out


BUILD_ERRORS = []


def call(obj, with_z, with_t, arr=False):
    if arr == "int":              # Python ints / integer arrays are ordinary coordinates
        x, y = 2, -1
        z = 3 if with_z else None
    elif arr == "intarr":
        x, y = np.array([2, -1, 0]), np.array([1, 4, -2])
        z = np.array([3, 3, 1]) if with_z else None
    elif arr == "0d":             # zero-dimensional arrays and numpy scalars
        x, y = np.array(X), np.float64(Y)
        z = np.array(Z) if with_z else None
    elif arr == "len1":
        x, y = np.array([X]), np.array([Y])
        z = np.array([Z]) if with_z else None
    elif arr == "big":            # long arrays, large and tiny coordinates
        k_ = np.arange(2000, dtype=float)
        x, y = 1e6 * np.cos(k_) + X, 1e-9 * np.sin(k_) + Y
        z = (k_ * 1e-3 + Z) if with_z else None
    else:
        x, y = (np.array([X, X + 1, 2 * X]), np.array([Y, Y + 0.5, 3 * Y])) if arr else (X, Y)
        z = (np.array([Z, Z, Z + 1]) if arr else Z) if with_z else None
    kw = {}
    if with_t:
        kw["t"] = T
    with warnings.catch_warnings():
        warnings.simplefilter("ignore")
        try:
            if isinstance(obj, (int, float)):
                return ("val", obj)
            v = obj(x, y, z, **kw)
        except TypeError:
            return ("TypeErr", None)
        except ZeroDivisionError:
            return ("ZeroDiv", None)
        except OverflowError:
            return ("Unsupported", None)
        except Exception as e:  # noqa: BLE001
            return ("other:" + type(e).__name__, None)
    return ("val", v)


def run(rep: common.Report, tier: str, seed: int, replay=None) -> int:
    from tdgl.parameter import Parameter, CompositeParameter
    rep.use_props(common.check_props("C16"))
    rng = random.Random(seed * 7919 + 16)
    leaves = make_leaves()
    d1_all = comps_over(leaves)
    d1 = [c for c in d1_all if c is not None]
    pool2 = leaves + d1
    d2_all = comps_over(pool2)
    d2 = [c for c in d2_all if c is not None]
    for l_, r_, o_, e_ in BUILD_ERRORS[:10]:
        rep.violation("building a composite parameter raised: " + e_, {"left": l_, "right": r_, "op": o_},
                      finding_key=None)
    rep.coverage.update({"depth1_composites": len(d1), "depth2_composites": len(d2), "construction_errors": len(BUILD_ERRORS),
                         "construction_TypeErrors": sum(1 for c in d2_all if c is None)})

    # ---------------- oracle on the real objects ----------------
    def value_of(obj, wz, wt, arr):
        """value of an operand the way a composite asks for it"""
        if isinstance(obj, Parameter):
            return call(obj, wz, wt and obj.time_dependent, arr)
        return ("val", obj)

    nbad = 0
    trees = d1 + d2 if tier == "thorough" else d1 + rng.sample(d2, 6000)
    for c in trees:
        for wz, wt, arr in ((True, True, False), (False, True, False), (False, True, True), (True, False, True),
                            (False, True, "int"), (True, True, "intarr"), (False, True, "0d"), (True, True, "len1"),
                            (False, True, "big")):
            got = call(c, wz, wt, arr)
            lv, rv = value_of(c.left, wz, wt, arr), value_of(c.right, wz, wt, arr)
            if lv[0] != "val":
                want = lv
            elif rv[0] != "val":
                want = rv
            else:
                with warnings.catch_warnings():
                    warnings.simplefilter("ignore")
                    try:
                        want = ("val", c.operator(lv[1], rv[1]))
                    except ZeroDivisionError:
                        want = ("ZeroDiv", None)
                    except OverflowError:
                        want = ("Unsupported", None)
                    except TypeError:
                        want = ("TypeErr", None)
            same = got[0] == want[0] and (got[0] != "val" or np.array_equal(np.asarray(got[1]), np.asarray(want[1]), equal_nan=True))
            if not same and nbad < 20:
                nbad += 1
                rep.violation("composite value differs from the operator applied to the operands' values",
                              {"tree": repr(c)[:200], "with_z": wz, "with_t": wt, "array": arr, "got": str(got)[:80], "want": str(want)[:80]})
        want_td = any(isinstance(o, Parameter) and o.time_dependent for o in (c.left, c.right))
        if c.time_dependent != want_td:
            rep.violation("time_dependent flag is not the disjunction of the operands' flags", {"tree": repr(c)[:200]})
        rep.count(1)
    # ---- the same object evaluated at a sequence of times (no cache clearing in between): every value must be the
    # operator tree applied to the RAW leaf functions at that time (not to the operands' possibly cached values)
    def _no_z(f):
        def g(x, y, z, t):
            if z is not None:
                raise TypeError("2-D parameter called with z")
            return f(x, y, t)
        return g
    RAW = {id(leaves[0]): _no_z(lambda x, y, t: f2(x, y)), id(leaves[1]): lambda x, y, z, t: f3(x, y, z),
           id(leaves[2]): _no_z(lambda x, y, t: ft(x, y, t=t))}

    def raw_value(o, x, y, z, t):
        if isinstance(o, CompositeParameter):
            return o.operator(raw_value(o.left, x, y, z, t), raw_value(o.right, x, y, z, t))
        if isinstance(o, Parameter):
            return RAW[id(o)](x, y, z, t)
        return o

    base_times = [0.125, 250.0001, 250.0002, 250.0001, 1e6 + 0.5, 1e6 + 0.25, 3.0, 3, np.float64(3.0), 3.0000000001,
                  1e-9, 1.0000001e-9, 0.0, -0.0, 7.25, 7.250000000000001,
                  # pairs of times that CPython's hash() does not tell apart (hash(-1.0) == hash(-2.0), hash(2.0**61) == hash(1.0))
                  -1.0, -2.0, -1.0, 1.0, 2.0 ** 61, 1.0]
    td_trees = [c for c in d1 + d2 if c.time_dependent]
    nseq = 0
    for c in rng.sample(td_trees, 400 if tier == "quick" else 4000):
        times = list(base_times)
        rng.shuffle(times)
        for arr, wz in ((False, False), (True, False), (False, True)):
            x, y = (np.array([X, X + 1, 2 * X]), np.array([Y, Y + 0.5, 3 * Y])) if arr else (X, Y)
            z = (np.array([Z, Z, Z + 1]) if arr else Z) if wz else None
            for tt in times:
                with warnings.catch_warnings():
                    warnings.simplefilter("ignore")
                    try:
                        want = ("val", raw_value(c, x, y, z, float(tt)))
                    except (ZeroDivisionError, OverflowError, TypeError) as e:
                        want = (type(e).__name__, None)
                    try:
                        got = ("val", c(x, y, z, t=tt))
                    except (ZeroDivisionError, OverflowError, TypeError) as e:
                        got = (type(e).__name__, None)
                nseq += 1
                same = got[0] == want[0] and (got[0] != "val" or np.array_equal(np.asarray(got[1]), np.asarray(want[1]), equal_nan=True))
                if not same and nbad < 20:
                    nbad += 1
                    rep.violation("composite evaluated at a sequence of times returns a value that is not the operator tree "
                                  "applied to the leaf functions at that time (stale cache entry)",
                                  {"tree": repr(c)[:200], "time": repr(tt), "times_before": [repr(u) for u in times[:times.index(tt)]],
                                   "array": arr, "with_z": wz, "got": str(got)[:80], "want": str(want)[:80]})
        c._clear_cache()
    rep.count(nseq)
    rep.coverage["time_sequence_evaluations"] = nseq
    # ---- the same object evaluated at the same coordinates given in another FORM (flat, then as a grid, then as another dtype):
    # the value must have the form of the arguments it was called with
    nform = 0
    for c in rng.sample(td_trees, 60 if tier == "quick" else 600):
        gx, gy = np.meshgrid(np.linspace(0.5, 1.5, 3), np.linspace(-1.0, 2.0, 4))
        ix, iy = np.arange(1, 7), np.arange(2, 8)
        forms = [(gx.ravel(), gy.ravel()), (gx, gy), (gx.ravel(), gy.ravel()), (ix, iy), (ix.view(np.float64), iy.view(np.float64)),
                 (ix.astype(float), iy.astype(float))]
        for fx, fy in forms:
            with warnings.catch_warnings():
                warnings.simplefilter("ignore")
                try:
                    want = ("val", raw_value(c, fx, fy, None, 0.5))
                except (ZeroDivisionError, OverflowError, TypeError, ValueError) as e:
                    want = (type(e).__name__, None)
                try:
                    got = ("val", c(fx, fy, t=0.5))
                except (ZeroDivisionError, OverflowError, TypeError, ValueError) as e:
                    got = (type(e).__name__, None)
            nform += 1
            same = got[0] == want[0] and (got[0] != "val" or (np.shape(got[1]) == np.shape(np.squeeze(want[1]))
                                                               and np.array_equal(np.asarray(got[1]), np.squeeze(want[1]), equal_nan=True)))
            if not same and nbad < 24:
                nbad += 1
                rep.violation("composite evaluated at the same coordinates in another form (flat / grid / other dtype) returns a value that is "
                              "not the operator tree applied to the leaf functions at THESE arguments (cache entry of another call)",
                              {"tree": repr(c)[:200], "shape": list(np.shape(fx)), "dtype": str(np.asarray(fx).dtype),
                               "got": str(got)[:80], "want": str(want)[:80]})
        c._clear_cache()
    rep.count(nform)
    rep.coverage["argument_form_evaluations"] = nform
    # pickling, caches
    for c in d1 + rng.sample(d2, 1500 if tier == "quick" else 20000):
        try:
            c(X, Y, Z, t=T) if c.time_dependent else None
        except Exception:  # noqa: BLE001
            pass
        try:
            c2 = pickle.loads(pickle.dumps(c))
            ok = (c2 == c) and (c2.time_dependent == c.time_dependent) and isinstance(c2._cache, dict)
            a, b = call(c, False, True), call(c2, False, True)
            ok = ok and a[0] == b[0] and (a[0] != "val" or np.array_equal(np.asarray(a[1]), np.asarray(b[1]), equal_nan=True))
            c2._clear_cache()
        except Exception as e:  # noqa: BLE001
            ok = False
            rep.violation(f"pickling round trip raised {type(e).__name__}: {e}"[:160], {"tree": repr(c)[:200]})
            continue
        if not ok:
            rep.violation("pickled copy differs from the original (equality, flag, value or attributes)", {"tree": repr(c)[:200]})
        try:
            c._clear_cache()
        except Exception as e:  # noqa: BLE001
            rep.violation(f"_clear_cache raised {type(e).__name__}: {e}"[:160], {"tree": repr(c)[:200]})
            continue

        def caches(o):
            if isinstance(o, CompositeParameter):
                return [o._cache] + caches(o.left) + caches(o.right)
            if isinstance(o, Parameter):
                return [o._cache]
            return []
        if any(len(d) for d in caches(c)):
            rep.violation("_clear_cache left a non-empty cache in the tree", {"tree": repr(c)[:200]})
        rep.count(1)
    # operator overloads build the same composites as the constructor, in both operand orders
    sym = {operator.add: lambda a, b: a + b, operator.sub: lambda a, b: a - b, operator.mul: lambda a, b: a * b,
           operator.truediv: lambda a, b: a / b, operator.pow: lambda a, b: a ** b}
    for o in OPS:
        for l in pool2[:40]:
            for r in pool2[:12]:
                if isinstance(l, (int, float)) and isinstance(r, (int, float)):
                    continue
                try:
                    a, b = sym[o](l, r), CompositeParameter(l, r, o)
                    if not (a == b):
                        rep.violation("operator overload builds a different composite than CompositeParameter(l, r, op)",
                                      {"l": repr(l)[:80], "r": repr(r)[:80], "op": o.__name__})
                except Exception as e:  # noqa: BLE001
                    rep.violation(f"building a composite raised {type(e).__name__}: {e}"[:160],
                                  {"l": repr(l)[:80], "r": repr(r)[:80], "op": o.__name__})
                rep.count(1)
    # keyword arguments of the underlying functions are part of the structure and of the value
    import tdgl as _t
    Pa, Pb, Pc = _t.Parameter(f2, a=1.0), _t.Parameter(f2, a=2.0), _t.Parameter(f2, a=1.0)
    Ta, Tb = _t.Parameter(ft, time_dependent=True, c=0.5), _t.Parameter(ft, time_dependent=True, c=0.25)
    kw_checks = [
        ("equal keyword arguments compare equal", Pa == Pc and not (Pa != Pc)),
        ("different keyword arguments compare unequal", Pa != Pb and not (Pa == Pb)),
        ("composites over equal leaves compare equal", (Pa * 2 + Pc) == (Pc * 2 + Pa)),
        ("composites over leaves with different keyword arguments compare unequal", (Pa * 2) != (Pb * 2) and ((Pa + 1) ** 2) != ((Pb + 1) ** 2)),
        ("time-dependent leaves with different keyword arguments compare unequal", Ta != Tb and (Ta * Pa) != (Tb * Pa)),
        ("keyword arguments reach the function", float(Pb(X, Y)) == f2(X, Y, a=2.0) and float((Pb - Pa)(X, Y)) == f2(X, Y, a=2.0) - f2(X, Y, a=1.0)),
        ("keyword arguments reach a time-dependent function two levels down",
         float(((Tb * 2) + Pa)(X, Y, t=T)) == ft(X, Y, t=T, c=0.25) * 2 + f2(X, Y, a=1.0) and ((Tb * 2) + Pa).time_dependent),
    ]
    # feature pair: TWO time-dependent operands in one composite whose functions differ but whose keyword arguments are the same
    # (and, one level up, the same operand twice): each operand must evaluate ITS function, repeatedly and at several times
    Ua, Ub = _t.Parameter(ft, time_dependent=True, c=0.5), _t.Parameter(fu, time_dependent=True, c=0.5)
    two_td = []
    for t_ in (T, T + 0.37, T):
        two_td.append(float((Ua + Ub)(X, Y, t=t_)) == ft(X, Y, t=t_, c=0.5) + fu(X, Y, t=t_, c=0.5))
        two_td.append(float((Ub - Ua)(X, Y, t=t_)) == fu(X, Y, t=t_, c=0.5) - ft(X, Y, t=t_, c=0.5))
        two_td.append(float(((Ua * Ub) + (Ub / 2))(X, Y, t=t_)) == ft(X, Y, t=t_, c=0.5) * fu(X, Y, t=t_, c=0.5) + fu(X, Y, t=t_, c=0.5) / 2)
    kw_checks.append(("two time-dependent operands with equal keyword arguments but different functions each evaluate their own function",
                      all(two_td) and (Ua + Ub).time_dependent and (Ua + Ub) != (Ub + Ub)))
    # functions of the same shape that differ only in WHICH function they call (same constants, same byte code up to names)
    Ga, Gb = _t.Parameter(gs, k=2.0), _t.Parameter(gc, k=2.0)
    kw_checks.append(("leaves wrapping different functions (sin / cos of the same expression) compare unequal, and so do composites over them",
                      Ga != Gb and not (Ga == Gb) and (Ga * 2 + 1) != (Gb * 2 + 1) and Ga == _t.Parameter(gs, k=2.0)
                      and pickle.loads(pickle.dumps(Ga + Pa)) != (Gb + Pa)
                      and float(Ga(X, Y)) == float(gs(X, Y)) and float(Gb(X, Y)) == float(gc(X, Y))))
    # the rest of the parameter vocabulary: the Constant parameter, operators given by their symbol, array-valued keyword arguments
    from tdgl.parameter import Constant as _Const, CompositeParameter as _Comp
    try:
        c3, c3b, c2 = _Const(3.0), _Const(3.0), _Const(2.0)
        kw_checks.append(("Constant parameters evaluate to their value, combine pointwise and compare by value",
                          float(c3(X, Y)) == 3.0 and float((Pa + c3)(X, Y)) == f2(X, Y, a=1.0) + 3.0 and float((c3 * c2 - Pa)(X, Y)) == 6.0 - f2(X, Y, a=1.0)
                          and c3 == c3b and c3 != c2 and (Pa + c3) == (Pa + c3b) and (Pa + c3) != (Pa + c2)
                          and float(_Const(2.5, dimensions=3)(X, Y, Z)) == 2.5 and not (Pa + c3).time_dependent))
        sym_ok = True
        for sym_, op_ in (("+", operator.add), ("-", operator.sub), ("*", operator.mul), ("/", operator.truediv), ("**", operator.pow)):
            cs_ = _Comp(Pa, Pb, sym_)
            sym_ok = sym_ok and cs_ == _Comp(Pa, Pb, op_) and float(cs_(X, Y)) == float(op_(f2(X, Y, a=1.0), f2(X, Y, a=2.0)))
        try:
            _Comp(Pa, Pb, "%")
            sym_ok = False
        except (ValueError, TypeError):
            pass
        kw_checks.append(("an operator given by its symbol is that operator; an unknown symbol is refused", sym_ok))
        Wa, Wb, Wc = (_t.Parameter(fa, w=np.array([1.0, 2.0])), _t.Parameter(fa, w=np.array([1.0, 2.0])), _t.Parameter(fa, w=np.array([2.0, 1.0])))
        Wt = _t.Parameter(fat, time_dependent=True, w=np.array([0.5, -1.5]))
        kw_checks.append(("array-valued keyword arguments are part of the value and of the structure",
                          Wa == Wb and Wa != Wc and (Wa * 2) == (Wb * 2) and (Wa * 2) != (Wc * 2)
                          and float(Wa(X, Y)) == fa(X, Y, w=[1.0, 2.0]) and float(Wc(X, Y)) == fa(X, Y, w=[2.0, 1.0])
                          and all(float((Wt + Wc)(X, Y, t=t_)) == fat(X, Y, t=t_, w=[0.5, -1.5]) + fa(X, Y, w=[2.0, 1.0]) for t_ in (T, T, T + 1.0, T))
                          and pickle.loads(pickle.dumps(Wt * Wa)) == (Wt * Wb)))
    except Exception as e:  # noqa: BLE001
        rep.violation(f"Constant / symbolic operators / array keyword arguments raised {type(e).__name__}: {e}"[:200], {})
    # equality is structural and total: comparing any two members of the vocabulary answers (never raises), whichever side is which;
    # a leaf differs from a composite, and the same function wrapped with and without the time is two different leaves
    try:
        cst = _Const(2.0)
        pairs_ne = [(cst, Pa * 2), (Pa * 2, cst), (cst * Pa, (Pa * 2) * Pa), ((Pa * 2) * Pa, cst * Pa), (Pa, Pa + 0), (Pa + 0, Pa),
                    (Ta, Ta * 1), (cst, 2.0), (Pa * 2, 2.0)]
        ok_ne = all((a != b) and not (a == b) for a, b in pairs_ne)
        Sa, Sd = _t.Parameter(fopt), _t.Parameter(fopt, time_dependent=True)
        ok_td = (Sa != Sd and not (Sa == Sd) and (Sa * 2) != (Sd * 2) and not (Sa * 2).time_dependent and (Sd * 2).time_dependent
                 and float((Sa * 2)(X, Y)) == 2 * fopt(X, Y) and float((Sd * 2)(X, Y, t=3.0)) == 2 * fopt(X, Y, t=3.0)
                 and Sd == _t.Parameter(fopt, time_dependent=True) and Sa == _t.Parameter(fopt))
        kw_checks.append(("a leaf and a composite compare unequal in both orders without raising (Constant, Parameter, numbers)", ok_ne))
        kw_checks.append(("the same function wrapped with and without time_dependent is two different parameters (flags, values, equality)", ok_td))
        LK = dict(labels=["left", "right"], tag="abc")
        Ls = _t.Parameter(flab, time_dependent=True, **LK)
        kw_checks.append(("string / list-of-string keyword arguments: the leaf and composites over it evaluate and compare",
                          float(Ls(X, Y, t=1.0)) == flab(X, Y, t=1.0, **LK) and float((Ls * 2)(X, Y, t=1.0)) == 2 * flab(X, Y, t=1.0, **LK)
                          and float((Ls * 2 + Pa)(X, Y, t=2.0)) == 2 * flab(X, Y, t=2.0, **LK) + f2(X, Y, a=1.0)
                          and (Ls * 2) == (_t.Parameter(flab, time_dependent=True, labels=["left", "right"], tag="abc") * 2)
                          and (Ls * 2) != (_t.Parameter(flab, time_dependent=True, labels=["left", "up"], tag="abc") * 2)))
    except Exception as e:  # noqa: BLE001
        rep.violation(f"equality / evaluation over the parameter vocabulary raised {type(e).__name__}: {e}"[:200], {})
    Ka, Kb, Kc = _t.Parameter(fk, p=1.0, q=2.0), _t.Parameter(fk, q=2.0, p=1.0), _t.Parameter(fk, p=2.0, q=1.0)
    kw_checks += [
        ("keyword arguments written in another order are the same parameter", Ka == Kb and (Ka * 2) == (Kb * 2)
         and float(Ka(X, Y)) == float(Kb(X, Y))),
        ("the same values attached to other keywords are a different parameter", Ka != Kc and (Ka + 1) != (Kc + 1)
         and float(Ka(X, Y)) == fk(X, Y, p=1.0, q=2.0) and float(Kc(X, Y)) == fk(X, Y, p=2.0, q=1.0)),
        ("a pickled copy equals the original whatever the keyword order",
         pickle.loads(pickle.dumps(Kb * Ka)) == (Ka * Kb)),
    ]
    for what, ok in kw_checks:
        if not ok:
            rep.violation("keyword arguments of parameters: " + what + " - violated", {"check": what})
        rep.count(1)
    # handed to the solver like plain parameters
    solver_acceptance(rep, rng)

    # ---------------- correspondence with the Coq enumeration ----------------
    q = lambda v: f"({Fraction(v).numerator}#{Fraction(v).denominator})"
    lv = {0: f2(X, Y), 1: f3(X, Y, Z), 2: ft(X, Y, t=T)}
    t = ("From Coq Require Import ZArith QArith List Bool.\nImport ListNotations.\nFrom PyTdgl Require Import Model.Param.\n"
         f"Definition lvz (i : nat) : Q := match i with 0%nat => {q(lv[0])} | 1%nat => {q(lv[1])} | _ => {q(lv[2])} end.\n"
         "Definition enc (r : res Q) : Z * Z * Z :=\n"
         "  match r with Val v => (0, Qnum (Qred v), Zpos (Qden (Qred v))) | Raise TypeErr => (1,0,1) | Raise ZeroDiv => (2,0,1)\n"
         "             | Raise Unsupported => (3,0,1) end%Z.\n"
         "Definition all2 := comps_over pool2.\n"
         "Definition row (x : res expr) : list (Z*Z*Z) :=\n"
         "  match x with\n"
         "  | Raise _ => [(9,0,1)%Z]\n"
         "  | Val e => [((if td e then 1 else 0)%Z, 0%Z, 1%Z); enc (eval true e (Build_env true true lvz));\n"
         "              enc (eval true e (Build_env false true lvz))]\n"
         "  end.\n"
         "Definition chunk (o : op) := flat_map (fun l => map (fun r => mk_comp o l r) pool2) pool2.\n"
         "Eval vm_compute in map row (chunk Add).\nEval vm_compute in map row (chunk Sub).\n"
         "Eval vm_compute in map row (chunk Mul).\nEval vm_compute in map row (chunk Div).\n"
         "Eval vm_compute in map row (chunk Pow).\n")
    pairs = [(rng.randrange(len(d2_all)), rng.randrange(len(d2_all))) for _ in range(1500)]
    pairs += [(i, i) for i in rng.sample(range(len(d2_all)), 300)]
    pl = coq_list([f"({i}%nat, {j}%nat)" for i, j in pairs], per_line=8)
    t += ("Definition nthx (i : nat) := nth i all2 (Raise TypeErr).\n"
          f"Eval vm_compute in map (fun '(i, j) => match nthx i, nthx j with Val a, Val b => if eqb a b then 1%Z else 0%Z | _, _ => 9%Z end) {pl}.\n")
    rc, out = common.run_model("c16_enum", t, timeout=1200)
    ndis = 0
    if rc != 0:
        rep.not_shown("correspondence: model evaluation failed", {"log": out[-1500:]})
    else:
        rows = []
        for kk in range(5):
            rows += common.parse_nested(common.eval_block(out, kk))[0]
        if len(rows) != len(d2_all):
            rep.not_shown("correspondence: enumeration sizes differ", {"model": len(rows), "impl": len(d2_all)})
        else:
            tagmap = {0: "val", 1: "TypeErr", 2: "ZeroDiv", 3: "Unsupported"}
            for idx, (row, c) in enumerate(zip(rows, d2_all)):
                if row[0][0] == 9 or c is None:
                    if not (row[0][0] == 9 and c is None):
                        ndis += 1
                        rep.not_shown("correspondence: construction error differs from Model.Param.mk_comp", {"index": idx})
                    continue
                if bool(row[0][0]) != bool(c.time_dependent):
                    ndis += 1
                    rep.not_shown("correspondence: time_dependent differs from Model.Param.td", {"tree": repr(c)[:160]})
                    continue
                for k, (wz, wt) in enumerate(((True, True), (False, True))):
                    tag, num, den = row[1 + k]
                    got = call(c, wz, wt)
                    mt = tagmap[tag]
                    if mt == "Unsupported":
                        continue
                    gt = got[0]
                    if gt == "val" and not np.isfinite(got[1]):
                        gt = "ZeroDiv"
                    ok = (gt == mt)
                    if ok and mt == "val":
                        mv = num / den
                        ok = abs(float(got[1]) - mv) <= 1e-11 * max(1.0, abs(mv))
                    if not ok:
                        ndis += 1
                        if ndis <= 10:
                            rep.not_shown("correspondence: value / exception kind differs from Model.Param.eval",
                                          {"tree": repr(c)[:160], "with_z": wz, "model": [mt, num, den], "impl": str(got)[:60]})
        eqs = common.parse_nested(common.eval_block(out, 5))[0]
        for (i, j), me in zip(pairs, eqs):
            a, b = d2_all[i], d2_all[j]
            if a is None or b is None:
                continue
            try:
                ie = 1 if (a == b) else 0
            except Exception as e:  # noqa: BLE001
                ie = f"raised {type(e).__name__}"
            if ie != me:
                ndis += 1
                if isinstance(ie, str):
                    rep.violation("== between two parameter expressions raised instead of answering", {"a": repr(a)[:120], "b": repr(b)[:120], "error": ie})
                else:
                    rep.not_shown("correspondence: == differs from Model.Param.eqb", {"a": repr(a)[:120], "b": repr(b)[:120]})
    rep.sample({"tree": repr(d2[1234])[:200], "td": d2[1234].time_dependent})
    rep.sample({"tree": repr(d1[7])[:200], "value": str(call(d1[7], True, True))})
    rep.nontrivial("depth1")
    rep.nontrivial("depth2")
    rep.nontrivial("pairs")
    rep.coverage.update({"correspondence_disagreements": ndis, "exhaustive": True,
                         "bound": "all composites with operands of depth <= 1 (depth-2 trees); depth 3 sampled in thorough"})
    return rep.finish(level="proof", trusted_base=common.STD_TRUSTED,
                      rule="one evaluation = one expression tree; the enumeration is generated identically in Python and in Coq")


def solver_acceptance(rep, rng):
    """Composites handed to TDGLSolver as applied vector potential / epsilon."""
    import tdgl
    from tdgl.sources import ConstantField, LinearRamp
    from . import meshes, runs
    dev = meshes.make_device(rng, holes=0, terminals=0, max_edge_length=1.6, probe_points=False)
    cf = lambda v: ConstantField(v, field_units="mT", length_units="um")
    cands = {
        "P*2": lambda: cf(0.1) * 2,
        "2*P": lambda: 2 * cf(0.1),
        "P+P": lambda: cf(0.1) + cf(0.05),
        "(P*2)+P": lambda: (cf(0.1) * 2) + cf(0.02),
        "ramp*P": lambda: LinearRamp(tmin=0.0, tmax=1.0) * cf(0.3),
        "(ramp*P)+P": lambda: (LinearRamp(tmin=0.0, tmax=1.0) * cf(0.3)) + cf(0.1),
        "(ramp*2)*P": lambda: (LinearRamp(tmin=0.0, tmax=1.0) * 2) * cf(0.2),
        "P/2-P": lambda: cf(0.4) / 2 - cf(0.1),
    }
    for name, mk in cands.items():
        try:
            A = mk()
            opts = runs.make_options(None, solve_time=0.02, dt_init=2e-3, dt_max=2e-3, adaptive=False)
            sol = tdgl.solve(dev, opts, applied_vector_potential=A)
            if sol is None:
                raise RuntimeError("no solution")
        except Exception as e:  # noqa: BLE001
            rep.violation(f"a composite parameter ({name}) was not accepted by the solver: {type(e).__name__}: {e}"[:200], {"expr": name})
        rep.count(1)
