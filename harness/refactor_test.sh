#!/bin/bash
# usage: refactor_test.sh <name>   -- apply seeded/<name>/patch.diff (a behaviour-preserving refactoring) to a scratch
# worktree and run ALL checks against it: every one must stay quiet.  Evidence restored afterwards.
n=$1
wt=/tmp/reftest_$$
git -C /repo worktree add --detach -q $wt HEAD || exit 2
git -C $wt apply /verif/seeded/$n/patch.diff || { echo "APPLY FAILED $n"; git -C /repo worktree remove --force $wt; exit 2; }
bak=$(mktemp -d); cp -a /verif/evidence/. $bak/
for c in C01 C02 C03 C04 C05 C06 C07 C08 C09 C10 C11 C12 C13 C14 C15 C16 C17 C18 C19 C20; do echo $c; done | \
  xargs -P 5 -I{} bash -c 'out=$(cd /verif && PY_TDGL_REPO='$wt' ./check {} 2>&1 | grep -E "^VIOLATION|^OK|no longer checks|violation:" | head -3 | cut -c1-260 | tr "\n" " "); echo "'$n' {} => $out"'
cp -a $bak/. /verif/evidence/; rm -rf $bak
git -C /repo worktree remove --force $wt; git -C /repo worktree prune
