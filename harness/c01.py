"""C01 - charge is conserved in every cell at every recorded step; terminal currents; balanced
currents accepted.

Correspondence: real TDGLSolver.update calls vs Model.Step.step (stepcorr).
Oracle (every update call of every run, i.e. a superset of the recorded steps): per-cell continuity
residual  a_i (D(Js+Jn))_i - sum_{boundary edges of i} len/2 * Jext, terminal totals, zero
injection away from terminals; accept/reject table for balanced current assignments."""
from __future__ import annotations

import math
import random
import tempfile

import numpy as np

from . import common, meshes, runs, stepcorr


def j_scale(dev, current_units):
    """dimensionless value of one current unit per length unit: 4 (I/L) / K0 with K0 = 4 xi Bc2 / (mu_0 Lambda) computed here
    from the layer's numbers (not read from the device, whose derived scales are part of what is checked)"""
    ureg = dev.ureg
    L = ureg(dev.length_units)
    xi, lam, d = (dev.layer.coherence_length * L, dev.layer.london_lambda * L, dev.layer.thickness * L)
    Bc2 = ureg("Phi_0") / (2 * np.pi * xi ** 2)
    K0 = 4 * xi * Bc2 / (ureg("mu_0") * lam ** 2 / d)
    J = 4 * ((ureg(current_units) / L) / K0).to_base_units()
    return float(J.magnitude)


def run_case(rep, rng, ci, dev, cfg, model_records):
    nterm = len(dev.terminals)
    names = [t.name for t in dev.terminals]
    base = [rng.choice([1.0, 2.5, 0.1, 7.0]) for _ in range(nterm - 1)]
    base.append(-sum(base))
    if cfg["td_current"] == "pulse":
        T3 = cfg["solve_time"] / 3.0

        def currents(t, base=base, names=names):
            s = 1.0 if t < T3 else (0.0 if t < 2 * T3 else 0.5)     # switched off exactly, then on again
            return {nm: s * b for nm, b in zip(names, base)}
    elif cfg["td_current"]:
        def currents(t, base=base, names=names):
            s = 1.0 + 0.5 * math.sin(3.0 * t)
            return {nm: s * b for nm, b in zip(names, base)}
    else:
        currents = dict(zip(names, base))
    if cfg["field"] == "ramp":
        A = runs.ramp_field_param(0.0, 0.6, 0.5)
    elif cfg["field"] == "static":
        A = 0.3
    else:
        A = 0.0
    em = dev.mesh.edge_mesh
    xi = dev.coherence_length.magnitude
    blen = em.edge_lengths[em.boundary_edge_indices]
    # terminal membership recomputed here from the polygons and the CURRENT mesh (not through the device's own
    # terminal_info(), so that a stale answer of that method is visible)
    from types import SimpleNamespace
    bpos = xi * em.centers[em.boundary_edge_indices]
    info = [SimpleNamespace(name=t.name, boundary_edge_indices=t.contains_points(bpos, index=True)) for t in dev.terminals]
    Jsc = j_scale(dev, cfg["current_units"])
    worst = {"cont": 0.0, "term": 0.0}
    nupd = [0]
    last_dt = {}
    recs = []

    def before(solver, state, kw):
        last_dt["dt"] = state["dt"]

    def on_step(solver, state, kw, res):
        nupd[0] += 1
        ops = solver.operators
        J = np.asarray(res.supercurrent) + np.asarray(res.normal_current)
        a = dev.mesh.areas
        lhs = a * (ops.divergence @ J)
        muB = np.asarray(solver.mu_boundary)
        rhs = a * (ops.mu_boundary_laplacian @ muB)
        scale = float(np.max(a * (abs(ops.divergence) @ np.abs(J))) + 1e-12)
        r = float(np.max(np.abs(lhs - rhs))) / scale
        worst["cont"] = max(worst["cont"], r)
        if r > 1e-7:
            rep.violation(f"per-cell continuity violated (relative residual {r:.2e})",
                          {"run": ci, **cfg, "step": state["step"]})
        # injection only through terminal edges, with the requested totals
        cur = currents(state["time"]) if callable(currents) else currents
        covered = np.zeros(len(muB), dtype=bool)
        for t in info:
            idx = np.asarray(t.boundary_edge_indices, dtype=int)
            covered[idx] = True
            total = float(np.sum(blen[idx] * muB[idx]) * xi)
            want = Jsc * cur.get(t.name, 0.0)
            tol = 1e-9 * (abs(want) + Jsc * sum(abs(v) for v in cur.values()) + 1e-300)
            worst["term"] = max(worst["term"], abs(total - want) / (tol / 1e-9))
            if abs(total - want) > tol:
                rep.violation("current through a terminal differs from the requested current",
                              {"run": ci, **cfg, "terminal": t.name, "got": total, "want": want, "step": state["step"]})
        if np.any(muB[~covered] != 0):
            rep.violation("current injected through a boundary edge that belongs to no terminal",
                          {"run": ci, **cfg, "step": state["step"]})
        if model_records and state["step"] in (1, 9) and len(recs) < 2:
            recs.append(stepcorr.StepRecord(solver, state, last_dt["dt"], kw, res))

    with tempfile.TemporaryDirectory(prefix="pyt_c01_") as td:
        opts = runs.make_options(td, solve_time=cfg["solve_time"], dt_init=1e-3 if cfg["adaptive"] else 5e-3,
                                 dt_max=5e-2, adaptive=cfg["adaptive"], save_every=10,
                                 include_screening=cfg["screening"], screening_tolerance=1e-2,
                                 current_units=cfg["current_units"], terminal_psi=cfg["terminal_psi"])
        try:
            _, solver_ = runs.traced_solve(dev, opts, A=A, currents=currents, on_step=on_step, before_step=before)
            runs.report_threading(rep, solver_, {"run": "C01 plan"})
        except ValueError as e:
            if "sum of all terminal currents" not in str(e):
                raise
            rep.violation("balanced terminal currents rejected: " + str(e),
                          {"run": ci, **cfg, "base_currents": base})
    rep.count(nupd[0])
    rep.nontrivial((nterm, cfg["field"], cfg["td_current"], cfg["screening"], cfg["adaptive"], cfg["current_units"]))
    rep.sample({"run": ci, **cfg, "terminals": nterm, "sites": len(dev.mesh.sites), "updates": nupd[0],
                "worst_rel_continuity_residual": worst["cont"]})
    return recs


def mu_boundary_corr(rep, rng, dev, tier, numpy_scalars=False):
    """update_mu_boundary (with its change-only cache) driven with scripted currents vs Model.Step.update_mu_boundary."""
    from tdgl.solver.solver import TDGLSolver
    from .common import flit, coq_list
    names_all = [t.name for t in dev.terminals]
    nt = len(names_all)
    nseq = 16 if tier == "quick" else 80
    # per-terminal scripts: at every call a random subset of terminals keeps its current (some at zero) while the
    # others change; the assignment stays balanced (the terminals that change absorb the difference)
    script = []
    prev = [0.0] * nt
    for k in range(nseq):
        r = rng.random()
        if r < 0.15 and script:
            vec = list(prev)                                   # nothing changes
        elif r < 0.3:
            vec = [0.0] * nt                                   # everything off
        else:
            keep = [rng.random() < 0.4 for _ in range(nt)]
            movers = [j for j in range(nt) if not keep[j]]
            if len(movers) < 2:
                movers = rng.sample(range(nt), 2)
            vec = list(prev)
            for j in movers[:-1]:
                r2 = rng.random()
                # values over many orders of magnitude, and tiny relative changes of the previous value
                vec[j] = (prev[j] * (1 + rng.choice([1e-7, -3e-9, 1e-12])) if (r2 < 0.2 and prev[j] != 0)
                          else rng.choice([1.0, 2.5, 0.3, -0.7, 0.0, 1e-3, 1e-9, -2.5e-10, 3e-13, 4e5]))
            import math
            vec[movers[-1]] = -math.fsum(v_ for j_, v_ in enumerate(vec) if j_ != movers[-1])
        script.append(vec)
        prev = vec

    def cur(t):
        k = min(int(round(t)), nseq - 1)
        # a terminal whose current is zero may simply be left out of the dict (same assignment, other form): at every other
        # call the zero entries of every other terminal are omitted
        return {nm: (np.float64(v) if numpy_scalars else v) for j, (nm, v) in enumerate(zip(names_all, script[k]))
                if not (v == 0 and (k + j) % 2 == 0 and k > 0)}

    opts = runs.make_options(None, solve_time=1.0)
    solver = TDGLSolver(dev, opts, terminal_currents=cur)
    info = solver.terminal_info
    order = solver.terminal_names
    snaps = []
    Ilits = []
    oracle_bad = []
    kinds = {type(v) for v in solver.current_func(0.0).values()}
    if kinds == {float}:
        comp = "true"        # CPython >= 3.12: builtin sum over exact floats is Neumaier-compensated
    elif float not in kinds:
        comp = "false"       # numpy scalars: plain left-to-right additions
    else:
        rep.not_shown("correspondence: the scaled terminal currents mix exact floats and other scalars; the summation path is not modelled",
                      {"types": sorted(map(str, kinds))})
        return 1
    for k in range(nseq):
        solver.update_mu_boundary(float(k))
        snaps.append(np.array(solver.mu_boundary, copy=True))
        scaled = solver.current_func(float(k))
        # oracle (cache_coherent): after ANY call sequence every terminal edge carries the from-scratch density of the
        # latest currents (= I_t / L_t for a balanced assignment), every other boundary edge 0
        want_mb = np.zeros(len(solver.mu_boundary))
        tol_mb = np.full(len(solver.mu_boundary), 1e-300)
        for ti in info:
            # from-scratch density of cache_coherent: -(sum of the other terminals' currents) / L_t, summed exactly here
            import math
            want_mb[ti.boundary_edge_indices] = -math.fsum(float(v) for nm_, v in scaled.items() if nm_ != ti.name) / ti.length
            # the code forms -(sum of the OTHER currents) / L: rounding is relative to that sum, not to I_t itself
            tol_mb[ti.boundary_edge_indices] = 16 * 2.3e-16 * sum(abs(float(v)) for v in scaled.values()) / ti.length + 1e-300
        if np.any(np.abs(snaps[-1] - want_mb) > tol_mb) and not oracle_bad:
            oracle_bad.append(k)
            rep.violation("after a sequence of update_mu_boundary calls a terminal's boundary edges do not carry the requested "
                          "current density of the latest currents (stale change-only cache)",
                          {"call": k, "currents_last_calls": script[max(0, k - 2):k + 1],
                           "max_abs_diff": float(np.max(np.abs(snaps[-1] - want_mb)))})
        Ilits.append(coq_list([flit(scaled.get(nm, 0.0)) for nm in order]))
    nb = len(solver.mu_boundary)
    # hypothesis of C01_cache_coherent: the terminals cover disjoint sets of boundary edges
    alle = np.concatenate([np.asarray(t.boundary_edge_indices, dtype=int) for t in info])
    rep.coverage["terminal_edge_sets_disjoint"] = bool(len(alle) == len(np.unique(alle)))
    if len(alle) != len(np.unique(alle)):
        rep.not_shown("the device's terminals share boundary edges: the hypothesis of C01_cache_coherent is not met by this device", {})
    terms = coq_list([f"Build_terminal OpsF {flit(t.length)} {coq_list([str(int(b)) + '%nat' for b in t.boundary_edge_indices], per_line=20)}"
                      for t in info], per_line=1)
    t = ("From Coq Require Import PrimFloat List.\nImport ListNotations.\nFrom PyTdgl Require Import Base.Ops Model.Step.\nOpen Scope float_scope.\n"
         f"Definition ts := {terms}.\n"
         "Fixpoint scan (st : list float * (nat -> float)) (l : list (list float)) : list (list float) :=\n"
         "  match l with [] => [] | cur :: tl => let st' := update_mu_boundary OpsF COMP ts cur st in\n"
         f"    map (snd st') (seq 0 {nb}) :: scan st' tl end.\n"
         f"Eval vm_compute in scan (repeat 0 (length ts), fun _ => 0) {coq_list(Ilits, per_line=1)}.\n")
    t = t.replace("COMP", comp)
    rc, out = common.run_model("c01_mub_" + comp, t)
    if rc != 0:
        rep.not_shown("correspondence: update_mu_boundary model evaluation failed", {"log": out[-1200:]})
        return 1
    res = common.parse_nested(common.eval_block(out))[0]
    bad = 0
    for k, (m, s) in enumerate(zip(res, snaps)):
        if not np.array_equal(np.array(m, dtype=float), s):
            bad += 1
            rep.not_shown("correspondence: mu_boundary after update_mu_boundary differs from Model.Step.update_mu_boundary",
                          {"call": k, "script": script[max(0, k - 2):k + 1], "max_abs_diff": float(np.max(np.abs(np.array(m, dtype=float) - s)))})
            break
    rep.count(nseq)
    rep.coverage["mu_boundary_calls_compared"] = rep.coverage.get("mu_boundary_calls_compared", 0) + nseq
    rep.coverage.setdefault("mu_boundary_sum_paths", []).append("compensated" if comp == "true" else "plain")
    return bad


def acceptance(rep, rng, dev, n):
    """Every balanced assignment must be accepted (and the same float test is what the model's
    accepts_currents evaluates: compared in c19 as well)."""
    import tdgl
    names = [t.name for t in dev.terminals]
    rejected = 0
    pool = [1, 2, 3, 5, 0.1, 0.2, 0.3, 0.7, 1.1, 2.2, 1e-3, 13.7, 1e3, 0.05]
    for k in range(n):
        m = rng.randint(2, len(names))
        vals = [rng.choice(pool) * rng.choice([1, -1]) for _ in range(m - 1)]
        if k == 0:
            vals = [1, 2][: m - 1]
        vals.append(-sum(vals))                       # balanced as written by the user
        cur = dict(zip(rng.sample(names, m), vals))
        units = rng.choice(["uA", "nA", "mA"])
        opts = runs.make_options(None, solve_time=0.01, current_units=units)
        try:
            tdgl.solver.solver.TDGLSolver(dev, opts, terminal_currents=cur)
        except ValueError as e:
            if "sum of all terminal currents" in str(e):
                rejected += 1
                exact = (sum(__import__("fractions").Fraction(v) for v in vals) == 0)
                rep.violation("balanced terminal currents rejected: " + str(e),
                              {"currents": cur, "units": units, "exactly_balanced_as_floats": exact})
            else:
                raise
        rep.count(1)
    rep.coverage["balanced_assignments_tried"] = n
    rep.coverage["balanced_assignments_rejected"] = rejected


def run(rep: common.Report, tier: str, seed: int, replay=None) -> int:
    rep.use_props(common.check_props("C01"))
    rng = random.Random(seed * 7919 + 1)
    plans = [
        dict(terminals=2, holes=1, field="static", td_current=False, screening=False, adaptive=True, current_units="uA", terminal_psi=0.0, solve_time=0.5),
        dict(terminals=3, holes=0, field="ramp", td_current=True, screening=False, adaptive=False, current_units="uA", terminal_psi=0.0, solve_time=0.25),
        dict(terminals=4, holes=2, field="zero", td_current=True, screening=False, adaptive=True, current_units="nA", terminal_psi=None, solve_time=0.4),
        dict(terminals=2, holes=0, field="static", td_current=False, screening=True, adaptive=True, current_units="uA", terminal_psi=0.0, solve_time=0.1),
        dict(terminals=3, holes=1, field="zero", td_current=False, screening=False, adaptive=True, current_units="mA", terminal_psi=0.0, solve_time=0.3),
    ]
    plans.append(dict(terminals=2, holes=0, field="zero", td_current="pulse", screening=False, adaptive=False,
                      current_units="uA", terminal_psi=0.0, solve_time=0.3))
    if tier == "thorough":
        plans = plans * 4
    texts, recs_all = [], []
    for ci, cfg in enumerate(plans):
        small = ci < 3
        dev = meshes.make_device(rng, holes=cfg["holes"], terminals=cfg["terminals"],
                                 max_edge_length=1.6 if small else 0.9,
                                 shape=rng.choice(["box", "union"]) if cfg["terminals"] <= 2 else "box")
        recs = run_case(rep, rng, ci, dev, cfg, model_records=small)
        for r in recs:
            texts.append(stepcorr.model_text(r))
            recs_all.append((r, {"run": ci, **cfg, "step": r.step, "sites": len(dev.mesh.sites)}))
    outs = common.run_model_shards("c01_step", texts, jobs=8)
    ndis = 0
    for (rc, out), (r, case) in zip(outs, recs_all):
        if rc != 0:
            rep.not_shown("correspondence(step): model evaluation failed", {**case, "log": out[-1200:]})
            continue
        ndis += stepcorr.compare(rep, r, out, case)
    # extremal positions: a terminal that covers the FIRST vertex of the film outline (where the ring of boundary sites closes:
    # the boundary edge between the last and the first outline vertex is there) and one that covers the vertex half-way round
    import tdgl
    from tdgl.geometry import box, circle
    for fi, fpts in enumerate((box(6.0, 4.0), circle(2.5, points=40), box(5.0, 3.0, points=37))):
        film = tdgl.Polygon("film", points=fpts)
        p0, p1 = film.points[0], film.points[len(film.points) // 2]
        dv = tdgl.Device(f"first_vertex_{fi}", layer=tdgl.Layer(coherence_length=0.5, london_lambda=2.0, thickness=0.1),
                         film=film, terminals=[tdgl.Polygon("source", points=box(1.1, 1.1, center=tuple(p0))),
                                               tdgl.Polygon("drain", points=box(1.1, 1.1, center=tuple(p1)))],
                         length_units="um")
        for mel_ in (0.9, 0.75, 1.05, 0.6, 0.5):
            try:
                dv.make_mesh(max_edge_length=mel_, smooth=0)
                break
            except ValueError:       # "Malformed Voronoi cell": the package refuses this discretisation, try another
                dv.mesh = None
        if dv.mesh is None:
            rep.coverage["first_vertex_devices_not_meshed"] = rep.coverage.get("first_vertex_devices_not_meshed", 0) + 1
            continue
        run_case(rep, rng, 300 + fi, dv, dict(terminals=2, holes=0, field="static", td_current=False, screening=False, adaptive=True,
                                              current_units="uA", terminal_psi=0.0, solve_time=0.1), model_records=False)
    # plain rectangles centred on the origin with the DEFAULT mesh (mirror-symmetric triangulations, right triangles at the
    # corners): every balanced assignment has to be accepted on the mesh the package itself produced
    for pi_, (W_, H_, n_, xi_) in enumerate(((3.0, 3.0, 40, 0.5), (6.0, 3.0, 40, 0.5), (5.0, 1.0, 40, 0.5), (10.0, 2.0, 40, 1.0))):
        dvp = tdgl.Device(f"plain_{pi_}", layer=tdgl.Layer(coherence_length=xi_, london_lambda=2.0, thickness=0.1, gamma=1),
                          film=tdgl.Polygon("film", points=box(W_, H_, points=n_)),
                          terminals=[tdgl.Polygon("source", points=box(0.2, 0.66 * H_, center=(-W_ / 2, 0))),
                                     tdgl.Polygon("drain", points=box(0.2, 0.66 * H_, center=(W_ / 2, 0)))],
                          length_units="um")
        try:
            dvp.make_mesh()
        except Exception as e:  # noqa: BLE001
            rep.coverage["plain_devices_not_meshed"] = rep.coverage.get("plain_devices_not_meshed", 0) + 1
            continue
        a_ = dvp.mesh.areas       # (the package only warns about encroached boundary cells: whatever mesh it returns has to be usable)
        try:
            run_case(rep, rng, 400 + pi_, dvp, dict(terminals=2, holes=0, field="static", td_current=False, screening=False, adaptive=True,
                                                    current_units="uA", terminal_psi=0.0, solve_time=0.05), model_records=False)
            rep.coverage["plain_devices_accepted"] = rep.coverage.get("plain_devices_accepted", 0) + 1
        except Exception as e:  # noqa: BLE001
            rep.violation(f"a plain rectangular device (default mesh, as returned by make_mesh) with balanced terminal "
                          f"currents was refused: {type(e).__name__}: {e}"[:300],
                          {"run": 400 + pi_, "film": [W_, H_, n_], "xi": xi_, "sites": len(dvp.mesh.sites),
                           "min_cell_area": float(a_.min())})
    # history on ONE device object: mesh, solve, re-mesh with a different boundary discretisation, solve again
    devh = meshes.make_device(rng, holes=0, terminals=2, max_edge_length=1.2)
    cfgh = dict(terminals=2, holes=0, field="static", td_current=False, screening=False, adaptive=True,
                current_units="uA", terminal_psi=0.0, solve_time=0.15)
    run_case(rep, rng, 100, devh, cfgh, model_records=False)
    devh.film = devh.film.resample(len(devh.film.points) + 37)
    devh.make_mesh(max_edge_length=0.7, smooth=2)
    run_case(rep, rng, 101, devh, cfgh, model_records=False)
    # ... then a parameter sweep on the same object: the layer is changed in place and the device solved again; the
    # injected current must follow the new material scales
    devh.layer.london_lambda = devh.layer.london_lambda * rng.choice([0.5, 2.0, 3.0])
    devh.layer.thickness = devh.layer.thickness * rng.choice([0.4, 1.0, 2.5])
    run_case(rep, rng, 102, devh, cfgh, model_records=False)
    dev4 = meshes.make_device(rng, holes=0, terminals=4, max_edge_length=1.6)
    ndis += mu_boundary_corr(rep, rng, dev4, tier)
    ndis += mu_boundary_corr(rep, rng, dev4, tier, numpy_scalars=True)
    acceptance(rep, rng, dev4, 120 if tier == "quick" else 1500)
    rep.coverage.update({"runs": len(plans), "step_records_compared_with_model": len(recs_all),
                         "correspondence_disagreements": ndis})
    rep.assumptions += ["SuperLU solve is an oracle: its contract |L mu - rhs| <= 1e-8 scale is measured on every compared step",
                        "terminal membership of boundary edges taken from Device.terminal_info() (matplotlib Path) as data"]
    return rep.finish(level="proof", trusted_base=common.STD_TRUSTED,
                      rule="every update call of every run is one evaluation of the continuity / terminal-total oracle; "
                           "non-trivial = distinct (terminals, field kind, time-dependent currents, screening, adaptive, units)")
