#!/bin/bash
# usage: seed_test.sh Cxx_v Cyy [Czz...]
# Applies the seed to a scratch worktree of /repo (never to /repo itself), runs the given checks against it
# (PY_TDGL_REPO), removes the worktree.  Evidence files are restored afterwards.
n=$1; shift
wt=/tmp/seedtest_$$
git -C /repo worktree add --detach -q $wt HEAD || exit 2
git -C $wt apply /verif/seeded/$n/patch.diff || { echo "APPLY FAILED $n"; git -C /repo worktree remove --force $wt; exit 2; }
mkdir -p /tmp/evid_bak_$$ && cp -a /verif/evidence/. /tmp/evid_bak_$$/ 2>/dev/null
for c in "$@"; do
  out=$(cd /verif && PY_TDGL_REPO=$wt ./check $c 2>&1 | grep -E "^VIOLATION|^OK|^KNOWN" | head -3 | tr '\n' ' ')
  echo "$n $c => $out"
done
cp -a /tmp/evid_bak_$$/. /verif/evidence/ 2>/dev/null; rm -rf /tmp/evid_bak_$$
git -C /repo worktree remove --force $wt; git -C /repo worktree prune
