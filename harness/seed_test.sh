#!/bin/bash
# usage: seed_test.sh Cxx_v Cyy [Czz...]  -- apply the seed to /repo, run the given checks, revert. Prints one line per check.
n=$1; shift
cd /repo && git apply /verif/seeded/$n/patch.diff || { echo "APPLY FAILED $n"; exit 2; }
for c in "$@"; do
  out=$(cd /verif && ./check $c 2>&1 | grep -E "^VIOLATION|^OK|^KNOWN" | head -3 | tr '\n' ' ')
  echo "$n $c => $out"
done
cd /repo && git checkout -- . && git status --short | head -3
