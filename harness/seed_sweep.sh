#!/bin/bash
# usage: seed_sweep.sh "1 2 3" [tier]  -- run every check under several VERIF_SEEDs on the unchanged tree (false-alarm hunt).
# Evidence files are saved and restored.
seeds=${1:-"1 2 3"}; tier=${2:-quick}
bak=$(mktemp -d); cp -a /verif/evidence/. $bak/
mkdir -p /tmp/sweep
for s in $seeds; do
  for c in C01 C02 C03 C04 C05 C06 C07 C08 C09 C10 C11 C12 C13 C14 C15 C16 C17 C18 C19 C20; do echo "$s $c"; done
done | xargs -P 5 -L 1 bash -c 'cd /verif && VERIF_SEED=$0 ./check $1 --tier '$tier' > /tmp/sweep/$1_$0.log 2>&1; echo "seed=$0 $1 $(grep -E "^VIOLATION|^OK" /tmp/sweep/$1_$0.log | head -2 | cut -c1-150 | tr "\n" " ")"'
cp -a $bak/. /verif/evidence/; rm -rf $bak
