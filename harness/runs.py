"""Helpers to run the real solver under observation (no source hooks: methods are wrapped
from outside on the instance)."""
from __future__ import annotations

import logging
import os
import tempfile

import numpy as np

logging.getLogger("solver").setLevel(logging.ERROR)


def make_options(tmpdir=None, **kw):
    import tdgl
    base = dict(solve_time=1.0, dt_init=1e-3, dt_max=1e-1, save_every=10, progress_interval=10**9,
                pause_on_interrupt=False, field_units="mT", current_units="uA")
    base.update(kw)
    if tmpdir is not None and "output_file" not in kw:
        base["output_file"] = os.path.join(tmpdir, "out.h5")
    return tdgl.SolverOptions(**base)


_TRACED = [0]


def traced_solve(*args, **kwargs):
    """_traced_solve, and - environment form - every third call runs the way an application that configured logging at DEBUG
    level (own handler on the root and "solver" loggers) would see it: what is validated, computed and recorded must not
    depend on what is logged."""
    _TRACED[0] += 1
    if _TRACED[0] % 3:
        return _traced_solve(*args, **kwargs)
    import io
    import logging
    lg_root, lg_solver = logging.getLogger(), logging.getLogger("solver")
    old = (lg_root.level, lg_solver.level)
    hdl = logging.StreamHandler(io.StringIO())
    lg_root.addHandler(hdl)
    lg_root.setLevel(logging.DEBUG)
    lg_solver.setLevel(logging.DEBUG)
    try:
        return _traced_solve(*args, **kwargs)
    finally:
        lg_root.removeHandler(hdl)
        lg_root.setLevel(old[0])
        lg_solver.setLevel(old[1])


def _traced_solve(device, options, A=0.0, currents=None, eps=1.0, seed_solution=None,
                  on_step=None, before_step=None, resolve=0, between=None):
    """Run tdgl's solver; on_step(solver, state, kwargs, result) is called after every update."""
    from tdgl.solver.solver import TDGLSolver
    solver = TDGLSolver(device=device, options=options, applied_vector_potential=A,
                        terminal_currents=currents, disorder_epsilon=eps, seed_solution=seed_solution)
    orig = solver.update
    # run-level correspondence (Model.Step.run_steps / Model.Runner.traj): the state handed to update k+1 is the result of
    # update k (psi, mu bit for bit), its time is the previous time plus the dt that update returned
    thread = {"pairs": 0, "breaks": [], "prev": None}
    solver._verif_threading = thread

    def wrapped(state, running_state, dt, **kwargs):
        import numpy as np
        pv = thread["prev"]
        if pv is not None and state["step"] == pv["step"] + 1:
            thread["pairs"] += 1
            what = []
            if not np.array_equal(np.asarray(kwargs["psi"]), pv["psi"]):
                what.append("psi")
            if not np.array_equal(np.asarray(kwargs["mu"]), pv["mu"]):
                what.append("mu")
            if state["time"] != pv["time"] + pv["dt"]:
                what.append("time")
            if what and len(thread["breaks"]) < 5:
                thread["breaks"].append({"step": int(state["step"]), "differs": what})
        if before_step is not None:
            before_step(solver, dict(state), kwargs)
        res = orig(state, running_state, dt, **kwargs)
        thread["prev"] = {"step": int(state["step"]), "time": state["time"], "dt": res.dt,
                          "psi": np.array(res.psi, copy=True), "mu": np.array(res.mu, copy=True)}
        if on_step is not None:
            on_step(solver, dict(state), kwargs, res)
        return res

    solver.update = wrapped
    sol = solver.solve()
    for k in range(resolve):
        # history form: the SAME solver object is solved again (between(solver, k) may change options in between)
        thread["prev"] = None
        if between is not None:
            between(solver, k)
        sol = solver.solve()
    return sol, solver


def report_threading(rep, solver, case):
    """not_shown when the real loop does not thread psi / mu / time the way Model.Step.run_steps and Model.Runner do."""
    th = getattr(solver, "_verif_threading", None)
    if th is None:
        return
    rep.coverage["threaded_update_pairs"] = rep.coverage.get("threaded_update_pairs", 0) + th["pairs"]
    if th["breaks"]:
        rep.not_shown("correspondence(run): the state handed to an update is not the result of the previous update "
                      "(Model.Step.run_steps threads psi and mu; Model.Runner adds the returned dt to the time)",
                      {**case, "breaks": th["breaks"]})


def _ramp_field(x, y, z, *, t, b0, b1, tau, field_units="mT", length_units="um"):
    from tdgl.sources.constant import constant_field_vector_potential
    Bz = b0 + (b1 - b0) * min(max(t / tau, 0.0), 1.0)
    return constant_field_vector_potential(x, y, z, Bz=Bz, field_units=field_units, length_units=length_units)


def _step_field(x, y, z, *, t, levels, period, field_units="mT", length_units="um"):
    from tdgl.sources.constant import constant_field_vector_potential
    Bz = levels[int(t / period) % len(levels)]
    return constant_field_vector_potential(x, y, z, Bz=Bz, field_units=field_units, length_units=length_units)


def ramp_field_param(b0, b1, tau, field_units="mT", length_units="um"):
    """Time-dependent uniform field B(t) = b0 + (b1-b0) * clip(t/tau, 0, 1) as a plain tdgl.Parameter."""
    import tdgl
    return tdgl.Parameter(_ramp_field, time_dependent=True, b0=float(b0), b1=float(b1), tau=float(tau),
                          field_units=field_units, length_units=length_units)


def step_field_param(levels, period, field_units="mT", length_units="um"):
    """Piecewise-constant uniform field cycling through `levels` every `period`."""
    import tdgl
    return tdgl.Parameter(_step_field, time_dependent=True, levels=tuple(float(v) for v in levels),
                          period=float(period), field_units=field_units, length_units=length_units)
