"""C18 - polygon and device geometry operations mean what they say.

Generated shapes (boxes, circles, ellipses; any vertex count, orientation, centre), pairs and chains of set
operations, random rotations / translations / scalings incl. reflections, random probe points kept away
from every boundary.  Correspondence: stored vertices vs Model.Geom.normalise and the affine maps
(PrimFloat); membership of the operands by the model's crossing-number test evaluated EXACTLY over Q on
the same doubles, combined pointwise, vs the implementation's set-operation results.
Oracle: closed + counter-clockwise storage, areas, point mapping, no aliasing / mutation, device
membership = film and not holes."""
from __future__ import annotations

import math
import random

import numpy as np

from . import common
from .common import flit, qlit, coq_list


def shoelace(pts):
    x, y = pts[:, 0], pts[:, 1]
    return 0.5 * float(np.sum(x[:-1] * y[1:] - x[1:] * y[:-1]))


def rand_shape(rng, name=None):
    import tdgl
    from tdgl.geometry import box, circle, ellipse
    k = rng.choice(["box", "circle", "ellipse"])
    c = (rng.uniform(-2, 2), rng.uniform(-2, 2))
    n = rng.randint(8, 60)
    if k == "box":
        pts = box(rng.uniform(1, 4), rng.uniform(1, 4), points=max(n, 12), center=c, angle=rng.choice([0, 0, 30, 77]))
    elif k == "circle":
        pts = circle(rng.uniform(0.6, 2.2), points=n, center=c)
    else:
        pts = ellipse(rng.uniform(1, 3), rng.uniform(0.5, 2), points=n, center=c, angle=rng.choice([0, 45, 120]))
    if rng.random() < 0.5:
        pts = pts[::-1]                       # clockwise input
    if rng.random() < 0.3:
        pts = np.concatenate([pts, pts[:1]])  # already closed input
    return tdgl.Polygon(name or f"s{rng.randrange(10**6)}", points=pts), np.array(pts, dtype=float)


def seg_dist(pts, P):
    a, b = pts[:-1], pts[1:]
    ab = b - a
    t = np.clip(np.einsum("pij,ij->pi", P[:, None, :] - a[None], ab) / np.maximum(np.einsum("ij,ij->i", ab, ab), 1e-300), 0, 1)
    proj = a[None] + t[..., None] * ab[None]
    return np.min(np.linalg.norm(P[:, None, :] - proj, axis=2), axis=1)


def probes(rng, polys, n=40):
    allp = np.concatenate([p.points for p in polys])
    lo, hi = allp.min(axis=0) - 0.5, allp.max(axis=0) + 0.5
    P = np.array([[rng.uniform(lo[0], hi[0]), rng.uniform(lo[1], hi[1])] for _ in range(4 * n)])
    size = float(np.max(hi - lo))
    d = np.min([seg_dist(p.points, P) for p in polys], axis=0)
    return P[d > 1e-6 * size][:n], size


def api_surface(rep, rng, tier):
    """The rest of the Polygon API: resample, buffer, contains_points(index / radius), on_boundary, the from_* class
    methods with three operands, operator overloads, name / mesh-flag propagation."""
    import tdgl
    # the geometry helpers the shapes are usually built with: rotate(coords, degrees) is a counter-clockwise rotation about the
    # origin, box / ellipse with angle= and center= are "translate to the centre, then rotate about (0, 0)" as documented,
    # and agree with Polygon.rotate of the unrotated shape
    from tdgl import geometry as geo
    for gi in range(6 if tier == "quick" else 40):
        deg = rng.choice([30.0, -75.0, 90.0, 123.4, 200.0, 5.0])
        c_, s_ = np.cos(np.radians(deg)), np.sin(np.radians(deg))
        R = np.array([[c_, -s_], [s_, c_]])
        Pg = np.array([[rng.uniform(-3, 3), rng.uniform(-3, 3)] for _ in range(7)])
        gcase = {"geometry_case": gi, "degrees": deg}
        if np.max(np.abs(geo.rotate(Pg, deg) - Pg @ R.T)) > 1e-12:
            rep.violation("tdgl.geometry.rotate is not the counter-clockwise rotation by the given angle", gcase)
        cx, cy = rng.uniform(-2, 2), rng.uniform(-2, 2)
        for nm_, plain, turned in (("box", geo.box(2.0, 1.0, points=21, center=(cx, cy)), geo.box(2.0, 1.0, points=21, center=(cx, cy), angle=deg)),
                                   ("ellipse", geo.ellipse(2.0, 1.0, points=24, center=(cx, cy)), geo.ellipse(2.0, 1.0, points=24, center=(cx, cy), angle=deg))):
            if np.asarray(turned).shape != np.asarray(plain).shape or np.max(np.abs(np.asarray(turned) - np.asarray(plain) @ R.T)) > 1e-12:
                rep.violation(f"geometry.{nm_}(..., angle=a) is not the shape rotated counter-clockwise by a about the origin", gcase)
            pa = tdgl.Polygon(nm_, points=plain).rotate(deg)
            pb = tdgl.Polygon(nm_, points=turned)
            Q = np.array([[rng.uniform(-4, 4), rng.uniform(-4, 4)] for _ in range(200)])
            far = np.minimum(seg_dist(pa.points, Q), seg_dist(pb.points, Q)) > 1e-6
            if abs(pa.area - pb.area) > 1e-9 or not np.array_equal(pa.contains_points(Q[far]), pb.contains_points(Q[far])):
                rep.violation(f"a {nm_} built with angle=a is not the {nm_} rotated with Polygon.rotate(a)", gcase)
        rep.count(1)
        rep.nontrivial(("geometry", deg))
    n = 12 if tier == "quick" else 80
    for ci in range(n):
        A, _ = rand_shape(rng)
        A.mesh = bool(ci % 2)
        case = {"api_case": ci, "shape": A.name, "vertices": len(A.points)}
        before = A.points.copy()

        def stored_ok(B, what):
            if not np.array_equal(B.points[0], B.points[-1]) or shoelace(B.points) < 0:
                rep.violation(f"result of {what} is not stored closed and counter-clockwise", case)
            if np.shares_memory(B.points, A.points):
                rep.violation(f"{what} returns vertices aliasing the original", case)
        # ---- resample: vertices stay on the original outline (linear interpolation), requested count, same region
        for k in (None, 17, 40, 90):
            try:
                Rz = A.resample(k)
            except ValueError:          # the package refuses to build an invalid polygon: allowed
                rep.coverage["api_refused"] = rep.coverage.get("api_refused", 0) + 1
                continue
            stored_ok(Rz, f"resample({k})")
        # ---- buffer (only what the property states: stored form, no aliasing; whether a positive distance inflates is not
        # part of it - with shapely 2 and the default single_sided=True it does not)
        size = float(np.max(A.points.max(axis=0) - A.points.min(axis=0)))
        for dist in (0.05 * size, -0.05 * size):
            try:
                Bf = A.buffer(dist)
            except ValueError:
                rep.coverage["api_refused"] = rep.coverage.get("api_refused", 0) + 1
                continue
            stored_ok(Bf, f"buffer({dist:.3g})")
        # ---- contains_points: index form, radius margin
        P, _ = probes(rng, [A], 60)
        inside = A.contains_points(P)
        if not np.array_equal(A.contains_points(P, index=True), np.where(inside)[0]):
            rep.violation("contains_points(index=True) is not the indices of contains_points()", case)
        # matplotlib's radius convention depends on the orientation; stored polygons are ccw: positive radius grows
        big, small = A.contains_points(P, radius=0.1 * size), A.contains_points(P, radius=-0.1 * size)
        if np.any(small & ~inside) or np.any(inside & ~big):
            rep.violation("contains_points: a positive radius must not shrink and a negative radius must not grow the region", case)
        # ---- on_boundary: vertices and edge midpoints yes, points far from the outline no
        mids = 0.5 * (A.points[:-1] + A.points[1:])
        onb = A.on_boundary(np.concatenate([A.points[:-1], mids]), radius=1e-3 * size)
        if not np.all(onb):
            rep.violation("on_boundary misses vertices / edge midpoints of the polygon itself", {**case, "missed": int(np.sum(~onb))})
        far = P[seg_dist(A.points, P) > 0.05 * size]
        if len(far) and np.any(A.on_boundary(far, radius=1e-3 * size)):
            rep.violation("on_boundary reports points far from the outline", case)
        if len(far):
            mix = np.concatenate([far[:5], A.points[:3], far[5:], mids[:4]])
            order = list(range(len(mix)))
            rng.shuffle(order)
            mix = mix[order]
            if not np.array_equal(A.on_boundary(mix, radius=1e-3 * size, index=True),
                                  np.where(A.on_boundary(mix, radius=1e-3 * size))[0]):
                rep.violation("on_boundary(index=True) is not the indices of on_boundary()", case)
            if not np.array_equal(A.contains_points(mix, index=True), np.where(A.contains_points(mix))[0]):
                rep.violation("contains_points(index=True) is not the indices of contains_points()", case)
        # ---- from_* class methods with three operands, operator overloads
        B = A.translate(0.35 * size, 0.1 * size).set_name("B")
        C = A.rotate(40.0, origin=tuple(A.points.mean(axis=0))).translate(-0.2 * size, 0.25 * size).set_name("C")
        Q, qsize = probes(rng, [A, B, C], 80)
        ia, ib, ic = A.contains_points(Q), B.contains_points(Q), C.contains_points(Q)
        for nm, ctor, want in (("from_union", tdgl.Polygon.from_union, ia | ib | ic),
                               ("from_intersection", tdgl.Polygon.from_intersection, ia & ib & ic),
                               ("from_difference", tdgl.Polygon.from_difference, ia & ~ib & ~ic)):
            for items in ([A, B, C], [A.points, B, C.polygon]):
                try:
                    J = ctor(items, name="joined", mesh=False)
                except Exception as e:  # noqa: BLE001  (empty / multi-part results are refused by the package)
                    rep.coverage["from_star_refused"] = rep.coverage.get("from_star_refused", 0) + 1
                    continue
                keep = seg_dist(J.points, Q) > 1e-6 * qsize
                if not np.array_equal(J.contains_points(Q)[keep], want[keep]):
                    rep.violation(f"Polygon.{nm} of three operands disagrees with point-wise membership", {**case, "operands": "mixed kinds" if items[0] is not A else "polygons"})
                if not np.array_equal(J.points[0], J.points[-1]) or shoelace(J.points) < 0:
                    rep.violation(f"result of Polygon.{nm} is not stored closed and counter-clockwise", case)
        for nm, got, ref in (("+", lambda: A + B, lambda: A.union(B)), ("-", lambda: A - B, lambda: A.difference(B)),
                             ("*", lambda: A * B, lambda: A.intersection(B))):
            try:
                g, r = got(), ref()
            except Exception:  # noqa: BLE001
                continue
            if not np.array_equal(g.points, r.points):
                rep.violation(f"operator {nm} differs from the corresponding method", case)
        if not np.array_equal(A.points, before):
            rep.violation("a non-in-place polygon API call mutated the original", case)
        rep.count(1)
    rep.nontrivial("api-surface")


def run(rep: common.Report, tier: str, seed: int, replay=None) -> int:
    import tdgl
    rep.use_props(common.check_props("C18"))
    rng = random.Random(seed * 7919 + 18)
    ncase = 60 if tier == "quick" else 400
    model_norm, model_aff, model_mem = [], [], []
    for ci in range(ncase):
        A, rawA = rand_shape(rng)
        case = {"case": ci, "shape": A.name, "vertices": len(A.points)}
        pts = A.points
        # stored closed and counter-clockwise
        if not np.array_equal(pts[0], pts[-1]):
            rep.violation("stored polygon vertices are not closed", case)
        if shoelace(pts) < 0:
            rep.violation("stored polygon vertices are not counter-clockwise", case)
        model_norm.append((rawA, pts.copy(), case))
        before = pts.copy()
        area0 = A.area
        # affine maps
        deg = rng.uniform(-180, 180)
        org = (rng.uniform(-1, 1), rng.uniform(-1, 1))
        dx, dy = rng.uniform(-3, 3), rng.uniform(-3, 3)
        fx, fy = rng.choice([2.0, 0.5, -1.0, -1.5, 1.0]), rng.choice([1.5, -1.0, 0.25, 1.0, -2.0])
        R, Tr, S = A.rotate(deg, origin=org), A.translate(dx, dy), A.scale(fx, fy, origin=org)
        for nm, B, want in (("rotate", R, area0), ("translate", Tr, area0), ("scale", S, abs(fx * fy) * area0)):
            if abs(B.area - want) > 1e-9 * max(1.0, want):
                rep.violation(f"{nm} changed the area to {B.area!r}, expected {want!r}", {**case, "fx": fx, "fy": fy, "deg": deg})
            if np.shares_memory(B.points, A.points) or B is A:
                rep.violation(f"non-in-place {nm} returns an object aliasing the original", case)
            if not np.array_equal(B.points[0], B.points[-1]) or shoelace(B.points) < 0:
                rep.violation(f"result of {nm} is not stored closed and counter-clockwise", {**case, "fx": fx, "fy": fy})
        # identity parameters (exact zeros / ones) are ordinary parameters: still a new, independent object
        for nm, B in (("translate(0, 0)", A.translate(0.0, 0.0)), ("translate()", A.translate()), ("translate(-0.0, 0)", A.translate(-0.0, 0)),
                      ("rotate(0)", A.rotate(0.0)), ("rotate(360)", A.rotate(360.0)), ("scale(1, 1)", A.scale(1.0, 1.0)),
                      ("copy()", A.copy()),
                      # set operations with zero further operands ("zero or more other polygons")
                      ("union()", A.union()), ("intersection()", A.intersection()), ("difference()", A.difference())):
            if B is A or np.shares_memory(B.points, A.points):
                rep.violation(f"non-in-place {nm} returns the original object / aliases its vertices", case)
            elif nm != "rotate(360)" and not np.array_equal(B.points, A.points):
                rep.violation(f"{nm} changed the vertices", case)
            B.scale(2.0, 3.0, inplace=True)
            B.set_name("changed")
        if not np.array_equal(A.points, before) or A.name == "changed":
            rep.violation("modifying the result of a non-in-place operation changed the original polygon", case)
        if not np.array_equal(A.points, before):
            rep.violation("a non-in-place operation mutated the original polygon", case)
        c_, s_ = math.cos(math.radians(deg)), math.sin(math.radians(deg))
        model_aff.append((before, ("rot", org, c_, s_), R.points.copy(), case))
        model_aff.append((before, ("tr", dx, dy), Tr.points.copy(), case))
        model_aff.append((before, ("sc", org, fx, fy), S.points.copy(), case))
        # points map consistently with the shapes
        P, size = probes(rng, [A], 30)
        if len(P):
            inA = A.contains_points(P)
            th = np.radians(deg)
            Rm = np.array([[np.cos(th), -np.sin(th)], [np.sin(th), np.cos(th)]])
            PR = (P - np.array(org)) @ Rm.T + np.array(org)
            PT_ = P + np.array([dx, dy])
            PS = (P - np.array(org)) * np.array([fx, fy]) + np.array(org)
            for nm, B, Q in (("rotate", R, PR), ("translate", Tr, PT_), ("scale", S, PS)):
                if not np.array_equal(B.contains_points(Q), inA):
                    rep.violation(f"points do not map consistently with the shape under {nm}", {**case, "fx": fx, "fy": fy, "deg": deg})
        # copies
        C = A.copy()
        if np.shares_memory(C.points, A.points) or C is A or not np.array_equal(C.points, A.points):
            rep.violation("copy() aliases or differs from the original", case)
        C.translate(1.0, 1.0, inplace=True)
        if not np.array_equal(A.points, before):
            rep.violation("modifying a copy in place changed the original", case)
        # set operations: pairs and chains
        B2, _ = rand_shape(rng)
        C2, _ = rand_shape(rng)
        snapA, snapB = A.points.copy(), B2.points.copy()
        for opn, meth, bop in (("union", "union", lambda a, b: a | b), ("intersection", "intersection", lambda a, b: a & b),
                               ("difference", "difference", lambda a, b: a & ~b)):
            try:
                J = getattr(A, meth)(B2)
            except Exception:  # noqa: BLE001  (disjoint / multi-part results are refused by the package: not a set-op error)
                continue
            P, size = probes(rng, [A, B2, J], 40)
            if len(P) == 0:
                continue
            got = J.contains_points(P)
            model_mem.append((A.points.copy(), B2.points.copy(), P, opn, got.copy(), case))
            want = bop(A.contains_points(P), B2.contains_points(P))
            if not np.array_equal(got, want):
                rep.violation(f"{opn} disagrees with point-wise membership of its operands (implementation's own membership)",
                              {**case, "other": B2.name, "mismatches": int(np.sum(got != want))})
            try:
                J3 = getattr(J, meth)(C2)
                P3, _ = probes(rng, [A, B2, C2, J3], 30)
                if len(P3):
                    w3 = bop(bop(A.contains_points(P3), B2.contains_points(P3)), C2.contains_points(P3))
                    if not np.array_equal(J3.contains_points(P3), w3):
                        rep.violation(f"a chain of two {opn}s disagrees with point-wise membership", case)
            except Exception:  # noqa: BLE001
                pass
        # operator forms
        for sym, meth in (("+", "union"), ("-", "difference"), ("*", "intersection")):
            try:
                viaop = {"+": lambda: A + B2, "-": lambda: A - B2, "*": lambda: A * B2}[sym]()
                viam = getattr(A, meth)(B2)
                if not np.array_equal(viaop.points, viam.points):
                    rep.violation(f"operator {sym} is not {meth}", case)
            except Exception:  # noqa: BLE001
                pass
        if not (np.array_equal(A.points, snapA) and np.array_equal(B2.points, snapB)):
            rep.violation("a set operation mutated one of its operands", case)
        rep.count(1)
        rep.nontrivial((len(A.points) % 7, fx < 0, fy < 0))
        if ci < 3:
            rep.sample({**case, "deg": deg, "origin": org, "fx": fx, "fy": fy})
    api_surface(rep, rng, tier)
    # ---------- devices ----------
    from . import meshes
    for di in range(4 if tier == "quick" else 20):
        dev = meshes.make_device(rng, holes=rng.choice([0, 1, 2]), terminals=rng.choice([0, 2]), max_edge_length=1.6)
        P = np.array([[rng.uniform(-4, 4), rng.uniform(-3, 3)] for _ in range(300)])
        keep = np.min([seg_dist(p.points, P) for p in [dev.film] + list(dev.holes)], axis=0) > 1e-5
        P = P[keep]
        want = dev.film.contains_points(P)
        for h in dev.holes:
            want &= ~h.contains_points(P)
        if not np.array_equal(dev.contains_points(P), want):
            rep.violation("Device.contains_points is not (inside film) and (outside every hole)", {"device": di})
        snap = [p.points.copy() for p in dev.polygons]
        pp = None if dev.probe_points is None else dev.probe_points.copy()
        sites0 = None if dev.mesh is None else np.array(dev.mesh.sites, copy=True)
        import dataclasses as _dc
        lay0 = {k_: getattr(dev.layer, k_) for k_ in ("coherence_length", "london_lambda", "thickness", "z0", "gamma", "u", "conductivity")}
        dz_copy = dev.translate(0.2, 0.1, dz=0.7)                       # a non-in-place move along z as well
        dcp = dev.copy()
        dcp.layer.z0 = dcp.layer.z0 + 3.0
        dcp.layer.london_lambda = dcp.layer.london_lambda * 2
        if {k_: getattr(dev.layer, k_) for k_ in lay0} != lay0:
            rep.violation("a non-in-place Device.translate(dz=...) or a change of a copy's layer changed the ORIGINAL device's layer "
                          "(copies share the Layer object)", {"device": di, "before": {k_: str(v_) for k_, v_ in lay0.items()},
                                                             "after": {k_: str(getattr(dev.layer, k_)) for k_ in lay0}})
        if abs(dz_copy.layer.z0 - (lay0["z0"] + 0.7)) > 1e-12:
            rep.violation("Device.translate(dz=...) did not move the copy along z", {"device": di})
        d2 = dev.scale(xfact=-1.5, yfact=2.0)
        d3 = dev.rotate(33.0, origin=(0.5, -0.5))
        d4 = dev.translate(1.0, -2.0)
        d5 = dev.copy(with_mesh=True)
        d5.translate(0.3, 0.3, inplace=True)
        if not all(np.array_equal(a, p.points) for a, p in zip(snap, dev.polygons)) or \
                (pp is not None and not np.array_equal(pp, dev.probe_points)):
            rep.violation("a non-in-place device operation (or an in-place operation on a copy) mutated the original device", {"device": di})
        if sites0 is not None and not np.array_equal(sites0, dev.mesh.sites):
            rep.violation("an in-place operation on a COPY of a meshed device moved the original's mesh sites (copy aliases the mesh)",
                          {"device": di, "max_shift": float(np.max(np.abs(sites0 - dev.mesh.sites)))})
        # points map consistently with the shapes: the device's own probe points and arbitrary sample points, for maps
        # about non-default origins (reflection included)
        ox, oy = rng.uniform(-2, 2), rng.uniform(-2, 2)
        fx, fy = rng.choice([-1.7, 0.6, 2.2]), rng.choice([1.3, -0.8, 0.5])
        deg = rng.uniform(-170, 170)
        c_, s_ = np.cos(np.radians(deg)), np.sin(np.radians(deg))
        maps = {
            "scale": (dev.scale(xfact=fx, yfact=fy, origin=(ox, oy)),
                      lambda Q: np.stack([ox + fx * (Q[:, 0] - ox), oy + fy * (Q[:, 1] - oy)], axis=1)),
            "rotate": (dev.rotate(deg, origin=(ox, oy)),
                       lambda Q: np.stack([ox + c_ * (Q[:, 0] - ox) - s_ * (Q[:, 1] - oy),
                                           oy + s_ * (Q[:, 0] - ox) + c_ * (Q[:, 1] - oy)], axis=1)),
            "translate": (dev.translate(ox, oy), lambda Q: Q + np.array([[ox, oy]])),
        }
        for nm, (dT, T) in maps.items():
            mcase = {"device": di, "map": nm, "origin": [ox, oy], "factors": [fx, fy], "degrees": deg}
            if dev.probe_points is not None:
                if dT.probe_points is None or np.max(np.abs(np.asarray(dT.probe_points) - T(np.asarray(dev.probe_points, dtype=float)))) > 1e-9:
                    rep.violation(f"Device.{nm} does not map the probe points with the shapes", mcase)
            if not np.array_equal(dT.contains_points(T(P)), want):
                rep.violation(f"Device.{nm}: points mapped with the device change side (inside / outside)", mcase)
            for a, b in zip(dev.polygons, dT.polygons):
                jac = abs(fx * fy) if nm == "scale" else 1.0
                if abs(b.area - jac * a.area) > 1e-9 * max(1.0, jac * a.area):
                    rep.violation(f"Device.{nm}: polygon {a.name!r} area is not the mapped area", mcase)
        # in-place translations of a meshed device along one axis, both axes, and through the context manager: the mesh
        # moves with the shapes
        if dev.mesh is not None:
            base_pts = np.array(dev.points, copy=True)
            for off in ((0.7, 0.0), (0.0, -1.3), (0.4, 0.9), (-0.0, 0.0)):
                dm = dev.copy(with_mesh=True)
                dm.translate(dx=off[0], dy=off[1], inplace=True)
                if np.max(np.abs(np.asarray(dm.points) - (base_pts + np.array([off])))) > 1e-9:
                    rep.violation(f"in-place Device.translate{off} moved the polygons but not the mesh sites", {"device": di})
                if abs(dm.film.area - dev.film.area) > 1e-9 * dev.film.area or \
                        not np.all(dm.contains_points(np.asarray(dm.points)[::7], ) | True):
                    rep.violation(f"in-place Device.translate{off} changed the film area", {"device": di})
                inside_ = dm.film.contains_points(np.asarray(dm.points), radius=1e-6)
                if not np.all(inside_ | (seg_dist(dm.film.points, np.asarray(dm.points)) < 1e-6)):
                    rep.violation(f"after in-place Device.translate{off} mesh sites lie outside the film", {"device": di})
            dm = dev.copy(with_mesh=True)
            with dm.translation(0.0, 2.5):
                if np.max(np.abs(np.asarray(dm.points) - (base_pts + np.array([[0.0, 2.5]])))) > 1e-9:
                    rep.violation("Device.translation(0, 2.5) did not move the mesh sites with the shapes", {"device": di})
            if np.max(np.abs(np.asarray(dm.points) - base_pts)) > 1e-9:
                rep.violation("Device.translation() did not restore the mesh sites", {"device": di})
            if not np.array_equal(sites0, dev.mesh.sites):
                rep.violation("in-place translations of copies of a meshed device moved the original's mesh sites",
                              {"device": di, "max_shift": float(np.max(np.abs(sites0 - dev.mesh.sites)))})
        # probe points given as integers (a list of int tuples is ordinary input) move like any other point
        try:
            devi = tdgl.Device("int probes", layer=dev.layer, film=dev.film, holes=list(dev.holes), terminals=list(dev.terminals),
                               probe_points=[(1, 1), (-2, 0), (2, -1)], length_units=dev.length_units)
        except ValueError:
            devi = None          # a probe point happens to lie in a hole of this device
        if devi is not None:
            pp0 = np.array(devi.probe_points, dtype=float)
            for nm, dT, want_pp in (("translate(0.25, -0.5)", devi.translate(0.25, -0.5), pp0 + np.array([[0.25, -0.5]])),
                                    ("scale(1.5, 0.5)", devi.scale(xfact=1.5, yfact=0.5), pp0 * np.array([[1.5, 0.5]])),
                                    ("rotate(90)", devi.rotate(90.0), np.stack([-pp0[:, 1], pp0[:, 0]], axis=1))):
                if dT.probe_points is None or np.max(np.abs(np.asarray(dT.probe_points, dtype=float) - want_pp)) > 1e-9:
                    rep.violation(f"Device.{nm} does not map integer-valued probe points with the shapes", {"device": di})
            with devi.translation(0.3, 0.7):
                inside = np.array(devi.probe_points, dtype=float)
            if np.max(np.abs(inside - (pp0 + np.array([[0.3, 0.7]])))) > 1e-9 or \
                    np.max(np.abs(np.array(devi.probe_points, dtype=float) - pp0)) > 1e-9:
                rep.violation("Device.translation() does not move integer-valued probe points there and back", {"device": di})
        for nm, d in (("scale", d2), ("rotate", d3), ("translate", d4)):
            for a, b in zip(dev.polygons, d.polygons):
                if np.shares_memory(a.points, b.points):
                    rep.violation(f"Device.{nm} result shares polygon vertex arrays with the original", {"device": di})
        rep.count(1)
        rep.nontrivial(("device", len(dev.holes), len(dev.terminals)))
    # ---------- correspondence with the model ----------
    pl = lambda arr, lit=flit: coq_list([f"({lit(x)}, {lit(y)})" for x, y in arr], per_line=3)
    t = ("From Coq Require Import PrimFloat List ZArith.\nImport ListNotations.\nFrom PyTdgl Require Import Base.Ops Model.Geom.\n"
         "Open Scope float_scope.\n")
    sel = model_norm[: (25 if tier == "quick" else 200)]
    for raw, _, _ in sel:
        t += f"Eval vm_compute in normalise OpsF {pl(raw)}.\n"
    asel = model_aff[: (45 if tier == "quick" else 400)]
    for src, spec, _, _ in asel:
        if spec[0] == "rot":
            _, org, c_, s_ = spec
            t += f"Eval vm_compute in normalise OpsF (rotate_about OpsF {flit(org[0])} {flit(org[1])} {flit(c_)} {flit(s_)} {pl(src)}).\n"
        elif spec[0] == "tr":
            t += f"Eval vm_compute in normalise OpsF (translate OpsF {flit(spec[1])} {flit(spec[2])} {pl(src)}).\n"
        else:
            _, org, fx, fy = spec
            t += f"Eval vm_compute in normalise OpsF (scale_about OpsF {flit(org[0])} {flit(org[1])} {flit(fx)} {flit(fy)} {pl(src)}).\n"
    rc, out = common.run_model("c18_float", t)
    ndis = 0

    def same_ring(m, impl, tol):
        m = np.array(m, dtype=float)
        if m.shape != impl.shape:
            return False
        return bool(np.max(np.abs(m - impl)) <= tol * max(1.0, float(np.max(np.abs(impl)))))

    if rc != 0:
        rep.not_shown("correspondence: model evaluation failed", {"log": out[-1500:]})
    else:
        for k, (raw, stored, case) in enumerate(sel):
            m = common.parse_nested(common.eval_block(out, k))[0]
            if not same_ring(m, stored, 0.0):
                ndis += 1
                rep.not_shown("correspondence: stored vertices differ from Model.Geom.normalise (close + orient)", case)
        for k, (src, spec, res, case) in enumerate(asel):
            m = common.parse_nested(common.eval_block(out, len(sel) + k))[0]
            if not same_ring(m, res, 1e-12):
                ndis += 1
                rep.not_shown("correspondence: transformed vertices differ from the model's affine map", {**case, "map": spec[0]})
    # exact membership over Q
    msel = model_mem[: (30 if tier == "quick" else 300)]
    t = ("From Coq Require Import QArith List Bool.\nImport ListNotations.\nFrom PyTdgl Require Import Base.Ops Model.Geom.\n")
    for Ap, Bp, P, opn, got, case in msel:
        comb = {"union": "orb", "intersection": "andb", "difference": "(fun a b => andb a (negb b))"}[opn]
        t += (f"Eval vm_compute in let A := {pl(Ap, qlit)} in let B := {pl(Bp, qlit)} in\n"
              f"  map (fun p => {comb} (inside OpsQ A p) (inside OpsQ B p)) {pl(P, qlit)}.\n")
    rc, out = common.run_model("c18_exact", t, timeout=1500)
    if rc != 0:
        rep.not_shown("correspondence: exact membership evaluation failed", {"log": out[-1500:]})
    else:
        for k, (Ap, Bp, P, opn, got, case) in enumerate(msel):
            m = common.parse_nested(common.eval_block(out, k))[0]
            if [bool(x) for x in m] != [bool(x) for x in got]:
                ndis += 1
                bad = int(np.sum(np.array([bool(x) for x in m]) != got))
                rep.violation(f"{opn} disagrees with the exact point-wise combination of its operands at {bad} probe point(s)",
                              {**case, "op": opn})
    rep.coverage.update({"shape_cases": ncase, "normalise_compared": len(sel), "affine_compared": len(asel),
                         "setop_membership_compared_exactly": len(msel), "correspondence_disagreements": ndis})
    rep.assumptions += ["GEOS clipping and matplotlib membership are exercised, not proved (partial); probe points keep >= 1e-6 x size "
                        "from every boundary", "cos/sin of the rotation angle computed by Python and passed to the model as data"]
    return rep.finish(level="proof", trusted_base=common.STD_TRUSTED,
                      rule="one evaluation = one generated shape with its transforms, set operations and probes; non-trivial = distinct "
                           "(vertex count class, reflections)")
