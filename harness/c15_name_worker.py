"""Fresh-process worker for C15: solve a tiny problem with a given output path (relative to the cwd it is started in), optionally
with a file already at that path; prints RESULT <json>.  Run under a timeout by c15.py: choosing the output name must terminate."""
import json
import logging
import os
import sys
import warnings

warnings.filterwarnings("ignore")


def main():
    out, pre = sys.argv[1], sys.argv[2] == "1"
    logging.disable(logging.CRITICAL)
    import tdgl
    from tdgl.geometry import box
    dev = tdgl.Device("sq", layer=tdgl.Layer(coherence_length=1.0, london_lambda=2.0, thickness=0.1),
                      film=tdgl.Polygon("film", points=box(4, 4)))
    dev.make_mesh(max_edge_length=0.9, smooth=3)
    if pre:
        os.makedirs(os.path.dirname(out) or ".", exist_ok=True)
        with open(out, "wb") as f:
            f.write(b"precious data")
    opts = tdgl.SolverOptions(solve_time=0.03, dt_init=1e-2, dt_max=1e-2, adaptive=False, save_every=2, output_file=out,
                              progress_interval=10 ** 9)
    res = {"output": out, "pre": pre}
    try:
        sol = tdgl.solve(dev, opts)
        res["written"] = os.path.relpath(sol.path)
        res["loadable"] = bool(tdgl.Solution.from_hdf5(sol.path).equals(sol))
    except Exception as e:  # noqa: BLE001
        res["error"] = f"{type(e).__name__}: {e}"[:160]
    if pre:
        with open(out, "rb") as f:
            res["pre_intact"] = f.read() == b"precious data"
    files = []
    for root, _, names in os.walk("."):
        files += [os.path.relpath(os.path.join(root, n)) for n in names]
    res["files"] = sorted(files)
    print("RESULT " + json.dumps(res))


if __name__ == "__main__":
    main()
