"""C20 - fields and potentials computed from currents are linear and correct.

Correspondence: biot_savart_2d (both modes) and distance.cdist vs Model.Kernels (PrimFloat) on random current
distributions, off-plane points and three unit choices.  Oracle on the implementation: agreement with a
direct Biot-Savart / Coulomb summation in SI units, scalar = z of vector, superposition
f(a J1 + b J2) = a f(J1) + b f(J2), Solution.field_at_position / vector_potential_at_position totals =
sum of the supercurrent, normal-current and applied parts, H <-> B conversions round-trip.
The closed-form loop potential is compared with numerical quadrature as SUPPORTING EVIDENCE only (elliptic
integrals are not available in the proof assistant: that clause is not decided by proof)."""
from __future__ import annotations

import math
import random
import tempfile

import numpy as np
from scipy.constants import mu_0

from . import common, meshes, runs
from .common import flit, coq_list

HEADER = """From Coq Require Import PrimFloat List ZArith.
Import ListNotations.
From PyTdgl Require Import Base.Ops Model.Kernels.
Open Scope float_scope.
Definition mk (x y z a jx jy : float) : cell OpsF * (float * float) := (Build_cell OpsF x y z a, (jx, jy)).
"""


def direct_bs(pts, pos, J, areas):
    """mu0/4pi sum_k a_k (K_k x r)/|r|^3 with K = (Jx, Jy, 0), SI units."""
    r = pts[:, None, :] - pos[None, :, :]
    d3 = np.sum(r * r, axis=2) ** 1.5
    K = np.concatenate([J, np.zeros((len(J), 1))], axis=1)
    cr = np.cross(K[None, :, :], r)
    return mu_0 / (4 * np.pi) * np.einsum("k,ikc,ik->ic", areas, cr, 1.0 / d3)


def run(rep: common.Report, tier: str, seed: int, replay=None) -> int:
    import tdgl
    from tdgl.em import biot_savart_2d, convert_field, current_loop_vector_potential, ureg
    from tdgl import distance
    rep.use_props(common.check_props("C20"))
    rng = random.Random(seed * 7919 + 20)
    # areas=None (documented: "the positions are triangulated to calculate vertex areas"): the same field as with the Voronoi areas
    # of the Delaunay triangulation handed over explicitly, in any length unit
    from scipy import spatial as _sp
    from tdgl.finite_volume.mesh import Mesh as _Mesh
    for ai in range(3 if tier == "quick" else 12):
        lu_ = ["um", "nm", "mm"][ai % 3]
        gx, gy = np.meshgrid(np.linspace(-2, 2, 7), np.linspace(-1.5, 1.5, 6))
        posn = np.stack([gx.ravel(), gy.ravel()], axis=1) + np.array([[rng.uniform(-0.12, 0.12), rng.uniform(-0.12, 0.12)] for _ in range(gx.size)])
        Jn = np.array([[rng.gauss(0, 1), rng.gauss(0, 1)] for _ in range(len(posn))])
        evn = np.array([[rng.uniform(-3, 3), rng.uniform(-3, 3), rng.choice([-1, 1]) * rng.uniform(0.4, 2.0)] for _ in range(6)])
        casen = {"areas": "None", "length_units": lu_, "sources": len(posn)}
        try:
            Bn = biot_savart_2d(evn[:, 0], evn[:, 1], evn[:, 2], positions=posn, current_densities=Jn, z0=0.0, areas=None,
                                length_units=lu_, current_units="uA", vector=True).to("tesla").magnitude
            ar_ = _Mesh.from_triangulation(posn, _sp.Delaunay(posn).simplices).areas
            Be = biot_savart_2d(evn[:, 0], evn[:, 1], evn[:, 2], positions=posn, current_densities=Jn, z0=0.0, areas=ar_,
                                length_units=lu_, current_units="uA", vector=True).to("tesla").magnitude
            if np.max(np.abs(Bn - Be)) > 1e-9 * float(np.max(np.abs(Be))):
                rep.violation("biot_savart_2d(areas=None) differs from the field computed with the triangulation's vertex areas", casen)
        except Exception as e:  # noqa: BLE001
            rep.violation(f"biot_savart_2d(areas=None) raised {type(e).__name__}: {e}"[:200], casen)
        rep.count(1)
        rep.nontrivial(("areas-none", lu_))
    texts, refs = [], []
    ncase = 8 if tier == "quick" else 50
    for ci in range(ncase):
        n, m = rng.randint(4, 60), rng.randint(2, 25)
        lu, cu = rng.choice(["um", "nm", "mm"]), rng.choice(["uA", "mA", "nA"])
        # any length scale in the stated units (sources and evaluation points scale together)
        Ls = [1.0, 1.0, 1e-6, 1e3, 1.0, 3e-4, 1.0, 50.0][ci % 8]
        pos = np.array([[rng.uniform(-3, 3), rng.uniform(-3, 3)] for _ in range(n)]) * Ls
        J = np.array([[rng.gauss(0, 1), rng.gauss(0, 1)] for _ in range(n)])
        J2 = np.array([[rng.gauss(0, 1), rng.gauss(0, 1)] for _ in range(n)])
        areas = np.array([rng.uniform(0.01, 0.5) for _ in range(n)]) * Ls * Ls
        z0 = rng.choice([0.0, 0.3]) * Ls
        ev = np.array([[rng.uniform(-4, 4) * Ls, rng.uniform(-4, 4) * Ls, z0 + rng.choice([-1, 1]) * rng.uniform(0.2, 2.0) * Ls] for _ in range(m)])
        kw = dict(positions=pos, z0=z0, areas=areas, length_units=lu, current_units=cu)
        Bv = biot_savart_2d(ev[:, 0], ev[:, 1], ev[:, 2], current_densities=J, vector=True, **kw).to("tesla").magnitude
        Bz = biot_savart_2d(ev[:, 0], ev[:, 1], ev[:, 2], current_densities=J, vector=False, **kw).to("tesla").magnitude
        case = {"case": ci, "sources": n, "points": m, "length_units": lu, "current_units": cu, "length_scale": Ls}
        to_m = ureg(lu).to("m").magnitude
        to_apm = ureg(f"{cu} / {lu}").to("A / m").magnitude
        pos3 = np.concatenate([pos * to_m, np.full((n, 1), z0 * to_m)], axis=1)
        ref = direct_bs(ev * to_m, pos3, J * to_apm, areas * to_m ** 2)
        sc = float(np.max(np.abs(ref)) + 1e-300)
        if np.max(np.abs(Bv - ref)) > 1e-9 * sc:
            rep.violation("biot_savart_2d (vector) differs from the direct Biot-Savart sum in SI units",
                          {**case, "max_rel": float(np.max(np.abs(Bv - ref)) / sc)})
        if np.max(np.abs(Bz - Bv[:, 2])) > 1e-9 * sc:
            rep.violation("scalar mode differs from the z component of vector mode", case)
        if ci % 3 == 0:
            # the same numbers as plain Python lists / scalars
            try:
                Bl = biot_savart_2d(ev[:, 0].tolist(), ev[:, 1].tolist(), ev[:, 2].tolist(), current_densities=J.tolist(), vector=True,
                                    positions=pos.tolist(), z0=float(z0), areas=areas.tolist(), length_units=lu, current_units=cu).to("tesla").magnitude
                if np.max(np.abs(np.asarray(Bl) - Bv)) > 1e-12 * sc:
                    rep.violation("biot_savart_2d given Python lists differs from the same call with arrays", case)
            except (TypeError, AttributeError) as e:
                rep.coverage["list_inputs_refused"] = f"{type(e).__name__}: {e}"[:100]      # lists not accepted: allowed
        al, be = rng.uniform(-2, 2), rng.uniform(-2, 2)
        Bc = biot_savart_2d(ev[:, 0], ev[:, 1], ev[:, 2], current_densities=al * J + be * J2, vector=True, **kw).to("tesla").magnitude
        B2 = biot_savart_2d(ev[:, 0], ev[:, 1], ev[:, 2], current_densities=J2, vector=True, **kw).to("tesla").magnitude
        if np.max(np.abs(Bc - (al * Bv + be * B2))) > 1e-9 * (abs(al) + abs(be) + 1) * max(sc, float(np.max(np.abs(B2)))):
            rep.violation("the field is not linear in the currents (superposition fails)", case)
        srcs = coq_list([f"mk {flit(p[0])} {flit(p[1])} {flit(p[2])} {flit(a)} {flit(j[0])} {flit(j[1])}"
                         for p, a, j in zip(pos3, areas * to_m ** 2, J * to_apm)], per_line=1)
        t = HEADER + f"Definition srcs := {srcs}.\nDefinition c0 := {flit(mu_0 / (4 * np.pi))}.\n"
        evl = coq_list([f"({flit(p[0])}, {flit(p[1])}, {flit(p[2])})" for p in ev * to_m], per_line=2)
        t += f"Eval vm_compute in map (fun '(x, y, z) => match bs_vector OpsF c0 srcs x y z with (bx, by_, bz) => [bx; by_; bz] end) {evl}.\n"
        t += f"Eval vm_compute in map (fun '(x, y, z) => bs_z OpsF c0 srcs x y z) {evl}.\n"
        # distances
        XA = np.array([[rng.gauss(0, 1) for _ in range(2)] for _ in range(5)]) * Ls
        XB = np.array([[rng.gauss(0, 1) for _ in range(2)] for _ in range(4)]) * Ls
        la = coq_list([f"({flit(a[0])}, {flit(a[1])})" for a in XA])
        lb = coq_list([f"({flit(a[0])}, {flit(a[1])})" for a in XB])
        t += f"Eval vm_compute in cdist OpsF (dist2 OpsF) {la} {lb}.\nEval vm_compute in cdist OpsF (sqdist2 OpsF) {la} {lb}.\n"
        texts.append(t)
        refs.append((Bv, Bz, distance.cdist(XA, XB, "euclidean"), distance.cdist(XA, XB, "sqeuclidean"), sc, case))
        from scipy.spatial.distance import cdist as scd
        for metric in ("euclidean", "sqeuclidean"):
            for dim in (2, 3):
                A3 = np.array([[rng.gauss(0, 1) for _ in range(dim)] for _ in range(6)])
                B3 = np.array([[rng.gauss(0, 1) for _ in range(dim)] for _ in range(3)])
                if np.max(np.abs(distance.cdist(A3, B3, metric) - scd(A3, B3, metric))) > 1e-12:
                    rep.violation("distance.cdist differs from the pointwise (squared) Euclidean distance", {"metric": metric, "dim": dim})
                # points given as integers (lists of ints are ordinary input), in either position
                Ai = np.array([[rng.randint(-4, 4) for _ in range(dim)] for _ in range(5)])
                Bi = np.array([[rng.randint(-4, 4) for _ in range(dim)] for _ in range(3)])
                for XA_, XB_, kinds_ in ((Ai, B3, "int/float"), (A3, Bi, "float/int"), (Ai, Bi, "int/int")):
                    if np.max(np.abs(np.asarray(distance.cdist(XA_, XB_, metric), dtype=float) - scd(XA_, XB_, metric))) > 1e-12:
                        rep.violation("distance.cdist of integer-typed points differs from the pointwise (squared) Euclidean distance",
                                      {"metric": metric, "dim": dim, "dtypes": kinds_})
        rep.count(1)
        rep.nontrivial((lu, cu, z0 != 0))
        if ci < 3:
            rep.sample(case)
    outs = common.run_model_shards("c20_case", texts, jobs=8)
    ndis = 0
    for (rc, out), (Bv, Bz, de, ds, sc, case) in zip(outs, refs):
        if rc != 0:
            rep.not_shown("correspondence: model evaluation failed", {**case, "log": out[-1200:]})
            continue
        mv = np.array(common.parse_nested(common.eval_block(out, 0))[0], dtype=float)
        mz = np.array(common.parse_nested(common.eval_block(out, 1))[0], dtype=float)
        md = np.array(common.parse_nested(common.eval_block(out, 2))[0], dtype=float)
        ms = np.array(common.parse_nested(common.eval_block(out, 3))[0], dtype=float)
        if np.max(np.abs(mv - Bv)) > 1e-9 * sc or np.max(np.abs(mz - Bz)) > 1e-9 * sc:
            ndis += 1
            rep.not_shown("correspondence: biot_savart_2d differs from Model.Kernels.bs_vector / bs_z", case)
        if np.max(np.abs(md - de)) > 1e-12 * (float(np.max(de)) + 1e-300) or np.max(np.abs(ms - ds)) > 1e-12 * (float(np.max(ds)) + 1e-300):
            ndis += 1
            rep.not_shown("correspondence: distance.cdist differs from Model.Kernels.cdist", case)
    # ---------- solutions: total = applied + supercurrent + normal ; scalar/vector ----------
    dev = meshes.make_device(rng, holes=1, terminals=2, max_edge_length=1.3)
    with tempfile.TemporaryDirectory(prefix="pyt_c20_") as td:
        for fu, cu in (("mT", "uA"), ("uT", "nA")) if tier == "quick" else (("mT", "uA"), ("uT", "nA"), ("mT", "mA")):
            opts = runs.make_options(td, solve_time=0.08, dt_init=2e-3, dt_max=1e-2, field_units=fu, current_units=cu,
                                     output_file=f"{td}/s_{fu}_{cu}.h5")
            cur = {"source": 2.0, "drain": -2.0} if cu == "uA" else ({"source": 2000.0, "drain": -2000.0} if cu == "nA" else {"source": 0.002, "drain": -0.002})
            sol = tdgl.solve(dev, opts, applied_vector_potential=(0.3 if fu == "mT" else 300.0), terminal_currents=cur)
            P = np.array([[rng.uniform(-3, 3), rng.uniform(-2, 2), rng.choice([-1, 1]) * rng.uniform(0.3, 1.5)] for _ in range(12)])
            case = {"field_units": fu, "current_units": cu}
            parts = sol.field_at_position(P, vector=True, return_sum=False, with_units=False)
            tot = sol.field_at_position(P, vector=True, return_sum=True, with_units=False)
            s = float(np.max(np.abs(tot)) + 1e-300)
            if np.max(np.abs(tot - (parts.supercurrent + parts.normal_current))) > 1e-10 * s:
                rep.violation("field_at_position total is not the sum of the supercurrent and normal-current parts", case)
            z = sol.field_at_position(P, vector=False, with_units=False)
            if np.max(np.abs(z - tot[:, 2])) > 1e-9 * s:
                rep.violation("field_at_position scalar mode is not the z component of vector mode", case)
            # direct SI sum from the stored sheet currents
            xi = dev.coherence_length.magnitude
            to_m = ureg(dev.length_units).to("m").magnitude
            K = (sol.supercurrent_density + sol.normal_current_density).to("A/m").magnitude
            pos3 = np.concatenate([dev.points * to_m, np.full((len(dev.points), 1), dev.layer.z0 * to_m)], axis=1)
            ref = direct_bs(P * to_m, pos3, K, dev.mesh.areas * (xi * to_m) ** 2)
            got = sol.field_at_position(P, vector=True, units="tesla", with_units=False)
            if np.max(np.abs(got - ref)) > 1e-8 * float(np.max(np.abs(ref)) + 1e-300):
                rep.violation("field_at_position differs from the direct Biot-Savart sum of the stored currents (SI)", case)
            Ap = sol.vector_potential_at_position(P, return_sum=False, with_units=False)
            At = sol.vector_potential_at_position(P, return_sum=True, with_units=False)
            ssum = sum(np.asarray(v) for v in Ap.values())
            if len(Ap) != 3 or "applied" not in Ap or np.max(np.abs(At - ssum)) > 1e-10 * float(np.max(np.abs(At)) + 1e-300):
                rep.violation("vector_potential_at_position total is not applied + supercurrent + normal parts", case)
            d = P[:, None, :] * to_m - pos3[None]
            rinv = 1.0 / np.sqrt(np.sum(d * d, axis=2))
            Aref = mu_0 / (4 * np.pi) * np.einsum("k,kc,ik->ic", dev.mesh.areas * (xi * to_m) ** 2, K, rinv)
            Agot = sol.vector_potential_at_position(P, units="T * m", return_sum=False, with_units=False)
            Ac = sum(np.asarray(v) for k_, v in Agot.items() if k_ != "applied")
            if np.max(np.abs(Ac[:, :2] - Aref)) > 1e-8 * float(np.max(np.abs(Aref)) + 1e-300):
                rep.violation("vector potential from the currents differs from the direct Coulomb-kernel sum (SI)", case)
            # evaluation points given as integers (e.g. a Python list of ints) are the same points
            Pint = np.array([[2, -1, 1], [-3, 1, 2], [0, 0, -1], [1, 2, 3]])
            Ai_ = sol.vector_potential_at_position(Pint, units="T * m", return_sum=True, with_units=False)
            Af_ = sol.vector_potential_at_position(Pint.astype(float), units="T * m", return_sum=True, with_units=False)
            Bi_ = sol.field_at_position(Pint, vector=True, units="tesla", with_units=False)
            Bf_ = sol.field_at_position(Pint.astype(float), vector=True, units="tesla", with_units=False)
            if np.max(np.abs(np.asarray(Ai_) - np.asarray(Af_))) > 1e-12 * float(np.max(np.abs(Af_)) + 1e-300) or \
                    np.max(np.abs(np.asarray(Bi_) - np.asarray(Bf_))) > 1e-12 * float(np.max(np.abs(Bf_)) + 1e-300):
                rep.violation("field / vector potential at integer-typed evaluation points differ from the same points given as floats", case)
            # ... also as (m, 2) integer positions with a separate, non-integer height (scalar or array), and a single point
            for P2, zs_ in ((np.array([[2, -1], [-3, 1], [1, 2]]), 0.75), (np.array([[2, -1], [-3, 1], [1, 2]]), np.array([0.75, 1.5, -0.4])),
                            ([1, -1], 0.5), ([[0, 2]], 1.25)):
                P2f = np.asarray(P2, dtype=float)
                try:
                    b_i = np.asarray(sol.field_at_position(P2, zs=zs_, vector=True, units="tesla", with_units=False))
                    b_f = np.asarray(sol.field_at_position(P2f, zs=zs_, vector=True, units="tesla", with_units=False))
                    z_i = np.asarray(sol.field_at_position(P2, zs=zs_, vector=False, units="tesla", with_units=False))
                    a_i = np.asarray(sol.vector_potential_at_position(P2, zs=zs_, units="T * m", with_units=False))
                    a_f = np.asarray(sol.vector_potential_at_position(P2f, zs=zs_, units="T * m", with_units=False))
                except Exception as e:  # noqa: BLE001
                    rep.violation(f"evaluation at integer (x, y) with height zs raised {type(e).__name__}: {e}"[:160], case)
                    continue
                ok_ = (b_i.shape == b_f.shape and np.all(np.isfinite(b_i)) and
                       np.max(np.abs(b_i - b_f)) <= 1e-12 * float(np.max(np.abs(b_f)) + 1e-300) and
                       np.max(np.abs(np.atleast_2d(b_i)[:, 2] - np.atleast_1d(z_i))) <= 1e-9 * float(np.max(np.abs(b_f)) + 1e-300) and
                       np.max(np.abs(a_i - a_f)) <= 1e-12 * float(np.max(np.abs(a_f)) + 1e-300))
                if not ok_:
                    rep.violation("field / vector potential at integer (x, y) with a non-integer height differ from the float-typed call",
                                  {**case, "positions": np.asarray(P2).tolist(), "zs": np.asarray(zs_).tolist()})
            # the applied part, in SI and in the default units, against the applied-potential parameter evaluated at the
            # same points (its gauge is centred on the set of points it is given) and converted by hand
            f_si = ureg(f"{fu} * {dev.length_units}").to("T * m").magnitude
            Aapp_ref = np.asarray(sol.applied_vector_potential(P[:, 0], P[:, 1], P[:, 2]))[:, :2] * f_si
            if np.max(np.abs(np.asarray(Agot["applied"])[:, :2] - Aapp_ref)) > 1e-9 * float(np.max(np.abs(Aapp_ref))):
                rep.violation("the applied part of vector_potential_at_position(units='T * m') is not the applied potential in SI", case)
            f_def = ureg(f"{fu} * {dev.length_units}").to("T * m").magnitude
            if np.max(np.abs(np.asarray(Ap["applied"])[:, :2] * f_def - Aapp_ref)) > 1e-9 * float(np.max(np.abs(Aapp_ref))):
                rep.violation("the applied part of vector_potential_at_position (default units) is not the applied potential", case)
            Atot_si = sol.vector_potential_at_position(P, units="T * m", return_sum=True, with_units=False)
            if np.max(np.abs(Atot_si[:, :2] - (Aref + Aapp_ref))) > 1e-8 * float(np.max(np.abs(Aref + Aapp_ref)) + 1e-300):
                rep.violation("total vector potential (SI) is not applied + Coulomb-kernel sum of the stored currents", case)
            # history form: the SAME solution object moved to other recorded steps and back; every evaluation must use the
            # currents of the step that is loaded now
            last = sol.solve_step
            lo, hi = sol.data_range
            for stp in sorted({lo, (lo + hi) // 2, max(lo, hi - 1)} - {last}) + [last]:
                sol.solve_step = stp
                Kk = (sol.supercurrent_density + sol.normal_current_density).to("A/m").magnitude
                refk = direct_bs(P * to_m, pos3, Kk, dev.mesh.areas * (xi * to_m) ** 2)
                gotk = sol.field_at_position(P, vector=True, units="tesla", with_units=False)
                sck = max(float(np.max(np.abs(refk))), float(np.max(np.abs(ref)))) + 1e-300
                if np.max(np.abs(gotk - refk)) > 1e-8 * sck:
                    rep.violation("after moving the solution to another recorded step, field_at_position is not the Biot-Savart sum of "
                                  "the currents of the step that is loaded", {**case, "step": int(stp), "evaluated_first_at_step": int(last)})
                    break
                rho = np.linalg.norm(P[:, None, :] * to_m - pos3[None, :, :], axis=2)
                Arefk = 1e-7 * np.einsum("ij,jk->ik", (dev.mesh.areas * (xi * to_m) ** 2)[None, :] / rho, Kk)
                Ak = sol.vector_potential_at_position(P, units="T * m", return_sum=False, with_units=False)
                Agk = sum(np.asarray(v) for k_, v in Ak.items() if k_ != "applied")[:, :2]
                if np.max(np.abs(Agk - Arefk)) > 1e-8 * (float(np.max(np.abs(Arefk))) + float(np.max(np.abs(Aref))) + 1e-300):
                    rep.violation("after moving the solution to another recorded step, vector_potential_at_position is not the Coulomb-"
                                  "kernel sum of the currents of the step that is loaded", {**case, "step": int(stp)})
                    break
            rep.count(1)
            rep.nontrivial(("solution", fu, cu))
    # ---------- many evaluation points (a scan line / image): every point, the last ones included ----------
    with tempfile.TemporaryDirectory(prefix="pyt_c20m_") as td:
        sdev = meshes.make_device(rng, holes=0, terminals=2, max_edge_length=1.1)
        ns = len(sdev.mesh.sites)
        npts = int(1.37 * (2 ** 22) / ns) + 3 if tier == "quick" else int(3.21 * (2 ** 22) / ns) + 7
        opts = runs.make_options(td, solve_time=0.05, dt_init=2e-3, dt_max=1e-2, output_file=f"{td}/many.h5")
        sol = tdgl.solve(sdev, opts, applied_vector_potential=0.3, terminal_currents={"source": 2.0, "drain": -2.0})
        xs_ = np.linspace(-4.0, 4.0, npts)
        Pm = np.stack([xs_, 0.3 * np.sin(xs_), 0.9 + 0.1 * np.cos(3 * xs_)], axis=1)
        to_m = ureg(sdev.length_units).to("m").magnitude
        xi = sdev.coherence_length.magnitude
        K = (sol.supercurrent_density + sol.normal_current_density).to("A/m").magnitude
        pos3 = np.concatenate([sdev.points * to_m, np.full((ns, 1), sdev.layer.z0 * to_m)], axis=1)
        ar = sdev.mesh.areas * (xi * to_m) ** 2
        Bgot = np.asarray(sol.field_at_position(Pm, vector=True, units="tesla", with_units=False))
        Agot = sol.vector_potential_at_position(Pm, units="T * m", return_sum=False, with_units=False)
        Agot = sum(np.asarray(v) for k_, v in Agot.items() if k_ != "applied")[:, :2]
        Bref, Aref_ = np.empty((npts, 3)), np.empty((npts, 2))
        for lo_ in range(0, npts, 4096):
            blk = Pm[lo_:lo_ + 4096] * to_m
            Bref[lo_:lo_ + 4096] = direct_bs(blk, pos3, K, ar)
            rinv_ = 1.0 / np.linalg.norm(blk[:, None, :] - pos3[None], axis=2)
            Aref_[lo_:lo_ + 4096] = mu_0 / (4 * np.pi) * np.einsum("k,kc,ik->ic", ar, K, rinv_)
        case = {"evaluation_points": npts, "sites": ns}
        eB = np.max(np.abs(Bgot - Bref), axis=1) / float(np.max(np.abs(Bref)))
        eA = np.max(np.abs(Agot - Aref_), axis=1) / float(np.max(np.abs(Aref_)))
        if eB.max() > 1e-8:
            rep.violation("field_at_position at many evaluation points differs from the direct Biot-Savart sum",
                          {**case, "first_bad_point": int(np.argmax(eB > 1e-8)), "max_rel": float(eB.max())})
        if eA.max() > 1e-8:
            rep.violation("vector_potential_at_position at many evaluation points differs from the direct Coulomb-kernel sum",
                          {**case, "first_bad_point": int(np.argmax(eA > 1e-8)), "max_rel": float(eA.max())})
        rep.count(1)
        rep.nontrivial(("many-points", npts > 2 ** 22 // ns))
    # ---------- the applied potential given as a plain function (documented: "a function or tdgl.Parameter") ----------
    with tempfile.TemporaryDirectory(prefix="pyt_c20f_") as td:
        fdev = meshes.make_device(rng, holes=0, terminals=0, max_edge_length=1.3)

        def A_plain(x, y, z):
            return np.stack([-0.15 * y, 0.15 * x, np.zeros_like(x)], axis=1)
        try:
            solf = tdgl.solve(fdev, runs.make_options(td, solve_time=0.03, dt_init=2e-3, dt_max=1e-2, output_file=f"{td}/plain.h5"),
                              applied_vector_potential=A_plain)
            Pf = np.array([[0.5, -0.4, 0.7], [-1.0, 1.0, 1.2], [2.0, 0.3, -0.9]])
            Af = solf.vector_potential_at_position(Pf, return_sum=False, with_units=False)
            At = np.asarray(solf.vector_potential_at_position(Pf, return_sum=True, with_units=False))
            if "applied" not in Af or np.max(np.abs(np.asarray(Af["applied"])[:, :2] - A_plain(Pf[:, 0], Pf[:, 1], Pf[:, 2])[:, :2])) > 1e-12 or \
                    np.max(np.abs(At - sum(np.asarray(v_) for v_ in Af.values()))) > 1e-10 * float(np.max(np.abs(At)) + 1e-300):
                rep.violation("with a plain function as applied potential the total vector potential is not applied + supercurrent + normal parts", {})
        except Exception as e:  # noqa: BLE001
            rep.violation(f"vector_potential_at_position with a plain function as applied potential raised {type(e).__name__}: {e}"[:200], {})
        rep.count(1)
        rep.nontrivial(("plain-function-A",))
    # ---------- H <-> B conversions round-trip ----------
    # ... also with the units given as pint.Unit objects of the package's registry (documented: str or pint.Unit)
    for v, u1, u2 in ((1.0, "mT", "A/m"), (2.5, "A/m", "uT"), (0.3, "mT", "uT")):
        try:
            U1, U2 = ureg.Unit(u1), ureg.Unit(u2)
            a_ = convert_field(v, U2, old_units=U1, with_units=False)
            ref_ = convert_field(v, u2, old_units=u1, with_units=False)
            back_ = convert_field(a_, U1, old_units=U2, with_units=False)
            if abs(a_ - ref_) > 1e-12 * abs(ref_) or abs(back_ - v) > 1e-12 * abs(v):
                rep.violation("convert_field with pint.Unit arguments differs from the same conversion with unit strings / does not round-trip",
                              {"value": v, "from": u1, "to": u2, "got": float(a_), "expected": float(ref_)})
        except Exception as e:  # noqa: BLE001
            rep.violation(f"convert_field with pint.Unit arguments raised {type(e).__name__}: {e}"[:200], {"value": v, "from": u1, "to": u2})
        rep.count(1)
    for v, u1, u2 in ((1.0, "mT", "A/m"), (3.5, "uT", "mA/um"), (120.0, "A/m", "mT"), (0.2, "uA/um", "uT"), (2.0, "mT", "uT")):
        try:
            a = convert_field(f"{v} {u1}", u2)
            b = convert_field(a, u1)                       # chaining the function's own output
            c = convert_field(convert_field(v, u2, old_units=u1, with_units=False), u1, old_units=u2, with_units=False)
            if abs(b.magnitude - v) > 1e-12 * abs(v) or abs(c - v) > 1e-12 * abs(v):
                rep.violation("H <-> B conversion does not round-trip", {"value": v, "from": u1, "via": u2, "back": str(b)})
        except Exception as e:  # noqa: BLE001
            rep.violation(f"H <-> B round trip raised {type(e).__name__}: {e}"[:200], {"value": v, "from": u1, "via": u2})
        rep.count(1)
    rep.nontrivial("convert")
    # ---------- loop potential vs quadrature ----------
    # relative to the largest |A| over a ring of reference points at the loop's own scale, so that points on the loop axis
    # (where A vanishes) and far from a small loop are judged in absolute terms
    worst = 0.0
    loop_cases = []
    for _ in range(6):
        a = rng.uniform(0.3, 2.0)
        ctr = (rng.uniform(-1, 1), rng.uniform(-1, 1), rng.uniform(-0.5, 0.5))
        P = np.array([[rng.uniform(-3, 3), rng.uniform(-3, 3), rng.uniform(0.6, 2.0)] for _ in range(5)])
        loop_cases.append((a, ctr, P))
    for a in (1.0, 0.1, 0.02):
        ctr = (rng.uniform(-1, 1), rng.uniform(-1, 1), rng.uniform(-0.5, 0.5))
        rel = np.array([[0.0, 0.0, 1.0], [0.0, 0.0, -2.0], [0.0, 0.0, 0.0], [1e-9, 0.0, 1.0], [1e-5, -1e-5, 0.7], [1e-3, 2e-3, -1.0],
                        [0.02, 0.01, 1.0], [0.3, 0.1, 5.0], [0.05, 0.0, 0.3], [-0.4, 0.2, 8.0], [a, 0.0, 0.5 * a]])
        loop_cases.append((a, ctr, rel + np.array(ctr)[None, :]))
    for a, ctr, P in loop_cases:
        A = current_loop_vector_potential(P, loop_center=ctr, loop_radius=a, current=1.0).to("T * m").magnitude
        ph = np.linspace(0, 2 * np.pi, 20001)[:-1]
        lp = np.stack([ctr[0] + a * np.cos(ph), ctr[1] + a * np.sin(ph), np.full_like(ph, ctr[2])], axis=1) * 1e-6
        dl = np.stack([-a * np.sin(ph), a * np.cos(ph), np.zeros_like(ph)], axis=1) * 1e-6 * (2 * np.pi / len(ph))

        def quad_at(p):
            r = np.linalg.norm(p[None] - lp, axis=1)
            return mu_0 * 1e-6 / (4 * np.pi) * np.sum(dl / r[:, None], axis=0)
        for p_um, Ai in zip(P, A):
            p = p_um * 1e-6
            quad = quad_at(p)
            # scale: the potential at the same height, half a loop radius off the axis
            ref = np.linalg.norm(quad_at(np.array([ctr[0] + 0.5 * a, ctr[1], p_um[2]]) * 1e-6)) + 1e-300
            scale_ = max(float(np.max(np.abs(quad))), 1e-3 * ref)
            err = float(np.max(np.abs(Ai - quad)) / scale_) if np.all(np.isfinite(Ai)) else float("inf")
            if err > 1e-6 and err > worst:
                bad_loop = {"radius": a, "center": list(ctr), "point": [float(v) for v in p_um], "closed_form": [float(v) for v in Ai],
                            "quadrature": [float(v) for v in quad]}
            worst = max(worst, err)
    rep.coverage["loop_closed_form_vs_quadrature_max_rel_diff"] = worst
    if worst > 1e-6:
        rep.violation(f"closed-form loop vector potential differs from quadrature by {worst:.2e} (relative)", bad_loop)
    rep.coverage.update({"kernel_cases": ncase, "correspondence_disagreements": ndis})
    rep.assumptions += ["numba fastmath kernels compared with tolerance 1e-9; r^(-3/2) modelled as 1/(r2*sqrt r2)",
                        "pint unit factors enter as numbers (conversion to SI done by the harness with the same registry)",
                        "elliptic-integral closed form: numerical comparison only, not decided by proof"]
    return rep.finish(level="proof", trusted_base=common.STD_TRUSTED,
                      rule="one evaluation = one current distribution / solution / conversion; non-trivial = distinct (units, off-plane z0)")
