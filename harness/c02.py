"""C02 - each step solves the discretised TDGL equation on the physical branch.

Correspondence: TDGLSolver.solve_for_psi_squared (real code) vs Model.Euler.sites_update
evaluated over PrimFloat by vm_compute.  Oracle: the property's own predicate evaluated
in 80-digit decimal arithmetic on the implementation's outputs (documented z, w)."""
from __future__ import annotations

import math
import random
from decimal import Decimal, getcontext

import numpy as np
import scipy.sparse as sp

from . import common
from .common import flit, clit, coq_list

getcontext().prec = 80

HEADER = """From Coq Require Import PrimFloat List.
Import ListNotations.
From PyTdgl Require Import Base.Ops Base.Cplx Model.Euler.
Open Scope float_scope.
Definition mk (U psi : float*float) (a e : float) (lap : float*float) : site_in OpsF :=
  Build_site_in OpsF U psi a e lap.
Definition out (r : option (list (float * (float*float)))) : list float :=
  match r with None => [] | Some l => flat_map (fun '(x,(pr,pi)) => [x;pr;pi]) l end.
Definition cases : list (float*float*float* list (site_in OpsF)) :=
"""
FOOTER = """.
Eval vm_compute in map (fun '(g,u,dt,l) => out (sites_update OpsF g u dt l)) cases.
"""


def gen_group(rng: random.Random, kind: str):
    n = rng.randint(1, 8)
    gamma = 0.0 if rng.random() < 0.2 else 10 ** rng.uniform(-3, 2)
    u = 10 ** rng.uniform(-1, 1)
    dt = 10 ** rng.uniform(-8, 2)
    psi = []
    for _ in range(n):
        r = rng.random()
        if kind == "tiny":
            mag = 10 ** rng.uniform(-300, -20)
        elif r < 0.1:
            mag = 0.0
        elif r < 0.25:
            mag = rng.uniform(1.0, 3.0)
        elif r < 0.45:
            mag = 10 ** rng.uniform(-30, 0)
        else:
            mag = rng.uniform(0.0, 1.0)
        ph = rng.uniform(-math.pi, math.pi)
        psi.append(complex(mag * math.cos(ph), mag * math.sin(ph)))
    if kind == "strong":
        # strong drive: large Laplacian action and dt, forces refusals
        scale = 10 ** rng.uniform(0, 4)
        dt = 10 ** rng.uniform(-2, 2)
    else:
        scale = 10 ** rng.uniform(-2, 2)
    M = [[complex(rng.gauss(0, 1), rng.gauss(0, 1)) * scale if rng.random() < 0.6 else 0j
          for _ in range(n)] for _ in range(n)]
    mu = [rng.uniform(-100, 100) for _ in range(n)]
    eps = [rng.uniform(-1, 1) if rng.random() < 0.8 else 1.0 for _ in range(n)]
    return dict(n=n, gamma=gamma, u=u, dt=dt, psi=psi, M=M, mu=mu, eps=eps, kind=kind)


def run_impl(g):
    from tdgl.solver.solver import TDGLSolver
    psi = np.array(g["psi"], dtype=np.complex128)
    abs2 = np.abs(psi) ** 2
    mu = np.array(g["mu"], dtype=float)
    eps = np.array(g["eps"], dtype=float)
    M = sp.csr_array(np.array(g["M"], dtype=np.complex128))
    import logging
    logging.getLogger("solver").setLevel(logging.ERROR)
    res = TDGLSolver.solve_for_psi_squared(
        psi=psi, abs_sq_psi=abs2, mu=mu, epsilon=eps, gamma=g["gamma"], u=g["u"], dt=g["dt"],
        psi_laplacian=M)
    U = np.exp(-1j * mu * g["dt"])
    lap = M @ psi
    g["U"], g["abs2"], g["lap"] = U, abs2, lap
    if res is None:
        return None
    p, x = res
    return np.asarray(p), np.asarray(x)


def group_literal(g) -> str:
    sites = [f"mk {clit(g['U'][i])} {clit(g['psi'][i])} {flit(g['abs2'][i])} {flit(g['eps'][i])} {clit(g['lap'][i])}"
             for i in range(g["n"])]
    return f"({flit(g['gamma'])}, {flit(g['u'])}, {flit(g['dt'])},\n  {coq_list(sites, per_line=1)})"


def double_root_groups(rng):
    """Sites whose computed z, w have a discriminant that is EXACTLY zero (a real positive double root): psi = 1,
    gamma = 1, mu = 0, eps = 1, u = dt = 1 give z = 1/2 and w = 3/2 + fl(sqrt 2) * (L psi); the Laplacian action is
    searched (neighbouring floats) so that the computed w is exactly a point of the parabola 2 Re w + 1 = (Im w)^2."""
    from fractions import Fraction
    k = float(np.sqrt(2.0))

    def solve_scalar(target):
        if target == 0:
            return 0.0
        x = target / k
        for direction in (np.inf, -np.inf):
            y = x
            for _ in range(200):
                if k * y == target:
                    return float(y)
                y = float(np.nextafter(y, direction))
        return None
    out = []
    for wi in (1.0, -1.0, 2.0, 0.0, 3.0, 0.5, -1.5, 4.0):
        wr = (wi * wi - 1.0) / 2.0
        lr, li = solve_scalar(wr - 1.5), solve_scalar(wi)
        if lr is None or li is None:
            continue
        lap = complex(lr, li)
        # check in floating point (the documented formula, as the implementation evaluates it) and exactly on those floats
        w = 0.5 * 1.0 + 1.0 * (1.0 + 1.0 * k * ((1.0 - 1.0) * 1.0 + lap))
        c = w.real * 0.5
        Df = (2 * c + 1) ** 2 - 4 * 0.25 * abs(w) ** 2
        De = (2 * Fraction(w.real) * Fraction(1, 2) + 1) ** 2 - (Fraction(w.real) ** 2 + Fraction(w.imag) ** 2)
        if w != complex(wr, wi) or Df != 0.0 or De != 0:
            continue
        out.append(dict(n=1, gamma=1.0, u=1.0, dt=1.0, psi=[1 + 0j], M=[[lap]], mu=[0.0], eps=[1.0], kind="double-root",
                        expect=[(complex(-1.0, wi), 1.0 + wi * wi)]))
        # ... and next to ordinary sites
        n = rng.randint(2, 4)
        M = [[0j] * n for _ in range(n)]
        M[0][0] = lap
        for j in range(1, n):
            M[j][j] = complex(rng.uniform(-0.2, 0.2), rng.uniform(-0.2, 0.2))
        out.append(dict(n=n, gamma=1.0, u=1.0, dt=1.0, psi=[1 + 0j] * n, M=M, mu=[0.0] * n, eps=[1.0] * n, kind="double-root",
                        expect=[(complex(-1.0, wi), 1.0 + wi * wi)]))
    return out


# ------------------------------------------------------------- exact oracle
def D_(x):
    return Decimal(float(x))


def cD(z):
    return (D_(complex(z).real), D_(complex(z).imag))


def cmulD(a, b):
    return (a[0] * b[0] - a[1] * b[1], a[0] * b[1] + a[1] * b[0])


def oracle_site(g, i):
    """Documented z, w and the discriminant for site i, in 80-digit arithmetic."""
    U, psi, lap = cD(g["U"][i]), cD(g["psi"][i]), cD(g["lap"][i])
    a2, eps = D_(g["abs2"][i]), D_(g["eps"][i])
    gam, u, dt = D_(g["gamma"]), D_(g["u"]), D_(g["dt"])
    g2 = gam * gam
    Upsi = cmulD(U, psi)
    z = (g2 / 2 * Upsi[0], g2 / 2 * Upsi[1])
    k = dt / u * (1 + g2 * a2).sqrt()
    inner = (psi[0] + k * ((eps - a2) * psi[0] + lap[0]), psi[1] + k * ((eps - a2) * psi[1] + lap[1]))
    Ui = cmulD(U, inner)
    w = (z[0] * a2 + Ui[0], z[1] * a2 + Ui[1])
    c = w[0] * z[0] + w[1] * z[1]
    s = 2 * c + 1
    az = z[0] * z[0] + z[1] * z[1]
    aw = w[0] * w[0] + w[1] * w[1]
    Dd = s * s - 4 * az * aw
    return z, w, s, az, aw, Dd


def check_oracle(rep, g, res, gi):
    """The property's predicate on the implementation's answer (independent of the Coq model)."""
    sites = [oracle_site(g, i) for i in range(g["n"])]
    margin = Decimal("1e-9")
    border = any(abs(Dd) <= margin * (s * s + Decimal("1e-300")) for (_, _, s, _, _, Dd) in sites)
    unsolv = any(Dd < 0 for (_, _, s, _, _, Dd) in sites)
    case = {"group": gi, "gamma": g["gamma"], "u": g["u"], "dt": g["dt"],
            "psi": [str(p) for p in g["psi"]], "mu": g["mu"], "eps": g["eps"],
            "M": [[str(c) for c in row] for row in g["M"]], "kind": g["kind"]}
    if border:
        return "border"
    if res is None:
        if not unsolv:
            tiny = any(0 < abs(p) <= 1e-100 for p in g["psi"])
            rep.violation("update refused although a solution exists at every site (exact discriminant >= 0 everywhere)",
                          case, finding_key="C02-underflow-refusal" if tiny else None)
            return "bad"
        return "refused"
    if unsolv:
        rep.violation("update answered although some site has no solution (exact discriminant < 0)", case)
        return "bad"
    p, x = res
    for i, (z, w, s, az, aw, Dd) in enumerate(sites):
        xi = float(x[i])
        pi_ = complex(p[i])
        if not (math.isfinite(xi) and math.isfinite(pi_.real) and math.isfinite(pi_.imag)):
            rep.violation("answered with a non-finite value", {**case, "site": i, "x": xi, "psi_new": str(pi_)})
            return "bad"
        if isinstance(x[i], complex) or np.iscomplexobj(x):
            rep.violation("reported |psi'|^2 is complex", {**case, "site": i})
            return "bad"
        X, P = D_(xi), cD(pi_)
        wn, zn = aw.sqrt(), az.sqrt()
        scale = wn + zn * abs(X) + Decimal("1e-300")
        r0 = P[0] + z[0] * X - w[0]
        r1 = P[1] + z[1] * X - w[1]
        resid = (r0 * r0 + r1 * r1).sqrt()
        p2 = P[0] * P[0] + P[1] * P[1]
        # |P|^2 - X = f(X) with f(X*) = 0 and f'(X*) = -sqrt(D): the mismatch is sqrt(D) * (error of X) + 2|P| * residual.
        # X = 2|w|^2 / (b + sqrt(D)) is computed with relative error ~ eps * (1 + (b^2 + 4|z|^2|w|^2) / (2 sqrt(D) (b + sqrt(D))))
        # (cancellation in D = b^2 - 4|z|^2|w|^2), so in absolute terms:
        bq = 2 * (w[0] * z[0] + w[1] * z[1]) + 1
        sD = max(Dd, Decimal(0)).sqrt()
        den = abs(bq + sD) + Decimal("1e-300")
        EPS = Decimal(2) ** -52
        tol2 = (64 * EPS * abs(X) * (1 + sD + (bq * bq + 4 * az * aw) / (2 * den))
                + 4 * p2.sqrt() * resid + Decimal("1e-12") * abs(X) + Decimal("1e-300"))
        what = None
        if resid > Decimal("1e-10") * scale:
            what = f"psi' + z|psi'|^2 != w (residual {float(resid):.3e}, scale {float(scale):.3e})"
        elif abs(p2 - X) > tol2:
            what = f"reported |psi'|^2 = {xi!r} differs from |psi'|^2 = {float(p2)!r}"
        elif X < 0:
            what = "reported |psi'|^2 negative"
        elif X > 4 * aw * (1 + Decimal("1e-9")) + Decimal("1e-300"):
            what = "other branch: |psi'|^2 > 4|w|^2"
        if what:
            rep.violation(what, {**case, "site": i, "x": xi, "psi_new": str(pi_)})
            return "bad"
    return "answered"


def step_level(rep, rng, tier):
    """Whole-step stream: real adaptive runs in which updates are refused and retried.  For every
    answered step the equation must hold for the dt the step REPORTS (the one time advances by)."""
    import tempfile
    from . import meshes, runs
    stats = {"steps": 0, "retried_steps": 0, "refusals": 0}
    # the configured gamma / u of the layer are what the documented z, w use: gamma = 0 (plain TDGL) and an unusual u too
    # two of the three devices carry a transport current, so that mu != 0 and the temporal link exp(-i mu dt) matters: it has to
    # be the one for the dt the step finally used, also after refusals within the step
    for gam_, u_, nterm, td_eps in ((10.0, 5.79, 2, False), (0.0, 5.79, 0, False), (3.0, 0.7, 2, False), (10.0, 5.79, 2, True)):
        dev = meshes.make_device(rng, holes=0, terminals=nterm, max_edge_length=1.0, probe_points=False, gamma=gam_, u=u_)

        if td_eps:
            # a time-dependent disorder parameter (keyword-only t): the epsilon of the documented w is the one at THIS step's time
            def eps(r, *, t):
                return (-1.0 + 1.5 * min(t / 40.0, 1.0)) if r[0] < 0 else 1.0
        else:
            def eps(r):
                return -1.0 if r[0] < 0 else 1.0

        for dt0 in ([50.0, 8.0] if tier == "quick" else [50.0, 8.0, 200.0, 3.0]):
            refused = []

            def on_step(solver, state, kw, res, refused=refused):
                psi, mu, dt = np.asarray(kw["psi"]), np.asarray(kw["mu"]), float(res.dt)
                g, u = float(dev.layer.gamma), float(dev.layer.u)           # the configured values, not the solver's copy
                a2 = np.abs(psi) ** 2
                U = np.exp(-1j * mu * dt)
                z = (g ** 2 / 2) * U * psi
                lap = solver.operators.psi_laplacian @ psi
                if td_eps:
                    eps_now = np.array([eps(r_, t=state["time"]) for r_ in solver.sites])     # evaluated here, at this step's time
                    stats["td_epsilon_steps"] = stats.get("td_epsilon_steps", 0) + 1
                else:
                    eps_now = solver.epsilon
                w = z * a2 + U * (psi + dt / u * np.sqrt(1 + g ** 2 * a2) * ((eps_now - a2) * psi + lap))
                p = np.asarray(res.psi)
                resid = np.abs(p + z * np.abs(p) ** 2 - w)
                scale = np.abs(w) + np.abs(z) * np.abs(p) ** 2 + 1e-300
                fx = np.asarray(solver.operators.fixed_sites, dtype=int) if getattr(solver.operators, "fixed_sites", None) is not None else []
                if len(fx):
                    resid[fx] = 0.0            # pinned terminal sites are decided by C06
                stats["max_abs_mu"] = max(stats.get("max_abs_mu", 0.0), float(np.max(np.abs(mu))))
                stats["steps"] += 1
                nref = len(refused)
                refused.clear()
                stats["refusals"] += nref
                stats["retried_steps"] += 1 if nref else 0
                if float(np.max(resid / scale)) > 1e-8:
                    rep.violation("answered step does not satisfy psi' + z|psi'|^2 = w for the time step it reports "
                                  f"(relative residual {float(np.max(resid / scale)):.2e})",
                                  {"dt_init": dt0, "step": state["step"], "reported_dt": dt, "refusals_in_step": nref})

            with tempfile.TemporaryDirectory(prefix="pyt_c02_") as td:
                opts = runs.make_options(td, solve_time=3 * dt0, dt_init=dt0, dt_max=dt0 * (1 + 1e-9), adaptive=True,
                                         save_every=100)
                from tdgl.solver.solver import TDGLSolver
                solver = TDGLSolver(dev, opts, disorder_epsilon=eps,
                                    terminal_currents={"source": 3.0, "drain": -3.0} if nterm else None)
                orig_static = TDGLSolver.solve_for_psi_squared

                def counting(**kw):
                    out = orig_static(**kw)
                    if out is None:
                        refused.append(kw["dt"])
                    return out

                solver.solve_for_psi_squared = counting
                orig_update = solver.update

                def wrapped(state, running_state, dt, **kwargs):
                    res = orig_update(state, running_state, dt, **kwargs)
                    on_step(solver, dict(state), kwargs, res)
                    return res

                solver.update = wrapped
                solver.solve()
    rep.count(stats["steps"])
    rep.nontrivial(("step-level", stats["retried_steps"] > 0))
    rep.coverage["step_level"] = stats
    if stats.get("max_abs_mu", 0.0) < 1e-3:
        rep.not_shown("step-level stream did not exercise a non-zero potential (generator too weak)", stats)
    if stats["retried_steps"] == 0:
        rep.not_shown("step-level stream did not exercise a retry (generator too weak)", stats)


def screening_step_level(rep, rng, tier):
    """Whole-step stream with screening: the self-consistency loop of one solve step calls the documented update once per iteration.
    The step is from psi^n, mu^n to psi^{n+1}: every one of those calls has to start from the state the step started from, and the
    answered psi' has to satisfy psi' + z |psi'|^2 = w with z, w built from psi^n, mu^n, the reported dt and the covariant Laplacian
    of the last iteration."""
    import tempfile
    from . import meshes, runs
    from tdgl.solver.solver import TDGLSolver
    stats = {"steps": 0, "steps_with_several_iterations": 0, "max_calls_in_a_step": 0}
    plans = ((10.0, 0, False), (1.0, 2, True)) if tier == "quick" else ((10.0, 0, False), (1.0, 2, True), (0.0, 2, False), (10.0, 2, True))
    for gam_, nterm, adaptive in plans:
        dev = meshes.make_device(rng, holes=0, terminals=nterm, max_edge_length=1.0, probe_points=False, gamma=gam_)
        calls = []
        orig_static = TDGLSolver.solve_for_psi_squared

        def recording(calls=calls, **kw):
            out = orig_static(**kw)
            calls.append((np.array(kw["psi"], copy=True), np.array(kw["mu"], copy=True), float(kw["dt"]), kw["psi_laplacian"].copy(),
                          np.array(kw["epsilon"], copy=True), out is not None))
            return out

        def on_step(solver, state, kw, res, calls=calls, gam_=gam_, nterm=nterm, adaptive=adaptive, dev=dev):
            psi0, mu0 = np.asarray(kw["psi"]), np.asarray(kw["mu"])
            answered = [c for c in calls if c[5]]
            stats["steps"] += 1
            stats["max_calls_in_a_step"] = max(stats["max_calls_in_a_step"], len(answered))
            stats["steps_with_several_iterations"] += 1 if len(answered) > 1 else 0
            case = {"gamma": gam_, "terminals": nterm, "adaptive": adaptive, "step": state["step"], "euler_applications": len(answered)}
            for ci, c in enumerate(calls):
                if not (np.array_equal(c[0], psi0) and np.array_equal(c[1], mu0)):
                    rep.violation("screening: iteration %d of the self-consistency loop started the documented update from a state other "
                                  "than the one the step started from (psi^n, mu^n): the order parameter is advanced more than once "
                                  "per time step" % ci,
                                  {**case, "max_abs_dpsi_vs_step_start": float(np.max(np.abs(c[0] - psi0))),
                                   "max_abs_dmu_vs_step_start": float(np.max(np.abs(c[1] - mu0)))})
                    break
            if answered:
                _, _, dt, lap_m, eps_now, _ = answered[-1]
                g, u = float(dev.layer.gamma), float(dev.layer.u)
                a2 = np.abs(psi0) ** 2
                U = np.exp(-1j * mu0 * dt)
                z = (g ** 2 / 2) * U * psi0
                w = z * a2 + U * (psi0 + dt / u * np.sqrt(1 + g ** 2 * a2) * ((eps_now - a2) * psi0 + lap_m @ psi0))
                p = np.asarray(res.psi)
                resid = np.abs(p + z * np.abs(p) ** 2 - w)
                scale = np.abs(w) + np.abs(z) * np.abs(p) ** 2 + 1e-300
                fx = np.asarray(solver.operators.fixed_sites, dtype=int) if getattr(solver.operators, "fixed_sites", None) is not None else []
                if len(fx):
                    resid[fx] = 0.0
                if abs(float(res.dt) - dt) > 0 or float(np.max(resid / scale)) > 1e-8:
                    rep.violation("screening: the answered step does not satisfy psi' + z|psi'|^2 = w with z, w from the state the step "
                                  f"started from (relative residual {float(np.max(resid / scale)):.2e})",
                                  {**case, "reported_dt": float(res.dt), "dt_of_last_update": dt})
            calls.clear()

        with tempfile.TemporaryDirectory(prefix="pyt_c02s_") as td:
            opts = runs.make_options(td, solve_time=0.05 if not adaptive else 0.2, dt_init=2e-3, dt_max=2e-2, adaptive=adaptive, save_every=100,
                                     include_screening=True, screening_tolerance=1e-3)
            solver = TDGLSolver(dev, opts, applied_vector_potential=0.5,
                                terminal_currents={"source": 2.0, "drain": -2.0} if nterm else None)
            solver.solve_for_psi_squared = recording
            orig_update = solver.update

            def wrapped(state, running_state, dt, orig_update=orig_update, solver=solver, on_step=on_step, **kwargs):
                res = orig_update(state, running_state, dt, **kwargs)
                on_step(solver, dict(state), kwargs, res)
                return res

            solver.update = wrapped
            try:
                solver.solve()
            except RuntimeError as e:
                if "converge" not in str(e):
                    raise
                stats["runs_that_failed_to_converge"] = stats.get("runs_that_failed_to_converge", 0) + 1
    rep.count(stats["steps"])
    rep.nontrivial(("screening-step-level", stats["steps_with_several_iterations"] > 0))
    rep.coverage["screening_step_level"] = stats
    if stats["steps_with_several_iterations"] == 0:
        rep.not_shown("screening step-level stream: no step needed more than one self-consistency iteration (generator too weak)", stats)


def run(rep: common.Report, tier: str, seed: int, replay=None) -> int:
    rep.use_props(common.check_props("C02"))
    step_level(rep, random.Random(seed * 31 + 5), tier)
    screening_step_level(rep, random.Random(seed * 31 + 6), tier)
    rng = random.Random(seed * 7919 + 2)
    ngroups = 4500 if tier == "quick" else 60000
    kinds = ["plain"] * 6 + ["strong"] * 3 + ["tiny"]
    groups = [gen_group(rng, rng.choice(kinds)) for _ in range(ngroups)]
    # fixed corpus first (documented corner cases)
    corpus = []
    for mag in (1e-110, 1e-200, 1e-300, 0.0, 1.0, 3.0):
        for gam in (0.0, 1.0, 10.0):
            corpus.append(dict(n=1, gamma=gam, u=5.79, dt=1e-3, psi=[complex(mag, 0)], M=[[0j]],
                               mu=[0.3], eps=[1.0], kind="corpus"))
    # large gamma (the documented range is gamma >= 0): the two terms of (2c+1)^2 - 4|z|^2|w|^2 are O(gamma^8), their difference
    # O(gamma^4); the uniform state among them
    import cmath as _cm
    for gam in (3e2, 1e3, 3e3, 1e4):
        p0 = 0.8 * _cm.exp(0.3j)
        corpus.append(dict(n=2, gamma=gam, u=5.79, dt=1e-3, psi=[p0, 1.0 + 0j], M=[[(0.3 - 0.2j) / p0, 0j], [0j, 0j]],
                           mu=[0.0, 0.0], eps=[1.0, 1.0], kind="corpus-large-gamma"))
    dr = double_root_groups(rng)
    # the same numbers in other number types: integer gamma / u / dt, numpy scalars
    for gam, u_, dt_ in ((10, 1, 1), (0, 2, 1), (np.float64(2.0), np.int64(3), np.float64(0.5)), (np.int64(1), 5.79, 0.125)):
        # (float32 inputs are not used: numpy's promotion rules then legitimately evaluate dt / u in single precision)
        corpus.append(dict(n=2, gamma=gam, u=u_, dt=dt_, psi=[0.6 + 0.3j, -0.2 + 0.9j], M=[[-0.5 + 0j, 0.25 + 0.1j], [0.25 - 0.1j, -0.5 + 0j]],
                           mu=[0.3, -1.2], eps=[1.0, 0.5], kind="corpus"))
    groups = corpus + dr + groups
    results = []
    stats = {"answered": 0, "refused": 0, "border": 0, "bad": 0}
    kinds_count = {}
    for gi, g in enumerate(groups):
        res = run_impl(g)
        results.append(res)
        if g["kind"] == "double-root":
            # the discriminant of the computed z, w is exactly zero: a solution exists, the update must be answered with it
            case = {"group": gi, "kind": "double-root", "M": [[str(c) for c in row] for row in g["M"]]}
            if res is None:
                rep.violation("update refused although the discriminant of the computed z, w is exactly zero at one site "
                              "(real positive double root) and positive at the others", case)
                verdict = "bad"
            else:
                (pe, xe), = g["expect"]
                if abs(complex(res[0][0]) - pe) > 1e-12 or abs(float(res[1][0]) - xe) > 1e-12:
                    rep.violation(f"double root answered with psi' = {complex(res[0][0])!r}, |psi'|^2 = {float(res[1][0])!r}; "
                                  f"expected {pe!r}, {xe!r}", case)
                    verdict = "bad"
                else:
                    verdict = "answered"
            stats[verdict] += 1
            kinds_count[g["kind"]] = kinds_count.get(g["kind"], 0) + 1
            g["verdict"] = verdict
            rep.count(g["n"])
            rep.nontrivial(("double-root", g["n"]))
            continue
        verdict = check_oracle(rep, g, res, gi)
        stats[verdict] += 1
        kinds_count[g["kind"]] = kinds_count.get(g["kind"], 0) + 1
        g["verdict"] = verdict
        rep.count(g["n"])
        rep.nontrivial((verdict, g["n"], g["gamma"] == 0.0, g["kind"], any(abs(p) == 0 for p in g["psi"]),
                        any(abs(p) > 1 for p in g["psi"])))
    # model side
    shard = 500
    texts = []
    for k in range(0, len(groups), shard):
        texts.append(HEADER + coq_list([group_literal(g) for g in groups[k:k + shard]], per_line=1) + FOOTER)
    outs = common.run_model_shards("c02_cases", texts)
    disagreements = []
    for si, (rc, out) in enumerate(outs):
        if rc != 0:
            rep.not_shown("correspondence: model evaluation failed", {"shard": si, "log": out[-1500:]})
            continue
        vals = common.parse_nested(common.eval_block(out))[0]
        base = si * shard
        if len(vals) != len(groups[base:base + shard]):
            rep.not_shown("correspondence: model output count mismatch", {"shard": si, "got": len(vals)})
            continue
        for j, mv in enumerate(vals):
            gi = base + j
            g, res = groups[gi], results[gi]
            if g["verdict"] in ("border",):
                continue
            m_ref = (len(mv) == 0)
            i_ref = res is None
            if m_ref != i_ref:
                # the model has no underflow trap; the unrepaired implementation had one
                disagreements.append({"group": gi, "what": "verdict", "model_refused": m_ref, "impl_refused": i_ref,
                                      "kind": g["kind"], "psi": [str(p) for p in g["psi"]], "gamma": g["gamma"],
                                      "dt": g["dt"], "u": g["u"]})
                continue
            if i_ref:
                continue
            p, x = res
            for i in range(g["n"]):
                mx, mpr, mpi = mv[3 * i:3 * i + 3]
                xi, pi_ = float(x[i]), complex(p[i])
                sc = abs(g["lap"][i]) * g["dt"] / g["u"] * math.sqrt(1 + g["gamma"] ** 2 * g["abs2"][i]) + abs(g["psi"][i]) * (1 + g["gamma"] ** 2 * (g["abs2"][i] + abs(xi)))
                tolp = 1e-9 * abs(pi_) + 1e-11 * sc + 1e-300
                tolx = 1e-8 * abs(xi) + 1e-11 * math.sqrt(abs(xi)) * sc + 1e-300
                if not (abs(mx - xi) <= tolx and abs(complex(mpr, mpi) - pi_) <= tolp):
                    disagreements.append({"group": gi, "site": i, "what": "value", "model": [mx, mpr, mpi],
                                          "impl": [xi, pi_.real, pi_.imag], "kind": g["kind"]})
                    break
    for d in disagreements[:20]:
        rep.not_shown("correspondence: model and implementation disagree", d)
    for g in groups[:3] + groups[len(corpus):len(corpus) + 3]:
        rep.sample({"gamma": g["gamma"], "u": g["u"], "dt": g["dt"], "psi": [str(p) for p in g["psi"]],
                    "mu": g["mu"], "eps": g["eps"], "verdict": g["verdict"]})
    rep.coverage.update({
        "groups": len(groups), "verdicts": stats, "kinds": kinds_count,
        "correspondence_disagreements": len(disagreements),
        "borderline_skipped": stats["border"],
    })
    rep.assumptions += [
        "U = exp(-i mu dt) is computed by numpy and passed to the model as data (PrimFloat has no exp)",
        "overflow excluded by the generator's ranges (|psi| <= 3, dt <= 1e2, gamma <= 1e2), as in the property's quantifier",
        "cases with |D| <= 1e-9 (2c+1)^2 are counted as borderline and not compared",
    ]
    return rep.finish(
        level="proof", trusted_base=common.STD_TRUSTED,
        rule="site groups of 1-8 sites drawn from plain/strong/tiny/corpus streams; non-trivial = distinct "
             "(verdict, group size, gamma==0, stream, has zero site, has |psi|>1) combinations reached")
