"""C14 - saved devices, meshes, solutions and parameters load back unchanged.

Real round trips through HDF5 and pickle/cloudpickle: solver-option combinations over a product grid
including every None-able field; devices with/without holes, terminals, probe points and mesh; meshes
saved in full and compressed (restored from stored arrays vs recomputed from the triangulation);
solutions at every recorded step; parameters (composite and time-dependent) reloaded and EVALUATED.
Correspondence: option round trip vs Model.Serial (explicit None marker); stored polygon vertices vs
Model.Geom.normalise (fixed point)."""
from __future__ import annotations

import itertools
import os
import pickle
import random
import tempfile

import h5py
import numpy as np

from . import common, meshes, runs
from .common import flit, coq_list

MESH_ARRAYS = ("sites", "elements", "boundary_indices", "areas", "dual_sites")
EDGE_ARRAYS = ("centers", "edges", "boundary_edge_indices", "directions", "edge_lengths", "dual_edge_lengths",
               "normalized_directions")


def same_mesh(a, b, exact=True):
    for n in MESH_ARRAYS:
        x, y = getattr(a, n), getattr(b, n)
        if not (np.array_equal(x, y) if exact else np.allclose(x, y, rtol=1e-12, atol=1e-14)):
            return n
    for n in EDGE_ARRAYS:
        x, y = getattr(a.edge_mesh, n), getattr(b.edge_mesh, n)
        if not (np.array_equal(x, y) if exact else np.allclose(x, y, rtol=1e-12, atol=1e-14)):
            return "edge_mesh." + n
    # the Voronoi cell polygons (one vertex list per site, the last site's included)
    va, vb = getattr(a, "voronoi_polygons", None), getattr(b, "voronoi_polygons", None)
    if (va is None) != (vb is None):
        return "voronoi_polygons (present in one only)"
    if va is not None:
        if len(va) != len(vb):
            return "voronoi_polygons (count)"
        for i, (x, y) in enumerate(zip(va, vb)):
            x, y = np.asarray(x), np.asarray(y)
            if x.shape != y.shape or not (np.array_equal(x, y) if exact else np.allclose(x, y, rtol=1e-12, atol=1e-14)):
                return f"voronoi_polygons[{i}] of {len(va)}"
    return None


def option_grid(rng, tier):
    grid = dict(
        terminal_psi=[0.0, None, 1.0, 0.5 + 0.5j, 0.3],
        adaptive=[True, False],
        include_screening=[False, True],
        save_every=[1, 7],
        sparse_solver=["superlu"],
        field_units=["mT", "uT"],
        current_units=["uA", "nA"],
        pause_on_interrupt=[False, True],
        skip_time=[0.0, 0.004],
    )
    keys = list(grid)
    combos = list(itertools.product(*[grid[k] for k in keys]))
    rng.shuffle(combos)
    n = 40 if tier == "quick" else 400
    out = []
    for c in combos[:n]:
        o = dict(zip(keys, c))
        # rarely-set fields get non-default values too
        o.update(adaptive_window=rng.choice([3, 10, 17]), max_solve_retries=rng.choice([2, 10, 13]),
                 adaptive_time_step_multiplier=rng.choice([0.25, 0.5, 0.3]), monitor_update_interval=rng.choice([2.0, 0.5]),
                 max_iterations_per_step=rng.choice([1000, 777]), screening_step_size=rng.choice([0.1, 0.6, 1.0]),
                 screening_step_drag=rng.choice([0.5, 0.8, 1.0]))
        out.append(o)
    return out


def _eps(r):
    return 1.0 - 0.5 * float(np.exp(-(r[0] ** 2 + r[1] ** 2)))


def _eps_t(r, *, t):
    # time-dependent disorder (keyword-only t): a weak link that closes slowly
    return 1.0 - 0.6 * float(np.exp(-((r[0] - 0.3) ** 2))) * min(max(t / 0.02, 0.0), 1.0)


def _cur(t):
    return {"source": 1.0 + 0.1 * t, "drain": -(1.0 + 0.1 * t)}


def run(rep: common.Report, tier: str, seed: int, replay=None) -> int:
    import tdgl
    from tdgl.sources import ConstantField, LinearRamp
    rep.use_props(common.check_props("C14"))
    rng = random.Random(seed * 7919 + 14)
    dev = meshes.make_device(rng, holes=1, terminals=2, max_edge_length=1.4)

    # ---------- options inside solutions; solutions at every recorded step; parameters ----------
    serial_cases = []
    param_kinds = {
        "float": lambda: 0.3,
        "P": lambda: ConstantField(0.3),
        "P*2+P": lambda: ConstantField(0.1) * 2 + ConstantField(0.05),
        "ramp*P": lambda: LinearRamp(tmin=0.0, tmax=1.0) * ConstantField(0.4),
        "(ramp*2)*P+P": lambda: (LinearRamp(tmin=0.0, tmax=1.0) * 2) * ConstantField(0.2) + ConstantField(0.1),
    }
    pk = list(param_kinds)
    kept = []
    with tempfile.TemporaryDirectory(prefix="pyt_c14_") as td:
        for oi, ocfg in enumerate(option_grid(rng, tier)):
            kind = pk[oi % len(pk)]
            A = param_kinds[kind]()
            eps = _eps if oi % 3 == 0 else (_eps_t if oi % 3 == 1 and oi % 2 == 0 else 1.0)
            cur = _cur if oi % 4 == 0 else {"source": 1.0, "drain": -1.0}
            scr = ocfg["include_screening"]
            opts = runs.make_options(None, solve_time=0.012 if not scr else 0.006, dt_init=2e-3, dt_max=4e-3,
                                     output_file=os.path.join(td, f"s{oi}.h5"), screening_tolerance=5e-2, **ocfg)
            case = {"options": {k: str(v) for k, v in ocfg.items()}, "A": kind}
            try:
                sol = tdgl.solve(dev, opts, applied_vector_potential=A, terminal_currents=cur, disorder_epsilon=eps)
                nsteps = sol.data_range[1] + 1
                loaded = tdgl.Solution.from_hdf5(sol.path)
            except RuntimeError as e:
                if "Screening calculation failed to converge" in str(e):
                    # an allowed outcome of the run itself (some of the rarely-set screening parameters do not converge)
                    rep.coverage["runs_that_failed_to_converge"] = rep.coverage.get("runs_that_failed_to_converge", 0) + 1
                    continue
                if "exactly singular" in str(e):
                    # the run itself could not start: SuperLU met an exactly zero pivot in the (by construction singular) Neumann
                    # Laplacian for mu at this position of the device - nothing was saved or loaded (see DESIGN 16.2)
                    rep.coverage["runs_refused_singular_factor"] = rep.coverage.get("runs_refused_singular_factor", 0) + 1
                    dev.translate(dx=0.0137, dy=0.0071, inplace=True)
                    continue
                rep.violation(f"saving / loading a solution raised {type(e).__name__}: {e}"[:200], case)
                continue
            except Exception as e:  # noqa: BLE001
                rep.violation(f"saving / loading a solution raised {type(e).__name__}: {e}"[:200], case)
                continue
            import dataclasses
            for f in [fld.name for fld in dataclasses.fields(sol.options)]:
                a, b = getattr(sol.options, f), getattr(loaded.options, f)
                if not (a == b and (a is None) == (b is None)):
                    rep.violation(f"option {f} changed through save/load: {a!r} -> {b!r}", case)
            if not loaded.equals(sol):
                rep.violation("a loaded solution does not compare equal to the original", case)
            if loaded.device != sol.device:
                rep.violation("the device inside a loaded solution differs from the original", case)
            mm = same_mesh(loaded.device.mesh, sol.device.mesh)
            if mm:
                rep.violation(f"mesh array {mm} changed through save/load of a solution", case)
            for step in range(nsteps):
                sol.solve_step = step
                l2 = tdgl.Solution.from_hdf5(sol.path, solve_step=step)
                if not (l2.tdgl_data == sol.tdgl_data) or l2.solve_step != sol.solve_step:
                    rep.violation("data of a recorded step differs after loading", {**case, "step": step})
                    break
            # parameters evaluate to the same values after the round trip
            xs, ys, zs = np.array([0.1, -0.3, 0.7]), np.array([0.2, 0.5, -0.4]), np.zeros(3)
            for nm in ("applied_vector_potential", "disorder_epsilon", "terminal_currents"):
                a, b = getattr(sol, nm), getattr(loaded, nm)
                try:
                    if isinstance(a, tdgl.Parameter):
                        kw = {"t": 0.37} if a.time_dependent else {}
                        va, vb = a(xs, ys, zs, **kw), b(xs, ys, zs, **kw)
                        okp = np.array_equal(va, vb) and (a == b) and (a.time_dependent == b.time_dependent)
                    elif callable(a):
                        arg = (0.37,) if nm == "terminal_currents" else ((0.1, 0.2),)
                        import inspect as _insp
                        kwt = {"t": 0.011} if "t" in _insp.getfullargspec(a).kwonlyargs else {}
                        ra, rb = a(*arg, **kwt), b(*arg, **kwt)
                        okp = (dict(ra) == dict(rb)) if isinstance(ra, dict) else bool(np.array_equal(np.asarray(ra), np.asarray(rb)))
                    else:
                        okp = (a == b) if not isinstance(a, dict) else dict(a) == dict(b)
                except Exception as e:  # noqa: BLE001
                    okp = False
                    case = {**case, "error": f"{type(e).__name__}: {e}"[:120]}
                if not okp:
                    rep.violation(f"{nm} does not evaluate / compare the same after loading", case)
            serial_cases.append(ocfg)
            rep.count(1)
            rep.nontrivial(("sol", str(ocfg["terminal_psi"]), ocfg["adaptive"], scr, kind))
            if oi < 3:
                rep.sample(case)
            # history form (a sweep): the caller keeps the solution and changes ITS device in place before the next run;
            # the earlier solutions must keep describing the run they came from
            kept.append((sol, dict(case), oi))
            if oi % 2 == 0:
                dev.layer.london_lambda = dev.layer.london_lambda * 1.07
            else:
                dev.translate(dx=0.05, dy=-0.03, inplace=True)
        # "compares equal" must be able to say no: solutions that differ (other drive, other recorded step, other kind of object)
        # compare unequal - otherwise the equality checks above would prove nothing
        if len(kept) >= 2:
            sA, sB = kept[0][0], kept[1][0]
            try:
                sA.solve_step = sA.data_range[1]
                sA_first = tdgl.Solution.from_hdf5(sA.path, solve_step=0)
                neg = [("another run", sA.equals(sB) or sA == sB), ("another recorded step of the same run", sA.equals(sA_first)),
                       ("an object of another type", sA.equals("solution") or sA == 3)]
                for what_, eq_ in neg:
                    if eq_:
                        rep.violation(f"a solution compares equal to {what_}", {"runs": [kept[0][2], kept[1][2]]})
            except Exception as e:  # noqa: BLE001
                rep.violation(f"comparing different solutions raised {type(e).__name__}: {e}"[:160], {})
            rep.count(1)
        for sol, case, oi in kept:
            try:
                again = tdgl.Solution.from_hdf5(sol.path)
                okk = again.equals(sol) and again.device == sol.device and not same_mesh(again.device.mesh, sol.device.mesh)
                sol.solve_step = sol.data_range[1]
                okk = okk and (tdgl.Solution.from_hdf5(sol.path, solve_step=sol.data_range[1]).tdgl_data == sol.tdgl_data)
                okk = okk and np.array_equal(np.asarray(again.current_density), np.asarray(sol.current_density))
            except Exception as e:  # noqa: BLE001
                okk = False
                case = {**case, "error": f"{type(e).__name__}: {e}"[:120]}
            if not okk:
                rep.violation("an in-memory solution no longer equals its own file after the caller changed the device in place "
                              "for later runs (the solution aliases the caller's device)", {**case, "run": oi, "later_runs": len(kept) - 1 - oi})
                break

        # ---------- solutions that live in memory only (temporary output / deleted file), and copies ----------
        def same_dynamics(a, b):
            for nm in ("dt", "time", "mu", "theta", "screening_iterations"):
                x, y = getattr(a, nm, None), getattr(b, nm, None)
                if (x is None) != (y is None) or (x is not None and not np.array_equal(np.asarray(x), np.asarray(y))):
                    return nm
            return None

        for mi, (mode, scr, adaptive) in enumerate((("temporary", False, True), ("temporary", True, False), ("deleted", False, True),
                                                    ("copy", False, True), ("copy-of-loaded", True, True))):
            opts = runs.make_options(None, solve_time=0.04 if not scr else 0.012, dt_init=2e-3, dt_max=4e-3, save_every=3,
                                     adaptive=adaptive, include_screening=scr, screening_tolerance=5e-2,
                                     output_file=None if mode == "temporary" else os.path.join(td, f"m{mi}.h5"))
            case = {"solution": mode, "screening": scr, "adaptive": adaptive}
            try:
                sol = tdgl.solve(dev, opts, applied_vector_potential=0.3, terminal_currents={"source": 1.0, "drain": -1.0})
                if mode == "deleted":
                    sol.delete_hdf5()
                if mode == "copy-of-loaded":
                    sol = tdgl.Solution.from_hdf5(sol.path)
                dyn, times = sol.dynamics, np.array(sol.times)
                newp = os.path.join(td, f"m{mi}_saved.h5")
                sol.to_hdf5(newp)
                loaded = tdgl.Solution.from_hdf5(newp)
                # the documented option save_mesh=False: the file is smaller, the solution loads back all the same
                nomesh = os.path.join(td, f"m{mi}_nomesh.h5")
                sol.to_hdf5(nomesh, save_mesh=False)
                lm = tdgl.Solution.from_hdf5(nomesh)
                if not lm.equals(sol) or same_mesh(lm.device.mesh, sol.device.mesh) or not (lm.tdgl_data == sol.tdgl_data):
                    rep.violation("a solution saved with save_mesh=False does not load back equal to the original", case)
            except Exception as e:  # noqa: BLE001
                if isinstance(e, RuntimeError) and ("exactly singular" in str(e) or "Screening calculation failed to converge" in str(e)):
                    rep.coverage["runs_refused_singular_factor"] = rep.coverage.get("runs_refused_singular_factor", 0) + 1
                    continue          # the run itself did not happen; nothing to save or load
                rep.violation(f"saving / loading a solution raised {type(e).__name__}: {e}"[:200], case)
                continue
            # the per-step records stored on their own (DynamicsData.to_hdf5) and read back
            try:
                from tdgl.solution.data import DynamicsData as _DD
                with h5py.File(os.path.join(td, f"dyn{mi}.h5"), "w") as f_:
                    dyn.to_hdf5(f_.create_group("dynamics"))
                with h5py.File(os.path.join(td, f"dyn{mi}.h5"), "r") as f_:
                    dback = _DD.from_hdf5(f_["dynamics"])
                badd = same_dynamics(dback, dyn)
                if badd:
                    rep.violation(f"per-step record '{badd}' differs after DynamicsData.to_hdf5 / from_hdf5", case)
            except Exception as e:  # noqa: BLE001
                rep.violation(f"DynamicsData.to_hdf5 / from_hdf5 raised {type(e).__name__}: {e}"[:160], case)
            if len(dyn.dt) == 0:
                rep.not_shown("in-memory solution carries no dynamics; the round trip is vacuous", case)
            bad = same_dynamics(loaded.dynamics, dyn)
            if bad:
                rep.violation(f"per-step record '{bad}' differs after saving a solution to a new file and loading it", case)
            if not np.array_equal(np.array(loaded.times), times):
                rep.violation("Solution.times differs after saving a solution to a new file and loading it", case)
            if not (loaded.tdgl_data == sol.tdgl_data) or not loaded.equals(sol):
                rep.violation("a solution saved to a new file and loaded does not compare equal to the original", case)
            rep.count(1)
            rep.nontrivial(("memory-solution", mode, scr))

        # per-step records of a device WITHOUT probe points, stored on their own and read back
        try:
            from tdgl.solution.data import DynamicsData as _DD0
            dnp = dev.copy(with_mesh=True)
            dnp.probe_points = None
            snp = tdgl.solve(dnp, runs.make_options(None, solve_time=0.02, dt_init=2e-3, dt_max=4e-3, output_file=os.path.join(td, "noprobe.h5")),
                             applied_vector_potential=0.2, terminal_currents={"source": 1.0, "drain": -1.0})
            with h5py.File(os.path.join(td, "dyn_noprobe.h5"), "w") as f_:
                snp.dynamics.to_hdf5(f_.create_group("dynamics"))
            with h5py.File(os.path.join(td, "dyn_noprobe.h5"), "r") as f_:
                dbk = _DD0.from_hdf5(f_["dynamics"])
            badn = same_dynamics(dbk, snp.dynamics)
            if badn or len(dbk.dt) == 0:
                rep.violation(f"per-step records of a run without probe points do not survive DynamicsData.to_hdf5 / from_hdf5 ({badn})", {})
        except Exception as e:  # noqa: BLE001
            if not (isinstance(e, RuntimeError) and "exactly singular" in str(e)):
                rep.violation(f"DynamicsData round trip without probe points raised {type(e).__name__}: {e}"[:200], {})
        rep.count(1)
        # ---------- devices ----------
        for di in range(8 if tier == "quick" else 40):
            # layer parameters include the falsy-but-valid corner values (gamma = 0: plain TDGL; z0 = 0; conductivity None / set)
            lay = [dict(), dict(gamma=0.0), dict(gamma=2.5, u=1.0), dict(conductivity=0.5), dict(gamma=0, conductivity=2.0),
                   dict(u=0.25), dict(gamma=1e-3), dict()][di % 8]
            d = meshes.make_device(rng, holes=di % 3, terminals=[0, 2, 3, 4][di % 4], max_edge_length=1.5,
                                   probe_points=(di % 2 == 0), shape=["box", "ellipse", "union"][di % 3], **lay)
            d.layer.z0 = [0.0, 0.3, -0.2][di % 3]
            if di % 2 == 1:
                # feature pair: a device that HAS a mesh and is then moved in place (the mesh moves with it); what is stored must
                # still be the mesh one recomputes from its triangulation
                d.translate(dx=[1.3, -0.4, 7.0][di % 3], dy=[-0.8, 2.1, 0.0][di % 3], inplace=True)
            if di % 4 == 1:
                # names are free-form strings: spaces, unicode, dots
                d.name = "my device é.v2"
                for k_, h_ in enumerate(d.holes):
                    h_.name = f"hole #{k_} (inner)"
                d.film.name = "film é"
            for with_mesh in (True, False):
                p = os.path.join(td, f"d{di}{int(with_mesh)}.h5")
                try:
                    d.to_hdf5(p, save_mesh=with_mesh)
                    d2 = tdgl.Device.from_hdf5(p)
                except Exception as e:  # noqa: BLE001
                    rep.violation(f"device round trip raised {type(e).__name__}: {e}"[:160], {"device": di, "with_mesh": with_mesh})
                    continue
                case = {"device": di, "holes": di % 3, "terminals": [0, 2, 3, 4][di % 4], "probe_points": di % 2 == 0, "with_mesh": with_mesh}
                if d2 != d:
                    rep.violation("a loaded device does not compare equal to the original", case)
                for attr in ("london_lambda", "coherence_length", "thickness", "conductivity", "u", "gamma", "z0"):
                    va, vb = getattr(d.layer, attr), getattr(d2.layer, attr)
                    if not ((va is None and vb is None) or (va is not None and vb is not None and float(va) == float(vb))):
                        rep.violation(f"layer.{attr} changed through device save/load: {va!r} -> {vb!r}", case)
                if d2.length_units != d.length_units or d2.name != d.name:
                    rep.violation("device name / length units changed through save/load", case)
                for a, b in zip(sorted(d.polygons, key=lambda q: q.name), sorted(d2.polygons, key=lambda q: q.name)):
                    if not np.array_equal(a.points, b.points) or a.name != b.name or a.mesh != b.mesh:
                        rep.violation("polygon vertices / attributes changed through save/load", {**case, "polygon": a.name})
                if with_mesh:
                    mm = same_mesh(d.mesh, d2.mesh)
                    if mm:
                        rep.violation(f"mesh array {mm} changed through device save/load", case)
                elif d2.mesh is not None:
                    rep.violation("a device saved without its mesh came back with one", case)
                rep.count(1)
                rep.nontrivial(("dev", di % 3, [0, 2, 3, 4][di % 4], di % 2 == 0, with_mesh))
            # mesh: full vs compressed; restored vs recomputed from the triangulation
            from tdgl.finite_volume.mesh import Mesh
            with h5py.File(os.path.join(td, f"m{di}.h5"), "w") as f:
                d.mesh.to_hdf5(f.create_group("full"), compress=False)
                d.mesh.to_hdf5(f.create_group("small"), compress=True)
            with h5py.File(os.path.join(td, f"m{di}.h5"), "r") as f:
                full = Mesh.from_hdf5(f["full"])
                small = Mesh.from_hdf5(f["small"])
            recomputed = Mesh.from_triangulation(d.mesh.sites, d.mesh.elements)
            for nm, m2, exact in (("restored from stored arrays", full, True), ("recomputed after compressed save", small, True),
                                  ("recomputed from the triangulation", recomputed, True)):
                mm = same_mesh(d.mesh, m2, exact=exact)
                if mm:
                    rep.violation(f"mesh {nm} differs from the original in {mm}", {"device": di})
            rep.count(1)
        # path forms: a bare file name and a relative path with a directory, for devices and solutions
        cwd_ = os.getcwd()
        try:
            os.chdir(td)
            os.makedirs("sub dir", exist_ok=True)
            dsmall = meshes.make_device(rng, holes=1, terminals=2, max_edge_length=1.6)
            for rel in ("rel_device.h5", os.path.join("sub dir", "rel device é.h5"), os.path.join("new_dir", "deep", "d.h5")):
                try:
                    dsmall.to_hdf5(rel)
                    back = tdgl.Device.from_hdf5(rel)
                    if back != dsmall or same_mesh(back.mesh, dsmall.mesh):
                        rep.violation("a device saved under a relative path does not load back equal", {"path": rel})
                except Exception as e:  # noqa: BLE001
                    rep.violation(f"saving / loading a device under a relative path raised {type(e).__name__}: {e}"[:160], {"path": rel})
                rep.count(1)
            solr = tdgl.solve(dsmall, runs.make_options(None, solve_time=0.01, dt_init=2e-3, dt_max=4e-3, output_file="rel_solution.h5"),
                              applied_vector_potential=0.2)
            for rel in ("rel_copy.h5", os.path.join("sub dir", "copy é.h5")):
                try:
                    solr.to_hdf5(rel)
                    if not tdgl.Solution.from_hdf5(rel).equals(solr):
                        rep.violation("a solution saved under a relative path does not load back equal", {"path": rel})
                except Exception as e:  # noqa: BLE001
                    rep.violation(f"saving / loading a solution under a relative path raised {type(e).__name__}: {e}"[:160], {"path": rel})
                rep.count(1)
            # environment form: a batch driver with one directory per job and the same relative output name in each; the working
            # directory changes after each solve.  Every solution must keep reading ITS file, at every recorded step.
            jobs = []
            for jb, fld in enumerate((0.2, 0.45)):
                jd = os.path.join(td, f"job_{jb}")
                os.makedirs(jd, exist_ok=True)
                os.chdir(jd)
                sj = tdgl.solve(dsmall, runs.make_options(None, solve_time=0.012, dt_init=2e-3, dt_max=4e-3, save_every=2,
                                                          output_file="out.h5"), applied_vector_potential=fld)
                snapj = [np.array(sj.tdgl_data.psi, copy=True)]
                jobs.append((sj, jd, fld))
            os.chdir(td)
            for sj, jd, fld in jobs:
                casej = {"job_dir": os.path.basename(jd), "output_file": "out.h5", "cwd_now": "another directory"}
                try:
                    ref = tdgl.Solution.from_hdf5(os.path.join(jd, "out.h5"))
                    okj = bool(sj.saved_on_disk) and tdgl.Solution.from_hdf5(sj.path).equals(sj)
                    for stp in range(ref.data_range[0], ref.data_range[1] + 1):
                        sj.solve_step = stp
                        ref.solve_step = stp
                        okj = okj and (sj.tdgl_data == ref.tdgl_data)
                    newp = os.path.join(td, f"resaved_{os.path.basename(jd)}.h5")
                    sj.to_hdf5(newp)
                    back = tdgl.Solution.from_hdf5(newp)
                    okj = okj and tuple(back.data_range) == tuple(ref.data_range) and back.equals(sj)
                except Exception as e:  # noqa: BLE001
                    okj = False
                    casej["error"] = f"{type(e).__name__}: {e}"[:140]
                if not okj:
                    rep.violation("a solution written under a relative output name does not keep its own data once the working directory "
                                  "has changed (recorded steps / re-save / reload)", casej)
                rep.count(1)
        finally:
            os.chdir(cwd_)
        # meshes of other sizes: a three-site mesh, and meshes whose site / edge counts cross 2**16 (index widths)
        from scipy.spatial import Delaunay as _Del
        size_cases = [("tiny", np.array([[0.0, 0.0], [1.0, 0.1], [0.3, 0.9], [1.2, 1.1]]))]
        for nsite in ([23000] if tier == "quick" else [23000, 40000, 70000]):
            size_cases.append((f"{nsite} sites", None))
        for nm_, pts in size_cases:
            try:
                if pts is None:
                    big = meshes.delaunay_mesh(rng, int(nm_.split()[0]), "jitter")
                else:
                    big = Mesh.from_triangulation(pts, _Del(pts).simplices)
                with h5py.File(os.path.join(td, "big.h5"), "w") as f:
                    big.to_hdf5(f.create_group("full"), compress=False)
                    big.to_hdf5(f.create_group("small"), compress=True)
                with h5py.File(os.path.join(td, "big.h5"), "r") as f:
                    bfull, bsmall = Mesh.from_hdf5(f["full"]), Mesh.from_hdf5(f["small"])
            except Exception as e:  # noqa: BLE001
                rep.violation(f"mesh round trip raised {type(e).__name__}: {e}"[:160], {"mesh": nm_})
                continue
            for what, m2 in (("restored from stored arrays", bfull), ("recomputed after compressed save", bsmall)):
                mm = same_mesh(big, m2, exact=True)
                if mm:
                    rep.violation(f"mesh {what} differs from the original in {mm}",
                                  {"mesh": nm_, "sites": len(big.sites), "edges": len(big.edge_mesh.edges)})
            rep.count(1)
            rep.nontrivial(("mesh-size", nm_))
        # pickling of devices' parameters is covered by C16; plain Parameter pickles here
        for kind, mk in param_kinds.items():
            obj = mk()
            if not isinstance(obj, tdgl.Parameter):
                continue
            for dumps, loads in ((pickle.dumps, pickle.loads),):
                try:
                    o2 = loads(dumps(obj))
                    xs, ys, zs = np.array([0.1, -0.3]), np.array([0.2, 0.5]), np.zeros(2)
                    kw = {"t": 0.2} if obj.time_dependent else {}
                    if not (np.array_equal(obj(xs, ys, zs, **kw), o2(xs, ys, zs, **kw)) and o2 == obj
                            and o2.time_dependent == obj.time_dependent):
                        rep.violation("a pickled parameter does not behave like the original", {"parameter": kind})
                except Exception as e:  # noqa: BLE001
                    rep.violation(f"pickling a parameter raised {type(e).__name__}: {e}"[:160], {"parameter": kind})
            rep.count(1)

    # ---------- correspondence ----------
    t = ("From Coq Require Import List QArith Bool.\nImport ListNotations.\nFrom PyTdgl Require Import Model.Serial.\n"
         "Definition chk (p : option Q) (f : option nat) :=\n"
         "  let o := Build_sopts p f [(1%nat, 3#4); (2%nat, 1#2)] in\n"
         "  match o_terminal_psi (load (save true o)), o_output_file (load (save true o)) with\n"
         "  | a, b => (match a, p with None, None => true | Some x, Some y => Qeq_bool x y | _, _ => false end)\n"
         "            && (match b, f with None, None => true | Some x, Some y => Nat.eqb x y | _, _ => false end) end.\n"
         "Eval vm_compute in [chk None None; chk (Some 0) (Some 3%nat); chk (Some (3#10)) None; chk None (Some 1%nat)].\n")
    # stored polygon vertices are a fixed point of Model.Geom.normalise
    t += ("From Coq Require Import PrimFloat.\nFrom PyTdgl Require Import Base.Ops Model.Geom.\nOpen Scope float_scope.\n"
          "Fixpoint same (a b : list (float*float)) : bool :=\n"
          "  match a, b with [], [] => true | (x,y) :: ta, (u,v) :: tb => PrimFloat.eqb x u && PrimFloat.eqb y v && same ta tb | _, _ => false end.\n")
    polys = [p for p in dev.polygons]
    for p in polys:
        lit = coq_list([f"({flit(x)}, {flit(y)})" for x, y in p.points], per_line=3)
        t += f"Eval vm_compute in let l := {lit} in same (normalise OpsF l) l.\n"
    rc, out = common.run_model("c14_serial", t)
    ndis = 0
    if rc != 0:
        rep.not_shown("correspondence: model evaluation failed", {"log": out[-1500:]})
    else:
        r0 = common.parse_nested(common.eval_block(out, 0))[0]
        if not all(r0):
            ndis += 1
            rep.not_shown("correspondence: Model.Serial round trip fails on the probe values", {"result": r0})
        for k, p in enumerate(polys):
            blk = common.eval_block(out, 1 + k)
            if "true" not in blk:
                ndis += 1
                rep.not_shown("correspondence: stored polygon vertices are not a fixed point of Model.Geom.normalise",
                              {"polygon": p.name})
    rep.coverage.update({"solutions_round_tripped": len(serial_cases), "correspondence_disagreements": ndis})
    rep.assumptions += ["h5py / cloudpickle store and return what they are given (measured by the round trips themselves)",
                        "equality is the package's own __eq__/equals plus array-by-array comparison of mesh arrays"]
    return rep.finish(level="proof", trusted_base=common.STD_TRUSTED,
                      rule="one evaluation = one object round trip; non-trivial = distinct (terminal_psi, adaptive, screening, "
                           "parameter kind) / (holes, terminals, probes, mesh saved)")
