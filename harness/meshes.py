"""Mesh and device generators shared by the correspondence checks."""
from __future__ import annotations

import logging
import math
import random

import numpy as np

logging.getLogger("tdgl").setLevel(logging.ERROR)
logging.getLogger("tdgl.finite_volume").setLevel(logging.ERROR)
logging.getLogger("solver").setLevel(logging.ERROR)

from .common import flit, coq_list  # noqa: E402


def _quiet():
    import tqdm
    from functools import partialmethod
    tqdm.tqdm.__init__ = partialmethod(tqdm.tqdm.__init__, disable=True)


_quiet()


def random_points(rng: random.Random, n: int, kind: str) -> np.ndarray:
    if kind == "random":
        return np.array([[rng.uniform(0, 4), rng.uniform(0, 3)] for _ in range(n)])
    side = max(3, int(math.sqrt(n)))
    pts = []
    jit = 0.0 if kind == "grid" else 0.3
    for i in range(side):
        for j in range(side):
            # offset rows so that exact grids are not fully cocircular
            pts.append([i + 0.5 * (j % 2) + jit * rng.uniform(-1, 1), 0.87 * j + jit * rng.uniform(-1, 1)])
    return np.array(pts) * 0.7


def delaunay_mesh(rng: random.Random, n: int, kind: str = "random", smooth: int = 0, scale: float = 1.0):
    """A Mesh built without Triangle: scipy Delaunay -> Mesh.from_triangulation."""
    from scipy.spatial import Delaunay
    from tdgl.finite_volume.mesh import Mesh
    from tdgl.finite_volume.util import triangle_areas
    if kind == "random" and n > 60:
        smooth = 0        # smoothing a random Delaunay mesh makes malformed (non-convex) Voronoi cells
    for attempt in range(40):
        if attempt == 30:
            smooth = 0
        pts = random_points(rng, n, kind) * scale          # scale: the identities hold on every mesh, whatever its units
        tri = Delaunay(pts)
        simp = tri.simplices
        # drop sliver triangles on the hull (degenerate circumcentres)
        ar = np.abs(triangle_areas(pts, simp))
        simp = simp[ar > 1e-3 * ar.mean()]
        used = np.unique(simp)
        if len(used) != len(pts):
            remap = -np.ones(len(pts), dtype=int)
            remap[used] = np.arange(len(used))
            pts, simp = pts[used], remap[simp]
        try:
            mesh = Mesh.from_triangulation(pts, simp)
            if smooth:
                mesh = mesh.smooth(smooth)
        except Exception:
            continue
        if np.all(np.isfinite(mesh.areas)) and np.all(mesh.areas > 0):
            return mesh
    raise RuntimeError("could not build a mesh")


def make_device(rng: random.Random, *, holes=0, terminals=2, max_edge_length=None, smooth=0,
                length_units="um", xi=0.5, london_lambda=2.0, d=0.1, gamma=10.0, u=5.79,
                probe_points=True, shape="box", scale=1.0, conductivity=None, hole_kind="convex", pad=False):
    """A real tdgl.Device with a Triangle mesh (retries on malformed Voronoi cells)."""
    import tdgl
    from tdgl.geometry import box, circle, ellipse
    W, H = 6.0 * scale, 4.0 * scale
    layer = tdgl.Layer(coherence_length=xi * scale, london_lambda=london_lambda * scale, thickness=d * scale,
                       gamma=gamma, u=u, conductivity=conductivity)
    for attempt in range(12):
        npts = rng.choice([41, 61, 81]) + 2 * attempt
        if shape == "box":
            film = tdgl.Polygon("film", points=box(W, H, points=npts))
        elif shape == "ellipse":
            film = tdgl.Polygon("film", points=ellipse(W / 2, H / 2, points=npts))
        else:  # union of box and circle
            film = tdgl.Polygon("film", points=box(W, H, points=npts)).union(
                tdgl.Polygon(points=circle(0.6 * scale, center=(-W / 2 + 1.0 * scale, -H / 2), points=npts // 2)))
            film.name = "film"
            film = film.resample(npts)
        hs = []
        if holes >= 1 and hole_kind != "convex":
            # non-convex holes built from the documented primitives (unions of boxes): the vertex mean and even the
            # area centroid of such a hole can lie outside it
            s_ = scale
            arm = {"L": 0.5, "thinL": 0.18, "C": 0.25}[hole_kind]
            a1 = tdgl.Polygon("a", points=box(2.2 * s_, arm * s_, center=(-0.9 * s_, -0.6 * s_), points=rng.choice([24, 60])))
            a2 = tdgl.Polygon("b", points=box(arm * s_, 1.8 * s_, center=((-2.0 + arm / 2) * s_, (-0.6 - arm / 2 + 0.9) * s_), points=12))
            hole = a1.union(a2, name="hole1")
            if hole_kind == "C":
                a3 = tdgl.Polygon("c", points=box(2.2 * s_, arm * s_, center=(-0.9 * s_, (-0.6 - arm + 1.8) * s_), points=24))
                hole = hole.union(a3, name="hole1")
            hs.append(hole)
        elif holes >= 1:
            hs.append(tdgl.Polygon("hole1", points=circle(0.6 * scale, center=(-1.2 * scale, 0.3 * scale), points=21)))
        if holes >= 2:
            hs.append(tdgl.Polygon("hole2", points=box(0.9 * scale, 0.7 * scale, center=(1.3 * scale, -0.4 * scale), points=21)))
        ts = []
        tw = H * 0.6
        dp = (1.6 if pad else 0.2) * scale          # pad: contact pads reaching well into the film (several mesh edges deep)
        specs = [("source", (-W / 2, 0), (dp, tw)), ("drain", (W / 2, 0), (dp, tw)),
                 ("top", (0, H / 2), (W * 0.3, dp * (0.5 if pad else 1.0))), ("bottom", (0, -H / 2), (W * 0.3, dp * (0.5 if pad else 1.0)))]
        for name, c, (w, h) in specs[:terminals]:
            ts.append(tdgl.Polygon(name, points=box(w, h, center=c)))
        pp = [(-W / 4, -H / 4), (W / 4, H / 4)] if probe_points else None
        dev = tdgl.Device("dev", layer=layer, film=film, holes=hs, terminals=ts, probe_points=pp,
                          length_units=length_units)
        mel = max_edge_length * scale if max_edge_length is not None else xi * scale * rng.choice([1.2, 1.6, 2.0])
        # generate_mesh keeps the outline vertices fixed and refines until every edge is <= max_edge_length: an outline
        # segment longer than that (even by rounding) makes its refinement loop run for ever - not exercised here
        longest = max(float(np.max(np.linalg.norm(np.diff(p_.points, axis=0), axis=1))) for p_ in [film] + hs)
        if longest > 0.97 * mel:
            continue
        try:
            dev.make_mesh(max_edge_length=mel, smooth=smooth)
        except Exception:
            continue
        if all(t.length > 0 for t in dev.terminal_info()) or terminals == 0:
            return dev
    raise RuntimeError("could not build a device mesh")


def build_like_solver(ops):
    """The solver's life cycle for MeshOperators: build_operators() (all potential-independent operators and the factorisation of
    the mu Laplacian) before the link variables are set.  On a perfectly symmetric mesh without pinned sites the Neumann
    Laplacian can be exactly singular and the factorisation refuses; the operators themselves are assigned before that."""
    try:
        ops.build_operators()
    except RuntimeError:
        assert ops.divergence is not None
    return ops


def independent_terminal_sites(dev, margin=1e-7):
    """Terminal sites recomputed from first principles: mesh sites on the boundary of the triangulation (vertices of an
    edge that belongs to exactly one triangle) that lie inside the terminal polygon.  Returns, per terminal name,
    (surely_inside, possibly_inside): shapely membership of the polygon shrunk / grown by `margin` (in length units),
    so that sites within rounding of the polygon outline are not judged."""
    from collections import Counter
    from shapely.geometry import Polygon as SP, Point
    tri = np.asarray(dev.mesh.elements)
    cnt = Counter()
    for a, b, c in tri:
        for e in ((a, b), (b, c), (c, a)):
            cnt[(min(e), max(e))] += 1
    bsites = sorted({v for e, k in cnt.items() if k == 1 for v in e})
    pts = np.asarray(dev.points)
    out = {}
    for t in dev.terminals:
        poly = SP(t.points)
        inner, outer = poly.buffer(-margin), poly.buffer(margin)
        sure = [i for i in bsites if inner.contains(Point(pts[i]))]
        maybe = [i for i in bsites if outer.contains(Point(pts[i]))]
        out[t.name] = (np.array(sure, dtype=int), np.array(maybe, dtype=int))
    return out


# ---------------------------------------------------------------- literals
def mesh_arrays(mesh):
    em = mesh.edge_mesh
    isb = np.zeros(len(em.edges), dtype=bool)
    isb[em.boundary_edge_indices] = True
    return dict(edges=em.edges, lens=em.edge_lengths, duals=em.dual_edge_lengths, dirs=em.directions,
                bdry=isb, areas=mesh.areas, n=len(mesh.sites))


def mesh_literal(mesh, ops="OpsF", lit=flit) -> str:
    """Coq definitions  es : list (edge Ops),  areas : list T,  a : nat -> T,  nsites."""
    m = mesh_arrays(mesh)
    es = [
        f"mkEdge {ops} {int(e[0])} {int(e[1])} {lit(m['lens'][k])} {lit(m['duals'][k])} "
        f"{lit(m['dirs'][k][0])} {lit(m['dirs'][k][1])} {'true' if m['bdry'][k] else 'false'}"
        for k, e in enumerate(m["edges"])
    ]
    zero = "0%float" if ops == "OpsF" else "(0#1)"
    return (
        f"Definition es : list (edge {ops}) :=\n{coq_list(es, per_line=1)}.\n"
        f"Definition areas : list (T {ops}) :=\n{coq_list([lit(x) for x in m['areas']], per_line=4)}.\n"
        f"Definition a (i : nat) : T {ops} := nth i areas {zero}.\n"
        f"Definition nsites : nat := {m['n']}.\n"
    )
