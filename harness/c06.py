"""C06 - the order parameter is pinned on current terminals and nowhere else.

Oracle on every update of real runs: psi on terminal sites equals the configured value (exactly 0 for
the default), rows of non-terminal sites are the unpinned rows, terminal_psi=None leaves nothing pinned.
Correspondence: recorded update calls vs Model.Step.step with the pinned set."""
from __future__ import annotations

import random
import tempfile

import numpy as np
import scipy.sparse as sp

from . import common, meshes, runs, stepcorr


def run_case(rep, rng, ci, dev, cfg, texts, recs_all):
    tp = cfg["terminal_psi"]
    info = dev.terminal_info()
    tsites = np.unique(np.concatenate([np.asarray(t.site_indices, dtype=int) for t in info]))
    # the pinned set against terminal membership recomputed from first principles (boundary sites inside the polygon)
    ind = meshes.independent_terminal_sites(dev)
    for t in info:
        sure, maybe = ind[t.name]
        got = set(int(i) for i in t.site_indices)
        if not set(sure.tolist()) <= got:
            rep.violation("a boundary site inside a terminal polygon is not among the terminal (pinned) sites",
                          {"run": ci, "terminal": t.name, "missing": sorted(set(sure.tolist()) - got)[:5]})
        if not got <= set(maybe.tolist()):
            rep.violation("a site outside the terminal polygon (or not on the boundary) is among the terminal (pinned) sites",
                          {"run": ci, "terminal": t.name, "extra": sorted(got - set(maybe.tolist()))[:5]})
    others = np.setdiff1d(np.arange(len(dev.mesh.sites)), tsites)
    names = [t.name for t in dev.terminals]
    cur = {names[0]: cfg["current"], names[1]: -cfg["current"]}
    nupd = [0]
    moved = [0.0]
    last_dt = {}
    recs = []

    def before(solver, state, kw):
        last_dt["dt"] = state["dt"]

    def on_step(solver, state, kw, res):
        nupd[0] += 1
        psi = np.asarray(res.psi)
        case = {"run": ci, **{k: str(v) for k, v in cfg.items() if k != "seed"}, "step": state["step"]}
        if tp is not None:
            dev_ = float(np.max(np.abs(psi[tsites] - tp)))
            if dev_ != 0.0:        # the configured value is imposed, not approached: exact
                rep.violation(f"order parameter on terminal sites is not the configured terminal value (max deviation {dev_:.3e})",
                              {**case, "terminal_psi": str(tp)}, finding_key=None)
        else:
            moved[0] = max(moved[0], float(np.max(np.abs(psi[tsites] - 1.0))))
        if state["step"] in (0, 5):
            from tdgl.finite_volume.operators import build_laplacian
            free = build_laplacian(dev.mesh, link_exponents=solver.operators.link_exponents,
                                   weights=solver.operators.laplacian_weights)[0]
            L = sp.csr_array(solver.operators.psi_laplacian)
            rows = others if tp is not None else np.arange(len(dev.mesh.sites))
            d = abs(L[rows] - sp.csr_array(free)[rows])
            if d.max() > 1e-12 * abs(free).max():
                rep.violation("a site outside the terminals has a modified (pinned) operator row", case)
            if tp is not None:
                P = L[tsites].toarray()
                I = np.zeros_like(P)
                I[np.arange(len(tsites)), tsites] = 1.0
                if not np.array_equal(P, I):
                    rep.violation("operator row of a terminal site is not the identity row", case)
        if cfg["model"] and state["step"] in (1, 6) and len(recs) < 2:
            recs.append(stepcorr.StepRecord(solver, state, last_dt["dt"], kw, res))

    with tempfile.TemporaryDirectory(prefix="pyt_c06_") as td:
        opts = runs.make_options(td, solve_time=cfg["solve_time"], dt_init=2e-3, dt_max=5e-2, adaptive=True,
                                 save_every=20, terminal_psi=tp, include_screening=cfg["screening"],
                                 screening_tolerance=1e-2)
        sol_, solver_ = runs.traced_solve(dev, opts, A=cfg["field"], currents=cur, on_step=on_step, before_step=before,
                                          seed_solution=cfg.get("seed"))
        runs.report_threading(rep, solver_, {"run": "C06 plan"})
        if tp is not None:
            # every RECORDED step, the first frame included (with a seed solution it is the state the run starts from)
            import h5py
            with h5py.File(sol_.path, "r") as f_:
                if cfg.get("seed") is not None:
                    # correspondence with Proofs.StepP.impose: the first frame is the seed's order parameter with the terminal value
                    # imposed on the terminal sites, bit for bit elsewhere
                    first_ = np.array(f_["data"][sorted(f_["data"], key=int)[0]]["psi"])
                    seed_psi_ = np.asarray(cfg["seed"].tdgl_data.psi)
                    want_ = np.array(seed_psi_, copy=True)
                    want_[tsites] = tp
                    if not np.array_equal(first_, want_):
                        rep.not_shown("correspondence: the state a seeded run starts from is not Proofs.StepP.impose (seed, terminal value on the "
                                      "terminal sites)", {"run": ci, "max_abs_diff": float(np.max(np.abs(first_ - want_)))})
                for key_ in sorted(f_["data"], key=int):
                    dv_ = float(np.max(np.abs(np.array(f_["data"][key_]["psi"])[tsites] - tp)))
                    if dv_ != 0.0:
                        rep.violation(f"recorded frame {key_}: the order parameter on terminal sites is not the configured terminal value "
                                      f"(max deviation {dv_:.3e})", {"run": ci, **{k: str(v) for k, v in cfg.items() if k != "seed"},
                                                                     "seeded": cfg.get("seed") is not None})
                        break
    if tp is None and moved[0] < 1e-6 and cfg["current"] != 0:
        rep.violation("terminal_psi=None but the terminal sites did not evolve (still pinned?)",
                      {"run": ci, "max_change": moved[0]})
    for r in recs:
        texts.append(stepcorr.model_text(r))
        recs_all.append((r, {"run": ci, "terminal_psi": str(tp), "step": r.step}))
    rep.count(nupd[0])
    rep.nontrivial((str(tp), cfg["screening"], cfg["field"] != 0, cfg["current"] != 0))
    rep.sample({"run": ci, **{k: str(v) for k, v in cfg.items() if k != "seed"}, "updates": nupd[0], "terminal_sites": int(len(tsites))})


def run(rep: common.Report, tier: str, seed: int, replay=None) -> int:
    rep.use_props(common.check_props("C06"))
    rng = random.Random(seed * 7919 + 6)
    plans = [
        dict(terminal_psi=0.0, field=0.3, current=2.0, screening=False, solve_time=0.6, model=True),
        dict(terminal_psi=None, field=0.0, current=2.0, screening=False, solve_time=0.6, model=True),
        dict(terminal_psi=1.0, field=0.2, current=1.0, screening=False, solve_time=1.5, model=True),
        dict(terminal_psi=0.5 + 0.5j, field=0.0, current=0.5, screening=False, solve_time=1.0, model=False),
        dict(terminal_psi=0.3, field=0.3, current=0.0, screening=False, solve_time=1.0, model=False),
        # valid values of any size: tiny and large-modulus-one-ish complex
        dict(terminal_psi=1e-9, field=0.2, current=0.5, screening=False, solve_time=0.8, model=False),
        dict(terminal_psi=2e-10j, field=0.0, current=0.5, screening=False, solve_time=0.8, model=False),
        dict(terminal_psi=-0.6 + 0.8j, field=0.1, current=0.5, screening=False, solve_time=0.5, model=False),
        # the same values in other number types (numpy scalars, Python ints)
        dict(terminal_psi=np.int64(1), field=0.1, current=0.5, screening=False, solve_time=0.4, model=False),
        dict(terminal_psi=np.float32(0.5), field=0.0, current=0.5, screening=False, solve_time=0.4, model=False),
        dict(terminal_psi=np.int64(0), field=0.2, current=0.5, screening=False, solve_time=0.4, model=False),
        dict(terminal_psi=1, field=0.1, current=0.5, screening=False, solve_time=0.4, model=False),
        dict(terminal_psi=np.complex64(0.25 + 0.5j), field=0.1, current=0.5, screening=False, solve_time=0.4, model=False),
        dict(terminal_psi=0.0, field=0.3, current=1.0, screening=True, solve_time=0.15, model=False),
        dict(terminal_psi=1.0, field=0.1, current=1.0, screening=True, solve_time=0.15, model=False),
    ]
    if tier == "thorough":
        plans = plans * 3
    texts, recs_all = [], []
    for ci, cfg in enumerate(plans):
        dev = meshes.make_device(rng, holes=rng.choice([0, 1]), terminals=2,
                                 max_edge_length=1.6 if cfg["model"] else 0.9)
        run_case(rep, rng, ci, dev, cfg, texts, recs_all)
    # history on ONE device object: solve, re-mesh (coarse corners-only film, so the boundary numbering really changes), solve,
    # then move a terminal polygon in place along the edge WITHOUT re-meshing and solve again.  Each time the pinned sites
    # must be the terminal sites of the device as it is now.
    import tdgl
    hdev = tdgl.Device("history", layer=tdgl.Layer(coherence_length=0.5, london_lambda=2.0, thickness=0.1),
                       film=tdgl.Polygon("film", points=[(-3.0, -2.0), (3.0, -2.0), (3.0, 2.0), (-3.0, 2.0)]),
                       terminals=[tdgl.Polygon("source", points=[(-3.2, -1.1), (-2.8, -1.1), (-2.8, 0.9), (-3.2, 0.9)]),
                                  tdgl.Polygon("drain", points=[(2.8, -0.9), (3.2, -0.9), (3.2, 1.2), (2.8, 1.2)])],
                       length_units="um")
    hcfg = dict(terminal_psi=0.0, field=0.2, current=1.0, screening=False, solve_time=0.15, model=False)
    hdev.make_mesh(max_edge_length=1.1, smooth=0)
    run_case(rep, rng, 200, hdev, hcfg, texts, recs_all)
    hdev.make_mesh(max_edge_length=0.55, smooth=0)
    run_case(rep, rng, 201, hdev, hcfg, texts, recs_all)
    hdev.terminals[0].translate(dy=0.8, inplace=True)
    run_case(rep, rng, 202, hdev, {**hcfg, "terminal_psi": rng.choice([0.0, 0.4])}, texts, recs_all)
    run_case(rep, rng, 203, hdev, {**hcfg, "terminal_psi": None}, texts, recs_all)      # same mesh, contacts now unpinned
    hdev.make_mesh(max_edge_length=0.9, smooth=0)
    run_case(rep, rng, 204, hdev, {**hcfg, "terminal_psi": 1.0}, texts, recs_all)
    # history form: runs SEEDED from a solution computed with other contact settings (unpinned, or pinned to another value): the
    # terminals hold the value configured for THIS run from its first recorded frame on
    sdev = meshes.make_device(rng, holes=0, terminals=2, max_edge_length=1.3)
    import tempfile as _tf
    with _tf.TemporaryDirectory(prefix="pyt_c06s_") as std:
        for k_, (tp_seed, tp_run) in enumerate(((None, 0.0), (None, 0.5), (1.0, 0.0), (0.0, 0.3 + 0.4j))):
            so = runs.make_options(None, solve_time=0.2, dt_init=2e-3, dt_max=2e-2, save_every=20, terminal_psi=tp_seed,
                                   output_file=f"{std}/seed{k_}.h5")
            seed_sol, _ = runs.traced_solve(sdev, so, A=0.2, currents={"source": 1.0, "drain": -1.0})
            run_case(rep, rng, 220 + k_, sdev, {**hcfg, "terminal_psi": tp_run, "seed": seed_sol}, texts, recs_all)
    # extremal positions: a mesh numbered so that the LAST site and site 0 are terminal sites (Triangle puts interior Steiner
    # points last; a mesh read from elsewhere, or renumbered, need not)
    from tdgl.finite_volume.mesh import Mesh
    xdev = meshes.make_device(rng, holes=0, terminals=2, max_edge_length=1.3)
    xinfo = xdev.terminal_info()
    nS = len(xdev.mesh.sites)
    perm = np.arange(nS)
    for a_, b_ in ((nS - 1, int(xinfo[0].site_indices[0])), (0, int(xinfo[1].site_indices[-1]))):
        perm[[a_, b_]] = perm[[b_, a_]]
    inv = np.argsort(perm)
    xdev.mesh = Mesh.from_triangulation(np.asarray(xdev.mesh.sites)[perm], inv[np.asarray(xdev.mesh.elements)])
    for k_, tp_ in enumerate((0.0, 0.5)):
        run_case(rep, rng, 210 + k_, xdev, {**hcfg, "terminal_psi": tp_}, texts, recs_all)
    outs = common.run_model_shards("c06_step", texts, jobs=8)
    ndis = 0
    for (rc, out), (r, case) in zip(outs, recs_all):
        if rc != 0:
            rep.not_shown("correspondence(step): model evaluation failed", {**case, "log": out[-1200:]})
            continue
        ndis += stepcorr.compare(rep, r, out, case)
    rep.coverage.update({"runs": len(plans), "step_records_compared_with_model": len(recs_all),
                         "correspondence_disagreements": ndis})
    return rep.finish(level="proof", trusted_base=common.STD_TRUSTED,
                      rule="every update call of every run evaluates the pinning oracle; non-trivial = distinct "
                           "(terminal value, screening, field on, current on)")
