"""C13 - screening returns a self-consistent induced vector potential or fails.

Correspondence: (a) get_A_induced_numba vs Model.Screen.kernel (PrimFloat) on random currents, areas and
point sets; (b) TDGLSolver.get_induced_vector_potential called with scripted histories vs polyak_step.
Oracle on real screening runs (tolerances 1e-4..1e-2, several step/drag settings): every accepted step's
last relative mismatch < tol, the iteration count follows the exit rule, the stored potential reproduces
the direct double sum of the stored currents within a modest multiple of the tolerance, forced
non-convergence raises, and with screening disabled the induced potential is identically zero."""
from __future__ import annotations

import random
import tempfile

import h5py
import numpy as np

from . import common, meshes, runs
from .common import flit, coq_list

HEADER = """From Coq Require Import PrimFloat List ZArith.
Import ListNotations.
From PyTdgl Require Import Base.Ops Model.Screen.
Open Scope float_scope.
Definition mk (x y a jx jy : float) : source OpsF := Build_source OpsF x y a (jx, jy).
"""


def vlist(arr):
    return coq_list([f"({flit(a)}, {flit(b)})" for a, b in arr], per_line=2)


def srcs_literal(sites, areas, J):
    return coq_list([f"mk {flit(s[0])} {flit(s[1])} {flit(a)} {flit(j[0])} {flit(j[1])}" for s, a, j in zip(sites, areas, J)],
                    per_line=1)


def direct_sum(J, areas, sites, pts):
    d = pts[:, None, :] - sites[None, :, :]
    r = np.sqrt(np.sum(d * d, axis=2))
    return np.einsum("jk,j,ij->ik", J, areas, 1.0 / r)


def indep_areas(solver):
    """physical cell areas (a xi^2, the solver's sites and edge centres are physical positions too) times the prefactor of the
    induced potential, (mu_0/4 pi)(K0/A0) = 1 / (pi Lambda) with Lambda = lambda^2 / d - computed here from the layer's numbers (all in
    the device's length unit), not taken from the solver"""
    lay = solver.device.layer
    return np.asarray(solver.device.mesh.areas) * lay.coherence_length ** 2 * lay.thickness / (np.pi * lay.london_lambda ** 2)


def kernel_cases(rep, rng, tier):
    from tdgl.solver.screening import get_A_induced_numba
    texts, refs = [], []
    for ci in range(6 if tier == "quick" else 30):
        n, m = rng.randint(3, 60), rng.randint(2, 40)
        # "arbitrary point sets": any length scale (coordinates of order 1e-7 ... 1e4), and points close to sites
        L = [1.0, 1e-7, 1e4, 1.0, 3e-4, 1.0][ci % 6]
        sites = np.array([[rng.uniform(-5, 5), rng.uniform(-5, 5)] for _ in range(n)]) * L
        pts = np.array([[rng.uniform(-5, 5), rng.uniform(-5, 5)] for _ in range(m)]) * L
        if ci % 2:
            pts[: min(3, m)] = sites[: min(3, m)] + np.array([[1e-4, -2e-4]]) * L        # nearly coincident pairs
        areas = np.array([rng.uniform(0.01, 2.0) for _ in range(n)]) * L * L
        J = np.array([[rng.gauss(0, 1), rng.gauss(0, 1)] for _ in range(n)]) * 10 ** rng.uniform(-3, 3)
        out = np.empty((m, 2))
        get_A_induced_numba(J, areas, sites, pts, out)
        ds = direct_sum(J, areas, sites, pts)
        sc = float(np.max(np.abs(ds)) + 1e-300)
        if np.max(np.abs(out - ds)) > 1e-9 * sc:
            rep.violation("accelerated kernel differs from the direct double sum", {"case": ci, "n": n, "m": m,
                                                                                     "length_scale": L,
                                                                                     "max_abs_diff": float(np.max(np.abs(out - ds)))})
        # the kernel writes into the array it is given, whatever its memory layout
        for lay_, mk in (("Fortran order", lambda: np.full((m, 2), np.nan, order="F")),
                         ("column slice of a wider buffer", lambda: np.full((m, 3), np.nan)[:, :2]),
                         ("transposed buffer", lambda: np.full((2, m), np.nan).T)):
            out2 = mk()
            try:
                get_A_induced_numba(J, areas, sites, pts, out2)
            except Exception as e:  # noqa: BLE001  (a refusal of exotic layouts would be acceptable; silence is not)
                rep.coverage.setdefault("kernel_layouts_refused", []).append(f"{lay_}: {type(e).__name__}")
                continue
            if not np.all(np.isfinite(out2)) or np.max(np.abs(out2 - out)) > 1e-12 * sc:
                rep.violation(f"accelerated kernel does not fill the output array it is given ({lay_})", {"case": ci, "n": n, "m": m})
        t = HEADER + f"Definition srcs := {srcs_literal(sites, areas, J)}.\n"
        t += f"Eval vm_compute in kernel OpsF srcs {vlist(pts)}.\n"
        texts.append(t)
        refs.append((out.copy(), sc, {"case": ci, "n": n, "m": m}))
        rep.count(1)
        rep.nontrivial(("kernel", n, m))
    return texts, refs


def polyak_cases(rep, rng, dev, tier):
    """get_induced_vector_potential with scripted histories."""
    from tdgl.solver.solver import TDGLSolver
    texts, refs = [], []
    ncase = 5 if tier == "quick" else 25
    for ci in range(ncase + 3):
        alpha = rng.choice([0.1, 0.5, 1.0, 1.5])
        beta = rng.choice([0.5, 1.0, 0.25, 0.9])
        opts = runs.make_options(None, solve_time=1.0, include_screening=True, screening_step_size=alpha,
                                 screening_step_drag=beta)
        solver = TDGLSolver(dev, opts, applied_vector_potential=0.2)
        E = solver.num_edges
        cur = np.array([rng.gauss(0, 1) for _ in range(E)])
        A0 = np.array([[rng.gauss(0, 0.1), rng.gauss(0, 0.1)] for _ in range(E)]) if ci % 2 else np.zeros((E, 2))
        if ci >= ncase:
            # the iterate equals the direct sum everywhere except on ONE edge - the first, the last, one in the middle: the
            # convergence measure is a maximum over ALL edges and must see it wherever it sits
            probe = TDGLSolver(dev, opts, applied_vector_potential=0.2)
            probe.get_induced_vector_potential(cur, [np.zeros((E, 2))], [0.0])
            A0 = np.array(probe.new_A_induced, copy=True)
            e_ = (0, E - 1, E // 2)[ci - ncase]
            A0[e_] = A0[e_] * (1 + 0.05) + 1e-3 * float(np.max(np.abs(A0)))
        first = (ci % 3 == 0) and ci < ncase
        A_vals = [A0.copy()]
        vel = [0.0] if first else [np.array([[rng.gauss(0, 0.05), rng.gauss(0, 0.05)] for _ in range(E)])]
        v_in = None if first else vel[0].copy()
        J_site = dev.mesh.get_quantity_on_site(cur)
        A1, err = solver.get_induced_vector_potential(cur, A_vals, vel)
        if ci >= ncase and not first:
            Kk = np.asarray(solver.new_A_induced)
            rel_ = np.linalg.norm(Kk - A0, axis=1) / np.maximum(np.linalg.norm(np.asarray(A1), axis=1), 1e-20)
            if abs(float(err) - float(rel_.max())) > 1e-9 * float(rel_.max()):
                rep.violation("the screening mismatch the loop decides on is not the maximum over ALL edges of |direct sum - iterate| / "
                              "|new iterate|: a mismatch confined to one edge is not (fully) seen",
                              {"edge_with_the_mismatch": int(e_), "edges": int(E), "reported": float(err), "maximum_over_edges": float(rel_.max()),
                               "alpha": alpha, "beta": beta})
        t = HEADER + f"Definition srcs := {srcs_literal(solver.sites, solver.areas, J_site)}.\n"
        t += f"Definition K := kernel OpsF srcs {vlist(solver.edge_centers)}.\n"
        t += f"Definition A0 := {vlist(A0)}.\n"
        vlit = "None" if v_in is None else f"(Some {vlist(v_in)})"
        t += f"Definition p := polyak_step OpsF {flit(alpha)} {flit(beta)} 1e-20 K A0 {vlit}.\n"
        t += "Eval vm_compute in p_A _ p.\nEval vm_compute in [p_err _ p].\nEval vm_compute in p_v _ p.\n"
        texts.append(t)
        refs.append((np.array(A1), float(err), np.array(vel[-1]), {"case": ci, "alpha": alpha, "beta": beta, "first_iteration": first}))
        rep.count(1)
        rep.nontrivial(("polyak", alpha, beta, first))
    return texts, refs


def screening_runs(rep, rng, dev, tier):
    from tdgl.solver.solver import TDGLSolver
    plans = [(1e-3, 0.5, 1.0)] if tier == "nm" else \
        [(1e-3, 1.0, 0.5), (1e-4, 0.5, 0.5), (1e-2, 0.25, 0.25)] if tier == "weak" else \
        [(1e-2, 0.1, 0.5), (1e-3, 0.5, 1.0), (1e-4, 0.5, 1.0), (1e-2, 0.02, 0.5), (3e-3, 1.0, 1.0), (1e-3, 0.5, 1.0, 1e-10),
         # full steps with momentum (step size 1, drag 1/2): the iterate that passes the test and the next Polyak iterate differ by
         # the momentum term, whatever the tolerance
         (1e-3, 1.0, 0.5), (1e-4, 0.5, 0.5)] if tier == "quick" else \
        [(1e-2, 0.1, 0.5), (1e-3, 0.5, 1.0), (1e-4, 0.5, 1.0), (3e-3, 1.0, 1.0), (1e-3, 0.1, 0.25), (1e-2, 1.0, 0.5)]
    # feature pair: screening together with a seed solution that carries currents, the drive (field and bias) switched OFF: the
    # only sources of the induced potential are then the currents inherited from the seed
    plans.append((1e-3, 0.5, 1.0, 0.0, "seed"))
    worst_ratio = 0.0
    last_sol = None
    strong_sol = None
    ind_bad = []
    for plan in plans:
        tol, alpha, beta = plan[:3]
        drive = plan[3] if len(plan) > 3 else 1.0      # overall strength of field and current (the loop's test is relative)
        seeded = len(plan) > 4 and strong_sol is not None
        if len(plan) > 4 and strong_sol is None:
            continue
        it_log = []
        cur_iters = []
        bad = []

        tested, stored_note = [], []

        def on_step(solver, state, kw, res, it_log=it_log, cur_iters=cur_iters, tested=tested, stored_note=stored_note):
            errs = list(cur_iters)
            cur_iters.clear()
            it_log.append(errs)
            case = {"tol": tol, "alpha": alpha, "beta": beta, "step": state["step"]}
            if not errs or not (errs[-1] < tol):
                rep.violation("an accepted step ended with a relative screening mismatch that is not below the tolerance",
                              {**case, "errors": errs[-3:]})
            if any(e < tol for e in errs[:-1]):
                rep.violation("the screening loop continued after the mismatch was already below the tolerance", case)
            # stored potential vs direct double sum of the stored currents
            J = np.asarray(res.supercurrent) + np.asarray(res.normal_current)
            Js = solver.device.mesh.get_quantity_on_site(J)
            K = direct_sum(Js, indep_areas(solver), solver.sites, solver.edge_centers)
            A = np.asarray(res.A_induced)
            if tested and not np.array_equal(A, tested[-1]):
                if not stored_note:
                    stored_note.append(1)
                    rep.not_shown("correspondence: the induced potential kept for an accepted step is not the iterate that passed the "
                                  "convergence test (P' of Model.Screen.screen_loop / C13_stored_tested_iterate_mismatch)",
                                  {**case, "max_abs_difference": float(np.max(np.abs(A - tested[-1]))),
                                   "max_abs_stored": float(np.max(np.abs(A)))})
            tested.clear()
            num = np.linalg.norm(K - A, axis=1)
            den = np.maximum(np.linalg.norm(A, axis=1), 1e-20)
            ratio = float(np.max(num / den)) / tol
            bad.append(ratio)

        with tempfile.TemporaryDirectory(prefix="pyt_c13_") as td:
            opts = runs.make_options(td, solve_time=0.12 if tol > 2e-4 else 0.05, dt_init=2e-3, dt_max=2e-2, adaptive=True, save_every=5,
                                     include_screening=True, screening_tolerance=tol, screening_step_size=alpha,
                                     screening_step_drag=beta)
            solver = TDGLSolver(dev, opts, applied_vector_potential=0.8 * drive,
                                terminal_currents={"source": 2.0 * drive, "drain": -2.0 * drive},
                                seed_solution=strong_sol if seeded else None)
            orig_giv = solver.get_induced_vector_potential

            def giv(current_density, A_vals, velocity, tol=tol, alpha=alpha, beta=beta):
                A_prev = np.array(A_vals[-1], copy=True)
                tested.append(A_prev)
                A, err = orig_giv(current_density, A_vals, velocity)
                cur_iters.append(float(err))
                # the error the loop decides on must be the relative mismatch between the iterate and the direct sum,
                # recomputed here independently of the implementation's kernel and bookkeeping
                Js_ = solver.device.mesh.get_quantity_on_site(np.asarray(current_density))
                K_ = direct_sum(Js_, indep_areas(solver), solver.sites, solver.edge_centers)
                ind = float(np.max(np.linalg.norm(K_ - A_prev, axis=1) / np.maximum(np.linalg.norm(np.asarray(A), axis=1), 1e-20)))
                if len(A_vals) > 1 and abs(ind - float(err)) > 1e-6 * max(ind, float(err)) and len(ind_bad) < 3:
                    ind_bad.append({"tol": tol, "alpha": alpha, "beta": beta, "reported": float(err), "recomputed": ind,
                                    "accepted_as_converged": bool(err < tol), "truly_below_tolerance": bool(ind < tol)})
                return A, err

            solver.get_induced_vector_potential = giv
            orig_update = solver.update

            def upd(state, running_state, dt, **kw):
                res = orig_update(state, running_state, dt, **kw)
                on_step(solver, dict(state), kw, res)
                return res

            solver.update = upd
            try:
                sol = solver.solve()
            except RuntimeError as e:
                # failing to converge is an allowed outcome ("or fails"); it must be the screening error
                if "Screening calculation failed to converge" not in str(e):
                    raise
                rep.coverage.setdefault("runs_that_failed_to_converge", []).append([tol, alpha, beta])
                rep.count(1)
                continue
            last_sol = sol
            if drive == 1.0:
                strong_sol = sol            # a solution with substantial currents (seed of the zero-drive run)
            # recorded iteration counts = number of kernel evaluations in each step
            rec = np.asarray(sol.dynamics.screening_iterations).astype(int).tolist()
            got = [len(e) for e in it_log][:len(rec)]
            if rec != got:
                rep.violation("recorded screening_iterations differ from the number of iterations performed",
                              {"tol": tol, "recorded": rec[:8], "performed": got[:8]})
        mx = max(bad) if bad else 0.0
        worst_ratio = max(worst_ratio, mx)
        # modest multiple: the kept potential is the iterate P' that passed the test, so |K - P'|_e < tol max(tiny, |A'_e|) edge by edge
        # (C13_stored_tested_iterate_mismatch); measured here relative to |P'_e|, and |A'_e| / |P'_e| <= 1 + |v'_e| / |P'_e|: alarm above 4
        # (measured on the repaired tree: <= 1.06 over all plans and devices; on the tree as found: 8 .. 334)
        allowed = 4.0
        if mx > allowed:
            rep.violation(f"stored induced potential differs from the direct sum of the stored currents by {mx:.1f} x tolerance",
                          {"tol": tol, "alpha": alpha, "beta": beta})
        rep.count(len(it_log))
        rep.nontrivial(("run", tol, alpha, beta))
        rep.sample({"tol": tol, "alpha": alpha, "beta": beta, "steps": len(it_log),
                    "iterations_per_step_head": [len(e) for e in it_log[:6]], "max_mismatch_over_tol": mx})
    rep.coverage["worst_stored_mismatch_over_tol"] = worst_ratio
    for b in ind_bad:
        if b["accepted_as_converged"] and not b["truly_below_tolerance"]:
            rep.violation("a screening iteration was accepted as converged although the relative mismatch between the iterate "
                          "and the direct (mu_0/4 pi) sum over cells is not below the tolerance", b)
        else:
            rep.violation("the screening error the loop decides on is not the relative mismatch between the iterate and the "
                          "direct sum over cells", b)
    # forced non-convergence must raise
    with tempfile.TemporaryDirectory(prefix="pyt_c13_") as td:
        opts = runs.make_options(td, solve_time=0.05, dt_init=2e-3, dt_max=2e-2, include_screening=True, screening_tolerance=1e-9,
                                 max_iterations_per_step=2)
        try:
            runs.traced_solve(dev, opts, A=0.8, currents={"source": 2.0, "drain": -2.0})
            rep.violation("screening could not converge (tolerance 1e-9, 2 iterations) but no error was raised", {})
        except RuntimeError:
            pass
        rep.count(1)
        # screening disabled: the induced potential is identically zero, also when seeded from a screening run
        for seed in (None, last_sol):
            opts = runs.make_options(td, solve_time=0.04, dt_init=2e-3, dt_max=2e-2, include_screening=False, save_every=3,
                                     output_file=td + f"/ns{0 if seed is None else 1}.h5")
            calls = {"n": 0}
            sol, solver = runs.traced_solve(dev, opts, A=0.8, currents={"source": 2.0, "drain": -2.0}, seed_solution=seed)
            with h5py.File(sol.path, "r") as f:
                mx = max(float(np.max(np.abs(np.array(f["data"][k]["induced_vector_potential"])))) for k in f["data"])
            if mx != 0.0:
                rep.violation("screening is disabled but a non-zero induced vector potential is stored",
                              {"seeded_from_screening_run": seed is not None, "max_abs": mx})
            rep.count(1)
            rep.nontrivial(("noscreen", seed is not None))
        # history form: a screening run SEEDED from an earlier screening solution must leave that solution as it was - its
        # stored potential has to keep reproducing the sum over its own stored currents
        if last_sol is not None:
            d0 = last_sol.tdgl_data
            snap = {nm: np.array(getattr(d0, nm), copy=True) for nm in ("induced_vector_potential", "supercurrent", "normal_current", "psi", "mu")}
            opts = runs.make_options(td, solve_time=0.03, dt_init=2e-3, dt_max=2e-2, include_screening=True, screening_tolerance=1e-2,
                                     save_every=3, output_file=td + "/seeded_scr.h5")
            try:
                runs.traced_solve(dev, opts, A=0.3, currents={"source": 1.0, "drain": -1.0}, seed_solution=last_sol)
            except RuntimeError as e:
                if "Screening calculation failed to converge" not in str(e):
                    raise
            changed = {nm: float(np.max(np.abs(np.asarray(getattr(last_sol.tdgl_data, nm)) - v))) for nm, v in snap.items()
                       if not np.array_equal(np.asarray(getattr(last_sol.tdgl_data, nm)), v)}
            if changed:
                rep.violation("a screening run seeded from an earlier solution overwrote that solution's stored fields: its stored "
                              "induced potential no longer belongs to its stored currents", {"max_abs_change": changed})
            rep.count(1)
            rep.nontrivial(("seeded-screening",))


def run(rep: common.Report, tier: str, seed: int, replay=None) -> int:
    rep.use_props(common.check_props("C13"))
    rng = random.Random(seed * 7919 + 13)
    dev = meshes.make_device(rng, holes=1, terminals=2, max_edge_length=1.3)
    kt, kr = kernel_cases(rep, rng, tier)
    pt, pr = polyak_cases(rep, rng, dev, tier)
    outs = common.run_model_shards("c13_case", kt + pt, jobs=8)
    ndis = 0
    for (rc, out), (ref, sc, case) in zip(outs[:len(kt)], kr):
        if rc != 0:
            rep.not_shown("correspondence: model evaluation failed", {**case, "log": out[-1200:]})
            continue
        mv = np.array(common.parse_nested(common.eval_block(out))[0], dtype=float)
        if mv.shape != ref.shape or np.max(np.abs(mv - ref)) > 1e-9 * sc:
            ndis += 1
            rep.not_shown("correspondence: get_A_induced_numba differs from Model.Screen.kernel", case)
    for (rc, out), (A1, err, v1, case) in zip(outs[len(kt):], pr):
        if rc != 0:
            rep.not_shown("correspondence: model evaluation failed", {**case, "log": out[-1200:]})
            continue
        mA = np.array(common.parse_nested(common.eval_block(out, 0))[0], dtype=float)
        me = float(common.parse_nested(common.eval_block(out, 1))[0][0])
        mv = np.array(common.parse_nested(common.eval_block(out, 2))[0], dtype=float)
        sc = float(np.max(np.abs(A1)) + 1e-300)
        if np.max(np.abs(mA - A1)) > 1e-9 * sc or abs(me - err) > 1e-7 * abs(err) + 1e-300 or \
                np.max(np.abs(mv - v1)) > 1e-9 * (np.max(np.abs(v1)) + 1e-300):
            ndis += 1
            rep.not_shown("correspondence: get_induced_vector_potential differs from Model.Screen.polyak_step",
                          {**case, "err_model": me, "err_impl": err})
    screening_runs(rep, rng, dev, tier)
    # the same kind of device stated in nanometres (every length 1000 times larger in number): the prefactor of the sum
    # must follow the length unit
    dev_nm = meshes.make_device(rng, holes=0, terminals=2, max_edge_length=1.1, length_units="nm", scale=1000.0)
    screening_runs(rep, rng, dev_nm, "nm")
    # a weakly screening film (large Pearl length): the loop then passes its test after one or two iterations, while the Polyak
    # velocity still carries the first full step - the accepted potential must nevertheless be the self-consistent one
    dev_weak = meshes.make_device(rng, holes=0, terminals=2, max_edge_length=1.1, london_lambda=5.0, d=0.05)
    screening_runs(rep, rng, dev_weak, "weak")
    rep.coverage.update({"kernel_cases": len(kt), "polyak_cases": len(pt), "correspondence_disagreements": ndis})
    rep.assumptions += ["numba fastmath/parallel kernel compared with tolerance 1e-9 (reassociation allowed)",
                        "site averaging get_quantity_on_site computed by the implementation and passed to the model as data",
                        "'modest multiple' of the tolerance: measured ratio reported; alarm above 4 x tolerance"]
    return rep.finish(level="proof", trusted_base=common.STD_TRUSTED,
                      rule="kernel / polyak cases compared with the model; every step of every screening run evaluates the oracle; "
                           "non-trivial = distinct (kind, sizes / alpha, beta, tol)")
