"""Fresh-process worker for C09: builds a device + mesh deterministically from a config, runs a simulation,
prints sha256 digests of the mesh arrays and of every dataset of the output file (timestamps excluded)."""
import hashlib
import json
import os
import sys
import tempfile
import warnings

warnings.filterwarnings("ignore")
import numpy as np  # noqa: E402


def digest(arr):
    return hashlib.sha256(np.ascontiguousarray(np.asarray(arr)).tobytes()).hexdigest()


def main():
    cfg = json.loads(sys.argv[1])
    if cfg.get("warm"):
        # the same problem was already meshed and simulated once in THIS process: hidden state (caches, module-level
        # memoisation, consumed random numbers) must not leak into the repetition
        first = dict(cfg)
        first["fname"] = "warmup_" + cfg.get("fname", "out.h5")
        one(first)
    print("RESULT " + json.dumps(one(cfg), sort_keys=True))


def one(cfg):
    import logging
    logging.getLogger("solver").setLevel(logging.ERROR)
    import tqdm
    from functools import partialmethod
    tqdm.tqdm.__init__ = partialmethod(tqdm.tqdm.__init__, disable=True)
    import h5py
    import tdgl
    from tdgl.geometry import box, circle
    layer = tdgl.Layer(coherence_length=0.5, london_lambda=2.0, thickness=0.1, gamma=10)
    film = tdgl.Polygon("film", points=box(6, 4, points=61))
    holes = [tdgl.Polygon("hole", points=circle(0.6, center=(-1.2, 0.3), points=21))]
    terms = [tdgl.Polygon("source", points=box(0.2, 2.4, center=(-3, 0))), tdgl.Polygon("drain", points=box(0.2, 2.4, center=(3, 0)))]
    if cfg.get("four_terminals"):
        terms += [tdgl.Polygon("top", points=box(1.8, 0.2, center=(0, 2))), tdgl.Polygon("bottom", points=box(1.8, 0.2, center=(0, -2)))]
    dev = tdgl.Device("d", layer=layer, film=film, holes=holes, terminals=terms, probe_points=[(-1.5, -1.0), (1.5, 1.0)])
    dev.make_mesh(max_edge_length=cfg.get("mel", 0.8), smooth=cfg.get("smooth", 2), **({"min_points": cfg["min_points"]} if "min_points" in cfg else {}))
    out = {"mesh": {}}
    m = dev.mesh
    for n in ("sites", "elements", "boundary_indices", "areas", "dual_sites"):
        out["mesh"][n] = digest(getattr(m, n))
    for n in ("edges", "edge_lengths", "dual_edge_lengths", "directions", "boundary_edge_indices"):
        out["mesh"]["edge." + n] = digest(getattr(m.edge_mesh, n))
    outdir = cfg.get("outdir") or tempfile.mkdtemp(prefix="pyt_c09w_")
    os.makedirs(outdir, exist_ok=True)
    path = os.path.join(outdir, cfg.get("fname", "out.h5"))
    if cfg.get("ramp"):
        from tdgl.sources import ConstantField, LinearRamp
        A = LinearRamp(tmin=0.0, tmax=0.1) * ConstantField(0.5)
    else:
        A = 0.4
    opts = tdgl.SolverOptions(solve_time=cfg.get("solve_time", 0.2), dt_init=2e-3, dt_max=2e-2, adaptive=cfg.get("adaptive", True),
                              save_every=10, progress_interval=cfg.get("progress_interval", 10 ** 9), pause_on_interrupt=False, output_file=path,
                              include_screening=cfg.get("screening", False), screening_tolerance=1e-2)
    if cfg.get("four_terminals"):
        # time-dependent, numpy-scalar, non-representable currents through four terminals: any dependence of the order in
        # which they are added up on the process (hash seed) shows in the last bit
        def currents(t):
            a, b, c = np.float64(1.1) * np.tanh(5 * t + 0.1), np.float64(0.7) * np.cos(3 * t), np.float64(1e-3) / 3
            return {"source": a, "top": b, "bottom": c, "drain": -(a + b + c)}
    else:
        currents = {"source": 2.0, "drain": -2.0}
    sol = tdgl.solve(dev, opts, applied_vector_potential=A, terminal_currents=currents)
    if cfg.get("seeded_twice"):
        # identical inputs twice in ONE process: two continuations from the same in-memory seed solution
        import dataclasses
        conts = []
        for tag in ("a", "b"):
            o2 = dataclasses.replace(opts, output_file=os.path.join(outdir, f"cont_{tag}_" + cfg.get("fname", "out.h5")),
                                     solve_time=cfg.get("solve_time", 0.2) / 2)
            conts.append(tdgl.solve(dev, o2, applied_vector_potential=A, terminal_currents=currents, seed_solution=sol))
        da, db = file_digests(conts[0].path), file_digests(conts[1].path)
        out["repeat_diff"] = sorted(k for k in set(da) | set(db) if da.get(k) != db.get(k))[:6]
        sol = conts[1]
    out["data"] = file_digests(sol.path)
    out["threads"] = os.environ.get("NUMBA_NUM_THREADS")
    return out


def file_digests(path):
    import h5py
    data = {}
    with h5py.File(path, "r") as f:
        def visit(name, obj):
            if isinstance(obj, h5py.Dataset) and not name.startswith("solution/"):
                data[name] = digest(obj[()])
        f["data"].visititems(lambda n, o: visit("data/" + n, o))
        for k in sorted(f["data"], key=int):
            a = dict(f["data"][k].attrs)
            data[f"data/{k}@attrs"] = json.dumps({kk: (float(v) if kk != "timestamp" else 0) for kk, v in a.items() if kk != "timestamp"}, sort_keys=True)
    return data


if __name__ == "__main__":
    main()
