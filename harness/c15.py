"""C15 - a stopped simulation leaves a clean, readable, truthful output.

Fault injection without source hooks: TDGLSolver.update, DataHandler.save_time_step and the inner
write helper runner._get are wrapped from outside to raise RuntimeError / KeyboardInterrupt at call
number p; exhaustive over p in 0..N, both stages, both kinds, explicit path / temporary output,
pre-existing files.  Observed: exception or return value, directory listings (private TMPDIR too),
byte-identity of pre-existing files, open HDF5 handles, readability, frame labels and content
(compared bit-for-bit with a fault-free reference run).
Correspondence: frame labels vs Model.Runner.stage with a faulting update; file names vs
Model.Files.create."""
from __future__ import annotations

import hashlib
import json
import os
import random
import shutil
import tempfile

import h5py
import numpy as np

from . import common, meshes, runs
from .common import coq_list

DT = 2.0 ** -7


def sha(path):
    return hashlib.sha256(open(path, "rb").read()).hexdigest()


def frames_of(path):
    out = []
    with h5py.File(path, "r") as f:
        for key in sorted(f["data"], key=int):
            g = f["data"][key]
            ok = all(n in g for n in ("psi", "mu", "supercurrent", "normal_current")) and "step" in g.attrs
            h = hashlib.sha256(np.ascontiguousarray(np.array(g["psi"])).tobytes()).hexdigest() if "psi" in g else None
            out.append(dict(idx=int(key), step=int(g.attrs["step"]) if "step" in g.attrs else None,
                            complete=bool(ok), psi=h,
                            has_rs=("running_state" in g)))
    return out


def open_handles():
    return h5py.h5f.get_obj_count(h5py.h5f.OBJ_ALL, h5py.h5f.OBJ_FILE)


def one_run(dev, td, cfg, ref):
    """Run tdgl.solve with one injected fault; returns the observation record."""
    import tdgl
    from tdgl.solver import runner as runner_mod
    from tdgl.solver.solver import TDGLSolver
    work = os.path.join(td, f"w{cfg['id']}")
    os.makedirs(work)
    tmproot = os.path.join(td, f"t{cfg['id']}")
    os.makedirs(tmproot)
    pre = {}
    for name in cfg["preexisting"]:
        p = os.path.join(work, name)
        if name.endswith(".tmp"):
            open(p, "wb").write(b"not an hdf5 file")
        else:
            with h5py.File(p, "w") as f:
                f["marker"] = np.arange(5)
        pre[name] = sha(p)
    out_path = os.path.join(work, cfg.get("name", "out.h5")) if cfg["explicit"] else None
    cwd0 = os.getcwd()
    if cfg.get("chdir_during"):
        # environment form: the output is given as a RELATIVE name (the process sits in the job directory when the run starts) and
        # the working directory changes while the run is in progress (a callback / another thread of the application)
        os.chdir(work)
        out_path = cfg.get("name", "out.h5")
    N, k = cfg["N"], cfg["k"]
    skipN = 3 if cfg["stage"] == "thermal" else 0
    opts = runs.make_options(None, solve_time=N * DT, skip_time=skipN * DT, dt_init=DT, dt_max=DT, adaptive=False,
                             save_every=k, output_file=out_path, pause_on_interrupt=bool(cfg.get("pause")))
    import builtins
    old_input = builtins.input
    if cfg.get("pause"):
        # the documented default: a KeyboardInterrupt pauses the run and asks; "n" cancels (like a plain cancellation), "y" resumes
        def _answer(*a_, **k_):
            if cfg["pause"] == "eof":
                raise EOFError("EOF when reading a line")           # a batch job: nobody can answer the prompt
            return cfg["pause"]
        builtins.input = _answer
    exc_type = RuntimeError if cfg["kind"] == "err" else KeyboardInterrupt
    calls = {"n": 0}
    old_tmp = tempfile.tempdir
    tempfile.tempdir = tmproot
    h0 = open_handles()
    solver = TDGLSolver(dev, opts, applied_vector_potential=0.3, terminal_currents={"source": 1.0, "drain": -1.0})
    orig_update = solver.update
    orig_get = runner_mod._get
    orig_save = runner_mod.DataHandler.save_time_step

    armed = {"on": not cfg.get("solved_before")}

    def upd(state, running_state, dt, **kw):
        if cfg.get("chdir_during") and state["step"] == 1:
            os.chdir(tmproot if os.path.isdir(tmproot) else td)
        if armed["on"] and cfg["where"] == "update" and not calls.get("fired") and state["step"] == cfg["p"]:
            in_thermal = skipN > 0 and not calls.get("stage_main")
            if (cfg["stage"] == "thermal") == in_thermal:
                calls["fired"] = True
                raise exc_type("injected")
        res_ = orig_update(state, running_state, dt, **kw)
        if armed["on"] and cfg["where"] == "update_late" and not calls.get("fired") and state["step"] == cfg["p"]:
            calls["fired"] = True
            raise exc_type("injected late in the update (after its per-step records were appended)")
        return res_

    def save(self, state, data, running_state):
        calls["stage_main"] = True
        if armed["on"] and cfg["where"] == "writer":
            calls["n"] += 1
            if calls["n"] - 1 == cfg["p"]:
                raise exc_type("injected")
        calls["in_writer"] = True
        try:
            return orig_save(self, state, data, running_state)
        finally:
            calls["in_writer"] = False

    def get(item):
        if armed["on"] and cfg["where"] == "inner" and calls.get("in_writer"):
            calls["n"] += 1
            if calls["n"] - 1 == cfg["p"]:
                raise exc_type("injected")
        return orig_get(item)

    solver.update = upd
    runner_mod.DataHandler.save_time_step = save
    runner_mod._get = get
    rec = dict(result=None, exc=None)
    sol = None
    try:
        if cfg.get("solved_before"):
            # history form: this solver object has already completed one undisturbed solve(); what it wrote then is, for the
            # second solve, an existing file that must stay as it is
            solver.solve()
            for name in sorted(os.listdir(work)):
                pre.setdefault(name, sha(os.path.join(work, name)))
            calls.clear()
            calls["n"] = 0
            armed["on"] = True
        try:
            sol = solver.solve()
            rec["result"] = "None" if sol is None else "Solution"
        except BaseException as e:  # noqa: BLE001
            rec["exc"] = type(e).__name__ + ": " + str(e)[:80]
    finally:
        runner_mod.DataHandler.save_time_step = orig_save
        runner_mod._get = orig_get
        tempfile.tempdir = old_tmp
        builtins.input = old_input
        os.chdir(cwd0)
    rec["handles_left"] = open_handles() - h0
    rec["listing"] = sorted(os.listdir(work))
    rec["tmp_left"] = sorted(os.listdir(tmproot))
    rec["pre_ok"] = all(os.path.exists(os.path.join(work, n)) and sha(os.path.join(work, n)) == h for n, h in pre.items())
    rec["frames"] = None
    rec["readable"] = None
    new_files = [n for n in rec["listing"] if n not in pre]
    rec["new_files"] = new_files
    if cfg["explicit"]:
        outs = [n for n in new_files if n.endswith(".h5")]
        if outs:
            # the file the run wrote to is the newest .h5 that is not pre-existing
            cand = sorted(outs, key=lambda n: os.path.getmtime(os.path.join(work, n)))[-1]
            rec["out_name"] = cand
            try:
                rec["frames"] = frames_of(os.path.join(work, cand))
                rec["readable"] = True
            except Exception as e:  # noqa: BLE001
                rec["readable"] = False
                rec["read_error"] = str(e)[:100]
    if sol is not None:
        try:
            _ = sol.tdgl_data.psi, sol.times, sol.dynamics.dt
            rec["usable"] = True
            rec["n_records"] = int(len(sol.dynamics.dt))
            rec["last_time"] = float(np.asarray(sol.times)[-1]) if len(sol.times) else None
        except Exception as e:  # noqa: BLE001
            rec["usable"] = False
            rec["usable_error"] = f"{type(e).__name__}: {e}"[:100]
    shutil.rmtree(work, ignore_errors=True)
    shutil.rmtree(tmproot, ignore_errors=True)
    return rec


def expected_labels(N, k, p, kind, where, stage):
    """Reference semantics straight from the property text."""
    full = [s for s in range(0, N + 1) if s % k == 0] + ([N] if N % k else [])
    if stage == "thermal":
        return [] if where in ("update", "update_late") else None
    if where in ("update", "update_late"):
        if p > N - 1:
            return full                                   # the fault position is never reached
        lab = [s for s in range(0, p + 1) if s % k == 0]
        if kind == "kbd" and p % k:
            lab.append(p)
        return lab
    if where == "writer":
        if p >= len(full):
            return full
        if kind == "err":
            return full[:p]
        return None                                       # cancellation inside the writer: checked for cleanliness only
    return None


def judge(rep, cfg, rec, ref_frames):
    case = {k_: cfg[k_] for k_ in ("N", "k", "p", "kind", "where", "stage", "explicit", "preexisting")}
    key = None
    fired_possible = True
    if rec["handles_left"] != 0:
        rep.violation(f"{rec['handles_left']} HDF5 file handle(s) left open after the simulation stopped", {**case, **rec_small(rec)})
    if rec["tmp_left"]:
        rep.violation("temporary directory / files left behind", {**case, "left": rec["tmp_left"]})
    if any(n.endswith(".tmp") for n in rec["new_files"]):
        rep.violation("a .tmp file remains next to the output", {**case, "listing": rec["listing"]})
    if not rec["pre_ok"]:
        rep.violation("a pre-existing file was modified or removed", {**case, "listing": rec["listing"]})
    if cfg["explicit"]:
        h5new = [n for n in rec["new_files"] if n.endswith(".h5")]
        if len(h5new) > 1:
            rep.violation("more than one new output file was created (a stray file is left behind)",
                          {**case, "new_files": rec["new_files"]})
        if rec["readable"] is False:
            rep.violation("output file is not readable after the stop", {**case, "error": rec.get("read_error")})
    exp = expected_labels(cfg["N"], cfg["k"], cfg["p"], cfg["kind"], cfg["where"], cfg["stage"])
    if cfg.get("pause") == "y" and cfg["kind"] == "kbd":
        # paused and resumed: nothing was stopped, the output is the complete run
        exp = expected_labels(cfg["N"], cfg["k"], 10 ** 6, "kbd", "update", "main")
        if rec["exc"] is not None or rec["result"] != "Solution":
            rep.violation("a paused run that the user resumed did not finish with a solution", {**case, **rec_small(rec)})
    if rec["frames"] is not None:
        labels = [f["step"] for f in rec["frames"]]
        if [f["idx"] for f in rec["frames"]] != list(range(len(rec["frames"]))):
            rep.violation("the frames in the output are not numbered 0, 1, 2, ... (bookkeeping of a partial output: data_range / "
                          "solve_step address frames by this number)", {**case, "frame_numbers": [f["idx"] for f in rec["frames"]],
                                                                      "solved_before": bool(cfg.get("solved_before"))})
        elif any(not f["complete"] for f in rec["frames"]):
            rep.violation("the output contains a half-written frame (bookkeeping or datasets missing)",
                          {**case, "frames": [(f["step"], f["complete"]) for f in rec["frames"]]})
        elif exp is not None and labels != exp:
            rep.violation(f"frames in the output {labels} are not exactly the frames recorded before the stop {exp}", case)
        elif cfg["stage"] == "thermal":
            pass          # recorded after a thermalisation: not the trajectory of the (unthermalised) reference run
        else:
            for f in rec["frames"]:
                if f["complete"] and f["step"] in ref_frames and ref_frames[f["step"]] != f["psi"]:
                    rep.violation("a frame written before the stop differs from the fault-free run's frame with the same label",
                                  {**case, "step": f["step"]})
                    break
    if rec.get("usable") and rec["frames"] and cfg["stage"] == "main" and rec.get("n_records") is not None:
        last_step = rec["frames"][-1]["step"]
        if rec["n_records"] != last_step or abs(rec["last_time"] - last_step * DT) > 1e-9:
            rep.violation("the partial solution reports per-step records / times that do not belong to its frames (the last frame holds the "
                          "state after `step` updates: that many records, that time)",
                          {**case, "last_frame_step": last_step, "records": rec["n_records"], "last_time_reported": rec["last_time"],
                           "last_frame_time": last_step * DT})
    reached = exp is None or rec["exc"] is not None or True
    if cfg["kind"] == "kbd" and cfg.get("pause") == "y":
        pass
    elif cfg["kind"] == "kbd":
        if cfg["stage"] == "thermal" and cfg["where"] == "update":
            if rec["result"] != "None":
                rep.violation("cancellation during thermalisation did not return None", {**case, **rec_small(rec)})
        elif rec["exc"] is not None:
            rep.violation("cancellation raised instead of returning a partial solution: " + rec["exc"], case)
        elif rec["result"] == "Solution" and rec.get("usable") is False:
            rep.violation("cancellation returned a solution that is not usable: " + rec.get("usable_error", ""), case)
    else:
        will_fire = not (cfg["where"] == "update" and cfg["stage"] == "main" and cfg["p"] > cfg["N"] - 1)
        if will_fire and cfg["where"] == "update" and rec["exc"] is None and cfg["stage"] == "main":
            rep.violation("an exception in the update was swallowed", {**case, **rec_small(rec)})
    return exp


def rec_small(rec):
    return {k_: rec.get(k_) for k_ in ("result", "exc", "listing", "handles_left")}


def layout_sweep(rep):
    """Every layout of pre-existing files over {out.h5, out.h5.tmp, out-1.h5, out-1.h5.tmp, out-2.h5, out-2.h5.tmp}
    (64 layouts): the real DataHandler is entered (files created) and closed; directory listing after each of the two
    phases and byte identity of every pre-existing file vs Model.Files.create / close."""
    import itertools
    from tdgl.solver.runner import DataHandler
    import logging
    quiet = logging.getLogger("pyt_c15_quiet")
    quiet.setLevel(logging.CRITICAL)
    quiet.propagate = False
    universe = [("out.h5", "Main 0"), ("out.h5.tmp", "Tmp 0"), ("out-1.h5", "Main 1"), ("out-1.h5.tmp", "Tmp 1"),
                ("out-2.h5", "Main 2"), ("out-2.h5.tmp", "Tmp 2")]
    layouts = [[u for u, b in zip(universe, bits) if b] for bits in itertools.product((0, 1), repeat=len(universe))]
    t = ("From Coq Require Import List ZArith.\nImport ListNotations.\nFrom PyTdgl Require Import Model.Files.\n"
         "Definition code (p : path) : Z := match p with Main n => Z.of_nat (2 * n) | Tmp n => Z.of_nat (2 * n + 1) end.\n"
         "Definition row (f : list path) : list (list Z) :=\n"
         "  match create true 10 0 f with\n"
         "  | Some (m, g) => [[Z.of_nat m]; map code g; map code (close m g)]\n"
         "  | None => [[(-1)%Z]; []; []]\n  end.\n"
         "Eval vm_compute in map row " + coq_list(["[" + "; ".join(m for _, m in lay) + "]" for lay in layouts], per_line=4) + ".\n")
    rc, out = common.run_model("c15_layouts", t)
    if rc != 0:
        rep.not_shown("correspondence: Files layout model evaluation failed", {"log": out[-1200:]})
        return 1
    res = common.parse_nested(common.eval_block(out))[0]
    fname = lambda c: (f"out-{c // 2}.h5" if c // 2 else "out.h5") + (".tmp" if c % 2 else "")
    bad = 0
    for lay, m in zip(layouts, res):
        with tempfile.TemporaryDirectory(prefix="pyt_c15l_") as td:
            pre = {}
            for name, _ in lay:
                with open(os.path.join(td, name), "wb") as f:
                    f.write(b"user data " + name.encode())
                pre[name] = sha(os.path.join(td, name))
            case = {"preexisting": sorted(pre)}
            try:
                h = DataHandler(output_file=os.path.join(td, "out.h5"), logger=quiet)
                h.__enter__()
                opened = sorted(os.listdir(td))
                chosen = os.path.basename(h.output_path)
                h.close()
                closed = sorted(os.listdir(td))
            except Exception as e:  # noqa: BLE001
                rep.violation(f"creating / closing the output file raised {type(e).__name__}: {e}"[:160], case)
                continue
            if not all(os.path.exists(os.path.join(td, n)) and sha(os.path.join(td, n)) == d for n, d in pre.items()):
                rep.violation("a pre-existing file was modified or removed while choosing a fresh output name",
                              {**case, "after": closed})
            mi = int(m[0][0])
            want_open, want_closed = sorted(fname(int(c)) for c in m[1]), sorted(fname(int(c)) for c in m[2])
            if chosen != fname(2 * mi) or opened != want_open or closed != want_closed:
                bad += 1
                if bad < 6:
                    rep.not_shown("correspondence: output name / directory listing differs from Model.Files.create / close",
                                  {**case, "impl": [chosen, opened, closed], "model": [fname(2 * mi), want_open, want_closed]})
        rep.count(1)
    rep.coverage["file_layouts_compared"] = len(layouts)
    # the same rule for other forms of the requested path: pathlib.Path, names with spaces / unicode / several dots,
    # a relative path; layouts: nothing there, the file there, the stale-tmp-plus-next-name case
    import pathlib
    for stem in ("out put", "résultat.v2", "a.b.c", "out"):
        for form in ("str", "relative"):        # (a pathlib.Path is not accepted by the package: output_file is documented as str)
            for pre_names in ([], ["{s}.h5"], ["{s}.h5.tmp", "{s}-1.h5"]):
                with tempfile.TemporaryDirectory(prefix="pyt_c15p_") as td:
                    pre = {}
                    for nm in pre_names:
                        nm = nm.format(s=stem)
                        with open(os.path.join(td, nm), "wb") as f:
                            f.write(b"user data " + nm.encode())
                        pre[nm] = sha(os.path.join(td, nm))
                    target = os.path.join(td, stem + ".h5")
                    cwd = os.getcwd()
                    case = {"stem": stem, "path_form": form, "preexisting": sorted(pre)}
                    try:
                        if form == "relative":
                            os.chdir(td)
                            arg = stem + ".h5"
                        else:
                            arg = pathlib.Path(target) if form == "Path" else target
                        h = DataHandler(output_file=arg, logger=quiet)
                        h.__enter__()
                        chosen = os.path.basename(str(h.output_path))
                        h.close()
                        after = sorted(os.listdir(td))
                    except Exception as e:  # noqa: BLE001
                        rep.violation(f"creating / closing the output file raised {type(e).__name__}: {e}"[:160], case)
                        continue
                    finally:
                        os.chdir(cwd)
                    want = stem + ".h5" if not pre else (stem + "-1.h5" if len(pre) == 1 else stem + "-2.h5")
                    if chosen != want or sorted(set(after) - set(pre)) != [want]:
                        rep.violation(f"output name for path form {form!r}: chose {chosen!r}, directory {after}; expected the fresh name {want!r} only",
                                      case)
                    if not all(os.path.exists(os.path.join(td, n)) and sha(os.path.join(td, n)) == d for n, d in pre.items()):
                        rep.violation("a pre-existing file was modified or removed while choosing a fresh output name", {**case, "after": after})
                rep.count(1)
    return bad


def run(rep: common.Report, tier: str, seed: int, replay=None) -> int:
    rep.use_props(common.check_props("C15"))
    rng = random.Random(seed * 7919 + 15)
    dev = meshes.make_device(rng, holes=0, terminals=2, max_edge_length=1.6)
    N = 6 if tier == "quick" else 10
    cfgs = []
    cid = 0
    for k in (1, 3, N + 1):
        for kind in ("err", "kbd"):
            for stage in ("main", "thermal"):
                for p in range(0, N + 1 if stage == "main" else 3):
                    for explicit in ((True, False) if (p + k) % 2 == 0 or tier == "thorough" else (True,)):
                        cfgs.append(dict(id=cid, N=N, k=k, p=p, kind=kind, where="update", stage=stage, explicit=explicit,
                                         preexisting=[]))
                        cid += 1
            nfr = len([s for s in range(0, N + 1) if s % k == 0]) + (1 if N % k else 0)
            for p in range(0, nfr):
                cfgs.append(dict(id=cid, N=N, k=k, p=p, kind=kind, where="writer", stage="main", explicit=True, preexisting=[]))
                cid += 1
            for p in (0, 2, 5, 9):
                cfgs.append(dict(id=cid, N=N, k=k, p=p, kind=kind, where="inner", stage="main", explicit=True, preexisting=[]))
                cid += 1
    for pre in (["out.h5"], ["out.h5", "out-1.h5"], ["out.h5.tmp"], ["out.h5", "out-1.h5.tmp"]):
        for kind, p in (("err", 2), ("kbd", 4), ("err", 10 ** 6)):
            cfgs.append(dict(id=cid, N=N, k=3, p=p, kind=kind, where="update", stage="main", explicit=True, preexisting=pre))
            cid += 1
    # free-form output names (braces, spaces, unicode, several dots), stopped by an error and by a cancellation
    for nm_ in ("sweep_{I}_{B}.h5", "set{1,2}.h5", "out put é.h5", "a.b.c.h5", "100%.h5"):
        for kind, p in (("err", 3), ("kbd", 4)):
            cfgs.append(dict(id=cid, N=N, k=3, p=p, kind=kind, where="update", stage="main", explicit=True, preexisting=[], name=nm_))
            cid += 1
    # the same solver object solved once before (undisturbed), then stopped during its second solve
    for k_, kind, p in ((1, "kbd", 3), (3, "kbd", 4), (3, "err", 2), (1, "err", 5), (N + 1, "kbd", 2)):
        cfgs.append(dict(id=cid, N=N, k=k_, p=p, kind=kind, where="update", stage="main", explicit=True, preexisting=[],
                         solved_before=True))
        cid += 1
    # the documented default pause_on_interrupt=True: the user is asked and declines ("n": a cancellation like any other, in either
    # stage) or accepts ("y": the run goes on and the output is complete)
    for stage, p in (("main", 2), ("main", 4), ("thermal", 1), ("thermal", 0)):
        for ans in ("n", "y"):
            cfgs.append(dict(id=cid, N=N, k=3, p=p, kind="kbd", where="update", stage=stage, explicit=True, preexisting=[], pause=ans))
            cid += 1
    # the prompt cannot be answered (stdin closed: EOFError) - a cancellation like any other
    for stage, p in (("main", 3), ("thermal", 1)):
        cfgs.append(dict(id=cid, N=N, k=3, p=p, kind="kbd", where="update", stage=stage, explicit=True, preexisting=[], pause="eof"))
        cid += 1
    # the interrupt arrives late in the update, after the step's records were appended to the buffer: the step did not complete
    for k_, p in ((3, 4), (3, 2), (1, 3), (N + 1, 5)):
        for kind in ("kbd", "err"):
            cfgs.append(dict(id=cid, N=N, k=k_, p=p, kind=kind, where="update_late", stage="main", explicit=True, preexisting=[]))
            cid += 1
    # relative output name + the working directory changes during the run, stopped by an error / a cancellation / not at all
    for kind, p in (("err", 3), ("kbd", 4), ("kbd", 2), ("err", 10 ** 6)):
        cfgs.append(dict(id=cid, N=N, k=3, p=p, kind=kind, where="update", stage="main", explicit=True, preexisting=[],
                         chdir_during=True))
        cid += 1
    with tempfile.TemporaryDirectory(prefix="pyt_c15_") as td:
        # fault-free reference: every step saved
        ref_opts = runs.make_options(None, solve_time=N * DT, dt_init=DT, dt_max=DT, adaptive=False, save_every=1,
                                     output_file=os.path.join(td, "ref.h5"))
        sol, _ = runs.traced_solve(dev, ref_opts, A=0.3, currents={"source": 1.0, "drain": -1.0})
        ref_frames = {f["step"]: f["psi"] for f in frames_of(sol.path)}
        model_cases = []
        for cfg in cfgs:
            rec = one_run(dev, td, cfg, ref_frames)
            judge(rep, cfg, rec, ref_frames)
            rep.count(1)
            rep.nontrivial((cfg["k"], cfg["kind"], cfg["where"], cfg["stage"], cfg["explicit"], tuple(cfg["preexisting"]),
                            cfg["p"] % cfg["k"] == 0))
            if cfg["where"] == "update" and cfg["stage"] == "main" and cfg["explicit"] and rec["frames"] is not None \
                    and not cfg.get("solved_before") and not cfg.get("chdir_during") and cfg.get("pause") != "y":
                model_cases.append((cfg, [f["step"] for f in rec["frames"]], rec.get("out_name")))
    # output paths of any form: no extension, dots in directory names, a bare name - choosing the (fresh) name must terminate, must
    # not touch a file that is already there, and the run must be readable where it says it wrote
    import subprocess
    import sys as _sys
    for out_, pre_ in (("runs/sim1", False), ("data/v1.0/sim", True), ("results", False), ("data/v1.0/sim.h5", True), ("a.b/c.d/out", False)):
        with tempfile.TemporaryDirectory(prefix="pyt_c15n_") as wd:
            case_n = {"output_file": out_, "file_already_there": pre_}
            try:
                pr = subprocess.run([_sys.executable, "-W", "ignore", os.path.join(os.path.dirname(__file__), "c15_name_worker.py"), out_, "1" if pre_ else "0"],
                                    cwd=wd, capture_output=True, text=True, timeout=180, env={**os.environ})
                line = [ln for ln in pr.stdout.splitlines() if ln.startswith("RESULT ")]
                resn = json.loads(line[-1][7:]) if line else {"error": (pr.stdout + pr.stderr)[-300:]}
            except subprocess.TimeoutExpired:
                rep.violation("choosing the output file name did not terminate (the run never started) for a valid output path", case_n)
                rep.count(1)
                continue
            if "error" in resn:
                rep.violation(f"a run with a valid output path failed: {resn['error']}"[:220], case_n)
            elif not resn.get("loadable") or (pre_ and not resn.get("pre_intact")) or (pre_ and resn.get("written") == out_):
                rep.violation("output path form: the run is not readable where it was written, or the existing file was touched / reused",
                              {**case_n, **{k_: resn.get(k_) for k_ in ("written", "loadable", "pre_intact", "files")}})
            elif any(os.path.basename(f_).startswith(".") or f_.endswith(".tmp") for f_ in resn.get("files", [])):
                rep.violation("output path form: hidden or temporary files were left next to the output", {**case_n, "files": resn.get("files")})
            rep.count(1)
            rep.nontrivial(("name-form", out_, pre_))
    for c in cfgs[:3] + cfgs[-3:]:
        rep.sample({k_: c[k_] for k_ in ("N", "k", "p", "kind", "where", "stage", "explicit", "preexisting")})
    # ---- model: frame labels under a faulting update; chosen file name
    t = ("From Coq Require Import List ZArith Arith.\nImport ListNotations.\n"
         "From PyTdgl Require Import Model.Runner Model.Files.\nOpen Scope Z_scope.\n"
         "Definition fupd (p : nat) (kbd : bool) : nat -> Z -> Z -> nat -> outcome Z nat Z :=\n"
         "  fun i t d v => if Nat.eqb i p then (if kbd then Kbd Z nat Z else Err Z nat Z) else Ok Z nat Z 1 (S v) 1.\n"
         "Definition labels (c : nat * nat * nat * bool) : list Z :=\n"
         "  let '(k, N, p, kbd) := c in\n"
         "  map (fun f => Z.of_nat (f_step _ _ _ f))\n"
         "      (r_frames _ _ _ (snd (stage Z Z.add Z.leb nat Z (fupd p kbd) k true 200 true (Z.of_nat N) 0 (mkR Z nat Z 0 1 0%nat [] [])))).\n")
    lits = [f"({c['k']}%nat, {c['N']}%nat, {min(c['p'], 10 ** 3)}%nat, {'true' if c['kind'] == 'kbd' else 'false'})" for c, _, _ in model_cases]
    t += f"Eval vm_compute in map labels {coq_list(lits, per_line=4)}.\n"
    names = {(): 0, ("out.h5",): 1, ("out.h5", "out-1.h5"): 2, ("out.h5.tmp",): 1, ("out.h5", "out-1.h5.tmp"): 2}
    t += ("Eval vm_compute in map (fun f => match create true 10 0 f with Some (m, _) => Z.of_nat m | None => -1 end)\n"
          "  [[]; [Main 0]; [Main 0; Main 1]; [Tmp 0]; [Main 0; Tmp 1]].\n")
    rc, out = common.run_model("c15_labels", t)
    ndis = 0
    if rc != 0:
        rep.not_shown("correspondence: model evaluation failed", {"log": out[-1500:]})
    else:
        res = common.parse_nested(common.eval_block(out, 0))[0]
        for (cfg, labels, oname), ml in zip(model_cases, res):
            if [int(x) for x in ml] != labels:
                ndis += 1
                if ndis < 8:
                    rep.not_shown("correspondence: frame labels after a fault differ from Model.Runner.stage",
                                  {"N": cfg["N"], "k": cfg["k"], "p": cfg["p"], "kind": cfg["kind"], "model": ml, "impl": labels})
        chosen = [int(x) for x in common.parse_nested(common.eval_block(out, 1))[0]]
        want = {(): "out.h5", ("out.h5",): "out-1.h5", ("out.h5", "out-1.h5"): "out-2.h5", ("out.h5.tmp",): "out-1.h5",
                ("out.h5", "out-1.h5.tmp"): "out-2.h5"}
        order = [(), ("out.h5",), ("out.h5", "out-1.h5"), ("out.h5.tmp",), ("out.h5", "out-1.h5.tmp")]
        for (cfg, labels, oname) in model_cases:
            pre = tuple(cfg["preexisting"])
            m = chosen[order.index(pre)]
            stem_ = cfg.get("name", "out.h5")[:-3]
            mname = f"{stem_}.h5" if m == 0 else f"{stem_}-{m}.h5"
            if oname != mname:
                ndis += 1
                rep.not_shown("correspondence: output file name differs from Model.Files.create",
                              {"preexisting": list(pre), "model": mname, "impl": oname})
    ndis += layout_sweep(rep)
    rep.coverage.update({"fault_runs": len(cfgs), "exhaustive": True,
                         "bound": f"N={N}; p in 0..N (update), every frame-writer call, 4 inner-write positions; k in {{1,3,N+1}}; "
                                  "both stages; RuntimeError and KeyboardInterrupt; explicit/temporary output; 4 pre-existing layouts",
                         "correspondence_disagreements": ndis})
    rep.assumptions += ["faults are injected at Python call boundaries only; OS-level failures (signals inside C code, disk errors "
                        "inside HDF5) cannot be exhibited by the model or the harness (labelled partial)"]
    return rep.finish(level="proof", trusted_base=common.STD_TRUSTED,
                      rule="one evaluation = one real tdgl run with one injected fault; non-trivial = distinct (k, kind, where, stage, "
                           "explicit output, pre-existing layout, p%k==0)")
