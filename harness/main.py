"""Entry point:  ./check Cxx [--tier quick|thorough] [--replay path]"""
import argparse
import importlib
import json
import os
import sys
import traceback

from . import common


def main():
    ap = argparse.ArgumentParser()
    ap.add_argument("pid")
    ap.add_argument("--tier", default=os.environ.get("VERIF_TIER", "quick"), choices=["quick", "thorough"])
    ap.add_argument("--replay", default=None)
    args = ap.parse_args()
    seed = int(os.environ.get("VERIF_SEED", "0") or 0)
    pid = args.pid.upper()
    mod = importlib.import_module(f"harness.{pid.lower()}")
    rep = common.Report(pid, args.tier, seed)
    replay = None
    if args.replay:
        replay = json.load(open(args.replay))
    try:
        rc = mod.run(rep, args.tier, seed, replay)
    except Exception:
        # a crashing check must never look like a pass
        traceback.print_exc()
        rep.not_shown("check crashed", {"traceback": traceback.format_exc()[-3000:]})
        rc = rep.finish(level="proof", trusted_base=common.STD_TRUSTED, rule="check crashed")
    sys.exit(rc)


if __name__ == "__main__":
    main()
