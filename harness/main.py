"""Entry point:  ./check Cxx [--tier quick|thorough] [--replay path]"""
import argparse
import importlib
import json
import os
import sys
import traceback

from . import common


def main():
    ap = argparse.ArgumentParser()
    ap.add_argument("pid")
    ap.add_argument("--tier", default=os.environ.get("VERIF_TIER", "quick"), choices=["quick", "thorough"])
    ap.add_argument("--replay", default=None)
    args = ap.parse_args()
    seed = int(os.environ.get("VERIF_SEED", "0") or 0)
    pid = args.pid.upper()
    mod = importlib.import_module(f"harness.{pid.lower()}")
    rep = common.Report(pid, args.tier, seed)
    replay = None
    if args.replay:
        replay = json.load(open(args.replay))
    if args.tier == "thorough" and not replay:
        # thorough = the thorough plan of the check, repeated with fresh seeds (seed, seed+1000, ...) until the round or
        # time budget is used up; everything accumulates into one report / evidence file
        import time
        rounds = int(os.environ.get("VERIF_ROUNDS", "6"))
        budget = float(os.environ.get("VERIF_THOROUGH_BUDGET_S", "600"))
        t0 = time.time()
        rep._defer = True
        done = 0
        for r in range(rounds):
            if r > 0 and time.time() - t0 > budget:
                break
            try:
                mod.run(rep, args.tier, seed + 1000 * r, None)
            except Exception:
                traceback.print_exc()
                rep.not_shown("check crashed", {"round": r, "seed": seed + 1000 * r, "traceback": traceback.format_exc()[-3000:]})
            done += 1
            if rep.violations or rep.unproved:
                break
        rep._defer = False
        rep.coverage["thorough_rounds"] = done
        rep.coverage["thorough_round_seeds"] = [seed + 1000 * r for r in range(done)]
        fa = getattr(rep, "_finish_args", None) or dict(level="proof", trusted_base=common.STD_TRUSTED, rule="check crashed")
        sys.exit(rep.finish(**fa))
    try:
        rc = mod.run(rep, args.tier, seed, replay)
    except Exception:
        # a crashing check must never look like a pass
        traceback.print_exc()
        rep.not_shown("check crashed", {"traceback": traceback.format_exc()[-3000:]})
        rc = rep.finish(level="proof", trusted_base=common.STD_TRUSTED, rule="check crashed")
    sys.exit(rc)


if __name__ == "__main__":
    main()
