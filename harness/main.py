"""Entry point:  ./check Cxx [--tier quick|thorough] [--replay path]"""
import argparse
import importlib
import json
import os
import sys
import traceback

from . import common


def _kill_children():
    """terminate every descendant process (coqc, workers) of this check"""
    import signal
    me = os.getpid()
    tree = {}
    for d in os.listdir("/proc"):
        if d.isdigit():
            try:
                with open(f"/proc/{d}/stat") as f:
                    ppid = int(f.read().rsplit(")", 1)[1].split()[1])
                tree.setdefault(ppid, []).append(int(d))
            except (OSError, ValueError, IndexError):
                pass
    todo, kids = [me], []
    while todo:
        for c in tree.get(todo.pop(), []):
            kids.append(c)
            todo.append(c)
    for c in kids:
        try:
            os.kill(c, signal.SIGKILL)
        except OSError:
            pass


def _watchdog(rep, limit):
    """A check that does not come back is not a pass: after `limit` seconds report that the property is no longer shown to
    hold (the implementation - or a model evaluation - runs without end where the unchanged tree needs minutes) and stop."""
    import threading
    import time

    def fire():
        time.sleep(limit)
        frames = sys._current_frames()
        main_id = threading.main_thread().ident
        stack = "".join(traceback.format_stack(frames[main_id])[-12:]) if main_id in frames else ""
        rep._defer = False
        rep.not_shown(f"the check did not finish within {int(limit)} s (it needs minutes on the unchanged tree): a run or an "
                      "evaluation does not terminate", {"limit_s": limit, "main_thread_stack": stack[-3000:]})
        fa = getattr(rep, "_finish_args", None) or dict(level="proof", trusted_base=common.STD_TRUSTED, rule="watchdog")
        try:
            rep.finish(**fa)
        finally:
            sys.stdout.flush()
            _kill_children()
            os._exit(1)

    threading.Thread(target=fire, daemon=True).start()


def main():
    ap = argparse.ArgumentParser()
    ap.add_argument("pid")
    ap.add_argument("--tier", default=os.environ.get("VERIF_TIER", "quick"), choices=["quick", "thorough"])
    ap.add_argument("--replay", default=None)
    args = ap.parse_args()
    seed = int(os.environ.get("VERIF_SEED", "0") or 0)
    pid = args.pid.upper()
    mod = importlib.import_module(f"harness.{pid.lower()}")
    rep = common.Report(pid, args.tier, seed)
    _watchdog(rep, float(os.environ.get("VERIF_WATCHDOG_S", "2700" if args.tier == "quick" else "14400")))
    replay = None
    if args.replay:
        replay = json.load(open(args.replay))
    if args.tier == "thorough" and not replay:
        # thorough = the thorough plan of the check, repeated with fresh seeds (seed, seed+1000, ...) until the round or
        # time budget is used up; everything accumulates into one report / evidence file
        import time
        rounds = int(os.environ.get("VERIF_ROUNDS", "6"))
        budget = float(os.environ.get("VERIF_THOROUGH_BUDGET_S", "600"))
        t0 = time.time()
        rep._defer = True
        done = 0
        for r in range(rounds):
            if r > 0 and time.time() - t0 > budget:
                break
            try:
                mod.run(rep, args.tier, seed + 1000 * r, None)
            except Exception:
                traceback.print_exc()
                rep.not_shown("check crashed", {"round": r, "seed": seed + 1000 * r, "traceback": traceback.format_exc()[-3000:]})
            done += 1
            if rep.violations or rep.unproved:
                break
        rep._defer = False
        rep.coverage["thorough_rounds"] = done
        rep.coverage["thorough_round_seeds"] = [seed + 1000 * r for r in range(done)]
        fa = getattr(rep, "_finish_args", None) or dict(level="proof", trusted_base=common.STD_TRUSTED, rule="check crashed")
        sys.exit(rep.finish(**fa))
    try:
        rc = mod.run(rep, args.tier, seed, replay)
    except Exception:
        # a crashing check must never look like a pass
        traceback.print_exc()
        rep.not_shown("check crashed", {"traceback": traceback.format_exc()[-3000:]})
        rc = rep.finish(level="proof", trusted_base=common.STD_TRUSTED, rule="check crashed")
    sys.exit(rc)


if __name__ == "__main__":
    main()
