"""C17 - the uniform superconducting state is exactly stationary.

Oracle on every update of undriven runs (A = 0, no bias, eps = 1, psi = 1, mu = 0) on irregular /
smoothed / holed meshes with unpinned terminals: |psi| - 1, currents and mu stay at rounding level and
the adaptive step grows to dt_max.  Correspondence: recorded update calls vs Model.Step.step."""
from __future__ import annotations

import math
import random
import tempfile

import numpy as np

from . import common, meshes, runs, stepcorr


def stable_dt_max(dev, gamma, u):
    """Explicit-diffusion (CFL) limit of the scheme: dt * lambda_max * sqrt(1+gamma^2) / u < 2,
    lambda_max <= 2 max_i sum_j w_ij / a_i  (Gershgorin).  A safety factor 4 is used."""
    m = dev.mesh
    em = m.edge_mesh
    w = em.dual_edge_lengths / em.edge_lengths
    s = np.zeros(len(m.sites))
    np.add.at(s, em.edges[:, 0], w)
    np.add.at(s, em.edges[:, 1], w)
    lam = 2 * float(np.max(s / m.areas))
    return min(0.1, 0.5 * u / (lam * math.sqrt(1 + gamma ** 2)))


class TooManySteps(Exception):
    pass


def run_case(rep, rng, ci, cfg, texts, recs_all):
    dev = meshes.make_device(rng, holes=cfg["holes"], terminals=cfg["terminals"], smooth=cfg["smooth"],
                             max_edge_length=1.6 if cfg["model"] else 0.8, gamma=cfg["gamma"], u=cfg["u"],
                             shape=cfg["shape"])
    dt_max = stable_dt_max(dev, cfg["gamma"], cfg["u"])
    dt_init = dt_max / cfg.get("ratio", 50)
    worst = dict(psi=0.0, J=0.0, mu=0.0)
    # a correct run takes window+2 small steps and then steps of dt_max (adaptive) or steps*ratio fixed steps
    cap = 2 * ((cfg["steps"] + 8) if cfg["adaptive"] else int(cfg["steps"] * cfg.get("ratio", 50)) + 1) + 50
    dts = []
    recs = []
    last_dt = {}

    def before(solver, state, kw):
        last_dt["dt"] = state["dt"]

    def on_step(solver, state, kw, res):
        worst["psi"] = max(worst["psi"], float(np.max(np.abs(np.abs(res.psi) - 1.0))))
        worst["J"] = max(worst["J"], float(np.max(np.abs(res.supercurrent))), float(np.max(np.abs(res.normal_current))))
        worst["mu"] = max(worst["mu"], float(np.max(np.abs(res.mu - np.mean(res.mu)))))
        dts.append(float(res.dt))
        if len(dts) > cap:
            raise TooManySteps()
        if cfg["model"] and state["step"] in (1, 30) and len(recs) < 2:
            recs.append(stepcorr.StepRecord(solver, state, last_dt["dt"], kw, res))

    with tempfile.TemporaryDirectory(prefix="pyt_c17_") as td:
        if ci % 2 == 0 and len(dev.terminals) >= 2:
            # history form: the same device object was used before for a DRIVEN run with pinned contacts (field, bias current,
            # terminal_psi = 0); nothing of it may be left when the undriven problem is solved next
            names_ = [t.name for t in dev.terminals]
            wopts = runs.make_options(td, solve_time=8 * dt_max, dt_init=dt_init, dt_max=dt_max, adaptive=True, save_every=50,
                                      terminal_psi=0.0, output_file=td + "/driven_before.h5")
            try:
                runs.traced_solve(dev, wopts, A=0.3, currents={names_[0]: 1.0, names_[1]: -1.0, **{n_: 0.0 for n_ in names_[2:]}})
            except Exception as e:  # noqa: BLE001
                rep.violation(f"a driven problem with valid options (0 < dt_init <= dt_max) was refused: {type(e).__name__}: {e}"[:240],
                              {"run": ci, **{k: str(v) for k, v in cfg.items()}, "dt_init": dt_init, "dt_max": dt_max})
                return
        opts = runs.make_options(td, solve_time=cfg["steps"] * dt_max, dt_init=dt_init, dt_max=dt_max,
                                 adaptive=(np.bool_(cfg["adaptive"]) if ci % 2 else (1 if cfg["adaptive"] else 0)) if ci % 3 else cfg["adaptive"],
                                 adaptive_window=5, save_every=50, terminal_psi=None,
                                 include_screening=cfg["screening"], screening_tolerance=1e-3)
        try:
            _, solver_ = runs.traced_solve(dev, opts, A=0.0, currents=None, on_step=on_step, before_step=before)
        except TooManySteps:
            rep.violation(f"stationary state: the run needed more than {cap} updates for a span of {cfg['steps']} dt_max - the time "
                          "step does not follow the rule (dt_init for window+2 steps, then dt_max)",
                          {"run": ci, **{k: str(v) for k, v in cfg.items()}, "dt_init": dt_init, "dt_max": dt_max,
                           "dt_last": dts[-1], "dts_head": dts[:12]})
            return
        except Exception as e:  # noqa: BLE001
            rep.violation(f"the undriven problem with valid options (0 < dt_init <= dt_max) was refused: {type(e).__name__}: {e}"[:240],
                          {"run": ci, **{k: str(v) for k, v in cfg.items()}, "dt_init": dt_init, "dt_max": dt_max})
            return
        runs.report_threading(rep, solver_, {"run": ci})
    case = {"run": ci, **cfg, "sites": len(dev.mesh.sites), "dt_max": dt_max, "updates": len(dts), **{f"max_{k}": v for k, v in worst.items()}}
    tol = 1e-11
    if worst["psi"] > tol:
        rep.violation(f"|psi| left 1 on the uniform state (max deviation {worst['psi']:.2e})", case)
    if worst["J"] > tol:
        rep.violation(f"a current appeared on the uniform state (max {worst['J']:.2e})", case)
    if worst["mu"] > tol:
        rep.violation(f"a potential difference appeared on the uniform state (max {worst['mu']:.2e})", case)
    if cfg["adaptive"]:
        if not (abs(dts[-1] - dt_max) <= 1e-15 * dt_max and all(b >= a * (1 - 1e-12) for a, b in zip(dts, dts[1:]))):
            rep.violation("adaptive time step did not grow monotonically to dt_max on the stationary state",
                          {**case, "dts_head": dts[:12], "dt_last": dts[-1]})
        # C17_dt_grows_to_max: dt_init up to step window+1, dt_max from step window+2 on (window = 5; the recorded
        # max |d|psi|^2| stay far below the 1e-10 floor on the stationary state)
        want = [dt_init if i <= 6 else dt_max for i in range(len(dts))]
        if dts != want:
            k = next(i for i, (a, b) in enumerate(zip(dts, want)) if a != b)
            rep.violation("stationary state: the step sequence is not dt_init up to step window+1 and dt_max afterwards",
                          {**case, "first_difference_at_step": k, "dt": dts[k], "expected": want[k]})
    else:
        if any(d != dt_init for d in dts):
            rep.violation("fixed-step run used a step different from dt_init", case)
    for r in recs:
        texts.append(stepcorr.model_text(r))
        recs_all.append((r, {"run": ci, "step": r.step, "gamma": cfg["gamma"]}))
    rep.count(len(dts))
    rep.nontrivial((cfg["gamma"], cfg["u"], cfg["adaptive"], cfg["screening"], cfg["holes"], cfg["smooth"]))
    rep.sample(case)


def run(rep: common.Report, tier: str, seed: int, replay=None) -> int:
    rep.use_props(common.check_props("C17"))
    rng = random.Random(seed * 7919 + 17)
    plans = [
        dict(gamma=0.0, u=1.0, adaptive=True, screening=False, holes=1, terminals=2, smooth=0, shape="box", steps=60, model=True),
        dict(gamma=10.0, u=5.79, adaptive=True, screening=False, holes=0, terminals=2, smooth=2, shape="union", steps=60, model=True),
        dict(gamma=0.3, u=5.79, adaptive=False, screening=False, holes=2, terminals=0, smooth=0, shape="ellipse", steps=3, model=False),
        dict(gamma=1.0, u=1.0, adaptive=True, screening=True, holes=1, terminals=2, smooth=0, shape="box", steps=25, model=False),
        dict(gamma=10.0, u=5.79, adaptive=True, screening=False, holes=2, terminals=3, smooth=3, shape="box", steps=80, model=False),
        # a very small first step (dt_max / dt_init = 2e9, just below the 1/2 * 1e10 of C17_dt_grows_to_max): the step must
        # jump to dt_max right after the warm-up window
        dict(gamma=10.0, u=5.79, adaptive=True, screening=False, holes=0, terminals=2, smooth=0, shape="box", steps=20, model=False,
             ratio=2e9),
        # the other end of the range: the first step IS the maximum (dt_init == dt_max, adaptive on and off)
        dict(gamma=10.0, u=5.79, adaptive=True, screening=False, holes=1, terminals=2, smooth=0, shape="box", steps=15, model=False, ratio=1),
        dict(gamma=2.0, u=1.0, adaptive=False, screening=False, holes=0, terminals=2, smooth=0, shape="box", steps=10, model=False, ratio=1),
        # a strongly inelastic film (gamma = 1000): whole runs, not only the single update
        dict(gamma=1e3, u=5.79, adaptive=True, screening=False, holes=1, terminals=2, smooth=0, shape="box", steps=20, model=False),
    ]
    if tier == "thorough":
        plans = plans * 3
    texts, recs_all = [], []
    for ci, cfg in enumerate(plans):
        run_case(rep, rng, ci, cfg, texts, recs_all)
    # the documented update itself on the uniform state, over the range of gamma (psi = 1, mu = 0, epsilon = 1, Laplacian action 0):
    # it has to return psi' = 1, |psi'|^2 = 1.  (As found, for gamma >= a few hundred the discriminant (2c+1)^2 - 4|z|^2|w|^2 cancelled
    # catastrophically: psi' = 0.949 at gamma = 1e4; repaired by fix F49, which evaluates it as 1 + 4c - 4 Im(w conj z)^2.)
    import scipy.sparse as _sp
    from tdgl.solver.solver import TDGLSolver as _S
    for gam_ in (0.0, 0.3, 1.0, 10.0, 30.0, 3e2, 1e3, 1e4, 1e6):
        one = np.ones(5, dtype=complex)
        out_ = _S.solve_for_psi_squared(psi=one, abs_sq_psi=np.ones(5), mu=np.zeros(5), epsilon=np.ones(5), gamma=gam_, u=5.79, dt=1e-3,
                                        psi_laplacian=_sp.csr_matrix((5, 5), dtype=complex))
        dev_ = None if out_ is None else max(float(np.max(np.abs(out_[0] - 1.0))), float(np.max(np.abs(out_[1] - 1.0))))
        if dev_ is None or dev_ > 1e-11:
            rep.violation("the documented update moves the uniform state psi = 1 (mu = 0, epsilon = 1, no Laplacian action): "
                          + ("refused" if dev_ is None else f"max |psi' - 1| = {dev_:.3e}"),
                          {"gamma": gam_, "u": 5.79, "dt": 1e-3})
        rep.count(1)
    outs = common.run_model_shards("c17_step", texts, jobs=8)
    ndis = 0
    for (rc, out), (r, case) in zip(outs, recs_all):
        if rc != 0:
            rep.not_shown("correspondence(step): model evaluation failed", {**case, "log": out[-1200:]})
            continue
        ndis += stepcorr.compare(rep, r, out, case)
    rep.coverage.update({"runs": len(plans), "step_records_compared_with_model": len(recs_all),
                         "correspondence_disagreements": ndis})
    rep.assumptions += ["dt_max is drawn inside the explicit-diffusion stability region (Gershgorin bound, factor 4); "
                        "outside it rounding noise is amplified by the scheme itself (CFL), which is not a source term",
                        "tolerance 1e-11 on |psi|-1, currents and mu differences (theorem is exact in R; binary64 noise ~1e-15)"]
    return rep.finish(level="proof", trusted_base=common.STD_TRUSTED,
                      rule="every update call of every undriven run evaluates the stationarity oracle; non-trivial = distinct "
                           "(gamma, u, adaptive, screening, holes, smoothing)")
