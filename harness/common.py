"""Shared machinery for the py-tdgl verification checks.

Every check:  (1) makes sure the Coq development is built (full .vo build),
(2) re-compiles its own Props/Cxx.v and records theorems + Print Assumptions,
(3) runs the correspondence stream (real code vs. model evaluated by vm_compute),
(4) runs the property oracle on the implementation's outputs,
(5) decides, writes evidence/Cxx.json, prints VIOLATION / KNOWN-FINDING lines.
"""
from __future__ import annotations

import fcntl
import json
import math
import os
import re
import shutil
import subprocess
import sys
import tempfile
import time
from pathlib import Path

ROOT = Path(__file__).resolve().parent.parent
COQ = ROOT / "coq"
RUN = COQ / "run"
EVID = ROOT / "evidence"
REPLAYS = ROOT / "replays"
CORPUS = ROOT / "corpus"
REPO = Path(os.environ.get("PY_TDGL_REPO", "/repo"))
PY = os.environ.get("PY_TDGL_PYTHON", "/venv/bin/python")
COQ_TIMEOUT = int(os.environ.get("VERIF_COQ_TIMEOUT", "900"))

FORBIDDEN = re.compile(
    r"\b(Admitted|admit|Axiom|Axioms|Parameter|Parameters|Conjecture|Conjectures|"
    r"Admit Obligations)\b|Unset Guard|bypass_check|-type-in-type|-impredicative-set|"
    r"Unset Positivity|Unset Universe Checking"
)


def impl_env() -> dict:
    env = dict(os.environ)
    env["PYTHONPATH"] = str(REPO)
    env["PYTHONHASHSEED"] = "0"
    env.setdefault("NUMBA_NUM_THREADS", "4")
    env["PY_TDGL_VERIF"] = "1"
    env["MPLBACKEND"] = "Agg"
    return env


# ---------------------------------------------------------------- Coq build
def _strip_comments(text: str) -> str:
    out, depth, i = [], 0, 0
    while i < len(text):
        if text.startswith("(*", i):
            depth += 1
            i += 2
        elif text.startswith("*)", i) and depth:
            depth -= 1
            i += 2
        else:
            if not depth:
                out.append(text[i])
            i += 1
    return "".join(out)


def forbidden_scan() -> list[str]:
    """No Admitted / Axiom / Parameter / disabled checks anywhere in the development."""
    bad = []
    for p in sorted((COQ / "theories").rglob("*.v")):
        txt = _strip_comments(p.read_text())
        for m in FORBIDDEN.finditer(txt):
            bad.append(f"{p.relative_to(COQ)}: {m.group(0)}")
        # Variable / Hypothesis outside a section
        depth = 0
        for line in txt.splitlines():
            s = line.strip()
            if re.match(r"^(Section|Module)\b", s) and not s.startswith("Module Import"):
                if re.match(r"^Section\b", s):
                    depth += 1
            elif re.match(r"^End\b", s) and depth:
                depth -= 1
            elif re.match(r"^(Variable|Variables|Hypothesis|Hypotheses|Context)\b", s) and depth == 0:
                bad.append(f"{p.relative_to(COQ)}: {s.split()[0]} outside a section")
    return bad


def ensure_built(log=None) -> tuple[bool, str]:
    """Full .vo build of the development (incremental; serialised by a lock)."""
    RUN.mkdir(exist_ok=True)
    lock = open(COQ / ".build.lock", "w")
    fcntl.flock(lock, fcntl.LOCK_EX)
    try:
        r = subprocess.run(
            "coq_makefile -f _CoqProject -o Makefile > /dev/null 2>&1 && "
            f"timeout {COQ_TIMEOUT} make -j16 2>&1",
            shell=True, cwd=COQ, capture_output=True, text=True,
        )
        return r.returncode == 0, r.stdout[-6000:]
    finally:
        fcntl.flock(lock, fcntl.LOCK_UN)
        lock.close()


def coqc(path: Path, timeout=COQ_TIMEOUT) -> tuple[int, str]:
    r = subprocess.run(
        ["bash", "-c", 'ulimit -s unlimited 2>/dev/null || ulimit -s 1000000 2>/dev/null; exec "$@"', "coqc-wrapper",
         "timeout", str(timeout), "coqc", "-R", str(COQ / "theories"), "PyTdgl",
         "-w", "-notation-overridden,-deprecated,-inexact-float", str(path)],
        cwd=COQ, capture_output=True, text=True,
    )
    return r.returncode, r.stdout + r.stderr


THEOREM_RE = re.compile(r"^\s*(Theorem|Lemma|Corollary|Example|Fact|Proposition)\s+([A-Za-z0-9_']+)", re.M)


def props_file_deps(pid: str) -> list[Path]:
    """Proof files imported (transitively) by Props/Cxx.v."""
    seen, todo = [], [COQ / "theories" / "Props" / f"{pid}.v"]
    while todo:
        p = todo.pop()
        if p in seen or not p.exists():
            continue
        seen.append(p)
        txt = _strip_comments(p.read_text())
        for m in re.finditer(r"From PyTdgl Require (?:Import|Export)\s+((?:\w+(?:\.\w+)*\s*)+)\.", txt):
            for name in m.group(1).split():
                q = COQ / "theories" / (name.replace(".", "/") + ".v")
                todo.append(q)
    return seen


def check_props(pid: str) -> dict:
    """Re-compile Props/Cxx.v in this run; measure obligations / discharged / axioms."""
    t0 = time.time()
    ok_build, build_log = ensure_built()
    res = {"build_ok": ok_build, "build_log_tail": "" if ok_build else build_log[-3000:]}
    bad = forbidden_scan()
    res["forbidden"] = bad
    props = COQ / "theories" / "Props" / f"{pid}.v"
    deps = props_file_deps(pid)
    names = []
    for p in deps:
        names += [f"{p.stem}.{m.group(2)}" for m in THEOREM_RE.finditer(_strip_comments(p.read_text()))]
    res["obligations"] = len(names)
    res["theorem_files"] = [str(p.relative_to(COQ)) for p in deps]
    prop_thms = [m.group(2) for m in THEOREM_RE.finditer(_strip_comments(props.read_text()))] if props.exists() else []
    res["property_theorems"] = prop_thms
    rc, out = coqc(props) if props.exists() and ok_build else (1, "Props file missing or build failed")
    res["props_rc"] = rc
    res["props_log_tail"] = "" if rc == 0 else out[-3000:]
    # Print Assumptions blocks
    axioms = set()
    closed = out.count("Closed under the global context")
    for m in re.finditer(r"^([A-Za-z_][\w']*(?:\.[\w']+)+)\s*(?::|$)", out, flags=re.M):
        axioms.add(m.group(1))
    res["axioms"] = sorted(axioms)
    res["closed_theorems"] = closed
    res["ok"] = bool(ok_build and rc == 0 and not bad)
    res["discharged"] = len(names) if res["ok"] else 0
    res["checker_cmd"] = (
        "cd /verif/coq && coq_makefile -f _CoqProject -o Makefile && make -j16 && "
        f"coqc -R theories PyTdgl theories/Props/{pid}.v"
    )
    res["wall_s"] = round(time.time() - t0, 2)
    return res


# ---------------------------------------------------------------- literals
def flit(x: float) -> str:
    """binary64 -> Coq primitive-float literal (exact, hexadecimal)."""
    x = float(x)
    if math.isnan(x):
        return "nan"
    if math.isinf(x):
        return "infinity" if x > 0 else "neg_infinity"
    h = x.hex()
    if h.startswith("-"):
        return f"(-{h[1:]})"
    return h


def clit(z: complex) -> str:
    z = complex(z)
    return f"({flit(z.real)}, {flit(z.imag)})"


def qlit(x) -> str:
    """binary64 or int -> exact Coq Q literal."""
    if isinstance(x, int):
        return f"({x}#1)" if x >= 0 else f"(-{-x}#1)"
    n, d = float(x).as_integer_ratio()
    return f"({n}#{d})" if n >= 0 else f"(-{-n}#{d})"


def zlit(n: int) -> str:
    return f"{n}" if n >= 0 else f"({n})"


def coq_list(items, per_line=4) -> str:
    items = list(items)
    if not items:
        return "[]"
    lines = []
    for i in range(0, len(items), per_line):
        lines.append("; ".join(items[i:i + per_line]))
    return "[" + ";\n ".join(lines) + "]"


FLOAT_TOKEN = re.compile(r"neg_infinity|infinity|nan|-?\d+(?:\.\d*)?(?:e[+-]?\d+)?")


def parse_floats(text: str) -> list[float]:
    out = []
    for t in FLOAT_TOKEN.findall(text):
        if t == "neg_infinity":
            out.append(-math.inf)
        elif t == "infinity":
            out.append(math.inf)
        elif t == "nan":
            out.append(math.nan)
        else:
            out.append(float(t))
    return out


def eval_block(out: str, idx: int = 0) -> str:
    """Text of the idx-th `= ... : type` answer printed by coqc."""
    parts = re.split(r"^\s*= ", out, flags=re.M)[1:]
    blk = parts[idx]
    # cut the trailing ': type'
    k = blk.rfind("\n     : ")
    if k < 0:
        k = blk.rfind(" : ")
    return blk[:k] if k >= 0 else blk


def run_model(name: str, vtext: str, timeout=COQ_TIMEOUT) -> tuple[int, str]:
    """Write coq/run/<name>.v and evaluate it with one coqc call."""
    RUN.mkdir(exist_ok=True)
    p = RUN / f"{name}.v"
    p.write_text(vtext)
    rc, out = coqc(p, timeout=timeout)
    for ext in (".vo", ".vok", ".vos", ".glob"):
        q = p.with_suffix(ext)
        if q.exists():
            q.unlink()
    aux = RUN / f".{name}.aux"
    if aux.exists():
        aux.unlink()
    return rc, out


def run_model_shards(prefix: str, texts: list[str], jobs=16, timeout=COQ_TIMEOUT):
    """Evaluate several generated files in parallel; returns list of (rc, out)."""
    from concurrent.futures import ThreadPoolExecutor
    with ThreadPoolExecutor(max_workers=jobs) as ex:
        futs = [ex.submit(run_model, f"{prefix}_{i}", t, timeout) for i, t in enumerate(texts)]
        return [f.result() for f in futs]


# ---------------------------------------------------------------- impl driver
def run_impl(script: str, payload: dict, timeout=3600, extra_env=None) -> dict:
    """Run harness/<script> in a fresh interpreter against /repo's working tree."""
    env = impl_env()
    if extra_env:
        env.update(extra_env)
    with tempfile.TemporaryDirectory(prefix="pyt_verif_") as td:
        pin = Path(td) / "in.json"
        pout = Path(td) / "out.json"
        pin.write_text(json.dumps(payload))
        env["VERIF_SCRATCH"] = td
        r = subprocess.run(
            [PY, str(ROOT / "harness" / script), str(pin), str(pout)],
            env=env, capture_output=True, text=True, timeout=timeout, cwd=td,
        )
        if r.returncode != 0 or not pout.exists():
            return {"_driver_error": (r.stdout + r.stderr)[-4000:], "_rc": r.returncode}
        return json.loads(pout.read_text())


# ---------------------------------------------------------------- findings
def known_findings(pid: str) -> list[dict]:
    p = ROOT / "known_findings.json"
    if not p.exists():
        return []
    data = json.loads(p.read_text())
    return [f for f in data.get("findings", []) if f.get("property") == pid]


# ---------------------------------------------------------------- reporting
class Report:
    def __init__(self, pid: str, tier: str, seed: int):
        self.pid, self.tier, self.seed = pid, tier, seed
        self.t0 = time.time()
        self.violations: list[dict] = []       # concrete failing inputs
        self.unproved: list[dict] = []         # broken theorem / correspondence, no input
        self.known_hits: list[str] = []
        self.coverage: dict = {}
        self.assumptions: list[str] = []
        self.samples: list = []
        self.evaluations = 0
        self.nontrivial_keys: set = set()
        self.props: dict = {}

    # -- bookkeeping
    def count(self, n=1):
        self.evaluations += n

    def nontrivial(self, key):
        self.nontrivial_keys.add(key if isinstance(key, (str, int, tuple)) else json.dumps(key, sort_keys=True))

    def sample(self, s, limit=6):
        if len(self.samples) < limit:
            self.samples.append(s)

    def violation(self, what: str, case: dict, finding_key: str | None = None):
        """A concrete input on which the property fails on the implementation."""
        for f in known_findings(self.pid):
            if finding_key is not None and f.get("key") == finding_key:
                msg = f"KNOWN-FINDING: property={self.pid} {f.get('what_fails', what)}"
                if msg not in self.known_hits:
                    self.known_hits.append(msg)
                return
        self.violations.append({"what": what, "case": case, "key": finding_key})

    def not_shown(self, what: str, detail: dict):
        """Theorem or correspondence no longer checks and no failing input known (yet)."""
        self.unproved.append({"what": what, "detail": detail})

    def use_props(self, props: dict):
        self.props = props
        if not props.get("ok"):
            self.not_shown(
                "proof obligations do not check",
                {"build_ok": props.get("build_ok"), "props_rc": props.get("props_rc"),
                 "forbidden": props.get("forbidden"),
                 "log": (props.get("build_log_tail") or props.get("props_log_tail"))[-1500:]},
            )

    # -- finish
    def finish(self, level="proof", trusted_base=None, rule="", extra=None) -> int:
        if getattr(self, "_defer", False):
            # thorough tier: several rounds with different seeds accumulate into one report (harness.main)
            self._finish_args = dict(level=level, trusted_base=trusted_base, rule=rule, extra=extra)
            return 0
        EVID.mkdir(exist_ok=True)
        REPLAYS.mkdir(exist_ok=True)
        rc = 0
        lines = []
        replay_path = None
        if self.violations:
            rc = 1
            replay_path = REPLAYS / f"{self.pid}-{self.seed}-{int(time.time())}-{os.getpid()}.json"
            replay_path.write_text(json.dumps(
                {"property": self.pid, "seed": self.seed, "tier": self.tier,
                 "violations": self.violations[:300], "unproved": self.unproved[:20]}, indent=1, default=str))
            lines.append(f"VIOLATION property={self.pid} replay={replay_path}")
        elif self.unproved:
            rc = 1
            replay_path = REPLAYS / f"{self.pid}-{self.seed}-{int(time.time())}-{os.getpid()}-unproved.json"
            replay_path.write_text(json.dumps(
                {"property": self.pid, "seed": self.seed, "tier": self.tier,
                 "no_failing_input_found": True,
                 "no_longer_checks": self.unproved[:20]}, indent=1, default=str))
            lines.append(f"VIOLATION property={self.pid} replay={replay_path} no-failing-input-found")
        cov = {
            "obligations": int(self.props.get("obligations", 0)),
            "discharged": int(self.props.get("discharged", 0)),
            "checker_cmd": self.props.get("checker_cmd", "coqc"),
            "trusted_base": list(trusted_base or []) + [f"axiom (Print Assumptions): {a}" for a in self.props.get("axioms", [])],
            "property_theorems": self.props.get("property_theorems", []),
            "theorem_files": self.props.get("theorem_files", []),
            "closed_under_global_context": self.props.get("closed_theorems", 0),
            "evaluations": int(self.evaluations),
            "distinct_nontrivial": len(self.nontrivial_keys),
            "rule": rule,
            "samples": self.samples or ["(no case generated)"],
            "traces_validated_against_impl": int(self.evaluations),
        }
        cov.update(self.coverage)
        if extra:
            cov.update(extra)
        ev = {
            "property_id": self.pid, "tier": self.tier, "seed": int(self.seed), "level": level,
            "coverage": cov, "assumptions": self.assumptions,
            "wall_s": round(time.time() - self.t0, 2),
            "violations": len(self.violations) + len(self.unproved),
            "known_findings_hit": self.known_hits,
        }
        (EVID / f"{self.pid}.json").write_text(json.dumps(ev, indent=1, default=str))
        for m in self.known_hits:
            print(m)
        for l in lines:
            print(l)
        if rc == 0:
            print(f"OK property={self.pid} tier={self.tier} evaluations={self.evaluations} "
                  f"theorems={cov['discharged']}/{cov['obligations']} wall={ev['wall_s']}s")
        else:
            for v in self.violations[:5]:
                print("  violation:", v["what"], "|", json.dumps(v["case"], default=str)[:400])
            for u in self.unproved[:5]:
                print("  no longer checks:", u["what"], "|", json.dumps(u["detail"], default=str)[:600])
        sys.stdout.flush()
        return rc


STD_TRUSTED = [
    "Coq 8.16.1 kernel + coqc; vm_compute for model evaluation; no native_compute",
    "hand-written Gallina model tied to /repo by the correspondence stream of this run (sampled, not proved)",
    "Python harness (generators, literal emission float.hex()->hex float literal, comparison)",
    "binary64 rounding not analysed: theorems are over R, execution over PrimFloat with stated tolerances",
]


def parse_nested(text: str):
    """Parse Coq's printed nested lists / tuples of floats, ints, bools into Python lists."""
    tok = re.compile(r"\[|\]|\(|\)|;|,|neg_infinity|infinity|nan|true|false|None|Some|-?\d+(?:\.\d*)?(?:e[+-]?\d+)?%?[a-zA-Z]*")
    stack, cur = [], []
    for t in tok.findall(text):
        if t in "[(":
            stack.append((cur, t))
            cur = []
        elif t in "])":
            done = cur
            cur, opener = stack.pop()
            if opener == "(" and len(done) == 1 and isinstance(done[0], (int, float)):
                cur.append(done[0])            # a parenthesised negative number, e.g. (-5)
            else:
                cur.append(done)
        elif t in ";,":
            continue
        elif t == "neg_infinity":
            cur.append(-math.inf)
        elif t == "infinity":
            cur.append(math.inf)
        elif t == "nan":
            cur.append(math.nan)
        elif t == "true":
            cur.append(True)
        elif t == "false":
            cur.append(False)
        elif t in ("None", "Some"):
            cur.append(t)
        else:
            t = t.split("%")[0]
            cur.append(float(t) if re.search(r"[.e]", t) else int(t))
    return cur
