"""C19 - ill-posed problems are rejected before anything is written.

Every class of ill-posed input is instantiated on several devices and magnitudes of the defect (from
gross to one part in 1e6), with and without an explicit output path: the call must raise, and the
output directory and a private TMPDIR must be unchanged afterwards.  A well-posed stream must be
accepted.  Correspondence: SolverOptions.validate and the balance test vs Model.Validate (exact
rationals) over a grid including boundary values."""
from __future__ import annotations

import os
import random
import shutil
import tempfile
from fractions import Fraction

import numpy as np

from . import common, meshes, runs
from .common import coq_list


def attempt(fn, td, tag):
    """Run fn(output_path) with a private TMPDIR; returns (exception or None, leftovers)."""
    work = os.path.join(td, "w_" + tag)
    tmpr = os.path.join(td, "t_" + tag)
    os.makedirs(work)
    os.makedirs(tmpr)
    old = tempfile.tempdir
    tempfile.tempdir = tmpr
    exc = None
    try:
        try:
            fn(work)
        except BaseException as e:  # noqa: BLE001
            exc = e
    finally:
        tempfile.tempdir = old
    left = sorted(os.listdir(work)) + ["TMP:" + n for n in sorted(os.listdir(tmpr))]
    shutil.rmtree(work, ignore_errors=True)
    shutil.rmtree(tmpr, ignore_errors=True)
    return exc, left


def expect_rejected(rep, cls, desc, fn, td, tag, finding_key=None, also=()):
    for explicit in (True, False):
        def call(work, explicit=explicit):
            fn(os.path.join(work, "out.h5") if explicit else None)
        exc, left = attempt(call, td, f"{tag}_{int(explicit)}")
        case = {"class": cls, "instance": desc, "explicit_output": explicit}
        if exc is None:
            rep.violation(f"ill-posed problem accepted ({cls})", case, finding_key=finding_key)
        elif not isinstance(exc, (ValueError, TypeError) + tuple(also)):
            rep.violation(f"ill-posed problem failed with {type(exc).__name__} instead of a validation error ({cls}): {exc}"[:220], case)
        if left:
            rep.violation(f"a rejected problem left files behind ({cls})", {**case, "left": left}, finding_key=finding_key)
        rep.count(1)
    rep.nontrivial((cls, desc[:40]))


def run(rep: common.Report, tier: str, seed: int, replay=None) -> int:
    import tdgl
    from tdgl.geometry import box, circle
    from tdgl.solver.options import SolverOptions
    rep.use_props(common.check_props("C19"))
    rng = random.Random(seed * 7919 + 19)
    devs = [meshes.make_device(rng, holes=h, terminals=t, max_edge_length=1.6) for h, t in ((0, 2), (1, 3), (0, 4))]
    if tier == "quick":
        devs = devs[:2]
    good = dict(solve_time=0.01, dt_init=2e-3, dt_max=4e-3, progress_interval=10 ** 9, pause_on_interrupt=False)

    def solve(dev, out, opt_over=None, **kw):
        o = dict(good)
        o.update(opt_over or {})
        return tdgl.solve(dev, SolverOptions(output_file=out, **o), **kw)

    with tempfile.TemporaryDirectory(prefix="pyt_c19_") as td:
        n = 0
        for di, dev in enumerate(devs):
            names = [t.name for t in dev.terminals]
            # 1. unbalanced constant currents, relative imbalance from gross to 1e-6
            for rel in (1.0, 1e-2, 1e-4, 1e-6):
                cur = {nm: 1.0 for nm in names[:-1]}
                cur[names[-1]] = -(len(names) - 1) * (1.0 + rel)
                expect_rejected(rep, "unbalanced currents", f"dev{di} rel={rel}",
                                lambda out, cur=cur: solve(dev, out, terminal_currents=cur), td, f"a{n}"); n += 1
            # the same gross imbalance stated at tiny current scales (the balance test sees dimensionless currents)
            for amp, cu in ((1e-4, "uA"), (0.3, "nA"), (2e-3, "nA"), (5e-3, "pA")):
                cur = {nm: amp for nm in names[:-1]}
                cur[names[-1]] = -(len(names) - 1) * amp * 0.5
                expect_rejected(rep, "unbalanced currents", f"dev{di} gross imbalance at {amp} {cu}",
                                lambda out, cur=cur, cu=cu: solve(dev, out, opt_over={"current_units": cu}, terminal_currents=cur),
                                td, f"a{n}"); n += 1
            expect_rejected(rep, "unknown terminal", f"dev{di}",
                            lambda out: solve(dev, out, terminal_currents={"nosuch": 1.0, names[0]: -1.0}), td, f"a{n}"); n += 1
            # time-dependent currents unbalanced at all times
            for rel in (0.5, 1e-6):
                def curf(t, rel=rel):
                    d = {nm: 1.0 + t for nm in names[:-1]}
                    d[names[-1]] = -(len(names) - 1) * (1.0 + t) * (1.0 + rel)
                    return d
                expect_rejected(rep, "unbalanced time-dependent currents (all times)", f"dev{di} rel={rel}",
                                lambda out, curf=curf: solve(dev, out, terminal_currents=curf), td, f"a{n}"); n += 1
            # with thermalisation (skip_time) the currents are used at times in [0, skip_time] and again in [0, solve_time]:
            # an imbalance on a WIDE part of either range (not a narrow window) must be rejected
            for what, skip, window in (("after solve_time, during a longer thermalisation", 0.05, (0.012, 1e9)),
                                       ("before skip_time only", 0.004, (-1.0, 0.0039)),
                                       ("first half of a short thermalisation", 0.02, (-1.0, 0.008))):
                def curs(t, window=window):
                    bad = 0.5 if window[0] < t < window[1] else 0.0
                    d = {nm: 1.0 for nm in names[:-1]}
                    d[names[-1]] = -(len(names) - 1) * 1.0 + bad
                    return d
                expect_rejected(rep, "unbalanced time-dependent currents (wide window, with thermalisation)", f"dev{di} {what}",
                                lambda out, curs=curs, skip=skip: solve(dev, out, opt_over={"skip_time": skip}, terminal_currents=curs),
                                td, f"a{n}"); n += 1
            # unbalanced only at the START of a stage (t = 0, which the solver always evaluates) / from the very END of the range on
            for what, badf in (("at t = 0 only", lambda t: t <= 0.0), ("at t >= solve_time only", lambda t: t >= 0.02)):
                def cur0(t, badf=badf):
                    d = {nm: 1.0 for nm in names[:-1]}
                    d[names[-1]] = -(len(names) - 1) * 1.0 + (0.5 if badf(t) else 0.0)
                    return d
                expect_rejected(rep, "unbalanced time-dependent currents (deterministic sample times)", f"dev{di} {what}",
                                lambda out, cur0=cur0: solve(dev, out, opt_over={"solve_time": 0.02}, terminal_currents=cur0), td, f"a{n}"); n += 1
            # unbalanced only on a narrow time window: random sampling misses it (known finding)
            def curw(t):
                bad = 1.0 if 0.0049 < t < 0.00490001 else 0.0
                d = {nm: 1.0 for nm in names[:-1]}
                d[names[-1]] = -(len(names) - 1) * 1.0 + bad
                return d
            expect_rejected(rep, "unbalanced time-dependent currents (narrow window)", f"dev{di} window 1e-8 of the run",
                            lambda out: solve(dev, out, terminal_currents=curw), td, f"a{n}",
                            finding_key="C19-td-unbalanced-window"); n += 1
            # 3. epsilon above 1
            for e in (2.0, 1.0 + 1e-6):
                expect_rejected(rep, "epsilon > 1", f"dev{di} const {e}", lambda out, e=e: solve(dev, out, disorder_epsilon=e), td, f"a{n}"); n += 1
            expect_rejected(rep, "epsilon > 1", f"dev{di} callable, one region",
                            lambda out: solve(dev, out, disorder_epsilon=lambda r: 1.0 + 1e-6 * (r[0] > 0)), td, f"a{n}"); n += 1
            # a time-dependent epsilon that is admissible at t = 0 and rises above 1 later: only the t = 0 values are checked
            # (known finding C19-td-epsilon-above-one-later; a check inside the run would come after output exists)
            def eps_late(r, *, t):
                return 1.0 if t < 0.004 else 2.0
            expect_rejected(rep, "epsilon > 1", f"dev{di} time-dependent, above 1 from t = 0.004 on",
                            lambda out: solve(dev, out, disorder_epsilon=eps_late), td, f"a{n}",
                            finding_key="C19-td-epsilon-above-one-later"); n += 1
            # 4. inconsistent options
            bad_opts = [dict(dt_init=1e-2, dt_max=1e-3), dict(dt_init=1e-3 * (1 + 1e-6), dt_max=1e-3, adaptive=False),
                        dict(dt_init=1e-2, dt_max=1e-3, adaptive=False), dict(terminal_psi=1.0 + 1e-6), dict(terminal_psi=2.0),
                        dict(adaptive_time_step_multiplier=0.0), dict(adaptive_time_step_multiplier=1.0),
                        dict(adaptive_time_step_multiplier=1.5), dict(screening_step_drag=0.0), dict(screening_step_drag=1.0 + 1e-6),
                        dict(screening_step_size=0.0), dict(screening_step_size=-1.0), dict(screening_tolerance=0.0),
                        dict(screening_tolerance=-1e-3), dict(sparse_solver="nosuch"), dict(sparse_solver="cupy"), dict(gpu=True),
                        # options with which no step can be recorded / no solver chosen (a non-positive dt_init is only put to
                        # SolverOptions.validate in the correspondence below: as found, such a run never ended)
                        dict(save_every=0), dict(save_every=-1), dict(sparse_solver=None)]
            # not-a-number where a positive number is required (every comparison with it is false): put to validate() directly -
            # a run with such a value may never end
            for nan_kw in (dict(dt_init=float("nan")), dict(save_every=float("nan"))):
                try:
                    SolverOptions(solve_time=1.0, **nan_kw).validate()
                    rep.violation("ill-posed problem accepted (inconsistent options): SolverOptions.validate() accepts not-a-number",
                                  {"options": str(nan_kw)})
                except ValueError:
                    pass
                rep.count(1)
            for bo in bad_opts:
                expect_rejected(rep, "inconsistent options", f"dev{di} {bo}", lambda out, bo=bo: solve(dev, out, opt_over=bo), td, f"a{n}"); n += 1
            # 6. seed solution from a different device
            other = devs[(di + 1) % len(devs)]
            seed_sol = tdgl.solve(other, SolverOptions(**good))
            expect_rejected(rep, "seed solution from a different device", f"dev{di}",
                            lambda out: solve(dev, out, seed_solution=seed_sol), td, f"a{n}"); n += 1
            # the same film and mesh, but fewer / no terminals (a different device all the same), in both directions
            if len(dev.terminals) >= 1:
                for keep in ([], list(dev.terminals[:-1])):
                    if len(keep) == len(dev.terminals):
                        continue
                    sub = tdgl.Device(dev.name, layer=dev.layer, film=dev.film, holes=list(dev.holes),
                                      terminals=[t_.copy() for t_ in keep], probe_points=dev.probe_points,
                                      length_units=dev.length_units)
                    sub.mesh = dev.mesh
                    try:
                        seed_sub = tdgl.solve(sub, SolverOptions(**good))
                        seed_full = tdgl.solve(dev, SolverOptions(**good))
                    except Exception:  # noqa: BLE001
                        continue
                    expect_rejected(rep, "seed solution from a different device", f"dev{di} seed has {len(keep)} of {len(dev.terminals)} terminals",
                                    lambda out: solve(dev, out, seed_solution=seed_sub), td, f"a{n}"); n += 1
                    expect_rejected(rep, "seed solution from a different device", f"dev{di} seed has {len(dev.terminals)} terminals, target {len(keep)}",
                                    lambda out: solve(sub, out, seed_solution=seed_full), td, f"a{n}"); n += 1
            # same device description, different mesh
            twin = dev.copy(with_mesh=False)
            twin.make_mesh(max_edge_length=1.1, smooth=1)
            if len(twin.mesh.sites) != len(dev.mesh.sites):
                seed2 = tdgl.solve(twin, SolverOptions(**good))
                expect_rejected(rep, "seed solution computed on a different mesh", f"dev{di}",
                                lambda out: solve(dev, out, seed_solution=seed2), td, f"a{n}"); n += 1
            # 7. vector potential of the wrong shape
            expect_rejected(rep, "vector potential of the wrong shape", f"dev{di} scalar field",
                            lambda out: solve(dev, out, applied_vector_potential=lambda x, y, z: np.ones((len(x) + 1, 3))), td, f"a{n}"); n += 1
            for shp_name, shp in (("one column", lambda m: (m, 1)), ("flat", lambda m: (m,)), ("transposed", lambda m: (3, m)),
                                  ("no columns", lambda m: (m, 0))):
                expect_rejected(rep, "vector potential of the wrong shape", f"dev{di} callable returning {shp_name}",
                                lambda out, shp=shp: solve(dev, out, applied_vector_potential=lambda x, y, z: 0.1 * np.ones(shp(len(x)))),
                                td, f"a{n}", also=(IndexError,)); n += 1      # a flat array fails in the column slice: an error, nothing written
            # 5. a terminal that touches no boundary
            t_in = tdgl.Polygon("inner", points=box(0.3, 0.3, center=(0.4, 1.2)))
            try:
                dbad = tdgl.Device("bad", layer=dev.layer, film=dev.film, holes=list(dev.holes),
                                   terminals=list(dev.terminals) + [t_in], length_units="um")
                dbad.make_mesh(max_edge_length=1.6)
                expect_rejected(rep, "terminal touching no boundary", f"dev{di}",
                                lambda out: solve(dbad, out), td, f"a{n}"); n += 1
            except Exception:  # noqa: BLE001
                pass
            # 5b. history form: a device that has been solved successfully; then one of its terminals is moved in place far off
            # the film (no re-meshing) - the next solve of the same object must be rejected like a fresh one
            dh = dev.copy(with_mesh=True)
            balanced = {nm: 0.0 for nm in names}
            balanced[names[0]], balanced[names[1]] = 1.0, -1.0
            try:
                solve(dh, os.path.join(td, f"hist_ok_{di}.h5"), terminal_currents=balanced)
                dh.terminals[0].translate(dx=100.0, dy=37.0, inplace=True)
                expect_rejected(rep, "terminal touching no boundary", f"dev{di}: terminal moved off the film in place after a successful solve",
                                lambda out: solve(dh, out, terminal_currents=balanced), td, f"a{n}"); n += 1
            except Exception as e:  # noqa: BLE001
                rep.violation(f"a well-posed problem was rejected: {type(e).__name__}: {e}"[:200], {"device": di, "form": "history"})
        # environment form: the application has configured logging at DEBUG level (root and "solver" loggers, its own handler);
        # what is rejected must not depend on what is logged
        import io
        import logging
        lg_root, lg_solver = logging.getLogger(), logging.getLogger("solver")
        old_levels = (lg_root.level, lg_solver.level)
        hdl = logging.StreamHandler(io.StringIO())
        lg_root.addHandler(hdl)
        lg_root.setLevel(logging.DEBUG)
        lg_solver.setLevel(logging.DEBUG)
        try:
            dev = devs[0]
            names = [t.name for t in dev.terminals]
            cur = {nm: 1.0 for nm in names[:-1]}
            cur[names[-1]] = -(len(names) - 1) * 1.01
            expect_rejected(rep, "unbalanced currents", "DEBUG logging enabled, rel=1e-2",
                            lambda out, cur=cur: solve(dev, out, terminal_currents=cur), td, f"a{n}"); n += 1

            def curf_dbg(t):
                d = {nm: 1.0 + t for nm in names[:-1]}
                d[names[-1]] = -(len(names) - 1) * (1.0 + t) * 1.5
                return d
            expect_rejected(rep, "unbalanced time-dependent currents (all times)", "DEBUG logging enabled",
                            lambda out: solve(dev, out, terminal_currents=curf_dbg), td, f"a{n}"); n += 1
            expect_rejected(rep, "epsilon > 1", "DEBUG logging enabled", lambda out: solve(dev, out, disorder_epsilon=1.5), td, f"a{n}"); n += 1
            expect_rejected(rep, "inconsistent options", "DEBUG logging enabled, dt_init > dt_max",
                            lambda out: solve(dev, out, opt_over=dict(dt_init=1e-2, dt_max=1e-3)), td, f"a{n}"); n += 1
        finally:
            lg_root.removeHandler(hdl)
            lg_root.setLevel(old_levels[0])
            lg_solver.setLevel(old_levels[1])
        # 8. invalid polygons and device definitions (rejected at construction: nothing can be written)
        def bowtie():
            tdgl.Polygon("p", points=np.array([[0, 0], [1, 1], [1, 0], [0, 1]]))

        def ring():
            from shapely.geometry import Polygon as SP
            tdgl.Polygon("p", points=SP(box(4, 4, points=40), holes=[circle(1, points=20)]))

        layer = devs[0].layer
        film = tdgl.Polygon("film", points=box(4, 4, points=40))

        def dup_terms():
            tdgl.Device("d", layer=layer, film=film, terminals=[tdgl.Polygon("a", points=box(1, 1)), tdgl.Polygon("a", points=box(1, 1, center=(1, 1)))])

        def noname_term():
            tdgl.Device("d", layer=layer, film=film, terminals=[tdgl.Polygon(points=box(1, 1))])

        def dup_holes():
            tdgl.Device("d", layer=layer, film=film, holes=[tdgl.Polygon("h", points=circle(0.3)), tdgl.Polygon("h", points=circle(0.3, center=(1, 1)))])

        def probes_outside():
            tdgl.Device("d", layer=layer, film=film, probe_points=[(0, 0), (10, 10)])

        def probes_shape():
            tdgl.Device("d", layer=layer, film=film, probe_points=[0.0, 1.0, 2.0])

        def noname_film():
            tdgl.Device("d", layer=layer, film=tdgl.Polygon(points=box(4, 4, points=40)))

        def probe_in_hole():
            tdgl.Device("d", layer=layer, film=film, holes=[tdgl.Polygon("h", points=circle(0.5, center=(1, 1)))], probe_points=[(0, 0), (1, 1)])

        def points_3d():
            tdgl.Polygon("p", points=np.array([[0, 0, 0], [1, 0, 0], [1, 1, 0], [0, 1, 0]], dtype=float))

        def two_points():
            tdgl.Polygon("p", points=np.array([[0.0, 0.0], [1.0, 1.0]]))

        def disjoint_union():
            tdgl.Polygon("a", points=box(1, 1)).union(tdgl.Polygon("b", points=box(1, 1, center=(5, 5))))

        def empty_intersection():
            tdgl.Polygon("a", points=box(1, 1)).intersection(tdgl.Polygon("b", points=box(1, 1, center=(5, 5))))

        def split_difference():
            tdgl.Polygon("a", points=box(4, 1)).difference(tdgl.Polygon("b", points=box(1, 3)))

        def invalid_film():
            bad = tdgl.Polygon("film", points=box(4, 4, points=40))
            bad._points = np.array([[0, 0], [1, 1], [1, 0], [0, 1], [0, 0]], dtype=float)      # corrupted after construction
            tdgl.Device("d", layer=layer, film=bad)

        for nm, f in (("probe point inside a hole", probe_in_hole), ("polygon points of shape (n, 3)", points_3d),
                      ("polygon with two points", two_points), ("union of disjoint polygons", disjoint_union),
                      ("empty intersection", empty_intersection), ("difference that splits the polygon", split_difference),
                      ("device built on an invalid film polygon", invalid_film)):
            expect_rejected(rep, "invalid polygon / device definition", nm, lambda out, f=f: f(), td, f"a{n}"); n += 1

        for nm, f in (("self-intersecting polygon", bowtie), ("polygon with interior ring", ring), ("duplicate terminal names", dup_terms),
                      ("terminal without a name", noname_term), ("duplicate hole names", dup_holes), ("probe points outside the film", probes_outside),
                      ("probe points of the wrong shape", probes_shape), ("film without a name", noname_film)):
            expect_rejected(rep, "invalid polygon / device definition", nm, lambda out, f=f: f(), td, f"a{n}"); n += 1

        # ---------- well-posed stream: must be accepted ----------
        for di, dev in enumerate(devs):
            names = [t.name for t in dev.terminals]
            okcur = {nm: 0.1 for nm in names[:-1]}
            okcur[names[-1]] = -sum(okcur.values())
            for kw in (dict(), dict(terminal_currents=okcur), dict(disorder_epsilon=1.0), dict(disorder_epsilon=-1.0),
                       dict(opt_over=dict(terminal_psi=1.0)), dict(opt_over=dict(dt_init=4e-3, dt_max=4e-3)),
                       dict(opt_over=dict(screening_step_drag=1.0, include_screening=False))):
                def call(work, kw=kw):
                    solve(dev, os.path.join(work, "ok.h5"), **kw)
                exc, left = attempt(call, td, f"ok{n}"); n += 1
                if exc is not None:
                    rep.violation(f"a well-posed problem was rejected: {type(exc).__name__}: {exc}"[:200], {"device": di, "kwargs": str(kw)[:120]})
                rep.count(1)

    # ---------------- correspondence: options.validate and the balance test ----------------
    vals = dict(dt=[Fraction(1, 1000), Fraction(1, 100), Fraction(0), Fraction(-1, 1000)], save=[10, 1, 0, -1, 3, 10], psi=[None, Fraction(0), Fraction(1), Fraction(1000001, 1000000), Fraction(-1, 2), Fraction(3, 2)],
                mult=[Fraction(0), Fraction(1, 4), Fraction(1), Fraction(3, 2), Fraction(-1, 4)],
                drag=[Fraction(0), Fraction(1, 2), Fraction(1), Fraction(1000001, 1000000)],
                size=[Fraction(0), Fraction(1, 10), Fraction(-1)], tol=[Fraction(0), Fraction(1, 1000), Fraction(-1, 1000)])
    cases = []
    for dti in vals["dt"]:
        for dtm in vals["dt"]:
            for psi in vals["psi"]:
                for mult in vals["mult"]:
                    for drag, size, tol in ((Fraction(1, 2), Fraction(1, 10), Fraction(1, 1000)),
                                            (rng.choice(vals["drag"]), rng.choice(vals["size"]), rng.choice(vals["tol"]))):
                        cases.append((dti, dtm, psi, mult, drag, size, tol, Fraction(rng.choice(vals["save"]))))
    impl = []
    flag_dependent = []
    for (dti, dtm, psi, mult, drag, size, tol, sev) in cases:
        verdicts = []
        # the decision must not depend on switches that are not part of the checked relations (the model has none)
        for adaptive, screening in ((True, False), (False, False), (True, True), (False, True)):
            o = SolverOptions(solve_time=1.0, dt_init=float(dti), dt_max=float(dtm), terminal_psi=None if psi is None else float(psi),
                              adaptive_time_step_multiplier=float(mult), screening_step_drag=float(drag), screening_step_size=float(size),
                              screening_tolerance=float(tol), adaptive=adaptive, include_screening=screening, save_every=int(sev))
            try:
                o.validate()
                verdicts.append(1)
            except ValueError:
                verdicts.append(0)
        impl.append(verdicts[0])
        if len(set(verdicts)) > 1:
            flag_dependent.append(((dti, dtm, psi, mult, drag, size, tol, sev), verdicts))
    for c_, v_ in flag_dependent[:5]:
        rep.violation("inconsistent solver options are rejected or accepted depending on adaptive / include_screening "
                      "(accepted in at least one setting)",
                      {"options": [str(x) for x in c_], "accepted[(adaptive,screening)=(T,F),(F,F),(T,T),(F,T)]": v_})
    q = lambda f: f"({f.numerator}#{f.denominator})"
    lits = [f"(Build_vopts {q(a)} {q(b)} {('None' if c is None else '(Some ' + q(c) + ')')} {q(d)} {q(e)} {q(f)} {q(g)} {q(h)})"
            for (a, b, c, d, e, f, g, h) in cases]
    cur_cases = []
    for _ in range(300):
        m = rng.randint(2, 4)
        v = [Fraction(rng.randint(-50, 50), rng.choice([1, 2, 3, 7, 10])) for _ in range(m - 1)]
        # imbalance relative to the size of the currents, and an overall scale: the test must be scale-relative
        # (the currents reach it rescaled to dimensionless units, anything from 1e-12 to 1e6)
        size = sum(abs(x) for x in v) or Fraction(1)
        v.append(-sum(v) + size * rng.choice([0, 0, Fraction(1, 10 ** 3), Fraction(1, 10 ** 6), Fraction(1, 10 ** 8),
                                               Fraction(1, 10 ** 10), Fraction(1, 10 ** 12), Fraction(1, 2)]) * rng.choice([1, -1]))
        scale = Fraction(10) ** rng.randint(-12, 6)
        v = [x * scale for x in v]
        cur_cases.append(v)
    from tdgl.solver.solver import validate_terminal_currents
    from types import SimpleNamespace
    cimpl = []
    for v in cur_cases:
        info = [SimpleNamespace(name=f"t{i}") for i in range(len(v))]
        try:
            validate_terminal_currents({f"t{i}": float(x) for i, x in enumerate(v)}, info, None)
            cimpl.append(1)
        except ValueError:
            cimpl.append(0)
    # where the time-dependent currents are sampled: Model.Validate.sample_tmax (= max(solve_time, skip_time)); the observed
    # sample times must lie in [0, tmax] and contain the model's deterministic ones, 0 and tmax (Model.Validate.sample_times ... [])
    samp_cases, samp_obs = [], []
    for solve_t, skip_t in ((0.3, 0.0), (0.2, 1.0), (1.0, 0.2), (0.5, 0.5), (1e-3, 40.0), (7.0, 1e-2)):
        seen_t = []

        def rec_cur(t_, seen_t=seen_t):
            seen_t.append(float(t_))
            return {"t0": 1.0, "t1": -1.0}
        validate_terminal_currents(rec_cur, [SimpleNamespace(name="t0"), SimpleNamespace(name="t1")],
                                   SimpleNamespace(solve_time=solve_t, skip_time=skip_t))
        samp_cases.append((solve_t, skip_t))
        samp_obs.append((min(seen_t), max(seen_t), len(seen_t)))
    samp_lits = [f"({q(Fraction(a))}, {q(Fraction(b))}, {q(Fraction(lo))}, {q(Fraction(hi))})" for (a, b), (lo, hi, _) in zip(samp_cases, samp_obs)]
    t = ("From Coq Require Import List QArith ZArith Bool.\nImport ListNotations.\nFrom PyTdgl Require Import Model.Validate.\n"
         f"Eval vm_compute in map (fun o => if validate_ok o then 1%Z else 0%Z) {coq_list(lits, per_line=1)}.\n"
         f"Eval vm_compute in map (fun c => if accepts_currents c then 1%Z else 0%Z) "
         f"{coq_list([coq_list([q(x) for x in v], per_line=6) for v in cur_cases], per_line=1)}.\n")
    t += ("Eval vm_compute in map (fun '(a, b, lo, hi) => let m := sample_tmax true a b in\n"
          "  (if Qle_bool 0 lo then 1%Z else 0%Z, if Qle_bool hi m then 1%Z else 0%Z,\n"
          "   if forallb (fun t => Qeq_bool t lo || Qeq_bool t hi) (sample_times true a b []) then 1%Z else 0%Z)) "
          f"{coq_list(samp_lits, per_line=1)}.\n")
    rc, out = common.run_model("c19_validate", t)
    ndis = 0
    if rc != 0:
        rep.not_shown("correspondence: model evaluation failed", {"log": out[-1500:]})
    else:
        mv = [int(x) for x in common.parse_nested(common.eval_block(out, 0))[0]]
        for c, a, b in zip(cases, mv, impl):
            if a != b:
                ndis += 1
                if ndis < 8:
                    rep.not_shown("correspondence: SolverOptions.validate differs from Model.Validate.validate_ok",
                                  {"options": [str(x) for x in c], "model_accepts": a, "impl_accepts": b})
        ms = common.parse_nested(common.eval_block(out, 2))[0]
        for (solve_t, skip_t), (lo, hi, cnt), flags in zip(samp_cases, samp_obs, ms):
            if [int(x) for x in flags] != [1, 1, 1]:
                ndis += 1
                rep.not_shown("correspondence: the times at which time-dependent currents are validated are not spread over "
                              "[0, Model.Validate.sample_tmax] = [0, max(solve_time, skip_time)]",
                              {"solve_time": solve_t, "skip_time": skip_t, "min_sample": lo, "max_sample": hi, "samples": cnt,
                               "model_flags(0<=lo, hi<=tmax, {0, tmax} = {lo, hi})": [int(x) for x in flags]})
        mc = [int(x) for x in common.parse_nested(common.eval_block(out, 1))[0]]
        for v, a, b in zip(cur_cases, mc, cimpl):
            # rounding of the float sum may differ from the exact sum only below 1e-12 relative
            tot, sc = abs(sum(v)), sum(abs(x) for x in v)
            if b == 1 and sc > 0 and tot * 10 ** 6 >= sc * Fraction(999, 1000):
                rep.violation("validate_terminal_currents accepts currents unbalanced by one part in 1e6 or more",
                              {"currents": [float(x) for x in v], "relative_imbalance": float(tot / sc)})
                continue
            if a != b and not (sc > 0 and abs(float(tot) / float(sc) - 1e-9) < 1e-12):
                ndis += 1
                if ndis < 8:
                    rep.not_shown("correspondence: current balance test differs from Model.Validate.accepts_currents",
                                  {"currents": [str(x) for x in v], "model_accepts": a, "impl_accepts": b})
    rep.coverage.update({"option_cases_compared": len(cases), "current_cases_compared": len(cur_cases),
                         "correspondence_disagreements": ndis})
    rep.sample({"class": "unbalanced currents", "relative_imbalances": [1.0, 1e-2, 1e-4, 1e-6]})
    rep.sample({"class": "inconsistent options", "instances": 15})
    rep.assumptions += ["time-dependent currents are validated by random sampling in the code: a defect on a narrow time window "
                        "is a known finding (KNOWN-FINDING line), not decidable before the run"]
    return rep.finish(level="proof", trusted_base=common.STD_TRUSTED,
                      rule="one evaluation = one rejected (or accepted) problem, with and without an explicit output path; "
                           "non-trivial = distinct (class, instance)")
