"""Regenerates /verif/MANIFEST.json from the table below (kept in one place so it stays valid)."""
import json
from pathlib import Path

ROOT = Path(__file__).resolve().parent.parent

CLAIMED = {
    "C02": dict(
        text="Coq theorems over R for every per-site input (root_sound, root_refuses, root_complete, z/w as documented, "
             "all-sites-or-refuse) + correspondence of the Gallina model (PrimFloat, vm_compute) with "
             "TDGLSolver.solve_for_psi_squared on ~20k generated sites per run + 80-digit oracle of the property on the "
             "implementation's outputs. Rounding itself is not analysed (theorems are in exact arithmetic).",
        note="Coq kernel; stdlib real-number axioms (sig_forall_dec, sig_not_dec, functional_extensionality_dep); "
             "model tied to code by sampled differential check; numpy exp passed as data.",
        technique="Coq proof over R of the model + vm_compute/PrimFloat correspondence with the real function",
        design="7/C02"),
    "C03": dict(
        text="Coq theorems for every finite edge list, every non-zero area function, every weight and field: L = D.G, "
             "area-weighted sum of divergence = 0, boundary-flux integral, symmetric + negative semi-definite (discrete Green "
             "identity), kernel = constants on a positively-connected mesh, Hermitian covariant Laplacian for arbitrary complex "
             "links, gradient exact on linear functions; correspondence of the COO builders with the four build_* functions "
             "(every stored entry, PrimFloat) on Delaunay and Triangle meshes; identities re-checked on the implementation's matrices.",
        note="Coq kernel; stdlib real-number axioms; sparse-matrix duplicate-summing semantics modelled (apply_coo) and compared; "
             "numpy exp passed as data.",
        technique="Coq proof by induction over edge lists + vm_compute/PrimFloat entry-wise correspondence",
        design="7/C03"),
    "C10": dict(
        text="Coq theorem: for every mesh with canonical (sorted, duplicate-free) edges, every pinned set and every finite "
             "sequence of link variables, the in-place refreshed Laplacian equals the rebuilt one at every entry (pinned rows "
             "included); trigger theorem: with an exact comparison the operators hold the latest potential after every step "
             "(and a refutation for the tolerance comparison the code used before the fix). Correspondence: MeshOperators after "
             "1-6 refreshes vs Model.Refresh.ops_after (every stored entry) and vs a rebuild (bit-for-bit); real runs with "
             "ramped / piecewise fields and screening checked after every update.",
        note="Coq kernel; stdlib real-number axioms; scipy sparse __setitem__ modelled as ordered overwrites (set_many) and "
             "compared; numpy exp passed as data.",
        technique="Coq proof (induction over refresh sequences, NoDup positions) + vm_compute correspondence + rebuild oracle",
        design="7/C10"),
    "C01": dict(
        text="Coq theorems: per-cell continuity D(Js+Jn) = B mu_boundary for every mesh/psi/links/boundary data whenever the "
             "linear solve returned a solution (uses L = D.G) - and, for the solver as coded with the potential fixed at site 0, whenever the rows r <> 0 hold and the injection is balanced (continuity_pinned; the defect of cell 0 is otherwise the whole imbalance) - total injection = sum len x density, and L_t * density_t = I_t for "
             "every balanced assignment; the change-only cache of update_mu_boundary is coherent after any call sequence "
             "(cache_coherent), whichever of CPython's two summation paths runs. Correspondence: update_mu_boundary call "
             "sequences (bit-exact, both summation paths); real TDGLSolver.update calls vs Model.Step.step (psi', Js, Jn, rhs; SuperLU "
             "contract measured against the true mesh Laplacian, every row). Oracle on every update of real runs (2-4 terminals, holes, static/ramped field, constant and "
             "time-dependent currents, screening, three current units) and an accept/reject table of balanced assignments.",
        note="Coq kernel; stdlib real-number axioms; SuperLU an oracle with measured contract; terminal membership (matplotlib Path) "
             "taken as data; cache_coherent assumes terminals cover disjoint boundary edges.",
        technique="Coq proof over R + vm_compute step correspondence + per-update continuity oracle",
        design="7/C01"),
    "C04": dict(
        text="Coq theorems for arbitrary unit-modulus site phases: covariant gradient and Laplacian transform covariantly, "
             "supercurrent invariant, per-site Euler update covariant, and a whole solve step (pinned rows included) is covariant: "
             "same verdict, psi' = g psi', same mu, Js, Jn; run_covariant lifts this to every step of a run (psi and mu threaded, time-dependent links). Correspondence: operators built for A + grad chi vs model gauge_links; "
             "oracle on implementation operators and on pairs of real runs with uniformly shifted A started from gauge-related seeds.",
        note="Coq kernel; stdlib real-number axioms; exp/cos/sin only through unit modulus (g passed as data); run-level induction over "
             "steps is exercised by run pairs, the per-step theorem is proved.",
        technique="Coq proof over R (complex algebra) + vm_compute correspondence + gauge-twin runs",
        design="7/C04"),
    "C06": dict(
        text="Coq theorems: pinned rows are identity rows for any links; psi = 0 on a pinned site is a fixed point of the update for "
             "every mu, eps, dt (so every step and screening iteration keeps it); a configured non-zero value is re-imposed after the "
             "update (held exactly); both lifted to every step of a run (run_terminal_zero, run_pinned_value_held); rows outside the pinned set equal the unpinned rows; with terminal_psi = None nothing is pinned. "
             "Correspondence: update calls vs Model.Step.step with the pinned set; oracle on every update of real runs for "
             "terminal_psi in {0, None, 1, 0.5+0.5j, 0.3}, screening on/off.",
        note="Coq kernel; stdlib real-number axioms; SuperLU oracle.",
        technique="Coq proof over R + vm_compute step correspondence + per-update pinning oracle",
        design="7/C06"),
    "C17": dict(
        text="Coq theorems in exact arithmetic for every mesh: Laplacians annihilate constants, (psi=1, eps=1, lap=0, mu=0) is a "
             "fixed point of the site update for every gamma, u != 0, dt, and a full step maps the uniform state to itself with "
             "Js = Jn = mu = 0; stationary_forever: every step of a run with any dt sequence; dt_grows_to_max: dt_init up to step window+1, dt_max ever after. Correspondence: update calls vs Model.Step.step; oracle on every update of undriven real runs "
             "(irregular/smoothed/holed meshes, unpinned terminals, 4 gamma, 2 u, adaptive on/off, screening) incl. growth of dt to dt_max.",
        note="Exact theorem; binary64 noise bounded by measurement (1e-11) with dt_max inside the scheme's CFL region (stated guard).",
        technique="Coq proof over R + vm_compute step correspondence + stationarity oracle",
        design="7/C17"),
    "C05": dict(
        text="Coq theorems for every save interval k >= 1, every answering update function, initial state and stop time: the loop "
             "produces exactly run_frames N (N = first step whose time reaches the stop time); frames at 0,k,2k,... and N; a frame "
             "labelled s holds the state after exactly s updates and the time accumulated by the first s steps; per-step records "
             "concatenate to one record per step in order; Solution.times computed from the per-step dt equals the frame times (times_are_frame_times / times_from_records); thermalisation leaves no trace (thermalisation_unrecorded); refutation of the loop as found (stop test after the update). "
             "Correspondence: the REAL Runner + DataHandler (HDF5) driven by a scripted update, exhaustively over k in 1..N+2, "
             "N in 0..12, 4 step scripts, thermalisation, stop position, probe/screening columns (3190 histories), every frame and "
             "buffer vs Model.Runner.run (exact); readers DynamicsData.from_hdf5 and Solution.times vs the model; real tdgl.solve runs.",
        note="Coq kernel, no axioms (closed under the global context); h5py store/load fidelity measured; update function scripted "
             "in the exhaustive stream.",
        technique="Coq proof (loop invariant by induction) + exhaustive bounded correspondence against the real Runner",
        design="7/C05"),
    "C11": dict(
        text="Coq theorems: frames with equal step labels carry equal state, time and dt for any two save intervals (the "
             "trajectory does not mention how it is observed); with an autonomous update n+m steps equal n steps followed by m "
             "steps from the reached state. Oracle on the implementation: real runs differing only in save_every / output "
             "destination / progress interval / probes compared frame by frame bit-for-bit (sha256); a 12-step fixed-step run "
             "split at every point and resumed via seed_solution reproduces the uninterrupted frames bit for bit.",
        note="Coq kernel, no axioms; frame-label semantics tied to the real Runner in C05; bit-identity is measured, aliasing "
             "bugs show up as differing hashes.",
        technique="Coq proof over the Runner model + bit-for-bit differential runs",
        design="7/C11"),
    "C15": dict(
        text="Coq theorems: an exception in update call p leaves exactly the frames recorded before it (labels 0,k,2k,..<=p); a "
             "cancellation leaves exactly the frames of a run ending at step p; the output name chosen by the exclusive-create "
             "loop is fresh, nothing pre-existing is touched, only the chosen pair is added and close() removes the .tmp file "
             "(with a refutation for the stray file the code left before the fix). Correspondence + oracle: 144 real runs with "
             "an injected RuntimeError/KeyboardInterrupt at every update call, every frame-writer call and inside the writer, "
             "both stages, explicit/temporary output, pre-existing files: exception/return, listings, byte-identity of existing "
             "files, open HDF5 handles, readability, frame labels and contents vs a fault-free reference. PARTIAL: faults are "
             "injected at Python call boundaries; OS-level failures are not exhibited.",
        note="Coq kernel, no axioms; h5py/OS are oracles; labelled partial for runtime behaviour below the Python level.",
        technique="Coq proof (fault lemma by induction; file-name loop) + exhaustive fault injection on the real code",
        design="7/C15"),
    "C12": dict(
        text="Coq theorems: every step used is positive and <= the effective maximum and the invariant is preserved by every step "
             "(any refusal pattern, any history of |d|psi|^2| values) and hence in every whole history (all_steps_bounded); adaptivity off => every step equals dt_init and a refusal "
             "raises; after the warm-up window the proposal equals min(1/2 (dt + dt_init/delta), dt_max) with delta = "
             "max(1e-10, windowed mean); the step used is tentative * mult^r with r = number of refusals <= max_retries+1; "
             "Model.Update wraps the retry loop around the solve step: an answered update is the step at the reported dt and "
             "every larger attempt was refused by the step itself; the adaptive solver loop is a run_steps run with the chosen dt; "
             "exhausting the retries raises. Correspondence: real TDGLSolver.update stepped with injected refusals over random "
             "settings vs Model.Adapt.astep (PrimFloat, dt used bit-exact, proposal to 1e-12); oracle = documented rule in Python.",
        note="Coq kernel; stdlib real-number axioms; np.mean summation order compared with tolerance 1e-12.",
        technique="Coq proof over R (invariant, induction over retries) + vm_compute correspondence with injected refusals",
        design="7/C12"),
    "C13": dict(
        text="Coq theorems: the kernel equals the direct double sum (any currents, areas, point sets) and is linear; any iterate "
             "returned by the screening loop passed the convergence test with an error that IS the relative mismatch between the "
             "kernel of the last currents and the previous iterate; edge-wise bound |dA_e| < tol max(1e-20,|A'_e|); stored mismatch "
             "K - A' = dA - v' for the next Polyak iterate A' (exactly (1-alpha) dA for beta = 1); the potential the repaired code keeps is "
             "the tested iterate P', for which |K - P'|_e < tol max(1e-20,|A'_e|) holds for every step size and drag "
             "(stored_tested_iterate_mismatch: the full statement); iteration count <= max+1; the "
             "loop always decides. Correspondence: get_A_induced_numba and get_induced_vector_potential vs the model (PrimFloat); "
             "the kept potential equals the iterate handed to the last get_induced_vector_potential call (bitwise); "
             "oracle on every step of real screening runs (ordinary, nm-stated and weakly screening films; alarm at 4 x tolerance), "
             "forced non-convergence, screening disabled (also seeded).",
        note="Coq kernel; stdlib real-number axioms; fastmath reassociation allowed by tolerance 1e-9; site averaging passed as data.",
        technique="Coq proof over R (loop invariant) + vm_compute correspondence of kernel and Polyak step + run oracle",
        design="7/C13"),
    "C16": dict(
        text="Coq theorems by structural induction (any depth): evaluating a composite = evaluating the operands (time only to "
             "time-dependent ones) and applying exact rational arithmetic, errors propagating left to right; time_dependent iff "
             "some leaf is time-dependent; construction raises only for number-number; equality reflexive, symmetric, "
             "flag-preserving and false (never an error) across shapes; _clear_cache complete (and a refutation of the code as "
             "found). Correspondence: ALL 60,480 composites with operands of depth <= 1 generated identically in Python (real "
             "CompositeParameter) and in Coq, compared on value / exception kind at two argument patterns, flag, construction "
             "errors, == on sampled pairs. Oracle on the real objects: pointwise recursion, pickling round trip, cache "
             "clearing, scalar and array arguments, operator overloads in both orders, acceptance by tdgl.solve.",
        note="Coq kernel; no axioms beyond the standard library's Q (none); user functions are data (leaf values); float power "
             "only modelled for small natural exponents (others marked Unsupported and checked by the oracle only).",
        technique="Coq structural-induction proofs + exhaustive depth-2 enumeration correspondence",
        design="7/C16"),
    "C14": dict(
        text="Coq theorems: option sets load back unchanged, None-valued ones included (explicit empty attribute), with a "
             "refutation for the code as found; the stored polygon vertex list is a fixed point of the points setter "
             "(close + counter-clockwise orientation), so reloading stored points is the identity; equal parameter trees have "
             "equal flags. Oracle/correspondence on the real code: 40 solver-option combinations incl. every None-able field "
             "x parameter kinds (float, Parameter, composite, time-dependent composite) saved, loaded, compared (equals, "
             "options field by field, every recorded step, parameters EVALUATED); devices with/without holes, terminals, probes, "
             "mesh; meshes full / compressed / recomputed from the triangulation array by array (bit-equal); pickles. "
             "PARTIAL: device/mesh/data round trips are measured per instance, not proved (h5py is an oracle).",
        note="Coq kernel; stdlib real axioms (Geom over R); h5py/cloudpickle fidelity measured, not modelled.",
        technique="Coq proofs for options/polygon normalisation + differential round trips on the real objects",
        design="7/C14"),
    "C19": dict(
        text="Coq theorems: if any pre-run check fails no output file, no temporary directory and no run event occur; each class "
             "of inconsistent option (dt_init > dt_max, |terminal_psi| > 1, multiplier outside (0,1), drag outside (0,1], step "
             "size <= 0, tolerance <= 0) is rejected and every consistent option set is accepted; balanced currents accepted, a "
             "relative imbalance >= 1e-6 rejected; time-dependent currents unbalanced at all times rejected for every non-empty "
             "sample, and a refutation for defects confined to unsampled times (recorded as a KNOWN FINDING). Oracle: every "
             "enumerated class instantiated on several devices and magnitudes (gross .. 1e-6), with and without an explicit "
             "output path: must raise ValueError/TypeError and leave the output directory and a private TMPDIR unchanged; "
             "well-posed stream accepted. Correspondence: SolverOptions.validate and the balance test vs Model.Validate (exact Q).",
        note="Coq kernel; no axioms (Q); GPU/solver-name checks exercised by the oracle only; sampling defect is a known finding.",
        technique="Coq proofs over Q + exact-rational correspondence + rejection/no-residue oracle",
        design="7/C19"),
    "C18": dict(
        text="Coq theorems for every vertex list: the points setter stores a closed, counter-clockwise ring and is idempotent; "
             "membership (crossing test) is preserved when shape and point are translated or scaled (positive factors) together; translation and rotation preserve the signed area of a closed ring, scaling about any origin multiplies it by "
             "fx*fy (reflections included), reversal flips the orientation. Correspondence: stored vertices vs "
             "Model.Geom.normalise (bit-exact) and transformed vertices vs the model's affine maps (PrimFloat); set-operation "
             "results vs the model's crossing-number test evaluated EXACTLY over Q on the operands, combined pointwise. Oracle: "
             "areas, point mapping under the transforms, no aliasing/mutation by non-in-place operations and copies, chains of "
             "set operations, operator forms, Device membership = film and not holes, device transforms leave the original "
             "untouched. PARTIAL: GEOS clipping and matplotlib membership are exercised, not proved; 'points map consistently' "
             "is checked, the membership-invariance theorem is not proved.",
        note="Coq kernel; stdlib real axioms; shapely/GEOS and matplotlib Path are oracles with the pointwise contract measured.",
        technique="Coq proofs of the polygon algebra + exact-rational crossing-number correspondence for set operations",
        design="7/C18"),
    "C20": dict(
        text="Coq theorems: the Biot-Savart kernel equals mu0/4pi sum_k a_k (K_k x r)/|r|^3 (SI form) for arbitrary sources and "
             "points, is linear in the sheet currents in all three components, scalar mode is the z component of vector mode, the "
             "total is the sum of the supercurrent and normal-current parts, the Coulomb-kernel potential is the direct double sum "
             "and homogeneous, H<->B conversions round-trip, distance kernels meet their definitions. Correspondence: "
             "biot_savart_2d (both modes) and distance.cdist vs Model.Kernels (PrimFloat) for random currents, off-plane points, "
             "three length and current units. Oracle: direct SI summation, superposition on the implementation, "
             "Solution.field_at_position / vector_potential_at_position totals and parts on real solutions, conversions chained "
             "on their own output. NOT DECIDED BY PROOF: the closed-form loop potential (elliptic integrals) is only compared with "
             "quadrature numerically.",
        note="Coq kernel; stdlib real axioms; fastmath kernels to 1e-9; pint factors as numbers; elliptic integrals unavailable.",
        technique="Coq proofs over R (sums, linearity) + vm_compute/PrimFloat correspondence + SI direct-sum oracle",
        design="7/C20"),
    "C08": dict(
        text="Coq theorems: two descriptions (unit system + numbers) of the same physical device, field and currents give the "
             "same dimensionless link exponents, terminal boundary densities and screening kernel weights; K0 (output scale) is "
             "unit independent; the midpoint-rule phase around ANY triangle in a uniform field is exactly B x signed area, i.e. "
             "2 pi flux / Phi_0 in the solver's units. Correspondence: A_scale, J_scale and the screening area factor of real "
             "TDGLSolver instances vs Model.Units for all 27 unit triples and random (xi, lambda, d). Oracle: per-triangle sum of "
             "the implementation's link exponents vs 2 pi flux/Phi_0; the same physical problem run in three unit systems "
             "(one shared dimensionless mesh) agrees frame by frame and in physical output units, screening on and off.",
        note="Coq kernel; stdlib real axioms; 'to rounding' measured (1e-8 / 1e-6 with screening), not proved; pint constants "
             "passed as numbers; the induction over steps is the step model of C01/C02/C13 (function of the dimensionless inputs).",
        technique="Coq field-algebra proofs + vm_compute correspondence of scale factors + unit-twin runs",
        design="7/C08"),
    "C09": dict(
        text="PARTIAL. Coq theorems: any schedule of a prange kernel whose iterations write only their own row (any permutation, "
             "any interleaving at iteration granularity, any initial content of the np.empty buffer) yields the sequential "
             "result and overwrites every cell; the random sample times of the current validation cannot change the verdict "
             "for a constant current function; get_edges is a function of the multiset of triangle edges (triangle order and "
             "vertex rotation/orientation irrelevant). Measured (not provable): fresh-process runs with NUMBA_NUM_THREADS in "
             "{1,2,4,16}, different output directories and PYTHONHASHSEEDs give bit-identical mesh arrays, datasets and "
             "bookkeeping (sha256; timestamps excluded), for screening on/off, adaptive on/off, time-dependent drive.",
        note="Coq kernel, no axioms; compiler-level reassociation under fastmath, BLAS/SuperLU determinism and dict ordering are "
             "runtime behaviour the model cannot exhibit.",
        technique="Coq proofs of schedule independence + fresh-process bit-identity measurement",
        design="7/C09"),
    "C07": dict(
        text="PARTIAL. Coq theorems: the code's circumcentre formula gives a point equidistant from the three vertices of any "
             "non-degenerate triangle, lying on the perpendicular bisector of every side (so dual edges are pieces of Voronoi "
             "faces); the three kites around any point tile the triangle (signed areas), hence kite sums add up to the "
             "triangulated area; edge vectors/lengths/centres are those of the site pairs; boundary detection is a function of "
             "the triangle set. Per generated mesh (10 devices quick / 60 thorough from the documented primitives, 0-2 holes, "
             "0-4 terminals, smoothing, three max_edge_length and coherence lengths) EVERY site, edge and triangle is checked: "
             "tiling of film minus holes, orientation, boundary on the outlines, V-E+T = 1-holes, local Delaunay property, and "
             "where it and un-encroachment hold areas = Voronoi (kite) areas and dual lengths = Voronoi face lengths; terminal "
             "lengths. Correspondence: dual_sites vs the model's circumcentre, kites in PrimFloat.",
        note="Triangle (meshpy), qhull and shapely are external engines: their outputs are checked per instance, not proved; "
             "the general planar Euler theorem and a formal Voronoi definition are not attempted.",
        technique="Coq proofs of the dual-construction geometry + per-mesh exhaustive checks of every site/edge/triangle",
        design="7/C07"),
}

PENDING_REASON = "check not built yet in this session (planned, see DESIGN.md section 7); not claimed until it runs"


def main():
    props = [json.loads(l) for l in (ROOT / "properties.jsonl").read_text().splitlines() if l.strip()]
    checks, na = [], []
    for p in props:
        pid = p["id"]
        if pid in CLAIMED:
            c = CLAIMED[pid]
            checks.append({
                "property_id": pid,
                "quick_cmd": f"./check {pid} --tier quick",
                "thorough_cmd": f"./check {pid} --tier thorough",
                "evidence_file": f"/verif/evidence/{pid}.json",
                "replay_cmd_template": f"./check {pid} --replay {{path}}",
                "engine": "coq-model+correspondence",
                "level_claimed": {"category": "proof", "text": c["text"], "design_ref": c["design"]},
                "level_note": c["note"],
                "technique": c["technique"],
            })
        else:
            na.append({"property_id": pid, "reason": NA.get(pid, PENDING_REASON)})
    man = {
        "version": 1,
        "setup_cmd": "cd /verif && ./setup.sh",
        "hooks": {
            "guard": "PY_TDGL_VERIF",
            "enable": "no source hooks: the harness wraps public methods from outside; PY_TDGL_VERIF=1 is exported by ./check but read by nothing in /repo",
            "baseline_off_cmd": "cd /repo && /venv/bin/python -m pytest -ra -q -p no:cacheprovider --timeout=900 --continue-on-collection-errors",
            "source_commits": [],
            "add_only": True,
        },
        "engines": [{
            "name": "coq-model+correspondence",
            "path": "/verif/coq",
            "serves_properties": sorted(CLAIMED),
            "kind_free_text": "hand-written Gallina models + Coq 8.16 theorems; models evaluated by vm_compute on the "
                              "same inputs as the real Python code (differential correspondence); property oracles on impl output",
        }],
        "checks": checks,
        "not_applicable": na,
        "notes": "See DESIGN.md. Known findings: known_findings.json. Seeded mutations: seeded/.",
    }
    (ROOT / "MANIFEST.json").write_text(json.dumps(man, indent=1) + "\n")


NA = {}

if __name__ == "__main__":
    main()
