"""Regenerates /verif/MANIFEST.json from the table below (kept in one place so it stays valid)."""
import json
from pathlib import Path

ROOT = Path(__file__).resolve().parent.parent

CLAIMED = {
    "C02": dict(
        text="Coq theorems over R for every per-site input (root_sound, root_refuses, root_complete, z/w as documented, "
             "all-sites-or-refuse) + correspondence of the Gallina model (PrimFloat, vm_compute) with "
             "TDGLSolver.solve_for_psi_squared on ~20k generated sites per run + 80-digit oracle of the property on the "
             "implementation's outputs. Rounding itself is not analysed (theorems are in exact arithmetic).",
        note="Coq kernel; stdlib real-number axioms (sig_forall_dec, sig_not_dec, functional_extensionality_dep); "
             "model tied to code by sampled differential check; numpy exp passed as data.",
        technique="Coq proof over R of the model + vm_compute/PrimFloat correspondence with the real function",
        design="7/C02"),
    "C03": dict(
        text="Coq theorems for every finite edge list, every non-zero area function, every weight and field: L = D.G, "
             "area-weighted sum of divergence = 0, boundary-flux integral, symmetric + negative semi-definite (discrete Green "
             "identity), kernel = constants on a positively-connected mesh, Hermitian covariant Laplacian for arbitrary complex "
             "links, gradient exact on linear functions; correspondence of the COO builders with the four build_* functions "
             "(every stored entry, PrimFloat) on Delaunay and Triangle meshes; identities re-checked on the implementation's matrices.",
        note="Coq kernel; stdlib real-number axioms; sparse-matrix duplicate-summing semantics modelled (apply_coo) and compared; "
             "numpy exp passed as data.",
        technique="Coq proof by induction over edge lists + vm_compute/PrimFloat entry-wise correspondence",
        design="7/C03"),
    "C10": dict(
        text="Coq theorem: for every mesh with canonical (sorted, duplicate-free) edges, every pinned set and every finite "
             "sequence of link variables, the in-place refreshed Laplacian equals the rebuilt one at every entry (pinned rows "
             "included); trigger theorem: with an exact comparison the operators hold the latest potential after every step "
             "(and a refutation for the tolerance comparison the code used before the fix). Correspondence: MeshOperators after "
             "1-6 refreshes vs Model.Refresh.ops_after (every stored entry) and vs a rebuild (bit-for-bit); real runs with "
             "ramped / piecewise fields and screening checked after every update.",
        note="Coq kernel; stdlib real-number axioms; scipy sparse __setitem__ modelled as ordered overwrites (set_many) and "
             "compared; numpy exp passed as data.",
        technique="Coq proof (induction over refresh sequences, NoDup positions) + vm_compute correspondence + rebuild oracle",
        design="7/C10"),
}

PENDING_REASON = "check not built yet in this session (planned, see DESIGN.md section 7); not claimed until it runs"


def main():
    props = [json.loads(l) for l in (ROOT / "properties.jsonl").read_text().splitlines() if l.strip()]
    checks, na = [], []
    for p in props:
        pid = p["id"]
        if pid in CLAIMED:
            c = CLAIMED[pid]
            checks.append({
                "property_id": pid,
                "quick_cmd": f"./check {pid} --tier quick",
                "thorough_cmd": f"./check {pid} --tier thorough",
                "evidence_file": f"/verif/evidence/{pid}.json",
                "replay_cmd_template": f"./check {pid} --replay {{path}}",
                "engine": "coq-model+correspondence",
                "level_claimed": {"category": "proof", "text": c["text"], "design_ref": c["design"]},
                "level_note": c["note"],
                "technique": c["technique"],
            })
        else:
            na.append({"property_id": pid, "reason": NA.get(pid, PENDING_REASON)})
    man = {
        "version": 1,
        "setup_cmd": "cd /verif && ./setup.sh",
        "hooks": {
            "guard": "PY_TDGL_VERIF",
            "enable": "no source hooks: the harness wraps public methods from outside; PY_TDGL_VERIF=1 is exported by ./check but read by nothing in /repo",
            "baseline_off_cmd": "cd /repo && /venv/bin/python -m pytest -ra -q -p no:cacheprovider --timeout=900 --continue-on-collection-errors",
            "source_commits": [],
            "add_only": True,
        },
        "engines": [{
            "name": "coq-model+correspondence",
            "path": "/verif/coq",
            "serves_properties": sorted(CLAIMED),
            "kind_free_text": "hand-written Gallina models + Coq 8.16 theorems; models evaluated by vm_compute on the "
                              "same inputs as the real Python code (differential correspondence); property oracles on impl output",
        }],
        "checks": checks,
        "not_applicable": na,
        "notes": "See DESIGN.md. Known findings: known_findings.json. Seeded mutations: seeded/.",
    }
    (ROOT / "MANIFEST.json").write_text(json.dumps(man, indent=1) + "\n")


NA = {}

if __name__ == "__main__":
    main()
