"""Correspondence of one real TDGLSolver.update call with Model.Step.step (PrimFloat, vm_compute).

The update call is observed from outside (inputs = keyword arguments and solver attributes,
outputs = the SolverResult); the model receives the same psi, eps, link variables, temporal
links exp(-i mu dt), mu_boundary, dA/dt and, as the `solve` oracle, the mu the implementation
returned (whose residual L mu - rhs is measured separately)."""
from __future__ import annotations

import numpy as np

from . import common, meshes
from .common import flit, clit, coq_list

HEADER = """From Coq Require Import PrimFloat List ZArith.
Import ListNotations.
From PyTdgl Require Import Base.Ops Base.Cplx Model.FV Model.Euler Model.Step.
Open Scope float_scope.
Definition cnth (l : list (float*float)) (i : nat) := nth i l (0, 0).
Definition fnth (l : list float) (i : nat) := nth i l 0.
"""


class StepRecord:
    """Everything needed to replay one update call in the model."""

    def __init__(self, solver, state, dt_in, kwargs, res):
        ops = solver.operators
        mesh = solver.device.mesh
        em = mesh.edge_mesh
        self.mesh = mesh
        self.step = state["step"]
        self.time = state["time"]
        self.psi_in = np.array(kwargs["psi"], copy=True)
        self.mu_in = np.array(kwargs["mu"], copy=True)
        self.dt = float(res.dt)
        self.psi_out = np.array(res.psi, copy=True)
        self.mu_out = np.array(res.mu, copy=True)
        self.Js = np.array(res.supercurrent, copy=True)
        self.Jn = np.array(res.normal_current, copy=True)
        self.eps = np.array(solver.epsilon, copy=True)
        self.muB = np.array(solver.mu_boundary, copy=True)
        self.link_exponents = np.array(ops.link_exponents, copy=True)
        self.U = np.exp(-1j * np.einsum("ij, ij -> i", self.link_exponents, em.directions))
        self.Ut = np.exp(-1j * self.mu_in * self.dt)
        if solver.dynamic_vector_potential:
            prev = kwargs["applied_vector_potential"]
            self.dAdt = np.einsum("ij, ij -> i", (solver.current_A_applied - prev) / dt_in,
                                  solver.normalized_directions)
        else:
            self.dAdt = np.zeros(len(em.edges))
        fx = ops.fixed_sites if ops.fix_psi else np.array([], dtype=np.int64)
        self.fixed = np.array(fx, dtype=np.int64)
        # what the user configured (the layer's values), not the solver's own copy of them
        self.gamma, self.u = float(solver.device.layer.gamma), float(solver.device.layer.u)
        tp = solver.options.terminal_psi
        self.repin = complex(tp) if tp else None
        self.rhs = (ops.divergence @ (self.Js - self.dAdt)) - (ops.mu_boundary_laplacian @ self.muB)
        # the contract of the linear solve in Model.Step (hypothesis of C01_continuity): the LAPLACIAN OF THE MESH applied to the
        # returned potential equals the right-hand side at every site - built here, not taken from the solver's system matrix (which
        # may carry a gauge-fixing row)
        from tdgl.finite_volume.operators import build_laplacian
        Ltrue = build_laplacian(solver.device.mesh, weights=ops.laplacian_weights)[0]
        self.solve_residual = float(np.max(np.abs(Ltrue @ self.mu_out - self.rhs)))
        self.rhs_scale = float(np.max(np.abs(Ltrue) @ np.abs(self.mu_out)) + 1e-300)
        self.D, self.B = ops.divergence, ops.mu_boundary_laplacian


def model_text(rec: StepRecord, rows=None) -> str:
    m = rec.mesh
    n, E = len(m.sites), len(m.edge_mesh.edges)
    t = HEADER + meshes.mesh_literal(m)
    t += f"Definition U := {coq_list([clit(u) for u in rec.U], per_line=2)}.\n"
    t += f"Definition Ut := {coq_list([clit(u) for u in rec.Ut], per_line=2)}.\n"
    t += f"Definition psi0 := {coq_list([clit(u) for u in rec.psi_in], per_line=2)}.\n"
    t += f"Definition eps0 := {coq_list([flit(x) for x in rec.eps])}.\n"
    t += f"Definition mu1 := {coq_list([flit(x) for x in rec.mu_out])}.\n"
    t += f"Definition muB := {coq_list([flit(x) for x in rec.muB])}.\n" if len(rec.muB) else "Definition muB : list float := [].\n"
    t += f"Definition dAdt := {coq_list([flit(x) for x in rec.dAdt])}.\n"
    t += f"Definition fixed : list nat := {coq_list([str(int(f)) + '%nat' for f in rec.fixed], per_line=12)}.\n"
    repin = "None" if rec.repin is None else f"(Some {clit(rec.repin)})"
    t += (f"Definition res := step OpsF a nsites es fixed (fun _ => fnth mu1) (cnth Ut) {repin} U (cnth psi0) (fnth eps0)\n"
          f"  {flit(rec.gamma)} {flit(rec.u)} {flit(rec.dt)} (fnth muB) (fnth dAdt).\n")
    t += ("Eval vm_compute in match res with None => [] | Some o => map (so_psi _ o) (seq 0 nsites) end.\n"
          f"Eval vm_compute in match res with None => [] | Some o => map (ob_Js _ (so_obs _ o)) (seq 0 {E}) end.\n"
          f"Eval vm_compute in match res with None => [] | Some o => map (ob_Jn _ (so_obs _ o)) (seq 0 {E}) end.\n"
          "Eval vm_compute in match res with None => [] | Some o => map (ob_rhs _ (so_obs _ o)) (seq 0 nsites) end.\n")
    return t


def compare(rep: common.Report, rec: StepRecord, out: str, case: dict) -> bool:
    """Compare model output with the recorded implementation output. Returns True on disagreement."""
    psi_m = common.parse_nested(common.eval_block(out, 0))[0]
    Js_m = np.array(common.parse_nested(common.eval_block(out, 1))[0], dtype=float)
    Jn_m = np.array(common.parse_nested(common.eval_block(out, 2))[0], dtype=float)
    rhs_m = np.array(common.parse_nested(common.eval_block(out, 3))[0], dtype=float)
    if len(psi_m) == 0:
        rep.not_shown("correspondence(step): model refused a step the implementation answered", case)
        return True
    psi_m = np.array([complex(a, b) for a, b in psi_m])
    bad = []
    sc = float(np.max(np.abs(rec.psi_out)) + 1e-300)
    if np.max(np.abs(psi_m - rec.psi_out)) > 1e-9 * sc:
        bad.append(("psi", float(np.max(np.abs(psi_m - rec.psi_out)))))
    if np.max(np.abs(Js_m - rec.Js)) > 1e-9 * (np.max(np.abs(rec.Js)) + 1e-12) + 1e-13:
        bad.append(("Js", float(np.max(np.abs(Js_m - rec.Js)))))
    if np.max(np.abs(Jn_m - rec.Jn)) > 1e-9 * (np.max(np.abs(rec.Jn)) + 1e-12) + 1e-12:
        bad.append(("Jn", float(np.max(np.abs(Jn_m - rec.Jn)))))
    if np.max(np.abs(rhs_m - rec.rhs)) > 1e-8 * rec.rhs_scale:
        bad.append(("rhs", float(np.max(np.abs(rhs_m - rec.rhs)))))
    if rec.solve_residual > 1e-8 * rec.rhs_scale:
        bad.append(("linear-solve contract |L mu - rhs|", rec.solve_residual))
    if bad:
        rep.not_shown("correspondence(step): TDGLSolver.update differs from Model.Step.step", {**case, "differences": bad})
        return True
    return False


def collect(dev, options, nrecords=3, every=7, **solve_kw):
    """Run the real solver and record a few update calls."""
    from . import runs
    recs = []
    last_dt = {}

    def before(solver, state, kw):
        last_dt["dt"] = state["dt"]

    def on_step(solver, state, kw, res):
        if state["step"] % every == 1 and len(recs) < nrecords:
            recs.append(StepRecord(solver, state, last_dt["dt"], kw, res))

    sol, solver = runs.traced_solve(dev, options, on_step=on_step, before_step=before, **solve_kw)
    return recs, sol, solver
