#!/bin/bash
# usage: seed_keep.sh Cxx_v  -- copy patch/demo/notes from /tmp/seed_Cxx_v into /verif/seeded/Cxx_v and drop the worktree
set -e
n=$1; src=/tmp/seed_$n; dst=/verif/seeded/$n
mkdir -p $dst
cp $src/patch.diff $src/demo.py $dst/ 2>/dev/null || true
cp $src/NOTES.md $dst/ 2>/dev/null || true
git -C /repo worktree remove --force $src || rm -rf $src
git -C /repo worktree prune
ls $dst
