"""C05 - recorded frames, times and per-step records are consistent.

The REAL Runner and DataHandler (HDF5 files) are driven with a scripted update function (the Runner
takes the update function as an argument), exhaustively over save intervals, run lengths, step
scripts, thermalisation, probe columns and the screening column; the files are read back with the
real DynamicsData.from_hdf5 and the real Solution.times code.
Correspondence: every frame / buffer vs Model.Runner.run evaluated by vm_compute (exact, Z times in
units of 1/1024).  Oracle: the property's own reference semantics computed independently in Python.
A second stream runs real tdgl.solve simulations and identifies frame contents by step count."""
from __future__ import annotations

import itertools
import os
import random
import tempfile
from types import SimpleNamespace

import h5py
import numpy as np

from . import common
from .common import coq_list

UNIT = 1.0 / 1024.0

HEADER = """From Coq Require Import List ZArith Arith.
Import ListNotations.
From PyTdgl Require Import Model.Runner.
Open Scope Z_scope.
Definition script_upd (sc : list Z) : nat -> Z -> Z -> nat -> outcome Z nat (Z*Z) :=
  fun i t d v => let nd := nth (Nat.modulo v (length sc)) sc 1 in Ok Z nat (Z*Z) nd (S v) (nd, Z.of_nat v).
Definition enc_frame (f : frame Z nat (Z*Z)) : list Z :=
  [Z.of_nat (f_step _ _ _ f); f_time _ _ _ f; f_dt _ _ _ f; Z.of_nat (f_vals _ _ _ f)]
  ++ match f_buf _ _ _ f with
     | None => [-1]
     | Some b => Z.of_nat (length b) :: flat_map (fun '(d, tag) => [d; tag]) b
     end.
Definition enc_end (e : stage_end) : Z :=
  match e with Finished => 0 | Cancelled => 1 | Raised => 2 | OutOfFuel => 3 end.
Definition run_case (c : nat * Z * option Z * list Z) : list (list Z) :=
  let '(k, endt, skip, sc) := c in
  let '(e, s) := run Z 0 Z.add Z.leb nat (Z*Z) (script_upd sc) k true 400 skip endt (hd 1 sc) 0%nat in
  [enc_end e] :: map enc_frame (r_frames _ _ _ s).
Definition times_case (c : nat * list Z) : list Z :=
  let '(k, dts) := c in solution_times Z 0 Z.add k dts.
"""


def reference(case):
    """The property's reference semantics, written directly from its text (independent of Coq)."""
    k, sc, N, skipN = case["k"], case["script"], case["N"], case["skipN"]
    count = 0
    if skipN is not None:
        count = skipN                      # thermalisation steps performed, never recorded
    dts = [sc[(count + j) % len(sc)] for j in range(N)]
    times = [0]
    for d in dts:
        times.append(times[-1] + d)
    steps = [s for s in range(0, N + 1) if s % k == 0]
    if N % k:
        steps.append(N)
    frames = [dict(step=s, time=times[s], vals=count + s) for s in steps]
    return dict(frames=frames, dts=dts, tags=[count + j for j in range(N)], frame_times=[times[s] for s in steps])


def run_impl(case, td):
    from tdgl.solver.runner import Runner, DataHandler
    from tdgl.solver.options import SolverOptions
    from tdgl.solution.data import DynamicsData
    from tdgl.solution.solution import Solution
    k, sc = case["k"], case["script"]
    P, scr = case["probes"], case["screening"]
    path = os.path.join(td, f"c{case['id']}.h5")
    opts = SolverOptions(solve_time=case["end"] * UNIT, skip_time=(case["skip"] * UNIT if case["skip"] is not None else 0.0),
                         dt_init=sc[0] * UNIT, dt_max=max(1.0, 1e3 * UNIT), save_every=k, progress_interval=10 ** 9,
                         pause_on_interrupt=False, output_file=path)
    sizes = {"dt": 1}
    if P:
        sizes["mu"] = P
        sizes["theta"] = P
    if scr:
        sizes["screening_iterations"] = 1

    def update(state, running_state, dt, *, psi):
        v = int(psi[0])
        nd = sc[v % len(sc)] * UNIT
        running_state.append("dt", nd)
        if P:
            running_state.append("mu", np.arange(P) + 10.0 * v + 1.0)
            running_state.append("theta", -(np.arange(P) + 10.0 * v + 1.0))
        if scr:
            running_state.append("screening_iterations", v + 1)
        return nd, psi + 1.0

    out = {"error": None}
    try:
        with DataHandler(output_file=path) as dh:
            real_path = dh.output_path
            runner = Runner(function=update, options=opts, data_handler=dh, initial_values=[np.zeros(3)],
                            names=["psi"], fixed_values=[], fixed_names=[], running_names_and_sizes=sizes)
            runner.run()
        frames = []
        with h5py.File(real_path, "r") as f:
            for key in sorted(f["data"], key=int):
                g = f["data"][key]
                fr = dict(idx=int(key), step=int(g.attrs["step"]), time=float(g.attrs["time"]), dt=float(g.attrs["dt"]),
                          vals=float(np.array(g["psi"])[0]), all_equal=bool(np.all(np.array(g["psi"]) == np.array(g["psi"])[0])))
                if "running_state" in g:
                    rs = g["running_state"]
                    fr["buf_dt"] = np.atleast_1d(np.array(rs["dt"])).astype(float).tolist()
                    fr["buf_shapes"] = {kk: tuple(np.array(rs[kk]).shape) for kk in rs}
                    if P:
                        fr["buf_mu0"] = np.atleast_2d(np.array(rs["mu"]))[0].tolist()
                else:
                    fr["buf_dt"] = None
                frames.append(fr)
            dyn = DynamicsData.from_hdf5(f)
        out["frames"] = frames
        out["dyn_dt"] = np.asarray(dyn.dt, dtype=float).tolist()
        out["dyn_mu"] = None if dyn.mu is None else np.asarray(dyn.mu).tolist()
        out["dyn_theta"] = None if dyn.theta is None else np.asarray(dyn.theta).tolist()
        out["dyn_iter"] = None if dyn.screening_iterations is None else np.asarray(dyn.screening_iterations).tolist()
        fake = SimpleNamespace(dynamics=dyn, options=opts)
        out["sol_times"] = np.asarray(Solution.times.fget(fake), dtype=float).tolist()
        os.remove(real_path)
    except Exception as e:  # noqa: BLE001
        out["error"] = f"{type(e).__name__}: {e}"
    return out


def check_oracle(rep, case, out):
    ref = reference(case)
    cdesc = {k_: case[k_] for k_ in ("k", "N", "script", "skipN", "probes", "screening", "end")}
    if out["error"]:
        rep.violation("writing or reading back the run failed: " + out["error"], cdesc)
        return False
    fr = out["frames"]
    got = [(f["step"], round(f["time"] / UNIT, 6), f["vals"]) for f in fr]
    want = [(f["step"], float(f["time"]), float(f["vals"])) for f in ref["frames"]]
    ok = True
    if [g[0] for g in got] != [w[0] for w in want]:
        rep.violation(f"frames recorded at steps {[g[0] for g in got]}, expected {[w[0] for w in want]}", cdesc)
        ok = False
    elif got != want:
        bad = next(i for i, (g, w) in enumerate(zip(got, want)) if g != w)
        rep.violation(f"frame labelled step {got[bad][0]} holds (time, updates) = {got[bad][1:]} but the state after "
                      f"{want[bad][0]} updates is {want[bad][1:]}", cdesc)
        ok = False
    dd = [round(x / UNIT, 6) for x in out["dyn_dt"]]
    if dd != [float(x) for x in ref["dts"]]:
        rep.violation(f"per-step dt records {dd} differ from the steps taken {ref['dts']}", cdesc)
        ok = False
    if case["probes"] and out["dyn_mu"] is not None:
        tags = [round((m - 1.0) / 10.0, 6) for m in out["dyn_mu"][0]]
        if tags != [float(t) for t in ref["tags"]]:
            rep.violation(f"probe records belong to updates {tags}, expected {ref['tags']}", cdesc)
            ok = False
        if np.asarray(out["dyn_mu"]).shape != (case["probes"], len(ref["dts"])):
            rep.violation("probe record array has the wrong shape", {**cdesc, "shape": np.asarray(out['dyn_mu']).shape})
            ok = False
    if case["probes"] and out["dyn_mu"] is None and ref["dts"]:
        rep.violation("probe records missing", cdesc)
        ok = False
    if case["screening"] and ref["dts"]:
        it = out["dyn_iter"]
        if it is None or [x - 1 for x in it] != [float(t) for t in ref["tags"]]:
            rep.violation("screening-iteration records do not appear once per step in order", cdesc)
            ok = False
    st = [round(x / UNIT, 6) for x in out["sol_times"]]
    if st != [float(x) for x in ref["frame_times"]]:
        rep.violation(f"Solution.times {st} are not the frame times {ref['frame_times']}", cdesc)
        ok = False
    return ok


def enum_cases(tier, rng):
    scripts = [[8], [8, 4, 16], [5, 3, 9, 1], [16, 16, 2]]
    cases = []
    maxN = 12 if tier == "quick" else 24
    cid = 0
    for N in range(0, maxN + 1):
        for k in range(1, N + 3):
            for si, sc in enumerate(scripts):
                for therm in (False, True):
                    combos = [(0, False)]
                    if (N + k + si) % 3 == 0 or tier == "thorough":
                        combos = [(0, False), (2, True), (3, False), (2, False)]
                    for P, scr in combos:
                        skipN = 3 if therm else None
                        count0 = skipN or 0
                        # thermalisation runs skipN steps: skip_time = T_skipN of the script
                        skip = sum(sc[j % len(sc)] for j in range(skipN)) if therm else None
                        dts = [sc[(count0 + j) % len(sc)] for j in range(N)]
                        TN = sum(dts)
                        # stop exactly at T_N, or strictly inside the last step
                        for end in ({TN, TN - 1} if N > 0 else {0}):
                            if N > 0 and end <= TN - dts[-1]:
                                continue
                            cases.append(dict(id=cid, k=k, N=N, script=sc, skipN=skipN, skip=skip, end=end,
                                              probes=P, screening=scr))
                            cid += 1
    return cases


def real_runs(rep, rng, tier):
    """Real tdgl.solve runs: the frame labelled s must hold the state after exactly s solver updates."""
    from . import meshes, runs
    import tdgl
    dev = meshes.make_device(rng, holes=0, terminals=2, max_edge_length=1.2)
    plans = [(3, 0.047, True), (1, 0.02, False), (4, 0.033, True), (7, 0.05, False)]
    if tier == "thorough":
        plans += [(2, 0.06, True), (5, 0.081, False), (10, 0.1, True), (6, 0.031, True)]
    for k, T, adaptive in plans:
        states = []

        def on_step(solver, state, kw, res):
            states.append((np.array(res.psi, copy=True), float(res.dt), np.array(res.mu, copy=True)))

        with tempfile.TemporaryDirectory(prefix="pyt_c05_") as td:
            opts = runs.make_options(td, solve_time=T, dt_init=2e-3, dt_max=1e-2, adaptive=adaptive, save_every=k)
            psi0 = None
            try:
                sol, solver = runs.traced_solve(dev, opts, A=0.3, currents={"source": 1.0, "drain": -1.0}, on_step=on_step)
            except Exception as e:  # noqa: BLE001
                rep.violation(f"tdgl.solve raised {type(e).__name__}: {e}", {"save_every": k, "solve_time": T})
                continue
            with h5py.File(sol.path, "r") as f:
                for key in sorted(f["data"], key=int):
                    g = f["data"][key]
                    s = int(g.attrs["step"])
                    psi = np.array(g["psi"])
                    want = solver.psi_init if s == 0 else (states[s - 1][0] if s - 1 < len(states) else None)
                    t_want = sum(st_[1] for st_ in states[:s])
                    case = {"save_every": k, "solve_time": T, "adaptive": adaptive, "frame_step": s}
                    if want is None or not np.array_equal(psi, want):
                        rep.violation("frame content is not the state after exactly `step` solver updates", case)
                        break
                    if abs(float(g.attrs["time"]) - t_want) > 1e-12:
                        rep.violation("frame time is not the sum of the first `step` time steps", case)
                        break
                nupd = len(states)
                tms = np.asarray(sol.times)
                ft = [float(f["data"][key].attrs["time"]) for key in sorted(f["data"], key=int)]
            if len(tms) != len(ft) or np.max(np.abs(tms - np.array(ft))) > 1e-12:
                rep.violation("Solution.times differ from the recorded frame times",
                              {"save_every": k, "solve_time": T, "times": tms.tolist()[:6], "frame_times": ft[:6]})
            # the solution looked at through another recorded frame (solve_step set, or loaded with solve_step=j): its times and
            # per-step records are still those of the whole run
            for j_ in sorted({0, len(ft) // 2, len(ft) - 2} & set(range(len(ft)))):
                alt = tdgl.Solution.from_hdf5(sol.path, solve_step=j_)
                sol.solve_step = j_
                for nm_, s_ in (("loaded with solve_step", alt), ("after setting solve_step", sol)):
                    if len(s_.times) != len(ft) or np.max(np.abs(np.asarray(s_.times) - np.array(ft))) > 1e-12 or len(s_.dynamics.dt) != nupd:
                        rep.violation("a solution positioned at a recorded frame other than the last one no longer reports the frame times / "
                                      "per-step records of the whole run", {"save_every": k, "solve_time": T, "frame": j_, "how": nm_,
                                                                            "times_reported": len(s_.times), "frames": len(ft),
                                                                            "records": len(s_.dynamics.dt), "updates": nupd})
                        break
            sol.solve_step = -1
            # history form: the caller changes ITS options object for the next run (another save interval); the times this solution
            # reports stay those of its own frames
            k_old = opts.save_every
            opts.save_every = k_old + 2
            if len(sol.times) != len(ft) or np.max(np.abs(np.asarray(sol.times) - np.array(ft))) > 1e-12:
                rep.violation("after the caller changed save_every on its options object (for a later run) the earlier solution reports "
                              "other times than its frames hold", {"save_every": k, "changed_to": k_old + 2, "times": np.asarray(sol.times).tolist()[:6],
                                                                   "frame_times": ft[:6]})
            opts.save_every = k_old
            # DynamicsData.from_solution: the records rebuilt from the saved frames (at the device's probe points) - one per interval
            # between frames, the values of the frame that ends the interval, at that frame's time
            try:
                from tdgl.solution.data import DynamicsData as _DD
                dfs = _DD.from_solution(sol.path)
                pidx_ = np.asarray(dev.probe_point_indices)
                with h5py.File(sol.path, "r") as f:
                    keys_ = sorted(f["data"], key=int)
                    mu_fr = np.stack([np.array(f["data"][k_]["mu"])[pidx_] for k_ in keys_], axis=1)
                okf = (len(dfs.dt) == len(ft) - 1 and np.asarray(dfs.mu).shape == (len(pidx_), len(ft) - 1)
                       and np.max(np.abs(np.asarray(dfs.time) - np.array(ft[1:]))) < 1e-12 and np.array_equal(np.asarray(dfs.mu), mu_fr[:, 1:]))
                if not okf:
                    rep.violation("DynamicsData.from_solution: the probe records are not aligned with their times (one record per saved frame "
                                  "after the first, at that frame's time)", {"save_every": k, "frames": len(ft), "dt_entries": int(len(dfs.dt)),
                                                                             "mu_shape": list(np.asarray(dfs.mu).shape)})
            except Exception as e:  # noqa: BLE001
                rep.violation(f"DynamicsData.from_solution raised {type(e).__name__}: {e}"[:200], {"save_every": k})
            # per-step records: one per update, in order - dt, and the potential / phase at the probe points of the state
            # that update produced
            dyn = sol.dynamics
            pidx = np.asarray(dev.probe_point_indices)
            case = {"save_every": k, "solve_time": T, "adaptive": adaptive, "updates": nupd}
            if len(dyn.dt) != nupd or not np.array_equal(np.asarray(dyn.dt), np.array([st_[1] for st_ in states])):
                rep.violation("per-step dt records are not the time steps of the updates, once each, in order", case)
            elif dyn.mu is None or dyn.theta is None:
                rep.violation("probe records missing although the device has probe points", case)
            else:
                mu_want = np.stack([st_[2][pidx] for st_ in states], axis=1)
                th_want = np.stack([np.angle(st_[0][pidx]) for st_ in states], axis=1)
                if np.asarray(dyn.mu).shape != mu_want.shape or not np.array_equal(np.asarray(dyn.mu), mu_want):
                    rep.violation("probe potential records are not mu at the probe points after each update, in order", case)
                if np.asarray(dyn.theta).shape != th_want.shape or np.max(np.abs(np.asarray(dyn.theta) - th_want)) > 1e-12:
                    rep.violation("probe phase records are not arg(psi) at the probe points after each update, in order", case)
                if not np.array_equal(dyn.voltage(), mu_want[0] - mu_want[1]) or \
                        np.max(np.abs(dyn.phase_difference() - (th_want[0] - th_want[1]))) > 1e-12:
                    rep.violation("DynamicsData.voltage / phase_difference are not the differences of the probe records", case)
                tt = np.cumsum([st_[1] for st_ in states])
                if np.max(np.abs(np.asarray(dyn.time) - tt)) > 1e-12:
                    rep.violation("DynamicsData.time is not the running sum of the recorded time steps", case)
                lo, hi = float(tt[len(tt) // 3]), float(tt[(2 * len(tt)) // 3])
                want_idx = np.where((tt >= lo) & (tt <= hi))[0]
                if not np.array_equal(dyn.time_slice(lo, hi), want_idx):
                    rep.violation("DynamicsData.time_slice does not select the steps inside the time window", case)
                # derived per-step quantities: the documented time-weighted mean voltage over a window, the step closest to a time
                dts_ = np.array([st_[1] for st_ in states])
                V_ = mu_want[0] - mu_want[1]
                for w0, w1 in ((-np.inf, np.inf), (lo, hi), (float(tt[0]), float(tt[0])), (float(tt[-1]), np.inf)):
                    sel = (tt >= w0) & (tt <= w1)
                    want_mv = float(np.sum(V_[sel] * dts_[sel]) / np.sum(dts_[sel]))
                    got_mv = float(dyn.mean_voltage(tmin=w0, tmax=w1))
                    if abs(got_mv - want_mv) > 1e-12 * (abs(want_mv) + 1e-300) + 1e-15:
                        rep.violation("DynamicsData.mean_voltage is not sum(V dt) / sum(dt) over the steps inside the window",
                                      {**case, "window": [w0, w1], "got": got_mv, "expected": want_mv})
                        break
                for tq in (float(tt[0]) - 1.0, float(tt[0]), 0.5 * float(tt[1] + tt[2]) + 1e-9 * float(tt[2] - tt[1]), float(tt[-1]), float(tt[-1]) + 7.0):
                    if int(dyn.closest_time(tq)) != int(np.argmin(np.abs(tt - tq))):
                        rep.violation("DynamicsData.closest_time is not the step whose time is closest", {**case, "time": tq})
                        break
        rep.count(1)
        rep.nontrivial(("real", k, adaptive))
    # pause and resume (pause_on_interrupt=True, the user answers "y"): the run goes on as if nothing had happened - same
    # frames under the same labels, same times, one record per update
    import builtins
    from tdgl.solver.solver import TDGLSolver
    from tdgl.solver import runner as runner_mod
    pdev = meshes.make_device(rng, holes=0, terminals=2, max_edge_length=1.3)

    def paused_run(td, name, k, where=None, at=None):
        opts = runs.make_options(None, solve_time=0.08, dt_init=1e-2, dt_max=1e-2, adaptive=False, save_every=k,
                                 output_file=os.path.join(td, name), pause_on_interrupt=True)
        sv = TDGLSolver(pdev, opts, applied_vector_potential=0.3, terminal_currents={"source": 1.0, "drain": -1.0})
        orig_u, fired, ups = sv.update, {}, []
        orig_save = runner_mod.DataHandler.save_time_step

        def upd(state, rs, dt, **kw):
            if where == "update" and state["step"] == at and not fired:
                fired["x"] = 1
                raise KeyboardInterrupt()
            res = orig_u(state, rs, dt, **kw)
            ups.append(float(res.dt))
            return res

        def save(self, state, data, running_state):
            if where == "save" and state["step"] == at and not fired:
                fired["x"] = 1
                raise KeyboardInterrupt()
            return orig_save(self, state, data, running_state)

        sv.update = upd
        runner_mod.DataHandler.save_time_step = save
        old_in = builtins.input
        builtins.input = lambda *a_: "y"
        try:
            sol_ = sv.solve()
        finally:
            builtins.input = old_in
            runner_mod.DataHandler.save_time_step = orig_save
        with h5py.File(sol_.path, "r") as f:
            fr = [(int(key), int(f["data"][key].attrs["step"]), float(f["data"][key].attrs["time"]),
                   np.array(f["data"][key]["psi"])) for key in sorted(f["data"], key=int)]
        return fr, ups, sol_

    with tempfile.TemporaryDirectory(prefix="pyt_c05p_") as td:
        for k in (2, 3):
            ref_fr, ref_ups, _ = paused_run(td, f"ref{k}.h5", k)
            for where, at in (("update", 0), ("update", 3), ("update", 4), ("update", 7), ("save", 0), ("save", k), ("save", 2 * k)):
                case = {"save_every": k, "interrupted_in": where, "at_step": at, "answer": "y (resume)"}
                try:
                    fr, ups, solp = paused_run(td, f"p{k}_{where}_{at}.h5", k, where, at)
                except BaseException as e:  # noqa: BLE001
                    rep.violation(f"pause and resume raised {type(e).__name__}: {e}"[:200], case)
                    continue
                if [(a_[0], a_[1], a_[2]) for a_ in fr] != [(a_[0], a_[1], a_[2]) for a_ in ref_fr] or \
                        any(not np.array_equal(a_[3], b_[3]) for a_, b_ in zip(fr, ref_fr)):
                    rep.violation("after a pause and resume the recorded frames are not those of the uninterrupted run (a frame labelled step s "
                                  "must hold the state after exactly s updates)",
                                  {**case, "labels_times": [(a_[1], round(a_[2], 6)) for a_ in fr][:8],
                                   "uninterrupted": [(a_[1], round(a_[2], 6)) for a_ in ref_fr][:8]})
                elif len(solp.times) != len(fr) or np.max(np.abs(np.asarray(solp.times) - np.array([a_[2] for a_ in fr]))) > 1e-12 \
                        or len(solp.dynamics.dt) != len(ups):
                    rep.violation("after a pause and resume Solution.times / the per-step records disagree with the recorded frames", case)
                rep.count(1)
            rep.nontrivial(("pause-resume", k))
    # a run in which updates are refused and retried with smaller steps: the time step RECORDED for a step (per-step record,
    # frame times, Solution.times) must be the one the accepted update was computed with
    rdev = meshes.make_device(rng, holes=0, terminals=0, max_edge_length=1.1, probe_points=False)
    retried_total = [0]
    for dt0 in (8.0, 50.0):
        used, rows = {}, []

        def before(solver, state, kw, used=used):
            if "patched" not in used:
                used["patched"] = True
                orig_sps = solver.solve_for_psi_squared

                def sps(**k):
                    out = orig_sps(**k)
                    used["n"] = used.get("n", 0) + 1
                    if out is not None:
                        used["dt"] = float(k["dt"])
                    return out
                solver.solve_for_psi_squared = sps
            used["n"] = 0

        def on_step_r(solver, state, kw, res, used=used, rows=rows):
            rows.append((float(res.dt), used.get("dt"), used.get("n", 0)))

        with tempfile.TemporaryDirectory(prefix="pyt_c05r_") as td:
            opts = runs.make_options(td, solve_time=3 * dt0, dt_init=dt0, dt_max=dt0 * (1 + 1e-9), adaptive=True, save_every=2)
            try:
                sol, _ = runs.traced_solve(rdev, opts, A=0.0, currents=None, eps=lambda r: -1.0 if r[0] < 0 else 1.0,
                                           on_step=on_step_r, before_step=before)
            except Exception as e:  # noqa: BLE001
                rep.violation(f"tdgl.solve raised {type(e).__name__}: {e}"[:200], {"dt_init": dt0, "run": "retried steps"})
                continue
            case = {"run": "retried steps", "dt_init": dt0, "updates": len(rows), "retried_updates": sum(1 for r_ in rows if r_[2] > 1)}
            bad = [i for i, (rec_, use_, _) in enumerate(rows) if use_ is not None and rec_ != use_]
            if bad:
                rep.violation("the time step recorded for a step is not the time step the accepted update was computed with (after a "
                              "refusal and retry)", {**case, "step": bad[0], "recorded": rows[bad[0]][0], "used": rows[bad[0]][1]})
            tt = np.concatenate([[0.0], np.cumsum([u_ for _, u_, _ in rows])])
            want_steps = sorted(set(range(0, len(rows) + 1, 2)) | {len(rows)})
            if len(sol.times) != len(want_steps) or np.max(np.abs(np.asarray(sol.times) - tt[want_steps])) > 1e-9 * tt[-1]:
                rep.violation("frame times are not the sums of the time steps actually taken (run with retried steps)",
                              {**case, "times": np.asarray(sol.times).tolist()[:5], "expected": tt[want_steps].tolist()[:5]})
            retried_total[0] += case["retried_updates"]
        rep.count(1)
        rep.nontrivial(("real-retried", dt0))
    if retried_total[0] == 0:
        rep.not_shown("the retried-steps runs did not retry any update (generator too weak)", {"dt_init": [8.0, 50.0]})
    rep.coverage["real_run_retried_updates"] = retried_total[0]
    # environment form: one directory per job, the same RELATIVE output name in each, the working directory changes after every
    # solve: each solution's frames, labels and times must stay those of its own run
    cwd_ = os.getcwd()
    with tempfile.TemporaryDirectory(prefix="pyt_c05j_") as td:
        jobs = []
        try:
            for jb, (k, T) in enumerate(((3, 0.031), (2, 0.052))):
                jd = os.path.join(td, f"job_{jb}")
                os.makedirs(jd)
                os.chdir(jd)
                states = []
                opts = runs.make_options(None, solve_time=T, dt_init=1e-3 * (jb + 1), dt_max=1e-3 * (jb + 1), adaptive=False, save_every=k,
                                         output_file="out.h5")
                sol, solver = runs.traced_solve(dev, opts, A=0.3 + 0.2 * jb, currents={"source": 1.0, "drain": -1.0},
                                                on_step=lambda solver, state, kw, res, states=states: states.append(
                                                    (np.array(res.psi, copy=True), float(res.dt))))
                jobs.append((sol, solver, states, k, jd))
            os.chdir(td)
            for sol, solver, states, k, jd in jobs:
                case = {"job_dir": os.path.basename(jd), "save_every": k, "output_file": "out.h5 (relative)", "cwd_now": "another directory"}
                try:
                    tt = np.concatenate([[0.0], np.cumsum([d_ for _, d_ in states])])
                    want_steps = sorted(set(range(0, len(states) + 1, k)) | {len(states)})
                    okj = len(sol.times) == len(want_steps) and np.max(np.abs(np.asarray(sol.times) - tt[want_steps])) < 1e-12
                    for fi, stp in enumerate(want_steps):
                        sol.solve_step = fi
                        want = solver.psi_init if stp == 0 else states[stp - 1][0]
                        okj = okj and np.array_equal(np.asarray(sol.tdgl_data.psi), want)
                    okj = okj and len(sol.dynamics.dt) == len(states)
                except Exception as e:  # noqa: BLE001
                    okj = False
                    case["error"] = f"{type(e).__name__}: {e}"[:140]
                if not okj:
                    rep.violation("after the working directory changed, a solution written under a relative output name no longer shows "
                                  "the frames / times / records of its own run", case)
                rep.count(1)
        except Exception as e:  # noqa: BLE001
            rep.violation(f"solving with a relative output name in a job directory raised {type(e).__name__}: {e}"[:200], {})
        finally:
            os.chdir(cwd_)


def run(rep: common.Report, tier: str, seed: int, replay=None) -> int:
    rep.use_props(common.check_props("C05"))
    rng = random.Random(seed * 7919 + 5)
    cases = enum_cases(tier, rng)
    outs = []
    nbad = 0
    with tempfile.TemporaryDirectory(prefix="pyt_c05_") as td:
        for c in cases:
            out = run_impl(c, td)
            outs.append(out)
            if not check_oracle(rep, c, out):
                nbad += 1
            rep.count(1)
            rep.nontrivial((c["N"] % c["k"] == 0, c["k"] == 1, c["k"] > c["N"], c["skipN"] is not None, c["probes"],
                            c["screening"], len(c["script"]), c["N"] == 0))
    # the same histories with other time units (every step 1e-12 ... 1e3 tau): the bookkeeping must not care about the size
    # of the time steps.  Oracle only (the model pass above used the default unit).
    global UNIT
    unit0 = UNIT
    try:
        with tempfile.TemporaryDirectory(prefix="pyt_c05u_") as td:
            for u_, stride in ((2.0 ** -40, 9), (2.0 ** -27, 11), (2.0 ** 10, 13)):
                UNIT = u_
                for c in cases[::stride]:
                    c2 = dict(c)
                    c2["id"] = f"{c['id']}_u{int(np.log2(u_))}"
                    out2 = run_impl(c2, td)
                    if not check_oracle(rep, c2, out2):
                        nbad += 1
                    rep.count(1)
        rep.coverage["time_units_exercised"] = [2.0 ** -40, 2.0 ** -27, 2.0 ** -10, 2.0 ** 10]
    finally:
        UNIT = unit0
    for c in cases[:2] + cases[len(cases) // 2: len(cases) // 2 + 2]:
        rep.sample({k_: c[k_] for k_ in ("k", "N", "script", "skipN", "probes", "screening", "end")})
    # ---- model side
    shard = 400
    texts = []
    for a in range(0, len(cases), shard):
        lits = []
        for c in cases[a:a + shard]:
            skip = "None" if c["skip"] is None else f"(Some {c['skip']})"
            lits.append(f"({c['k']}%nat, {c['end']}, {skip}, {coq_list([str(x) for x in c['script']], per_line=20)})")
        tl = []
        for c, o in zip(cases[a:a + shard], outs[a:a + shard]):
            dts = [] if o["error"] else [int(round(x / UNIT)) for x in o["dyn_dt"]]
            tl.append(f"({c['k']}%nat, {coq_list([str(x) for x in dts], per_line=30)})")
        texts.append(HEADER + f"Definition cases := {coq_list(lits, per_line=1)}.\n"
                     "Eval vm_compute in map run_case cases.\n"
                     f"Definition tcases : list (nat * list Z) := {coq_list(tl, per_line=1)}.\n"
                     "Eval vm_compute in map times_case tcases.\n")
    mouts = common.run_model_shards("c05_cases", texts, jobs=8)
    ndis = 0
    for si, (rc, out) in enumerate(mouts):
        if rc != 0:
            rep.not_shown("correspondence: model evaluation failed", {"shard": si, "log": out[-1500:]})
            continue
        res = common.parse_nested(common.eval_block(out, 0))[0]
        tres = common.parse_nested(common.eval_block(out, 1))[0]
        for j, (mr, mt) in enumerate(zip(res, tres)):
            c, o = cases[si * shard + j], outs[si * shard + j]
            if o["error"]:
                ndis += 1
                rep.not_shown("correspondence: implementation raised where the model finishes",
                              {"k": c["k"], "N": c["N"], "error": o["error"]})
                continue
            mframes = mr[1:]
            impl = []
            for f in o["frames"]:
                row = [f["step"], int(round(f["time"] / UNIT)), int(round(f["dt"] / UNIT)), int(f["vals"])]
                if f["buf_dt"] is None:
                    row.append(-1)
                else:
                    b = [int(round(x / UNIT)) for x in f["buf_dt"]]
                    while b and b[-1] == 0:
                        b.pop()                      # zero padding of the fixed-size buffer (reader masks dt > 0)
                    row.append(len(b))
                    row += b
                impl.append(row)
            model = []
            for mf in mframes:
                n = mf[4]
                row = mf[:5] + ([] if n < 0 else mf[5:5 + 2 * n:2])
                model.append(row)
            if mr[0] != [0] or model != impl:
                ndis += 1
                if ndis <= 10:
                    rep.not_shown("correspondence: frames written by Runner/DataHandler differ from Model.Runner.run",
                                  {"k": c["k"], "N": c["N"], "script": c["script"], "skipN": c["skipN"],
                                   "model": model[-2:], "impl": impl[-2:]})
            if [int(x) for x in mt] != [int(round(x / UNIT)) for x in o["sol_times"]]:
                ndis += 1
                if ndis <= 10:
                    rep.not_shown("correspondence: Solution.times differs from Model.Runner.solution_times",
                                  {"k": c["k"], "N": c["N"], "model": mt, "impl": o["sol_times"]})
    real_runs(rep, rng, tier)
    rep.coverage.update({"histories": len(cases), "histories_failing_oracle": nbad, "exhaustive": True,
                         "bound": f"k in 1..N+2, N in 0..{12 if tier == 'quick' else 24}, 4 step scripts, thermalisation on/off, "
                                  "stop exactly at / inside the last step, probe and screening columns on a third of the cases",
                         "correspondence_disagreements": ndis})
    rep.assumptions += ["scripted update function (tagged arrays) stands for the solver in the exhaustive stream; a second stream "
                        "uses the real solver", "HDF5 (h5py) stores what is written (measured by reading back)"]
    return rep.finish(level="proof", trusted_base=common.STD_TRUSTED,
                      rule="one history = (k, N, step script, thermalisation, stop position, columns), enumerated exhaustively in the "
                           "stated bound; non-trivial = distinct (N%k==0, k==1, k>N, thermalised, probes, screening, script length, N==0)")
